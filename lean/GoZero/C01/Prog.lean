/-
C01 — operational meaning of the typed effect programs the extractor derives from /repo on every run
(`Extracted.C01.progDoReq`, `progAllow`, `progRestHandler` : `List Tok`).

The interpreter below runs a token list against an environment (what `accept()` decides, whether a fallback was
given, what the request does, which status the next handler wrote) with a *defer stack*: deferred bodies run,
last in first out, when the function returns, when it falls off its end AND when the request unwinds (panic with
any value / `runtime.Goexit`).  `Tie.lean` proves that running the extracted programs yields exactly the model's
decision tables (`doReqEvents`, `allowEvents`, `siteEvents .rest`) for ALL inputs: the order of
accept / markDrop / fallback / defer / request / mark / return is derived from the source, not written by hand.
A statement the interpreter has no meaning for at that position makes the run `stuck` (= `none`), so any edit of
these functions that is not provably equivalent breaks the Tie.
-/
import GoZero.Extracted.C01
import GoZero.C01.Sites
namespace GoZero.C01.Prog
open GoZero.C01
open GoZero.Extracted.C01

/-- what a program runs against -/
structure Env where
  verdict : Verdict          -- what `b.accept()` / `brk.Allow()` decides
  hasFallback : Bool         -- `fallback != nil`
  custom : Bool              -- which `acceptable` was handed in (false = defaultAcceptable)
  outcome : Outcome          -- what `req()` does (`.panic` = it unwinds)
  nextUnwinds : Bool         -- rest: `next.ServeHTTP` unwinds
  acceptIfSeen : Bool        -- rest: value of the deferred condition on the status code the next handler wrote
  acceptMarks : List Mark := []   -- what `accept()` ITSELF records (`marksIn progAccept`; the real code: nothing)
  throttled : Bool := false       -- accept(): `dropRatio > 0`
  forced : Bool := false          -- accept(): `lastPass > 0 && timex.Since(lastPass) > forcePassDuration`
  drawLess : Bool := false        -- accept(): what `TrueOnProba(dropRatio)` answers
  deriving DecidableEq

/-- value of the variable `err` -/
inductive Val | nil | unavailable | req
  deriving DecidableEq

inductive PEv | ranReq | ranFallback | mark (m : Mark) | wrote503
  deriving DecidableEq

inductive Ending
  | returned (vals : List String)
  | returnedFallback
  | unwinding
  deriving DecidableEq

structure St where
  evs : List PEv := []
  err : Val := .nil
  succ : Bool := false
  acceptVar : Bool := false          -- the local `accept` of loggedThrottle.doReq's closure
  cwWraps : Bool := false            -- `cw` is the code-recording wrapper of `w`
  cwSeesNext : Bool := false         -- `next` was served with `cw`: `cw.Code` is what the handler wrote
  lastPassSets : Nat := 0            -- accept(): how often `b.lastPass.Set(timex.Now())` ran
  draws : Nat := 0                   -- accept(): how many draws `TrueOnProba` consumed
  defers : List (List Tok) := []
  ending : Option Ending := none
  stuck : Bool := false

/-- rest of the tokens after the block that starts here is closed (`depth` = blocks opened inside it) -/
def skipBlock : Nat → List Tok → List Tok
  | _, [] => []
  | d, .ifB _ :: r => skipBlock (d + 1) r
  | d, .deferB :: r => skipBlock (d + 1) r
  | 0, .endB :: r => r
  | d + 1, .endB :: r => skipBlock d r
  | d, _ :: r => skipBlock d r

/-- skip a then-block whose condition is false: up to and including its `else {` (the else block is then
executed) or its closing brace -/
def skipThen : Nat → List Tok → List Tok
  | _, [] => []
  | d, .ifB _ :: r => skipThen (d + 1) r
  | d, .deferB :: r => skipThen (d + 1) r
  | 0, .endB :: r => r
  | 0, .elseB :: r => r
  | d + 1, .endB :: r => skipThen d r
  | d, _ :: r => skipThen d r

/-- the tokens of the block that starts here (without its closing brace) -/
def takeBlock : Nat → List Tok → List Tok
  | _, [] => []
  | d, .ifB c :: r => .ifB c :: takeBlock (d + 1) r
  | d, .deferB :: r => .deferB :: takeBlock (d + 1) r
  | 0, .endB :: _ => []
  | d + 1, .endB :: r => .endB :: takeBlock d r
  | d, t :: r => t :: takeBlock d r

def St.stick (s : St) : St := { s with stuck := true }
def St.emit (s : St) (e : PEv) : St := { s with evs := s.evs ++ [e] }

/-- calls that have no effect on the breaker's accounting (metrics, logging) -/
def effectFree (f : String) : Bool :=
  f = "metrics.AddDrop" || f = "logc.Errorf" || f = "lt.errWin.add" || f = "p.errWin.add" || f = "stat.Report"

/-- is the value of `err` a non-nil error (`.req`: the request's own result, nil iff it returned nil) -/
def errNonNil (env : Env) (s : St) : Bool :=
  match s.err with
  | .nil => false
  | .unavailable => true
  | .req => env.outcome.ret ≠ .nil

/-- the mark a call records, if it is one of the markers (or the window's `Add` behind them) -/
def markOfCall (f : String) (args : List String) : Option Mark :=
  if f = "b.markDrop" then some .drop
  else if f = "b.markFailure" then some .fail
  else if f = "b.markSuccess" then some .succ
  else if f = "b.stat.Add" then some (if args = ["drop"] then .drop else if args = ["success"] then .succ else .fail)
  else none

/-- every mark a function body can record, on any of its paths, in source order.  For `accept()` this must be
empty: the decision itself records nothing — the drop of a rejection is recorded by the caller (`doReq`, `allow`),
exactly once.  (A `markDrop` inside `accept()` on top of the caller's one counts every rejection twice.) -/
def marksIn (prog : List Tok) : List Mark :=
  prog.filterMap fun | .call _ f args => markOfCall f args | _ => none

/-- meaning of `[lhs :=] f(args)` -/
def callSem (env : Env) (s : St) (lhs : List String) (f : String) (args : List String) : St :=
  if f = "b.accept" then
    -- the admission decision; its error lands in `err`
    if lhs = ["err"] ∧ args = [] then
      { env.acceptMarks.foldl (fun s m => s.emit (.mark m)) s with err := if env.verdict = .reject then .unavailable else .nil }
    else s.stick
  else if f = "acceptable" then
    -- the predicate handed in, applied to the request's result
    if lhs = ["accept"] ∧ args = ["err"] ∧ s.err = .req then { s with acceptVar := acceptable env.custom env.outcome }
    else s.stick
  else if f = "p.promise.Accept" ∧ lhs = [] ∧ args = [] then s.emit (.mark .succ)
  else if f = "p.promise.Reject" ∧ lhs = [] ∧ args = [] then s.emit (.mark .fail)
  else if f = "brk.Allow" ∨ f = "lt.internalThrottle.allow" then
    -- the public entry point: `allow()` behind it has already recorded what `allowEvents` says (a drop when rejected;
    -- `progAllow` is tied to `allowEvents` by `tie_progAllow`)
    if lhs = ["promise", "err"] ∧ args = [] then
      { (env.acceptMarks ++ marksOf (allowEvents env.verdict)).foldl (fun s m => s.emit (.mark m)) s with
        err := if env.verdict = .reject then .unavailable else .nil }
    else s.stick
  else if f = "b.markDrop" ∧ lhs = [] then s.emit (.mark .drop)
  else if (f = "b.markSuccess" ∨ f = "promise.Accept") ∧ lhs = [] then s.emit (.mark .succ)
  else if (f = "b.markFailure" ∨ f = "promise.Reject") ∧ lhs = [] then s.emit (.mark .fail)
  else if f = "req" then
    if lhs = ["err"] ∧ args = [] then
      if env.outcome = .panic then { s.emit .ranReq with ending := some .unwinding }
      else { s.emit .ranReq with err := .req }
    else s.stick
  else if f = "response.NewWithCodeResponseWriter" then
    if lhs = ["cw"] ∧ args = ["w"] then { s with cwWraps := true } else s.stick
  else if f = "next.ServeHTTP" then
    let s1 := { s.emit .ranReq with cwSeesNext := s.cwWraps && args.head? = some "cw" }
    if env.nextUnwinds then { s1 with ending := some .unwinding } else s1
  else if f = "w.WriteHeader" then
    if args = ["http.StatusServiceUnavailable"] then s.emit .wrote503 else s.stick
  else if (f = "b.history" ∧ lhs = ["history"] ∧ args = []) ∨ (f = "b.lastPass.Load" ∧ lhs = ["lastPass"] ∧ args = []) then s
  else if f = "b.lastPass.Set" then
    if lhs = [] ∧ args = ["timex.Now()"] then { s with lastPassSets := s.lastPassSets + 1 } else s.stick
  else if effectFree f ∧ lhs = [] then s
  else s.stick

/-- meaning of a condition; `none` = the interpreter does not know it -/
def condSem (env : Env) (s : St) (c : String) : Option Bool :=
  if c = "err != nil" then some (errNonNil env s)
  else if c = "!accept && err != nil" then some (!s.acceptVar && errNonNil env s)
  else if c = "errors.Is(err, ErrServiceUnavailable)" then
    some (s.err = .unavailable || (s.err = .req && (env.outcome = .brk || env.outcome = .wbrk)))
  else if c = "fallback != nil" then some env.hasFallback
  else if c = "succ" then some s.succ
  else if c = "acceptable(err)" then (if s.err = .req then some (acceptable env.custom env.outcome) else none)
  else if c = "cw.Code < http.StatusInternalServerError" then
    -- the recorded code is the handler's iff `next` was served with the wrapper; otherwise it still is the 200 the
    -- wrapper starts with (the comparison itself is the extracted `restAcceptCond`)
    some (if s.cwSeesNext then env.acceptIfSeen else restAcceptCond 200 500)
  else if c = "dropRatio <= 0" then some (!env.throttled)
  else if c = "lastPass > 0 && timex.Since(lastPass) > forcePassDuration" then some env.forced
  else if c = "b.proba.TrueOnProba(dropRatio)" then some env.drawLess
  else none

/-- the float-valued locals of `accept()`: assigning them has no effect of its own (their arithmetic is tied
separately, `tie_dropRatio0/1`) -/
def floatLocal (x : String) : Bool := x = "w" || x = "weightedAccepts" || x = "dropRatio"

/-- run the tokens until a return / an unwinding request / the end of the list (structural in `fuel`) -/
def exec (env : Env) : Nat → List Tok → St → St
  | 0, _, s => s.stick
  | _, [], s => s
  | n + 1, t :: r, s =>
    if s.stuck ∨ s.ending.isSome then s else
    match t with
    | .call lhs f args => exec env n r (callSem env s lhs f args)
    | .set lhs rhs =>
      if lhs = "succ" ∧ rhs = "true" then exec env n r { s with succ := true }
      else if floatLocal lhs then exec env n r s else s.stick
    | .var name ty =>
      if name = "succ" ∧ ty = "bool" then exec env n r { s with succ := false }
      else if floatLocal name ∧ ty = "float64" then exec env n r s else s.stick
    | .ifB c =>
      -- evaluating `TrueOnProba` consumes a draw
      let s := if c = "b.proba.TrueOnProba(dropRatio)" then { s with draws := s.draws + 1 } else s
      match condSem env s c with
      | some true => exec env n r s
      | some false => exec env n (skipThen 0 r) s
      | none => s.stick
    | .elseB => exec env n (skipBlock 0 r) s       -- end of an executed then-block: jump over the else block
    | .endB => exec env n r s
    | .deferB => exec env n (skipBlock 0 r) { s with defers := takeBlock 0 r :: s.defers }
    | .ret vals => { s with ending := some (.returned vals) }
    | .retCall f args =>
      if f = "fallback" ∧ args = ["err"] ∧ s.err = .unavailable then
        { s.emit .ranFallback with ending := some .returnedFallback }
      else s.stick

/-- a deferred body runs to its end whatever ended the function; it must not return or unwind itself -/
def runDefer (env : Env) (s : St) (body : List Tok) : St :=
  let s' := exec env (body.length + 1) body { s with ending := none, defers := [] }
  if s'.ending.isSome ∨ ¬ s'.defers.isEmpty then s'.stick else { s' with ending := s.ending }

/-- the whole function: body, then the deferred bodies last-in-first-out (`defers` is kept newest first) -/
def run (env : Env) (prog : List Tok) (s0 : St := {}) : St :=
  let s := exec env (prog.length + 1) prog s0
  s.defers.foldl (runDefer env) { s with defers := [] }

/-! ### reading the result as the model's event lists -/

def evOf : PEv → Option Ev
  | .ranReq => some .ranReq
  | .ranFallback => some .ranFallback
  | .mark m => some (.mark m)
  | .wrote503 => none

/-- `doReq(req, fallback, acceptable) error` -/
def runDoReq (acc prog : List Tok) (v : Verdict) (e : Entry) (o : Outcome) : Option (List Ev) :=
  let env : Env := { verdict := v, hasFallback := e.hasFallback, custom := e.custom, outcome := o,
                     nextUnwinds := false, acceptIfSeen := false, acceptMarks := marksIn acc }
  let s := run env prog
  if s.stuck ∨ s.evs.contains .wrote503 then none else
  match s.ending with
  | some (.returned ["err"]) =>
    some (s.evs.filterMap evOf ++ [.returned (match s.err with | .nil => .nil | .unavailable => .unavailable | .req => o.ret)])
  | some .returnedFallback => some (s.evs.filterMap evOf ++ [.returned .fallbackResult])
  | some .unwinding => some (s.evs.filterMap evOf ++ [.repanicked])
  | _ => none

/-- `allow() (internalPromise, error)`: `return nil, err` / `return <promise>, nil` -/
def runAllow (acc prog : List Tok) (v : Verdict) : Option (List Ev) :=
  let env : Env := { verdict := v, hasFallback := false, custom := false, outcome := .ok,
                     nextUnwinds := false, acceptIfSeen := false, acceptMarks := marksIn acc }
  let s := run env prog
  if s.stuck then none else
  match s.ending with
  | some (.returned [p, e]) =>
    if p = "nil" ∧ e = "err" ∧ s.err = .unavailable then some (s.evs.filterMap evOf ++ [.returned .unavailable])
    else if p ≠ "nil" ∧ e = "nil" ∧ s.err = .nil then some (s.evs.filterMap evOf ++ [.returned .nil])
    else none
  | _ => none

/-- `accept() error`: the verdict, how often `lastPass` was set, how many draws were consumed -/
def runAccept (prog : List Tok) (throttled forced drawLess : Bool) : Option (Verdict × Nat × Nat) :=
  let env : Env := { verdict := .pass, hasFallback := false, custom := false, outcome := .ok, nextUnwinds := false,
                     acceptIfSeen := false, throttled := throttled, forced := forced, drawLess := drawLess }
  let s := run env prog
  if s.stuck ∨ ¬ s.evs.isEmpty then none else
  match s.ending with
  | some (.returned ["nil"]) => some (.pass, s.lastPassSets, s.draws)
  | some (.returned ["ErrServiceUnavailable"]) => some (.reject, s.lastPassSets, s.draws)
  | _ => none

/-- the closure `loggedThrottle.doReq` hands to the inner `doReq` in place of `acceptable`: called with the request's
result, it must answer what `acceptable` answers (its logging has no effect on the accounting) -/
def runClosure (prog : List Tok) (custom : Bool) (o : Outcome) : Option Bool :=
  let env : Env := { verdict := .pass, hasFallback := false, custom := custom, outcome := o, nextUnwinds := false,
                     acceptIfSeen := false }
  let s := run env prog { err := .req }
  if s.stuck ∨ ¬ s.evs.isEmpty then none else
  match s.ending with
  | some (.returned ["accept"]) => some s.acceptVar
  | _ => none

/-- `logError(err) error`: what it returns for an argument `errv` (nothing may be recorded) -/
def runLogError (prog : List Tok) (errv : Val) (o : Outcome) : Option Val :=
  let env : Env := { verdict := .pass, hasFallback := false, custom := false, outcome := o, nextUnwinds := false,
                     acceptIfSeen := false }
  let s := run env prog { err := errv }
  if s.stuck ∨ ¬ s.evs.isEmpty then none else
  match s.ending with
  | some (.returned ["err"]) => some s.err
  | _ => none

/-- the marks a (return-less) wrapper body records and the values it returns, on a given verdict -/
def runWrapper (acc prog : List Tok) (v : Verdict) : Option (List Mark × List String) :=
  let env : Env := { verdict := v, hasFallback := false, custom := false, outcome := .ok, nextUnwinds := false,
                     acceptIfSeen := false, acceptMarks := marksIn acc }
  let s := run env prog
  if s.stuck then none else
  let ms := s.evs.filterMap fun | .mark m => some m | _ => none
  match s.ending with
  | none => some (ms, [])
  | some (.returned vals) => some (ms, vals)
  | _ => none

def sevOf : PEv → Option SEv
  | .ranReq => some .ranReq
  | .mark m => some (.mark m)
  | _ => none

/-- the handler closure of `BreakerHandler`: no result; the caller sees the 503 or whatever `next` wrote -/
def runRest (acc prog : List Tok) (v : Verdict) (nextUnwinds acceptIfSeen : Bool) : Option (List SEv) :=
  let env : Env := { verdict := v, hasFallback := false, custom := false, outcome := .ok,
                     nextUnwinds := nextUnwinds, acceptIfSeen := acceptIfSeen, acceptMarks := marksIn acc }
  let s := run env prog
  if s.stuck ∨ s.evs.contains .ranFallback then none else
  let out : SiteRet := if s.evs.contains .wrote503 then .http503 else .same
  match s.ending with
  | none => some (s.evs.filterMap sevOf ++ [.returned out])
  | some (.returned []) => some (s.evs.filterMap sevOf ++ [.returned out])
  | some .unwinding => some (s.evs.filterMap sevOf ++ [.repanicked])
  | _ => none

end GoZero.C01.Prog
