/-
C01 — Tie: what the extractor read from core/breaker/*.go, core/collection/rollingwindow.go and
core/mathx/proba.go *now* equals what the model was written against.
-/
import GoZero.Extracted.C01
import GoZero.C01.Model
import GoZero.C01.Sites
import GoZero.C01.Prog
namespace GoZero.C01.Tie
open GoZero.C01
open GoZero.Extracted.C01

theorem extraction_clean : extractionErrors = [] := by decide

/-! ### constants, with the property's literal numbers -/

theorem tie_window : window = 10000000000 ∧ (windowNs : Int) = window := by decide
theorem tie_buckets : buckets = 40 ∧ (nBuckets : Int) = buckets := by decide
theorem tie_bucketDuration : (intervalNs : Int) = Int.tdiv window buckets ∧ intervalNs = 250000000 := by decide
theorem tie_forcePass : forcePassDuration = 1000000000 ∧ (forcePassNs : Int) = forcePassDuration := by decide
theorem tie_k : k = 3 / 2 ∧ kMax = k := ⟨rfl, rfl⟩
theorem tie_minK : minK = 11 / 10 ∧ kMin = minK := ⟨rfl, rfl⟩
theorem tie_protection : protection = 5 ∧ (GoZero.C01.protection : Int) = protection := by decide
theorem tie_codes : codeSuccess = Mark.succ.code ∧ codeFail = Mark.fail.code ∧ codeDrop = Mark.drop.code := by decide

/-- `bucketDuration := time.Duration(int64(window) / int64(buckets))`, `NewRollingWindow(…, buckets, bucketDuration)`,
field `k: k`. -/
theorem tie_newGoogleBreaker :
    newGoogleBreakerStmts.take 2 =
      ["bucketDuration := time.Duration(int64(window) / int64(buckets))",
       "st := collection.NewRollingWindow[int64, *bucket](func() *bucket { return new(bucket) }, buckets, bucketDuration)"]
    ∧ newGoogleBreakerFields = ["stat: st", "k: k", "proba: mathx.NewProba()", "lastPass: syncx.NewAtomicDuration()"] := by
  decide

/-! ### the arithmetic of `accept()`, translated statement by statement -/

/-- the Go expression for `dropRatio` (first assignment), composed from the translated statements -/
def goDropRatio0 (accepts total fb wb : Int) : Rat :=
  let w := accept_w_1 k 0 0 0 accepts total fb wb
  let wa := accept_weightedAccepts_1 k w 0 0 accepts total fb wb
  accept_dropRatio_1 k w wa 0 accepts total fb wb

def goDropRatio1 (accepts total fb wb : Int) : Rat :=
  accept_dropRatio_2 k 0 0 (goDropRatio0 accepts total fb wb) accepts total fb wb

theorem tie_dropRatio0 (h : WinRes) :
    dropRatio0 h = goDropRatio0 h.accepts h.total h.failingBuckets h.workingBuckets := rfl

theorem tie_dropRatio1 (h : WinRes) :
    dropRatio1 h = goDropRatio1 h.accepts h.total h.failingBuckets h.workingBuckets := rfl

/-- comparison directions and order of the three tests of `accept()`; `TrueOnProba` is `Float64() < proba`. -/
theorem tie_acceptConds :
    acceptConds = ["dropRatio <= 0", "lastPass > 0 && timex.Since(lastPass) > forcePassDuration",
                   "b.proba.TrueOnProba(dropRatio)"]
    ∧ trueOnProbaStmts = ["truth = p.r.Float64() < proba", "return"] := by decide

/-- skeleton of `accept()` that `acceptPath` / `Path.setsLastPass` were written against: free pass returns
before `lastPass` is read; both throttled admissions store `timex.Now()` into `lastPass`; the drop returns
without touching it. -/
theorem tie_acceptShape : acceptShape =
    ["call b.history", "call mathx.AtLeast", "if dropRatio <= 0 {", "return", "}",
     "call b.lastPass.Load", "if lastPass > 0 && timex.Since(lastPass) > forcePassDuration {",
     "call timex.Now", "call b.lastPass.Set", "return", "}",
     "if b.proba.TrueOnProba(dropRatio) {", "return", "}",
     "call timex.Now", "call b.lastPass.Set", "return"] := by decide

/-! ### the history reducer -/

/-- last value assigned to `key` by an effect list, else the old value -/
def eff (l : List (String × Int)) (key : String) (old : Int) : Int :=
  match l.reverse.find? (·.1 = key) with
  | some p => p.2
  | none => old

theorem tie_historyStep (r : WinRes) (b : Bucket) :
    let l := historyStep r.accepts b.succ r.total b.sum b.fail r.failingBuckets r.workingBuckets
    eff l "result.accepts" r.accepts = (reduceStep r b).accepts ∧
    eff l "result.total" r.total = (reduceStep r b).total ∧
    eff l "result.failingBuckets" r.failingBuckets = (reduceStep r b).failingBuckets ∧
    eff l "result.workingBuckets" r.workingBuckets = (reduceStep r b).workingBuckets := by
  simp only [historyStep, reduceStep]
  by_cases hf : b.fail = 0 <;> by_cases hs : b.succ = 0
  all_goals
    simp [hf, hs, eff, Nat.pos_of_ne_zero]

/-! ### bucket.go -/

theorem tie_bucketAdd : bucketAddShape =
    ["switch v {", "case fail:", "call b.fail", "case drop:", "call b.drop", "default:", "call b.succeed", "}"]
    ∧ bucketFailShape = ["store b.Sum", "store b.Failure"]
    ∧ bucketDropShape = ["store b.Sum", "store b.Drop"]
    ∧ bucketSucceedShape = ["store b.Sum", "store b.Success"]
    ∧ bucketResetShape = ["store b.Sum", "store b.Success", "store b.Failure", "store b.Drop"] := by decide

theorem tie_marks :
    markDropCalls = ["b.stat.Add(drop)"] ∧ markFailureCalls = ["b.stat.Add(fail)"]
    ∧ markSuccessCalls = ["b.stat.Add(success)"]
    ∧ promiseAcceptCalls = ["p.b.markSuccess()"] ∧ promiseRejectCalls = ["p.b.markFailure()"] := by decide

/-! ### entry points -/

/-- `doReq`: reject → markDrop, then fallback(err) if present; admit → deferred mark (success iff `succ`),
`req()` once, `succ` set only if `acceptable(err)`. This is the table `doReqEvents`. -/
theorem tie_doReqShape : doReqShape =
    ["call b.accept", "if err != nil {", "call b.markDrop", "if fallback != nil {", "call fallback", "return", "}",
     "return", "}",
     "defer{", "func{", "if succ {", "call b.markSuccess", "}", "else{", "call b.markFailure", "}", "}", "call func", "}",
     "call req", "if acceptable(err) {", "}", "return"] := by decide

theorem tie_allowShape : allowShape =
    ["call b.accept", "if err != nil {", "call b.markDrop", "return", "}", "return"] := by decide

/-- which fallback / acceptability predicate each public entry point hands to `doReq` (`Entry`). -/
theorem tie_entryPoints :
    callsDo = ["cb.throttle.doReq(req, nil, defaultAcceptable)"]
    ∧ callsDoWithAcceptable = ["cb.throttle.doReq(req, nil, acceptable)"]
    ∧ callsDoWithFallback = ["cb.throttle.doReq(req, fallback, defaultAcceptable)"]
    ∧ callsDoWithFallbackAcceptable = ["cb.throttle.doReq(req, fallback, acceptable)"]
    ∧ callsAllow = ["cb.throttle.allow()"]
    ∧ defaultAcceptableStmts = ["return err == nil"] := by decide

def ctxShape (inner : String) : List String :=
  ["select{", "case recv ctx.Done(); call ctx.Done:", "call ctx.Err", "return", "default:", "call " ++ inner, "return", "}"]

/-- every `…Ctx` variant: done context → `ctx.Err()` without reaching the breaker; else the plain variant. -/
theorem tie_ctxVariants :
    shapeDoCtx = ctxShape "cb.Do" ∧ shapeDoWithAcceptableCtx = ctxShape "cb.DoWithAcceptable"
    ∧ shapeDoWithFallbackCtx = ctxShape "cb.DoWithFallback"
    ∧ shapeDoWithFallbackAcceptableCtx = ctxShape "cb.DoWithFallbackAcceptable"
    ∧ shapeAllowCtx = ctxShape "cb.Allow" := by decide

/-- the logging wrappers call the inner throttle / promise exactly once and hand the error back unchanged. -/
theorem tie_wrappers :
    loggedAllowShape = ["call lt.internalThrottle.allow", "call lt.logError", "return"]
    ∧ loggedDoReqShape = ["func{", "call acceptable", "if !accept && err != nil {", "call err.Error", "call lt.errWin.add", "}",
                          "return", "}", "call lt.internalThrottle.doReq", "call lt.logError", "return"]
    ∧ logErrorStmts = ["if errors.Is(err, ErrServiceUnavailable)", "return err"]
    ∧ promiseWithReasonAcceptShape = ["call p.promise.Accept"]
    ∧ promiseWithReasonRejectShape = ["call p.errWin.add", "call p.promise.Reject"]
    ∧ newBreakerStmts.drop 2 = ["b.throttle = newLoggedThrottle(b.name, newGoogleBreaker())", "return &b"] := by decide

/-! ### rolling window -/

/-- Go's `span()` (truncating division on `time.Duration`) is the model's `RW.span` while the clock is monotone. -/
theorem tie_rwSpan (w : RW) (now : Nat) (hm : w.lastTime ≤ now) :
    rwSpan w.lastTime now w.interval w.size = (w.span now : Nat) := by
  unfold rwSpan RW.span since
  have h : ((now : Int) - (w.lastTime : Int)) = ((now - w.lastTime : Nat) : Int) := by omega
  simp only [h]
  rw [Int.tdiv_eq_ediv_of_nonneg (by omega)]
  have e : ((now - w.lastTime : Nat) : Int) / (w.interval : Int) = (((now - w.lastTime) / w.interval : Nat) : Int) := by
    norm_cast
  rw [e]
  generalize (now - w.lastTime) / w.interval = o
  by_cases ho : o < w.size
  · have : (o : Int) < (w.size : Int) := by omega
    simp [ho, this]
  · have : ¬ (o : Int) < (w.size : Int) := by omega
    simp [ho, this]

/-- the two stores at the end of `updateOffset` -/
theorem tie_rwUpdateOffsetTail (w : RW) (now : Nat) (hm : w.lastTime ≤ now) :
    rwUpdateOffsetTail w.offset (w.span now) w.size now w.lastTime w.interval =
      [("offset", (((w.updateOffset' now).offset : Nat) : Int)), ("lastTime", (((w.updateOffset' now).lastTime : Nat) : Int))] := by
  unfold rwUpdateOffsetTail RW.updateOffset' clockNow
  have h : ((now : Int) - (w.lastTime : Int)) = ((now - w.lastTime : Nat) : Int) := by omega
  simp only [h]
  rw [Int.tmod_eq_emod_of_nonneg (by omega), Int.tmod_eq_emod_of_nonneg (by omega)]
  have hle : (now - w.lastTime) % w.interval ≤ now := Nat.le_trans (Nat.mod_le _ _) (Nat.sub_le _ _)
  have e1 : ((w.offset : Int) + (w.span now : Int)) % (w.size : Int) = (((w.offset + w.span now) % w.size : Nat) : Int) := by
    norm_cast
  have e2 : ((now - w.lastTime : Nat) : Int) % (w.interval : Int) = (((now - w.lastTime) % w.interval : Nat) : Int) := by
    norm_cast
  rw [e1, e2]
  have e3 : (now : Int) - (((now - w.lastTime) % w.interval : Nat) : Int) = ((now - (now - w.lastTime) % w.interval : Nat) : Int) := by
    omega
  rw [e3]

theorem tie_rwUpdateOffset :
    rwUpdateOffsetStmts = ["span := rw.span()", "if span <= 0", "return", "offset := rw.offset",
      "for i := 0; i < span; i++", "i := 0", "i++", "rw.offset = (offset + span) % rw.size", "now := timex.Now()",
      "rw.lastTime = now - (now-rw.lastTime)%rw.interval"]
    ∧ rwUpdateOffsetCalls = ["rw.span()", "rw.win.resetBucket((offset + i + 1) % rw.size)", "timex.Now()"]
    ∧ winResetCalls = ["w.buckets[offset%w.size].Reset()"] := by decide

/-- `Reduce`: `diff = size - span` buckets starting at `(offset + span + 1) % size`, visited in index order. -/
theorem tie_rwReduce :
    rwReduceStmts = ["span := rw.span()", "if span == 0 && rw.ignoreCurrent", "diff = rw.size - 1", "diff = rw.size - span",
      "if diff > 0", "offset := (rw.offset + span + 1) % rw.size"]
    ∧ rwReduceCalls = ["rw.lock.RLock()", "rw.lock.RUnlock()", "rw.span()", "rw.win.reduce(offset, diff, fn)"]
    ∧ winReduceStmts = ["for i := 0; i < count; i++", "i := 0", "i++"]
    ∧ winReduceCalls = ["fn(w.buckets[(start+i)%w.size])"] := by decide

/-- `Add`: under the write lock, `updateOffset()` then `win.add(rw.offset, v)`. -/
theorem tie_rwAdd :
    rwAddCalls = ["rw.lock.Lock()", "rw.lock.Unlock()", "rw.updateOffset()", "rw.win.add(rw.offset, v)"]
    ∧ winAddCalls = ["w.buckets[offset%w.size].Add(v)"]
    ∧ rwAddShape = ["call rw.lock.Lock", "defer{", "call rw.lock.Unlock", "}", "call rw.updateOffset", "call rw.win.add"] := by
  decide

/-- a fresh window starts at `timex.Now()` with offset 0 -/
theorem tie_newRollingWindow : newRollingWindowStmts =
    ["if size < 1",
     "w := &RollingWindow[T, B]{ size: size, win: newWindow[T, B](newBucket, size), interval: interval, lastTime: timex.Now(), }",
     "return w"] := by decide

/-! ### call sites -/

/-- rest: `Allow`; rejected → drop metric, `WriteHeader`, return without calling `next`; admitted → the deferred
function resolves the promise exactly once, Accept iff `cw.Code < http.StatusInternalServerError`, and `next` runs
after the defer is installed (so the promise is resolved on a panic as well). `Site.pred .rest`, `siteEvents .rest`. -/
theorem tie_restBreakerHandler : restBreakerHandlerShape =
    ["call breaker.WithName", "call breaker.NewBreaker", "func{", "func{", "call brk.Allow", "if err != nil {",
     "call metrics.AddDrop", "call r.Context", "call httpx.GetRemoteAddr", "call r.UserAgent", "call logc.Errorf",
     "call w.WriteHeader", "return", "}",
     "call response.NewWithCodeResponseWriter",
     "defer{", "func{", "if cw.Code < http.StatusInternalServerError {", "call promise.Accept", "}",
     "else{", "call http.StatusText", "call promise.Reject", "}", "}", "call func", "}",
     "call next.ServeHTTP", "}", "call http.HandlerFunc", "return", "}", "return"] := rfl

/-- zrpc/internal/codes/accept.go: the six unacceptable codes (`codeAcceptable`; their numbers 4, 13, 14, 15, 12, 8
are exercised one by one through the real function by the harness). -/
theorem tie_codesAcceptable : codesAcceptableSwitch =
    ["switch status.Code(err)",
     "case codes.DeadlineExceeded, codes.Internal, codes.Unavailable, codes.DataLoss, codes.Unimplemented, codes.ResourceExhausted: return false",
     "default: return true"] := rfl

/-- zrpc client: one breaker per `target/method`, `DoWithAcceptableCtx` with `codes.Acceptable`, the invoker's error is
handed back as is. -/
theorem tie_zrpcClient : zrpcClientStmts =
    ["breakerName := path.Join(cc.Target(), method)",
     "return breaker.DoWithAcceptableCtx(ctx, breakerName, func() error { return invoker(ctx, method, req, reply, cc, opts...) }, codes.Acceptable)",
     "return invoker(ctx, method, req, reply, cc, opts...)"] := rfl

/-- zrpc server: breaker per `info.FullMethod`; unary uses the Ctx variant, stream the plain one; both hand
`serverSideAcceptable` over and pass the result through `convertError`. -/
theorem tie_zrpcServer :
    zrpcServerUnaryStmts =
      ["breakerName := info.FullMethod",
       "err = breaker.DoWithAcceptableCtx(ctx, breakerName, func() error { var err error resp, err = handler(ctx, req) return err }, serverSideAcceptable)",
       "resp, err = handler(ctx, req)", "return err", "return resp, convertError(err)"]
    ∧ zrpcServerStreamStmts =
      ["breakerName := info.FullMethod",
       "err := breaker.DoWithAcceptable(breakerName, func() error { return handler(svr, stream) }, serverSideAcceptable)",
       "return handler(svr, stream)", "return convertError(err)"]
    ∧ serverSideAcceptableStmts =
      ["if errorx.In(err, context.DeadlineExceeded, breaker.ErrServiceUnavailable)", "return false", "return codes.Acceptable(err)"]
    ∧ convertErrorStmts =
      ["if err == nil", "return nil", "if errors.Is(err, breaker.ErrServiceUnavailable)",
       "return status.Error(gcodes.Unavailable, err.Error())", "return err"] := ⟨rfl, rfl, rfl, rfl⟩

/-- redis: `blpop` goes around the breaker, everything else (and every pipeline) through `DoWithAcceptableCtx` with
`acceptable` = nil | redis.Nil | context.Canceled. -/
theorem tie_redisHook :
    redisProcessHookShape = ["func{", "call cmd.Name", "if ok {", "call next", "return", "}", "func{", "call next", "return", "}",
                             "call h.brk.DoWithAcceptableCtx", "return", "}", "return"]
    ∧ redisPipelineHookShape = ["func{", "func{", "call next", "return", "}", "call h.brk.DoWithAcceptableCtx", "return", "}", "return"]
    ∧ redisProcessHookBreaker = ["h.brk.DoWithAcceptableCtx(…, acceptable)"]
    ∧ redisPipelineHookBreaker = ["h.brk.DoWithAcceptableCtx(…, acceptable)"]
    ∧ redisIgnoreCmds = ["\"blpop\""]
    ∧ redisAcceptableStmts = ["return err == nil || errorx.In(err, red.Nil, context.Canceled)"] := ⟨rfl, rfl, rfl, rfl, rfl, rfl⟩

/-- sqlx: `db.acceptable` (`sqlAcceptable`) and which predicate each wrapped operation hands to the breaker
(`queryRows`: `scanFailed || db.acceptable(err)`, with `isScanFailed` = non-nil and not DeadlineExceeded). -/
theorem tie_sqlx :
    sqlxAcceptableStmts =
      ["if err == nil || errorx.In(err, sql.ErrNoRows, sql.ErrTxDone, context.Canceled)", "return true",
       "if errors.As(err, &e)", "return true", "if db.accept == nil", "return false", "return db.accept(err)"]
    ∧ sqlxExecCtxBreaker = ["db.brk.DoWithAcceptableCtx(…, db.acceptable)"]
    ∧ sqlxPrepareCtxBreaker = ["db.brk.DoWithAcceptableCtx(…, db.acceptable)"]
    ∧ sqlxTransactCtxBreaker = ["db.brk.DoWithAcceptableCtx(…, db.acceptable)"]
    ∧ sqlxQueryRowsBreaker = ["db.brk.DoWithAcceptableCtx(…, func(err error) bool { return scanFailed || db.acceptable(err) })"]
    ∧ sqlxIsScanFailedStmts = ["return err != nil && !errors.Is(err, context.DeadlineExceeded)"] := ⟨rfl, rfl, rfl, rfl, rfl, rfl⟩

/-! ### semantic tie: the predicates and decisions of the call sites, translated to Lean functions

The extractor turns every Go predicate over an error into a function of `isNil`, `is` (errors.Is / errorx.In),
`as` (errors.As), `call` (another predicate applied to the same error), `nilv` (`x == nil` of a field), `bv` (a bool
variable) and `code` (`status.Code(err) == C`).  Instantiated with the model's meaning of the error classes they are
equal to the model's predicates for ALL errors. -/

def noS : String → Bool := fun _ => false

/-- orm.go `isScanFailed` -/
theorem tie_predIsScanFailed (e : ErrClass) :
    predIsScanFailed (e = .none) e.is e.as noS noS noS noS = isScanFailed e := by
  cases e <;> simp [predIsScanFailed, isScanFailed, ErrClass.is]

/-- the scanner wrappers of `commonSqlConn.queryRows` and `statement.queryRows`: `scanFailed` (declared `var scanFailed
bool`, i.e. false) becomes true iff `isScanFailed` holds of what the scanner returned, and is assigned nowhere else -/
theorem tie_scanFailedAssignment (prev : Bool) (e : ErrClass) :
    assignQueryRowsScanFailed (e = .none) e.is e.as (fun n => n = "isScanFailed" && isScanFailed e) noS
        (fun n => n = "scanFailed" && prev) noS = scanFailedAfter prev e
    ∧ assignStmtQueryRowsScanFailed (e = .none) e.is e.as (fun n => n = "isScanFailed" && isScanFailed e) noS
        (fun n => n = "scanFailed" && prev) noS = scanFailedAfter prev e
    ∧ sqlxQueryRowsVars = ["var scanFailed bool"] ∧ sqlxStmtQueryRowsVars = ["var scanFailed bool"] := by
  refine ⟨?_, ?_, rfl, rfl⟩ <;>
    simp [assignQueryRowsScanFailed, assignStmtQueryRowsScanFailed, scanFailedAfter]

/-- `commonSqlConn.acceptable`, for every value of the field `accept` -/
theorem tie_predDbAcceptable (acc : Option (ErrClass → Bool)) (e : ErrClass) :
    predDbAcceptable (e = .none) e.is e.as (fun n => n = "db.accept" && (match acc with | some f => f e | none => false))
        (fun n => n = "db.accept" && acc.isNone) noS noS = dbAcceptable acc e := by
  cases acc <;> cases e <;> simp [predDbAcceptable, dbAcceptable, optEval, ErrClass.is, ErrClass.as]

/-- the predicates the sqlx operations hand to the breaker: `queryRows` (connection and statement):
`scanFailed || <db.acceptable>`; `statement.ExecCtx`: `s.accept(err)`; and `PrepareCtx` builds the statement with the
connection's own breaker and `db.acceptable` -/
theorem tie_sqlxPreds (q : SiteReq) :
    predQueryRows (q.err = .none) q.err.is q.err.as (fun n => n = "db.acceptable" && sqlAcceptable q) noS
        (fun n => n = "scanFailed" && scanFailedVar q) noS = Site.sqlxQuery.pred q
    ∧ predStmtQueryRows (q.err = .none) q.err.is q.err.as (fun n => n = "s.accept" && sqlAcceptable q) noS
        (fun n => n = "scanFailed" && scanFailedVar q) noS = Site.sqlxQuery.pred q
    ∧ predStmtExec (q.err = .none) q.err.is q.err.as (fun n => n = "s.accept" && sqlAcceptable q) noS noS noS = Site.sqlx.pred q
    ∧ sqlxPrepareStatementFields = ["query: query", "stmt: st", "brk: db.brk", "accept: db.acceptable"]
    ∧ sqlxStmtExecBreaker = ["s.brk.DoWithAcceptableCtx(…, func(err error) bool { return s.accept(err) })"]
    ∧ sqlxStmtQueryRowsBreaker = ["s.brk.DoWithAcceptableCtx(…, func(err error) bool { return scanFailed || s.accept(err) })"] := by
  refine ⟨?_, ?_, ?_, rfl, rfl, rfl⟩ <;> simp [predQueryRows, predStmtQueryRows, predStmtExec, Site.pred]

/-- `WithAcceptable`: first option stored as is, later ones chained as `pre(err) || acceptable(err)` over the
connection's previous predicate (`withAcceptable`) -/
theorem tie_withAcceptable (pre p : ErrClass → Bool) (e : ErrClass) :
    (match withAcceptable (some pre) p with
      | some f => f e | none => false) =
      predWithAcceptableChain (e = .none) e.is e.as (fun n => if n = "pre" then pre e else n = "acceptable" && p e) noS noS noS
    ∧ (match withAcceptable none p with | some f => f e | none => false) = p e
    ∧ sqlxWithAcceptableStmts.drop 1 = ["if conn.accept == nil", "conn.accept = acceptable", "pre := conn.accept",
        "conn.accept = func(err error) bool { return pre(err) || acceptable(err) }", "return pre(err) || acceptable(err)"] := by
  refine ⟨?_, rfl, rfl⟩
  simp [withAcceptable, predWithAcceptableChain]

/-- redis `acceptable` -/
theorem tie_predRedisAcceptable (e : ErrClass) :
    predRedisAcceptable (e = .none) e.is e.as noS noS noS noS = Site.redisProcess.pred { err := e }
    ∧ Site.redisPipeline.pred { err := e } = Site.redisProcess.pred { err := e } := by
  refine ⟨?_, rfl⟩
  cases e <;> simp [predRedisAcceptable, Site.pred, ErrClass.is]

/-- zrpc/internal/codes `Acceptable`: for every code number -/
theorem tie_predCodesAcceptable (c : Nat) :
    predCodesAcceptable false noS noS noS noS noS (fun n => codeOfName n = some c) = codeAcceptable c := by
  simp only [predCodesAcceptable, codeAcceptable, codeOfName, cDeadlineExceeded, cInternal, cUnavailable, cDataLoss,
    cUnimplemented, cResourceExhausted]
  simp
  by_cases h4 : c = 4 <;> by_cases h13 : c = 13 <;> by_cases h14 : c = 14 <;> by_cases h15 : c = 15 <;>
    by_cases h12 : c = 12 <;> by_cases h8 : c = 8 <;> simp_all <;> omega

/-- `serverSideAcceptable` -/
theorem tie_predServerSideAcceptable (e : ErrClass) :
    predServerSideAcceptable (e = .none) e.is e.as (fun n => n = "codes.Acceptable" && codeAcceptable e.grpcCode) noS noS noS
      = Site.zrpcServerUnary.pred { err := e }
    ∧ Site.zrpcServerStream.pred { err := e } = Site.zrpcServerUnary.pred { err := e } := by
  refine ⟨?_, rfl⟩
  cases e <;> simp [predServerSideAcceptable, Site.pred, ErrClass.is]

/-- `defaultAcceptable` -/
theorem tie_predDefaultAcceptable (o : Outcome) :
    predDefaultAcceptable (o = .ok) noS noS noS noS noS noS = acceptable false o := by
  cases o <;> simp [predDefaultAcceptable, acceptable]

/-- rest: Accept iff `cw.Code < http.StatusInternalServerError` (= 500, pinned by the harness with 499 / 500) -/
theorem tie_restAcceptCond (code : Nat) :
    restAcceptCond code 500 = Site.rest.pred { code := code } := by
  simp [restAcceptCond, Site.pred]
  constructor <;> intro h <;> omega

/-- the three decisions of `accept()` and the comparison of `TrueOnProba`, as translated, compose to `acceptPath`
(comparison operators, constants and the order of the tests), for all values -/
theorem tie_acceptPath (lastPass now : Nat) (dr0 dr1 u : Rat) :
    acceptPath lastPass now (decide (0 < dr0)) (decide (u < dr1)) =
      if acceptCondFree dr0 then .free
      else if acceptCondForced lastPass (since lastPass now) then .forced
      else if trueOnProbaCond u dr1 then .drawnDrop else .drawnPass := by
  unfold acceptPath acceptCondFree acceptCondForced trueOnProbaCond since forcePassDuration forcePassNs
  by_cases h0 : 0 < dr0
  · have h0' : ¬ dr0 ≤ 0 := Rat.not_le.mpr h0
    by_cases hf : lastPass > 0 ∧ now - lastPass > 1000000000
    · have : (lastPass : Int) > 0 ∧ (now : Int) - (lastPass : Int) > 1000000000 := by omega
      simp [h0, h0', hf, this]
    · have : ¬ ((lastPass : Int) > 0 ∧ (now : Int) - (lastPass : Int) > 1000000000) := by omega
      by_cases hu : u < dr1 <;> simp [h0, h0', hf, hu] <;> omega
  · have h0' : dr0 ≤ 0 := Rat.not_lt.mp h0
    simp [h0, h0']

/-- `updateOffset` returns early iff `span <= 0` (`RW.updateOffset`: iff the model's span is 0) -/
theorem tie_rwUpdateOffsetSkip (w : RW) (now : Nat) :
    rwUpdateOffsetSkip (w.span now) = decide (w.span now = 0) := by
  simp [rwUpdateOffsetSkip]

/-- breakers.go: `GetBreaker` looks the name up, creates `NewBreaker(WithName(name))` only when absent and stores it
under that very name (`Registry.get`); every package-level `Do*` forwards to the method of the same name of
`GetBreaker(name)` with its arguments unchanged (`Registry.with`). -/
theorem tie_breakers :
    getBreakerStmts = ["b, ok := breakers[name]", "if ok", "return b", "b, ok = breakers[name]", "if !ok",
                       "b = NewBreaker(WithName(name))", "breakers[name] = b", "return b"]
    ∧ getBreakerShape = ["call lock.RLock", "call lock.RUnlock", "if ok {", "return", "}", "call lock.Lock", "if !ok {",
                         "call WithName", "call NewBreaker", "mapset breakers", "}", "call lock.Unlock", "return"]
    ∧ breakersLookupStmts = ["return execute(GetBreaker(name))"]
    ∧ breakersDoStmts.getLast? = some "return b.Do(req)"
    ∧ breakersDoCtxStmts.getLast? = some "return b.DoCtx(ctx, req)"
    ∧ breakersDoWithAcceptableStmts.getLast? = some "return b.DoWithAcceptable(req, acceptable)"
    ∧ breakersDoWithAcceptableCtxStmts.getLast? = some "return b.DoWithAcceptableCtx(ctx, req, acceptable)"
    ∧ breakersDoWithFallbackStmts.getLast? = some "return b.DoWithFallback(req, fallback)"
    ∧ breakersDoWithFallbackCtxStmts.getLast? = some "return b.DoWithFallbackCtx(ctx, req, fallback)"
    ∧ breakersDoWithFallbackAcceptableStmts.getLast? = some "return b.DoWithFallbackAcceptable(req, fallback, acceptable)"
    ∧ breakersDoWithFallbackAcceptableCtxStmts.getLast? = some "return b.DoWithFallbackAcceptableCtx(ctx, req, fallback, acceptable)"
    ∧ (breakersDoStmts ++ breakersDoCtxStmts ++ breakersDoWithAcceptableStmts ++ breakersDoWithAcceptableCtxStmts
        ++ breakersDoWithFallbackStmts ++ breakersDoWithFallbackCtxStmts ++ breakersDoWithFallbackAcceptableStmts
        ++ breakersDoWithFallbackAcceptableCtxStmts).length = 16 := ⟨rfl, rfl, rfl, rfl, rfl, rfl, rfl, rfl, rfl, rfl, rfl, rfl⟩

/-! ### bucket.go, semantically -/

/-- the four counters of a model bucket as the Go fields (Sum, Success, Failure, Drop) -/
def fieldsOf (b : Bucket) : Int × Int × Int × Int := ((b.sum : Int), (b.succ : Int), (b.fail : Int), (b.drop : Int))

/-- **`bucket.Add(v)` for every bucket and EVERY code `v`** (not only the three iota codes: anything else counts as
a success, as in the `default:` clause): the translated switch and field updates of bucket.go equal `Bucket.addCode`. -/
theorem tie_bucketAddSem (b : Bucket) (v : Int) :
    bucketAddSem v b.sum b.succ b.fail b.drop = fieldsOf (b.addCode v) := by
  unfold bucketAddSem bucketFailSem bucketDropSem bucketSucceedSem codeFail codeDrop Bucket.addCode fieldsOf
  by_cases h1 : v = 1
  · simp [h1]
  · by_cases h2 : v = 2
    · simp [h2]
    · simp [h1, h2]

/-- the three markers: `Bucket.add m` is `bucket.Add` of the mark's iota code -/
theorem tie_bucketMarks (b : Bucket) (m : Mark) :
    bucketAddSem m.code b.sum b.succ b.fail b.drop = fieldsOf (b.add m) := tie_bucketAddSem b m.code

/-- `bucket.Reset()` zeroes all four counters whatever they held (`resetFrom` stores the empty bucket) -/
theorem tie_bucketResetSem (s a f d : Int) : bucketResetSem s a f d = fieldsOf {} := by
  simp [bucketResetSem, fieldsOf]

/-! ### typed effect programs: the ORDER of effects, derived from the source and run by `Prog.run`

`progDoReq`, `progAllow`, `progRestHandler` are regenerated from /repo on every run as typed token lists (calls with
targets and arguments, assignments, `if`/`else`/`defer` blocks, returns).  `Prog.run` executes them with a defer stack
(deferred bodies run on return, at the end of the body and when the request unwinds).  The theorems say that the
extracted program computes the model's decision table for ALL inputs — so a marker moved out of the `defer`, a
`markDrop` after the fallback, a request started before `accept()`, a named result evaluated by the deferred marker,
`next` served with the unwrapped writer … all break the Tie (and, independently, the harness monitors them). -/

/-- `googleBreaker.doReq`, every verdict x entry point x outcome of the request: the extracted program yields
`doReqEvents` (rejected: markDrop, then the fallback with the rejection error, else the error itself; admitted: the
deferred marker is installed BEFORE the request runs, the request runs once, `succ` is set iff `acceptable(err)`,
the marker fires on return and on unwinding alike, the request's error is returned). -/
theorem tie_progDoReq (v : Verdict) (e : Entry) (o : Outcome) :
    Prog.runDoReq progAccept progDoReq v e o = some (doReqEvents v e o) := by
  rcases e with ⟨hf, cu⟩
  cases v <;> cases hf <;> cases cu <;> cases o <;> decide

/-- the path through `accept()` from the three decisions as Booleans -/
def pathOfBools (throttled forced drawLess : Bool) : Path :=
  if !throttled then .free else if forced then .forced else if drawLess then .drawnDrop else .drawnPass

theorem acceptPath_eq_pathOfBools (lastPass now : Nat) (throttled drawLess : Bool) :
    acceptPath lastPass now throttled drawLess
      = pathOfBools throttled (decide (lastPass > 0 ∧ now - lastPass > forcePassNs)) drawLess := by
  unfold acceptPath pathOfBools
  cases throttled <;> cases drawLess <;> by_cases h : lastPass > 0 ∧ now - lastPass > forcePassNs <;> simp [h]

/-- **`accept()` as extracted, for every value of its three decisions**: the verdict, WHERE `lastPass` is set (exactly
once on the forced probe and on the drawn admission, never on a free pass and never on a rejection) and whether a draw
is consumed (exactly on the two drawn paths) are those of the model's `Path` — the order of the tests included. -/
theorem tie_progAccept (throttled forced drawLess : Bool) :
    Prog.runAccept progAccept throttled forced drawLess
      = some ((pathOfBools throttled forced drawLess).verdict,
              (if (pathOfBools throttled forced drawLess).setsLastPass then 1 else 0),
              (if (pathOfBools throttled forced drawLess).draws then 1 else 0)) := by
  cases throttled <;> cases forced <;> cases drawLess <;> decide

/-- `accept()` itself records nothing, on any path: no marker call occurs in its body -/
theorem tie_acceptRecordsNothing : Prog.marksIn progAccept = [] := by decide

/-- `googleBreaker.allow`: rejected → markDrop and `(nil, err)`; admitted → a promise, nothing recorded yet. -/
theorem tie_progAllow (v : Verdict) : Prog.runAllow progAccept progAllow v = some (allowEvents v) := by
  cases v <;> decide

/-- the decision table of the rest handler over (verdict, does `next` unwind, value of the deferred condition) -/
def restTable (v : Verdict) (unwinds accept : Bool) : List SEv :=
  match v with
  | .reject => [.mark .drop, .returned .http503]
  | .pass => [.ranReq, .mark (if accept then .succ else .fail), if unwinds then .repanicked else .returned .same]

theorem tie_progRestHandler_table (v : Verdict) (unwinds accept : Bool) :
    Prog.runRest progAccept progRestHandler v unwinds accept = some (restTable v unwinds accept) := by
  cases v <;> cases unwinds <;> cases accept <;> decide

/-- **`BreakerHandler`'s handler closure, every verdict and every request**: running the extracted program with the
extracted comparison `cw.Code < http.StatusInternalServerError` applied to the code the next handler wrote yields
`siteEvents .rest`: rejected → 503 written, `next` not served; admitted → the deferred resolver is installed before
`next` is served WITH THE WRAPPER, and resolves the promise exactly once — on return and on unwinding. -/
theorem tie_progRestHandler (v : Verdict) (q : SiteReq) :
    Prog.runRest progAccept progRestHandler v q.panics (restAcceptCond q.code 500) = some (siteEvents .rest v q) := by
  rw [tie_progRestHandler_table]
  have hc : restAcceptCond q.code 500 = Site.rest.pred q := by
    rw [tie_restAcceptCond]; simp [Site.pred]
  rw [hc]
  cases v <;> simp [restTable, siteEvents, Site.rejectRet]

/-! ### which predicate reaches `doReq` from every call site (typed forwards, followed in Lean)

Every `Do*` method of `circuitBreaker`, every package-level `Do*` of breakers.go and the breaker call of every site are
extracted as typed forwards (`Fwd`: parameter names, method called, argument list).  `reachCb` / `reachPkg` follow a
call down to `doReq(req, fallback, acceptable)` substituting actual arguments for parameters, so the predicate that
REACHES the window accounting is computed from the source — an entry point that drops it (`DoCtx` instead of
`DoWithAcceptableCtx`), forwards the wrong parameter, or a Ctx variant that forwards to the wrong plain variant
changes the result. -/

def substArg (params actuals : List String) (a : String) : String :=
  match (params.zip actuals).find? (fun p => p.1 = a) with
  | some p => p.2
  | none => a

def cbTable (m : String) : Option Fwd :=
  if m = "Do" then some fwdCbDo else if m = "DoCtx" then some fwdCbDoCtx
  else if m = "DoWithAcceptable" then some fwdCbDoWithAcceptable
  else if m = "DoWithAcceptableCtx" then some fwdCbDoWithAcceptableCtx
  else if m = "DoWithFallback" then some fwdCbDoWithFallback
  else if m = "DoWithFallbackCtx" then some fwdCbDoWithFallbackCtx
  else if m = "DoWithFallbackAcceptable" then some fwdCbDoWithFallbackAcceptable
  else if m = "DoWithFallbackAcceptableCtx" then some fwdCbDoWithFallbackAcceptableCtx
  else none

def pkgTable (m : String) : Option Fwd :=
  if m = "Do" then some fwdPkgDo else if m = "DoCtx" then some fwdPkgDoCtx
  else if m = "DoWithAcceptable" then some fwdPkgDoWithAcceptable
  else if m = "DoWithAcceptableCtx" then some fwdPkgDoWithAcceptableCtx
  else if m = "DoWithFallback" then some fwdPkgDoWithFallback
  else if m = "DoWithFallbackCtx" then some fwdPkgDoWithFallbackCtx
  else if m = "DoWithFallbackAcceptable" then some fwdPkgDoWithFallbackAcceptable
  else if m = "DoWithFallbackAcceptableCtx" then some fwdPkgDoWithFallbackAcceptableCtx
  else none

/-- follow a method of `circuitBreaker` down to `doReq`: its actual `(req, fallback, acceptable)` -/
def reachCb : Nat → String → List String → Option (List String)
  | 0, _, _ => none
  | n + 1, m, actuals =>
    if m = "doReq" then some actuals else
    match cbTable m with
    | none => none
    | some f =>
      if f.params.length ≠ actuals.length then none
      else reachCb n f.method (f.args.map (substArg f.params actuals))

/-- a package-level `breaker.Do*(…, name, …)`: one hop to the method of the named breaker, then `reachCb` -/
def reachPkg (m : String) (actuals : List String) : Option (List String) :=
  match pkgTable m with
  | none => none
  | some f =>
    if f.params.length ≠ actuals.length then none
    else reachCb 4 f.method (f.args.map (substArg f.params actuals))

/-- **all sixteen entry points** (8 methods, 8 package-level functions; placeholders R = request, F = fallback,
A = predicate, N = name): the request always arrives as the request; the fallback / predicate arrive iff the entry point
has such a parameter, else `nil` / `defaultAcceptable` -/
theorem tie_entryReach :
    reachCb 4 "Do" ["R"] = some ["R", "nil", "defaultAcceptable"]
    ∧ reachCb 4 "DoCtx" ["ctx", "R"] = some ["R", "nil", "defaultAcceptable"]
    ∧ reachCb 4 "DoWithAcceptable" ["R", "A"] = some ["R", "nil", "A"]
    ∧ reachCb 4 "DoWithAcceptableCtx" ["ctx", "R", "A"] = some ["R", "nil", "A"]
    ∧ reachCb 4 "DoWithFallback" ["R", "F"] = some ["R", "F", "defaultAcceptable"]
    ∧ reachCb 4 "DoWithFallbackCtx" ["ctx", "R", "F"] = some ["R", "F", "defaultAcceptable"]
    ∧ reachCb 4 "DoWithFallbackAcceptable" ["R", "F", "A"] = some ["R", "F", "A"]
    ∧ reachCb 4 "DoWithFallbackAcceptableCtx" ["ctx", "R", "F", "A"] = some ["R", "F", "A"]
    ∧ reachPkg "Do" ["N", "R"] = some ["R", "nil", "defaultAcceptable"]
    ∧ reachPkg "DoCtx" ["ctx", "N", "R"] = some ["R", "nil", "defaultAcceptable"]
    ∧ reachPkg "DoWithAcceptable" ["N", "R", "A"] = some ["R", "nil", "A"]
    ∧ reachPkg "DoWithAcceptableCtx" ["ctx", "N", "R", "A"] = some ["R", "nil", "A"]
    ∧ reachPkg "DoWithFallback" ["N", "R", "F"] = some ["R", "F", "defaultAcceptable"]
    ∧ reachPkg "DoWithFallbackCtx" ["ctx", "N", "R", "F"] = some ["R", "F", "defaultAcceptable"]
    ∧ reachPkg "DoWithFallbackAcceptable" ["N", "R", "F", "A"] = some ["R", "F", "A"]
    ∧ reachPkg "DoWithFallbackAcceptableCtx" ["ctx", "N", "R", "F", "A"] = some ["R", "F", "A"] := by decide

/-- **every call site**: the wrapped request closure reaches `doReq` as the request, no fallback, and the predicate
is the site's own: redis `acceptable` (single commands AND pipelines), `codes.Acceptable` at the zrpc client,
`serverSideAcceptable` at both zrpc server interceptors, `db.acceptable` at sqlx Exec / Prepare / Transact, the closure
(`scanFailed || db.acceptable(err)` resp. `s.accept(err)`, tied by `tie_sqlxPreds`) at the sqlx query / statement sites -/
theorem tie_siteReach :
    reachCb 4 siteCallRedisProcess.method siteCallRedisProcess.args = some ["<closure>", "nil", "acceptable"]
    ∧ reachCb 4 siteCallRedisPipeline.method siteCallRedisPipeline.args = some ["<closure>", "nil", "acceptable"]
    ∧ reachPkg siteCallZrpcClient.method siteCallZrpcClient.args = some ["<closure>", "nil", "codes.Acceptable"]
    ∧ reachPkg siteCallZrpcServerUnary.method siteCallZrpcServerUnary.args = some ["<closure>", "nil", "serverSideAcceptable"]
    ∧ reachPkg siteCallZrpcServerStream.method siteCallZrpcServerStream.args = some ["<closure>", "nil", "serverSideAcceptable"]
    ∧ reachCb 4 siteCallSqlExec.method siteCallSqlExec.args = some ["<closure>", "nil", "db.acceptable"]
    ∧ reachCb 4 siteCallSqlPrepare.method siteCallSqlPrepare.args = some ["<closure>", "nil", "db.acceptable"]
    ∧ reachCb 4 siteCallSqlTransact.method siteCallSqlTransact.args = some ["<closure>", "nil", "db.acceptable"]
    ∧ reachCb 4 siteCallSqlQueryRows.method siteCallSqlQueryRows.args = some ["<closure>", "nil", "<closure>"]
    ∧ reachCb 4 siteCallStmtExec.method siteCallStmtExec.args = some ["<closure>", "nil", "<closure>"]
    ∧ reachCb 4 siteCallStmtQueryRows.method siteCallStmtQueryRows.args = some ["<closure>", "nil", "<closure>"] := by decide

/-- the named predicates of the sites, as translated from their sources, over the error classes -/
def predByName (n : String) : Option (ErrClass → Bool) :=
  if n = "acceptable" then some fun e => predRedisAcceptable (e = .none) e.is e.as noS noS noS noS
  else if n = "defaultAcceptable" then some fun e => predDefaultAcceptable (e = .none) noS noS noS noS noS noS
  else if n = "codes.Acceptable" then
    some fun e => predCodesAcceptable false noS noS noS noS noS (fun c => codeOfName c = some e.grpcCode)
  else if n = "serverSideAcceptable" then
    some fun e => predServerSideAcceptable (e = .none) e.is e.as (fun c => c = "codes.Acceptable" && codeAcceptable e.grpcCode) noS noS noS
  else none

/-- what a site records for an error of class `e`: follow the site's call to `doReq`, take the predicate that arrives,
evaluate its translation -/
def sitePredVia (reach : Option (List String)) (e : ErrClass) : Option Bool :=
  match reach with
  | some [_, fb, p] => if fb = "nil" then (predByName p).map (· e) else none
  | _ => none

/-- **redis hooks, zrpc client, zrpc server — call site → entry point → `doReq` → predicate, for every error class**:
the predicate that reaches the accounting, evaluated as translated from its source, is `Site.pred`.  (With `DoCtx` in
the pipeline hook `defaultAcceptable` arrives and the statement fails at `redis.Nil` / `context.Canceled`.) -/
theorem tie_sitePredReaches (e : ErrClass) :
    sitePredVia (reachCb 4 siteCallRedisProcess.method siteCallRedisProcess.args) e = some (Site.redisProcess.pred { err := e })
    ∧ sitePredVia (reachCb 4 siteCallRedisPipeline.method siteCallRedisPipeline.args) e = some (Site.redisPipeline.pred { err := e })
    ∧ sitePredVia (reachPkg siteCallZrpcClient.method siteCallZrpcClient.args) e = some (Site.zrpcClient.pred { err := e })
    ∧ sitePredVia (reachPkg siteCallZrpcServerUnary.method siteCallZrpcServerUnary.args) e = some (Site.zrpcServerUnary.pred { err := e })
    ∧ sitePredVia (reachPkg siteCallZrpcServerStream.method siteCallZrpcServerStream.args) e = some (Site.zrpcServerStream.pred { err := e }) := by
  obtain ⟨h1, h2, h3, h4, h5, _⟩ := tie_siteReach
  rw [h1, h2, h3, h4, h5]
  have hr := tie_predRedisAcceptable e
  have hs := tie_predServerSideAcceptable e
  have hc := tie_predCodesAcceptable e.grpcCode
  refine ⟨?_, ?_, ?_, ?_, ?_⟩
  · simp only [sitePredVia, predByName]; simp [hr.1]
  · simp only [sitePredVia, predByName]; simp [hr.1, hr.2]
  · simp only [sitePredVia, predByName]; simp [hc, Site.pred]
  · simp only [sitePredVia, predByName]; simp [hs.1]
  · simp only [sitePredVia, predByName]; simp [hs.1, hs.2]

/-! ### meta-properties of the interpreter (`Prog.run`): what remains trusted is the token translation

The interpreter is hand-written; these theorems are about it for ALL programs / states, not about one program. -/

section ProgMeta
open GoZero.C01.Prog

theorem emit_defers (s : St) (e : PEv) : (s.emit e).defers = s.defers := rfl
theorem stick_defers (s : St) : s.stick.defers = s.defers := rfl

theorem foldl_emit_defers (ms : List Mark) (s : St) :
    (ms.foldl (fun s m => s.emit (.mark m)) s).defers = s.defers := by
  induction ms generalizing s with
  | nil => rfl
  | cons m ms ih => simp only [List.foldl_cons]; rw [ih]; rfl

theorem callSem_defers (env : Env) (s : St) (lhs : List String) (f : String) (args : List String) :
    (callSem env s lhs f args).defers = s.defers := by
  unfold callSem
  simp only [apply_ite St.defers]
  simp [emit_defers, stick_defers, foldl_emit_defers]

/-- `exec` never drops, reorders or duplicates a registered deferred body: it only pushes new ones on top -/
theorem exec_defers_suffix (env : Env) (n : Nat) (toks : List Tok) (s : St) :
    ∃ l, (exec env n toks s).defers = l ++ s.defers := by
  induction n generalizing toks s with
  | zero => exact ⟨[], by simp [exec, St.stick]⟩
  | succ n ih =>
    cases toks with
    | nil => exact ⟨[], by simp [exec]⟩
    | cons t r =>
      unfold exec
      split
      · exact ⟨[], by simp⟩
      · cases t with
        | call lhs f args =>
          obtain ⟨l, hl⟩ := ih r (callSem env s lhs f args)
          exact ⟨l, by simp only [hl, callSem_defers]⟩
        | set lhs rhs =>
          simp only
          split
          · obtain ⟨l, hl⟩ := ih r { s with succ := true }; exact ⟨l, hl⟩
          · split
            · exact ih r s
            · exact ⟨[], by simp [St.stick]⟩
        | var name ty =>
          simp only
          split
          · obtain ⟨l, hl⟩ := ih r { s with succ := false }; exact ⟨l, hl⟩
          · split
            · exact ih r s
            · exact ⟨[], by simp [St.stick]⟩
        | ifB c =>
          simp only
          split
          · obtain ⟨l, hl⟩ := ih r (if c = "b.proba.TrueOnProba(dropRatio)" then { s with draws := s.draws + 1 } else s)
            refine ⟨l, ?_⟩; rw [hl]; split <;> rfl
          · obtain ⟨l, hl⟩ := ih (skipThen 0 r) (if c = "b.proba.TrueOnProba(dropRatio)" then { s with draws := s.draws + 1 } else s)
            refine ⟨l, ?_⟩; rw [hl]; split <;> rfl
          · refine ⟨[], ?_⟩; simp only [St.stick, List.nil_append]; split <;> rfl
        | elseB => exact ih (skipBlock 0 r) s
        | deferB =>
          obtain ⟨l, hl⟩ := ih (skipBlock 0 r) { s with defers := takeBlock 0 r :: s.defers }
          exact ⟨l ++ [takeBlock 0 r], by simp [hl]⟩
        | endB => exact ih r s
        | ret vals => exact ⟨[], by simp⟩
        | retCall f args =>
          simp only
          split
          · exact ⟨[], by simp [St.emit]⟩
          · exact ⟨[], by simp [St.stick]⟩

/-- **a deferred marker runs exactly once and leaves the way the function ended untouched — whatever that way is**:
a plain return, falling off the end, or unwinding (the one ending that stands for a panic with any value and for
`runtime.Goexit`) -/
theorem runDefer_marker (env : Env) (s : St) (en : Option Ending) (f : String) (m : Mark)
    (hs : s.stuck = false)
    (hf : (f = "b.markFailure" ∧ m = .fail) ∨ (f = "b.markSuccess" ∧ m = .succ) ∨ (f = "b.markDrop" ∧ m = .drop)) :
    runDefer env { s with ending := en } [.call [] f []]
      = { s with evs := s.evs ++ [.mark m], ending := en, defers := [] } := by
  rcases hf with ⟨rfl, rfl⟩ | ⟨rfl, rfl⟩ | ⟨rfl, rfl⟩ <;>
    simp [runDefer, exec, callSem, St.emit, hs]

/-- the function as a whole: the body runs, then EVERY deferred body still registered runs exactly once (one visit per
list element), newest first; together with `exec_defers_suffix` (a registered body is never dropped or duplicated while
the body runs) and `runDefer_marker`: a deferred marker fires exactly once on return, at the end of the body and on
unwinding. -/
theorem run_unfold (env : Prog.Env) (prog : List Tok) (s0 : Prog.St) :
    Prog.run env prog s0
      = (Prog.exec env (prog.length + 1) prog s0).defers.foldl (Prog.runDefer env)
          { Prog.exec env (prog.length + 1) prog s0 with defers := [] } := rfl

end ProgMeta

/-! ### loggedThrottle and promiseWithReason: transparent wrappers, semantically -/

/-- **`loggedThrottle.doReq` is `logError ∘ googleBreaker.doReq`** with `req` and `fallback` forwarded unchanged and a
closure in the predicate's place that answers exactly what `acceptable` answers for every request result (its only
extra is a line in the error window); and `logError` returns its argument unchanged — the breaker's own rejection, the
request's own `ErrServiceUnavailable` (bare or wrapped), any other error, nil — and records nothing.  So
`doReqEvents` IS the behaviour through the wrapper (`Outcome.brk/wbrk`: the request's own error comes back by identity,
the fallback is not run by the logging layer). -/
theorem tie_loggedDoReq :
    loggedDoReqOuter = "lt.logError" ∧ loggedDoReqInner = "lt.internalThrottle.doReq"
    ∧ loggedDoReqArgs = ["req", "fallback", "<closure>"]
    ∧ (∀ (custom : Bool) (o : Outcome), Prog.runClosure loggedDoReqClosure custom o = some (acceptable custom o))
    ∧ (∀ (errv : Prog.Val) (o : Outcome), Prog.runLogError progLogError errv o = some errv) := by
  refine ⟨rfl, rfl, rfl, ?_, ?_⟩
  · intro custom o; cases custom <;> cases o <;> decide
  · intro errv o; cases errv <;> cases o <;> decide

/-- `loggedThrottle.allow`: the inner `allow()` once (its drop on a rejection, nothing else), the promise wrapped, the
error through `logError` (identity, above) -/
theorem tie_loggedAllow (v : Verdict) :
    Prog.runWrapper progAccept progLoggedAllow v
      = some (marksOf (allowEvents v), ["promiseWithReason{ promise: promise, errWin: lt.errWin, }", "lt.logError(err)"]) := by
  cases v <;> decide

/-- `promiseWithReason.Accept / Reject`: exactly one resolution of the inner promise each (Accept → success,
Reject → failure; the reason only goes to the error window) -/
theorem tie_promiseWithReason :
    Prog.runWrapper progAccept progPromiseAccept .pass = some ([.succ], [])
    ∧ Prog.runWrapper progAccept progPromiseReject .pass = some ([.fail], []) := by decide

/-- **every rejection is recorded exactly once, at every entry point, by the code as extracted**: running the
extracted `accept` + `doReq` (all four `Do*` entry points, every request outcome), `accept` + `allow` (`Allow`), and
`accept` + `allow` + the rest handler on a rejecting verdict records exactly one drop — not zero (a caller that
forgets `markDrop`) and not two (`accept()` marking on its own as well as its caller). -/
theorem tie_rejection_recorded_once (e : Entry) (o : Outcome) (unwinds accept : Bool) :
    (Prog.runDoReq progAccept progDoReq .reject e o).map marksOf = some [.drop]
    ∧ (Prog.runAllow progAccept progAllow .reject).map marksOf = some [.drop]
    ∧ (Prog.runRest progAccept progRestHandler .reject unwinds accept).map smarksOf = some [.drop] := by
  rw [tie_progDoReq, tie_progAllow, tie_progRestHandler_table]
  rcases e with ⟨hf, cu⟩
  cases hf <;> simp [doReqEvents, allowEvents, restTable, marksOf, smarksOf]

/-- and an admission records nothing before the request / the promise is resolved: exactly one success-or-failure
mark per admitted `Do*` call, none for an admitted `Allow` -/
theorem tie_admission_recorded_once (e : Entry) (o : Outcome) :
    (Prog.runDoReq progAccept progDoReq .pass e o).map (fun evs => (marksOf evs).length) = some 1
    ∧ (Prog.runAllow progAccept progAllow .pass).map marksOf = some [] := by
  rw [tie_progDoReq, tie_progAllow]
  rcases e with ⟨hf, cu⟩
  cases o <;> simp [doReqEvents, allowEvents, marksOf]

end GoZero.C01.Tie
