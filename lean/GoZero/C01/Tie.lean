import GoZero.Extracted.C01
import GoZero.C01.Model
namespace GoZero.C01.Tie
open GoZero.Extracted.C01

theorem extraction_clean : extractionErrors = [] := by decide

end GoZero.C01.Tie
