/-
C08 — helper lemmas for the property theorems.
-/
import GoZero.C08.Spec
namespace GoZero.C08
open Spec

/-! ### decimals -/

theorem Dec.scaleL_swap (a b : Dec) : Dec.scaleL a b = Dec.scaleR b a := by
  unfold Dec.scaleL Dec.scaleR; rw [Int.min_comm]

theorem Dec.scaleR_swap (a b : Dec) : Dec.scaleR a b = Dec.scaleL b a := by
  unfold Dec.scaleL Dec.scaleR; rw [Int.min_comm]

theorem Dec.le_of_lt_false {a b : Dec} (h : Dec.lt a b = false) : Dec.le b a = true := by
  unfold Dec.lt at h; unfold Dec.le
  rw [Dec.scaleL_swap b a, Dec.scaleR_swap b a]
  simp at h ⊢; omega

theorem Dec.lt_of_le_false {a b : Dec} (h : Dec.le a b = false) : Dec.lt b a = true := by
  unfold Dec.le at h; unfold Dec.lt
  rw [Dec.scaleL_swap b a, Dec.scaleR_swap b a]
  simp at h ⊢; omega

theorem Dec.eqv_refl (a : Dec) : Dec.eqv a a = true := by
  unfold Dec.eqv Dec.scaleL Dec.scaleR; simp

theorem numEqv_refl (x : Num) : numEqv x x = true := by
  cases x <;> simp [numEqv, Dec.eqv_refl]

/-! ### the range test -/

theorem rangeRejects_false {c : Cfg} {r : Range} {x : Num} (hc : c.pinned = false)
    (h : rangeRejects c r x = false) : ∃ d, x = .fin d ∧ Range.contains r d = true := by
  unfold rangeRejects at h
  cases x with
  | fin d =>
    refine ⟨d, rfl, ?_⟩
    simp only [numLt, numLe, numGt, numGe, hc] at h
    unfold Range.contains
    cases hl : r.leftInc <;> cases hr : r.rightInc <;> simp [hl, hr] at h ⊢
    all_goals
      (obtain ⟨h1, h2⟩ := h
       constructor
       · first | exact Dec.le_of_lt_false h1 | exact Dec.lt_of_le_false h1
       · first | exact Dec.le_of_lt_false h2 | exact Dec.lt_of_le_false h2)
  | posInf => cases hr : r.rightInc <;> simp [numLt, numLe, numGt, numGe, hr] at h
  | negInf => cases hl : r.leftInc <;> simp [numLt, numLe, numGt, numGe, hl] at h
  | nan => simp [hc] at h

theorem Dec.lt_false_of_le {a b : Dec} (h : Dec.le a b = true) : Dec.lt b a = false := by
  unfold Dec.le at h; unfold Dec.lt
  rw [Dec.scaleL_swap b a, Dec.scaleR_swap b a]
  simp at h ⊢; omega

theorem Dec.le_false_of_lt {a b : Dec} (h : Dec.lt a b = true) : Dec.le b a = false := by
  unfold Dec.lt at h; unfold Dec.le
  rw [Dec.scaleL_swap b a, Dec.scaleR_swap b a]
  simp at h ⊢; omega

/-- the range test of the repaired code rejects nothing that lies inside the declared range -/
theorem rangeRejects_of_contains {c : Cfg} {r : Range} {d : Dec} (hc : c.pinned = false)
    (h : Range.contains r d = true) : rangeRejects c r (.fin d) = false := by
  unfold Range.contains at h
  unfold rangeRejects
  simp only [numLt, numLe, numGt, numGe, hc]
  cases hl : r.leftInc <;> cases hr : r.rightInc <;> simp [hl, hr] at h ⊢
  all_goals
    (obtain ⟨h1, h2⟩ := h
     constructor
     · first | exact Dec.lt_false_of_le h1 | exact Dec.le_false_of_lt h1
     · first | exact Dec.lt_false_of_le h2 | exact Dec.le_false_of_lt h2)

/-- the dependency resolution accepts every input that respects the declared dependency -/
theorem effOptional_of_depOK {o : Opts} {key : Str} {m : Obj} (h : depOK o key m = true) :
    effOptional o key m = .ok (declOptional o m) := by
  unfold depOK at h
  unfold effOptional declOptional
  cases ho : o.optional with
  | false => simp
  | true =>
    simp only [ho, Bool.not_true, Bool.false_or] at h
    simp only [if_true, Bool.true_and]
    cases hd : o.optionalDep with
    | nil => simp
    | cons c d =>
      simp only [hd] at h ⊢
      by_cases hcn : c = '!'
      · simp only [hcn, if_true] at h ⊢
        simp only [Bool.and_eq_true, Bool.not_eq_true', List.isEmpty_eq_false_iff, bne_iff_ne, ne_eq] at h
        simp [h.1, h.2]
      · simp only [hcn, if_false] at h ⊢
        have : hasKey (c :: d) m = hasKey key m := by simpa using h
        simp [this]

/-! ### strconv -/

theorem takeDigits_all {s : Str} (h : s.all isDigit = true) : takeDigits s = (s, []) := by
  induction s with
  | nil => rfl
  | cons c cs ih =>
    simp only [List.all_cons, Bool.and_eq_true] at h
    simp [takeDigits, h.1, ih h.2]

theorem parseDec_of_digits {s : Str} (neg : Bool) (body : Str)
    (hneg : neg = decide (s.head? = some '-'))
    (hbody : body = if s.head? = some '-' ∨ s.head? = some '+' then s.tail else s)
    (hne : body ≠ []) (hall : body.all isDigit = true) :
    parseDec s = .ok ⟨applySign neg (digitsVal body 0 : Int), 0⟩ := by
  unfold parseDec
  simp only [← hbody, takeDigits_all hall]
  simp [hne, hneg]

theorem parseInt_parseDec {b : Nat} {s : Str} {i : Int} (h : parseInt b s = .ok i) :
    parseDec s = .ok ⟨i, 0⟩ := by
  unfold parseInt at h
  simp only at h
  generalize hb : (if s.head? = some '-' ∨ s.head? = some '+' then s.tail else s) = body at h
  by_cases hc : body = [] ∨ (!(body.all isDigit)) = true
  · rw [if_pos hc] at h; simp at h
  · rw [if_neg hc] at h
    split at h
    · simp at h
    · simp only [Except.ok.injEq] at h
      simp only [not_or, Bool.not_eq_true', Bool.not_eq_false] at hc
      rw [parseDec_of_digits (decide (s.head? = some '-')) body rfl hb.symm hc.1 (by simpa using hc.2)]
      simp [← h]

theorem parseUint_parseDec {b : Nat} {s : Str} {i : Int} (h : parseUint b s = .ok i) :
    parseDec s = .ok ⟨i, 0⟩ := by
  unfold parseUint at h
  simp only at h
  by_cases hc : s = [] ∨ (!(s.all isDigit)) = true
  · rw [if_pos hc] at h; simp at h
  · rw [if_neg hc] at h
    split at h
    · simp at h
    · simp only [Except.ok.injEq] at h
      simp only [not_or, Bool.not_eq_true', Bool.not_eq_false] at hc
      have hall : s.all isDigit = true := by simpa using hc.2
      have hd : ∀ c, s.head? = some c → isDigit c = true := by
        intro c hcs
        cases s with
        | nil => simp at hcs
        | cons x xs => simp at hcs; subst hcs; simp at hall; exact hall.1
      have h1 : s.head? ≠ some '-' := fun e => by have := hd _ e; revert this; decide
      have h2 : s.head? ≠ some '+' := fun e => by have := hd _ e; revert this; decide
      rw [parseDec_of_digits false s (by simp [h1]) (by simp [h1, h2]) hc.1 hall]
      simp [← h, applySign]

theorem parseFloat_syntax {b : Nat} {s : Str} {x : Num} (h : parseFloat b s = .ok x) :
    floatSyntax s = .ok x := by
  unfold parseFloat at h
  cases hf : floatSyntax s with
  | error e => simp [hf] at h
  | ok y =>
    cases y with
    | fin d =>
      simp only [hf] at h
      by_cases hov : Dec.le (if b = 32 then overflow32 else overflow64) d.abs = true
      · rw [if_pos hov] at h; simp at h
      · rw [if_neg hov] at h; simp at h; rw [h]
    | posInf => simp [hf] at h; rw [h]
    | negInf => simp [hf] at h; rw [h]
    | nan => simp [hf] at h; rw [h]

theorem isDigit_underscore : isDigit '_' = false := by decide

theorem digits_noUnderscore : ∀ {s : Str}, s.all isDigit = true → s.contains '_' = false
  | [], _ => rfl
  | c :: cs, h => by
    simp only [List.all_cons, Bool.and_eq_true] at h
    have hc : ('_' == c) = false := by
      cases hb : ('_' == c) with
      | false => rfl
      | true =>
        have e : '_' = c := by simpa using hb
        rw [← e, isDigit_underscore] at h; simp at h
    have := digits_noUnderscore h.2
    simp only [List.contains_cons, this, Bool.or_false, hc]

theorem floatSyntax_of_parseDec {s : Str} {d : Dec} (hu : s.contains '_' = false) (h : parseDec s = .ok d) :
    floatSyntax s = .ok (.fin d) := by
  unfold floatSyntax cleanUnderscores
  rw [hu]
  simp only [Bool.not_false, if_true, h]

theorem parseInt_floatSyntax {b : Nat} {s : Str} {i : Int} (h : parseInt b s = .ok i) :
    floatSyntax s = .ok (.fin ⟨i, 0⟩) := by
  refine floatSyntax_of_parseDec ?_ (parseInt_parseDec h)
  unfold parseInt at h
  simp only at h
  generalize hb : (if s.head? = some '-' ∨ s.head? = some '+' then s.tail else s) = body at h
  by_cases hc : body = [] ∨ (!(body.all isDigit)) = true
  · rw [if_pos hc] at h; simp at h
  · simp only [not_or, Bool.not_eq_true', Bool.not_eq_false] at hc
    have hall : body.all isDigit = true := by simpa using hc.2
    have hbu := digits_noUnderscore hall
    cases s with
    | nil => simp at hb; exact absurd hb hc.1
    | cons c t =>
      simp only [List.head?_cons, Option.some.injEq, List.tail_cons] at hb
      by_cases hs : c = '-' ∨ c = '+'
      · rw [if_pos hs] at hb; subst hb
        have : ('_' == c) = false := by rcases hs with e | e <;> (subst e; decide)
        simp only [List.contains_cons, hbu, Bool.or_false, this]
      · rw [if_neg hs] at hb; subst hb; exact hbu

theorem parseUint_floatSyntax {b : Nat} {s : Str} {i : Int} (h : parseUint b s = .ok i) :
    floatSyntax s = .ok (.fin ⟨i, 0⟩) := by
  refine floatSyntax_of_parseDec ?_ (parseUint_parseDec h)
  unfold parseUint at h
  simp only at h
  by_cases hc : s = [] ∨ (!(s.all isDigit)) = true
  · rw [if_pos hc] at h; simp at h
  · simp only [not_or, Bool.not_eq_true', Bool.not_eq_false] at hc
    exact digits_noUnderscore (by simpa using hc.2)

/-! ### primitive paths -/

theorem exceptMap_ok {α β : Type} {f : α → β} {x : Except Err α} {y : β} (h : x.map f = .ok y) :
    ∃ a, x = .ok a ∧ y = f a := by
  cases x with
  | error e => simp [Except.map] at h
  | ok a => simp [Except.map] at h; exact ⟨a, rfl, h.symm⟩

theorem convertFromString_scalar {k : Kind} {s : Str} {v : Val} (h : convertFromString k s = .ok v) :
    scalarEq v v = true := by
  cases k with
  | bool =>
    unfold convertFromString at h; simp only at h
    split at h
    · simp at h; subst h; rfl
    · split at h
      · simp at h; subst h; rfl
      · simp at h
  | int b => obtain ⟨a, _, rfl⟩ := exceptMap_ok h; simp [scalarEq]
  | uint b => obtain ⟨a, _, rfl⟩ := exceptMap_ok h; simp [scalarEq]
  | float b => obtain ⟨a, _, rfl⟩ := exceptMap_ok h; simp [scalarEq, numEqv_refl]
  | string => simp [convertFromString] at h; subst h; simp [scalarEq]

theorem convertFromString_denotes {k : Kind} {s : Str} {v : Val} (h : convertFromString k s = .ok v) :
    textDenotes k s v = true := by
  have hs := convertFromString_scalar h
  cases k with
  | float b =>
    obtain ⟨x, hx, rfl⟩ := exceptMap_ok h
    simp [textDenotes, parseFloat_syntax hx, scalarEq, numEqv_refl]
  | bool => simp [textDenotes, h, hs]
  | int b => simp [textDenotes, h, hs]
  | uint b => simp [textDenotes, h, hs]
  | string => simp [textDenotes, h, hs]

theorem rangeOK_of_json {c : Cfg} {o : Option Opts} {lit : Str} (k : Option Kind) (hc : c.pinned = false)
    (h : validateJsonNumberRange c o lit = .ok ()) : rangeOK (effOpts o) k (.num lit) = true := by
  unfold validateJsonNumberRange at h
  cases o with
  | none => simp [effOpts, rangeOK]
  | some o =>
    simp only [effOpts]
    cases hr : o.range with
    | none => simp [rangeOK, hr]
    | some r =>
      simp only [hr] at h
      cases hp : parseFloat 64 lit with
      | error e => simp [hp] at h
      | ok x =>
        simp only [hp] at h
        by_cases hrej : rangeRejects c r x = true
        · simp [hrej] at h
        · obtain ⟨d, rfl, hd⟩ := rangeRejects_false hc (by simpa using hrej)
          have := parseFloat_syntax hp
          cases k with
          | none => simp [rangeOK, hr]
          | some k => simp [rangeOK, hr, numOf, this, hd]

theorem rangeOK_of_value {c : Cfg} {o : Option Opts} {k : Kind} {s : Str} {v : Val} (hc : c.pinned = false)
    (hv : convertFromString k s = .ok v) (h : validateValueRange c o v = .ok ()) :
    rangeOK (effOpts o) (some k) (.str s) = true := by
  unfold validateValueRange at h
  cases o with
  | none => simp [effOpts, rangeOK]
  | some o =>
    simp only [effOpts]
    cases hr : o.range with
    | none => simp [rangeOK, hr]
    | some r =>
      simp only [hr] at h
      cases hn : valToNum v with
      | none => simp [hn] at h
      | some x =>
        simp only [hn] at h
        by_cases hrej : rangeRejects c r x = true
        · simp [hrej] at h
        · obtain ⟨d, rfl, hd⟩ := rangeRejects_false hc (by simpa using hrej)
          cases k with
          | bool => simp [rangeOK, hr, Kind.isNumeric]
          | string => simp [rangeOK, hr, Kind.isNumeric]
          | int b =>
            obtain ⟨i, hi, rfl⟩ := exceptMap_ok hv
            simp [valToNum, Dec.ofInt] at hn; subst hn
            simp [rangeOK, hr, Kind.isNumeric, numOf, parseInt_floatSyntax hi, hd]
          | uint b =>
            obtain ⟨i, hi, rfl⟩ := exceptMap_ok hv
            simp [valToNum, Dec.ofInt] at hn; subst hn
            simp [rangeOK, hr, Kind.isNumeric, numOf, parseUint_floatSyntax hi, hd]
          | float b =>
            obtain ⟨y, hy, rfl⟩ := exceptMap_ok hv
            simp [valToNum] at hn; subst hn
            simp [rangeOK, hr, Kind.isNumeric, numOf, parseFloat_syntax hy, hd]

theorem optionsOK_of {o : Option Opts} {t : Str} {j : J} (k : Option Kind)
    (h : validateInOptions o t = .ok ()) (ht : textOf j = some t) : optionsOK (effOpts o) k j = true := by
  unfold validateInOptions at h
  have e : optOptions o = (effOpts o).options := by cases o <;> rfl
  rw [e] at h
  unfold optionsOK
  by_cases h1 : (effOpts o).options = []
  · simp [h1]
  · simp only [h1, if_false] at h
    by_cases h2 : (effOpts o).options.contains t = true
    · simp only [ht, h2, Bool.or_true]
    · rw [if_neg h2] at h; simp at h

theorem jsonNumberPath_sound {c : Cfg} {o : Option Opts} {k : Kind} {lit : Str} {v : Val}
    (hc : c.pinned = false) (h : jsonNumberPath c o (some k) lit = .ok v) :
    textDenotes k lit v = true ∧ rangeOK (effOpts o) (some k) (.num lit) = true
      ∧ optionsOK (effOpts o) (some k) (.num lit) = true := by
  unfold jsonNumberPath at h
  cases h1 : validateJsonNumberRange c o lit with
  | error e => simp [h1] at h
  | ok u =>
    cases h2 : validateInOptions o lit with
    | error e => simp [h1, h2] at h
    | ok u2 =>
      simp only [h1, h2] at h
      refine ⟨?_, rangeOK_of_json _ hc h1, optionsOK_of _ h2 rfl⟩
      cases k with
      | bool => simp at h
      | string => simp at h
      | int b => exact convertFromString_denotes (k := .int b) h
      | uint b => exact convertFromString_denotes (k := .uint b) h
      | float b =>
        simp only at h
        cases hp : parseFloat 64 lit with
        | error e => simp [hp] at h
        | ok x =>
          simp only [hp] at h
          split at h
          · simp at h
          · simp at h; subst h
            simp [textDenotes, parseFloat_syntax hp, scalarEq, numEqv_refl]

theorem primWithValue_sound {c : Cfg} {o : Option Opts} {k : Kind} {j : J} {v : Val}
    (hc : c.pinned = false) (h : primWithValue c o k j = .ok v) :
    primDenotes k j v = true ∧ rangeOK (effOpts o) (some k) j = true ∧ optionsOK (effOpts o) (some k) j = true := by
  unfold primWithValue at h
  split at h
  · -- from string
    unfold primFromString at h
    cases j with
    | str s =>
      simp only at h
      cases h1 : validateInOptions o s with
      | error e => simp [h1] at h
      | ok u =>
        cases h2 : convertFromString k s with
        | error e => simp [h1, h2] at h
        | ok v' =>
          cases h3 : validateValueRange c o v' with
          | error e => simp [h1, h2, h3] at h
          | ok u3 =>
            simp [h1, h2, h3] at h; subst h
            exact ⟨by simpa [primDenotes] using convertFromString_denotes h2, rangeOK_of_value hc h2 h3,
                   optionsOK_of _ h1 rfl⟩
    | num lit =>
      simp only at h
      cases h1 : validateInOptions o lit with
      | error e => simp [h1] at h
      | ok u =>
        cases h2 : validateJsonNumberRange c o lit with
        | error e => simp [h1, h2] at h
        | ok u2 =>
          simp only [h1, h2] at h
          exact ⟨by simpa [primDenotes] using convertFromString_denotes h, rangeOK_of_json _ hc h2,
                 optionsOK_of _ h1 rfl⟩
    | null => simp at h
    | bool b => simp at h
    | arr l => simp at h
    | obj m => simp at h
  · unfold primNotFromString at h
    cases j with
    | num lit => simpa [primDenotes] using jsonNumberPath_sound hc h
    | str s =>
      simp only at h
      split at h
      · rename_i hk
        cases h1 : validateInOptions o s with
        | error e => simp [h1] at h
        | ok u =>
          cases h3 : validateValueRange c o (.str s) with
          | error e => simp [h1, h3] at h
          | ok u3 =>
            simp [h1, h3] at h; subst h; subst hk
            have hcv : convertFromString .string s = .ok (.str s) := rfl
            exact ⟨by simpa [primDenotes] using convertFromString_denotes hcv, rangeOK_of_value hc hcv h3,
                   optionsOK_of _ h1 rfl⟩
      · simp at h
    | bool b =>
      simp only at h
      split at h
      · rename_i hk
        cases h1 : validateInOptions o (boolText b) with
        | error e => simp [h1] at h
        | ok u =>
          cases h3 : validateValueRange c o (.bool b) with
          | error e => simp [h1, h3] at h
          | ok u3 =>
            simp [h1, h3] at h; subst h; subst hk
            refine ⟨by simp [primDenotes, scalarEq], ?_, optionsOK_of _ h1 rfl⟩
            cases o with
            | none => simp [effOpts, rangeOK]
            | some o =>
              cases hr : o.range with
              | none => simp [effOpts, rangeOK, hr]
              | some r => simp [effOpts, rangeOK, hr, Kind.isNumeric]
      · simp at h
    | null => simp at h
    | arr l => simp at h
    | obj m => simp at h

/-! ### option resolution -/

theorem effOptional_spec {o : Opts} {key : Str} {m : Obj} {b : Bool} (h : effOptional o key m = .ok b) :
    depOK o key m = true ∧ declOptional o m = b := by
  unfold effOptional at h
  unfold depOK declOptional
  cases ho : o.optional with
  | false => simp [ho] at h; simp [h]
  | true =>
    simp only [ho, if_true] at h
    cases hd : o.optionalDep with
    | nil => simp [hd] at h; simp [h]
    | cons c d =>
      simp only [hd] at h
      by_cases hcn : c = '!'
      · simp only [hcn, if_true] at h
        by_cases hde : d = []
        · simp [hde] at h
        · by_cases heq : hasKey d m = hasKey key m
          · simp [hde, heq] at h
          · simp [hde, heq] at h
            subst h
            simp [hcn, hde, heq]
      · simp only [hcn, if_false] at h
        by_cases hne : hasKey (c :: d) m ≠ hasKey key m
        · simp [hne] at h
        · simp [hne] at h
          have : hasKey (c :: d) m = hasKey key m := by simpa using hne
          simp [hcn, this, ← h]

/-- what the resolved option set (`toOptionsWithContext`, repaired code) keeps of the declared one -/
theorem resolve_spec {c : Cfg} {po : Option Opts} {key : Str} {m : Obj} {om : Option Opts}
    (hc : c.pinned = false)
    (h : resolveOpts c po key m = .ok om) :
    depOK (effOpts po) key m = true ∧ optOptional om = declOptional (effOpts po) m
      ∧ optDefault om = (effOpts po).default ∧ (effOpts om).range = (effOpts po).range
      ∧ (effOpts om).options = (effOpts po).options ∧ optFromString om = (effOpts po).fromString := by
  unfold resolveOpts at h
  cases po with
  | none =>
    simp at h; subst h
    simp [effOpts, depOK, declOptional, optOptional, optDefault, optFromString]
  | some o =>
    simp only at h
    obtain ⟨o', ho', rfl⟩ := exceptMap_ok h
    unfold toOptionsWithContext at ho'
    cases he : effOptional o key m with
    | error e => simp [he] at ho'
    | ok b =>
      obtain ⟨hdep, hopt⟩ := effOptional_spec he
      simp only [he] at ho'
      split at ho'
      · simp at ho'; subst ho'
        rename_i heq
        simp [effOpts, optOptional, optDefault, optFromString, hdep, hopt, heq]
      · simp at ho'; subst ho'
        simp [effOpts, optOptional, optDefault, optFromString, hdep, hopt, hc]

/-! ### one field -/

theorem rangeOK_congr {o1 o2 : Opts} (h : o1.range = o2.range) (k : Option Kind) (j : J) :
    rangeOK o1 k j = rangeOK o2 k j := by unfold rangeOK; rw [h]

theorem optionsOK_congr {o1 o2 : Opts} (h : o1.options = o2.options) (k : Option Kind) (j : J) :
    optionsOK o1 k j = optionsOK o2 k j := by unfold optionsOK; rw [h]

theorem resolve_inherit {c : Cfg} {po : Option Opts} {key : Str} {m : Obj} {om : Option Opts}
    (hc : c.pinned = false) (h : resolveOpts c po key m = .ok om) : optInherit om = optInherit po := by
  unfold resolveOpts at h
  cases po with
  | none => simp at h; subst h; rfl
  | some o =>
    simp only at h
    obtain ⟨o', ho', rfl⟩ := exceptMap_ok h
    unfold toOptionsWithContext at ho'
    cases he : effOptional o key m with
    | error e => simp [he] at ho'
    | ok b =>
      simp only [he] at ho'
      split at ho'
      · simp at ho'; subst ho'; rfl
      · simp at ho'; subst ho'; simp [optInherit, hc]

theorem fieldCore_sound {c : Cfg} {name : Str} {tag : Option Str} {isSlice : Bool} {k : Option Kind} {m : Obj}
    {wv : Option Opts → J → Except Err Val} {ar : Unit → Except Err Val} {dv : Str → Except Err Val} {z v : Val}
    {conv : J → Val → Bool} {absent : Val → Bool} {dflt : Str → Val → Bool} {isZ : Val → Bool}
    (hc : c.pinned = false)
    (hwv : ∀ o j v, wv o j = .ok v →
      conv j v = true ∧ rangeOK (effOpts o) k j = true ∧ optionsOK (effOpts o) k j = true)
    (har : ∀ v, ar () = .ok v → absent v = true)
    (hdv : ∀ d v, dv d = .ok v → dflt d v = true)
    (hz : isZ z = true)
    (h : fieldCore c name tag isSlice m wv ar dv z = .ok v) :
    fieldSat c name tag isSlice k m v conv absent dflt isZ = true := by
  unfold fieldCore at h
  unfold fieldSat
  have hrep : c.repaired = c := by cases c; simp_all [Cfg.repaired]
  rw [hrep]
  cases tag with
  | none => simp at h; subst h; simpa using hz
  | some tv =>
    simp only at h ⊢
    cases hp : parseTagC c name tv with
    | error e => simp [hp] at h
    | ok kp =>
      obtain ⟨key, po⟩ := kp
      simp only [hp] at h ⊢
      cases hr : resolveOpts c po key m with
      | error e => rw [hr] at h; simp at h
      | ok om =>
        obtain ⟨hdep, hopt, hdef, hrange, hoptions, _⟩ := resolve_spec hc hr
        rw [hr] at h
        simp only at h
        by_cases hk : key = "-".toList
        · rw [if_pos hk] at h ⊢; simp at h; subst h; exact hz
        · rw [if_neg hk] at h ⊢
          · change (depOK (effOpts po) key m && _) = true
            rw [hdep, Bool.true_and, ← resolve_inherit hc hr]
            cases hl : lookupKey c (optInherit om) key m with
            | error e => simp [hl] at h
            | ok lk =>
            cases lk with
              | none =>
                simp only [hl] at h ⊢
                rw [← hdef]
                by_cases hd : optDefault om ≠ []
                · rw [if_pos hd] at h
                  have : (!(optDefault om).isEmpty) = true := by simpa using hd
                  rw [if_pos this]
                  exact hdv _ _ h
                · rw [if_neg hd] at h
                  have : ¬ ((!(optDefault om).isEmpty) = true) := by simpa using hd
                  rw [if_neg this, ← hopt]
                  by_cases ho : optOptional om = true
                  · rw [if_pos ho] at h ⊢; simp at h; subst h; exact hz
                  · rw [if_neg ho] at h ⊢; exact har _ h
              | some j0 =>
                simp only [hl, hc] at h ⊢
                simp only [Bool.false_and, Bool.false_eq_true, if_false] at h
                cases hj : fromArrayValue c isSlice j0 with
                | null =>
                  simp only [hj] at h ⊢
                  rw [← hopt]
                  by_cases ho : optOptional om = true
                  · rw [if_pos ho] at h; simp at h; subst h; simp [ho, hz]
                  · rw [if_neg ho] at h; simp at h
                | bool b =>
                  simp only [hj] at h ⊢
                  obtain ⟨h1, h2, h3⟩ := hwv _ _ _ h
                  rw [rangeOK_congr hrange] at h2; rw [optionsOK_congr hoptions] at h3
                  simp [h1, h2, h3]
                | num s =>
                  simp only [hj] at h ⊢
                  obtain ⟨h1, h2, h3⟩ := hwv _ _ _ h
                  rw [rangeOK_congr hrange] at h2; rw [optionsOK_congr hoptions] at h3
                  simp [h1, h2, h3]
                | str s =>
                  simp only [hj] at h ⊢
                  obtain ⟨h1, h2, h3⟩ := hwv _ _ _ h
                  rw [rangeOK_congr hrange] at h2; rw [optionsOK_congr hoptions] at h3
                  simp [h1, h2, h3]
                | arr l =>
                  simp only [hj] at h ⊢
                  obtain ⟨h1, h2, h3⟩ := hwv _ _ _ h
                  rw [rangeOK_congr hrange] at h2; rw [optionsOK_congr hoptions] at h3
                  simp [h1, h2, h3]
                | obj l =>
                  simp only [hj] at h ⊢
                  obtain ⟨h1, h2, h3⟩ := hwv _ _ _ h
                  rw [rangeOK_congr hrange] at h2; rw [optionsOK_congr hoptions] at h3
                  simp [h1, h2, h3]

/-! ### the recursion -/

mutual
theorem isZero_zero : ∀ t : Ty, isZero t (zero t) = true
  | .prim .bool => by simp [zero, isZero, scalarEq]
  | .prim (.int _) => by simp [zero, isZero, scalarEq]
  | .prim (.uint _) => by simp [zero, isZero, scalarEq]
  | .prim (.float _) => by simp [zero, isZero, scalarEq, numEqv, Dec.eqv_refl]
  | .prim .string => by simp [zero, isZero, scalarEq]
  | .ptr _ => by simp [zero, isZero]
  | .slice _ => by simp [zero, isZero]
  | .map _ => by simp [zero, isZero]
  | .struct fs => by simp [zero, isZero, isZeroFields_zero fs]
theorem isZeroFields_zero : ∀ fs : Fields, isZeroFields fs (zeroFields fs) = true
  | .nil => by simp [zeroFields, isZeroFields]
  | .cons name tag t rest => by simp [zeroFields, isZeroFields, isZero_zero t, isZeroFields_zero rest]
end

theorem strListIs_strList : ∀ l : List Str, strListIs l (strList l) = true
  | [] => rfl
  | s :: rest => by simp [strList, strListIs, scalarEq, strListIs_strList rest]

theorem defaultVal_sound (c : Cfg) (hc : c.pinned = false) :
    ∀ (t : Ty) (d : Str) (v : Val), defaultVal c t d = .ok v → satDefault t d v = true
  | .ptr t, d, v, h => by
    unfold defaultVal at h
    simp only [hc, Bool.false_and, Bool.false_eq_true, if_false] at h
    obtain ⟨v', hv', rfl⟩ := exceptMap_ok h
    simp [satDefault, defaultVal_sound c hc t d v' hv']
  | .prim k, d, v, h => by
    unfold defaultVal at h
    simp [satDefault, h, convertFromString_scalar h]
  | .struct _, d, v, h => by simp [defaultVal] at h
  | .slice t, d, v, h => by
    cases t with
    | prim k =>
      cases k with
      | string =>
        simp [defaultVal] at h; subst h
        by_cases he : parseGroupedSegments d = []
        · simp [satDefault, he]
        · simp [satDefault, he, strListIs_strList]
      | bool => simp [defaultVal] at h
      | int b => simp [defaultVal] at h
      | uint b => simp [defaultVal] at h
      | float b => simp [defaultVal] at h
    | ptr t => simp [defaultVal] at h
    | slice t => simp [defaultVal] at h
    | map t => simp [defaultVal] at h
    | struct fs => simp [defaultVal] at h
  | .map _, d, v, h => by simp [defaultVal] at h

theorem mapElems_sound {f : J → Except Err Val} {p : J → Val → Bool}
    (hf : ∀ j v, f j = .ok v → p j v = true) :
    ∀ (l : List J) (vs : VList), mapElems f l = .ok vs → satElems p l vs = true
  | [], vs, h => by simp [mapElems] at h; subst h; rfl
  | j :: rest, vs, h => by
    unfold mapElems at h
    cases h1 : f j with
    | error e => simp [h1] at h
    | ok v =>
      cases h2 : mapElems f rest with
      | error e => simp [h1, h2] at h
      | ok vs' =>
        simp [h1, h2] at h; subst h
        simp [satElems, hf j v h1, mapElems_sound hf rest vs' h2]

theorem mapEntries_sound {f : J → Except Err Val} {p : J → Val → Bool}
    (hf : ∀ j v, f j = .ok v → p j v = true) :
    ∀ (m : Obj) (vs : VFields), mapEntries f m = .ok vs → satEntries p m vs = true
  | [], vs, h => by simp [mapEntries] at h; subst h; rfl
  | (k, j) :: rest, vs, h => by
    unfold mapEntries at h
    cases h1 : f j with
    | error e => simp [h1] at h
    | ok v =>
      cases h2 : mapEntries f rest with
      | error e => simp [h1, h2] at h
      | ok vs' =>
        simp [h1, h2] at h; subst h
        simp [satEntries, hf j v h1, mapEntries_sound hf rest vs' h2]

theorem sliceResult_sound {p : J → Val → Bool} {l : List J} {vs : VList} (h : satElems p l vs = true) :
    sliceSat p l (sliceResult l vs) = true := by
  unfold sliceSat sliceResult
  by_cases h1 : l.isEmpty = true
  · simp [h1]
  · by_cases h2 : allNull l = true
    · simp [h1, h2]
    · simp [h1, h2, h]

theorem Cfg.top_pinned {c : Cfg} (h : c.pinned = false) : c.top.pinned = false := h
theorem Cfg.nest_pinned {c : Cfg} {m : Obj} (h : c.pinned = false) : (c.nestIn m).pinned = false := h

/-- the slice case shared by `withValue`, `elemValue` and `mapElemValue` -/
theorem slice_sound {c : Cfg} {t : Ty} {l : List J} {v : Val} {ev : J → Except Err Val}
    (hev : ∀ j v, ev j = .ok v → satTy c t j v = true)
    (h : (mapElems (fun j => if j.isNull then .ok (zero t) else ev j) l).map (sliceResult l) = .ok v) :
    sliceSat (fun j v => if j.isNull then isZero t v else satTy c t j v) l v = true := by
  obtain ⟨vs, hvs, rfl⟩ := exceptMap_ok h
  apply sliceResult_sound
  refine mapElems_sound ?_ l vs hvs
  intro j v hj
  by_cases hn : j.isNull = true
  · simp [hn] at hj ⊢; subst hj; exact isZero_zero t
  · simp [hn] at hj ⊢; exact hev j v hj

theorem jsonNumberPath_none {c : Cfg} {o : Option Opts} {lit : Str} {v : Val} :
    jsonNumberPath c o none lit ≠ .ok v := by
  unfold jsonNumberPath
  cases validateJsonNumberRange c o lit with
  | error e => simp
  | ok u => cases validateInOptions o lit with
    | error e => simp
    | ok u2 => simp

theorem rangeOK_none (o : Opts) (j : J) : rangeOK o none j = true := by
  unfold rangeOK; cases o.range <;> rfl

theorem optionsOK_none (o : Opts) (j : J) : optionsOK o none j = true := by
  unfold optionsOK; simp

mutual
theorem withValue_sound (c : Cfg) (hc : c.pinned = false) :
    ∀ (t : Ty) (o : Option Opts) (j : J) (v : Val), withValue c o t j = .ok v →
      satTy c t j v = true ∧ rangeOK (effOpts o) (derefKind t) j = true
        ∧ optionsOK (effOpts o) (derefKind t) j = true
  | .ptr t, o, j, v, h => by
    unfold withValue at h
    simp only [hc, Bool.false_and, Bool.false_eq_true, if_false] at h
    obtain ⟨v', hv', rfl⟩ := exceptMap_ok h
    have := withValue_sound c hc t o j v' hv'
    simpa [satTy, derefKind] using this
  | .prim k, o, j, v, h => by
    unfold withValue at h
    simpa [satTy, derefKind] using primWithValue_sound hc h
  | .struct fs, o, j, v, h => by
    unfold withValue at h
    cases j with
    | obj m =>
      simp only at h
      obtain ⟨vs, hvs, rfl⟩ := exceptMap_ok h
      exact ⟨by simpa [satTy] using unmFields_sound c hc fs m vs hvs,
        by simp [derefKind, rangeOK_none], by simp [derefKind, optionsOK_none]⟩
    | num lit => exact absurd h jsonNumberPath_none
    | null => simp at h
    | bool b => simp at h
    | str s => simp at h
    | arr l => simp at h
  | .slice t, o, j, v, h => by
    unfold withValue at h
    cases j with
    | arr l =>
      simp only at h
      exact ⟨by simpa [satTy] using slice_sound (c := c.top) (fun j v hv => elemValue_sound c.top (Cfg.top_pinned hc) t j v hv) h,
        by simp [derefKind, rangeOK_none], by simp [derefKind, optionsOK_none]⟩
    | obj m => simp at h
    | num lit => simp at h
    | null => simp at h
    | bool b => simp at h
    | str s => simp at h
  | .map t, o, j, v, h => by
    unfold withValue at h
    cases j with
    | obj m =>
      simp only at h
      obtain ⟨vs, hvs, rfl⟩ := exceptMap_ok h
      exact ⟨by simpa [satTy] using
          mapEntries_sound (fun j v hv => mapElemValue_sound c.top (Cfg.top_pinned hc) t j v hv) (canonObj m) vs hvs,
        by simp [derefKind, rangeOK_none], by simp [derefKind, optionsOK_none]⟩
    | arr l => simp at h
    | num lit => simp at h
    | null => simp at h
    | bool b => simp at h
    | str s => simp at h
theorem elemValue_sound (c : Cfg) (hc : c.pinned = false) :
    ∀ (t : Ty) (j : J) (v : Val), elemValue c t j = .ok v → satTy c t j v = true
  | .ptr t, j, v, h => by
    unfold elemValue at h
    simp only [hc, Bool.false_and, Bool.false_eq_true, if_false] at h
    obtain ⟨v', hv', rfl⟩ := exceptMap_ok h
    simpa [satTy] using elemValue_sound c hc t j v' hv'
  | .prim k, j, v, h => by
    unfold elemValue at h
    cases j with
    | num s => simpa [satTy, primDenotes] using convertFromString_denotes h
    | str s => simpa [satTy, primDenotes] using convertFromString_denotes h
    | bool b =>
      simp only at h
      split at h
      · rename_i hk; simp at h; subst h; subst hk; simp [satTy, primDenotes, scalarEq]
      · simp at h
    | null => simp at h
    | arr l => simp at h
    | obj m => simp at h
  | .struct fs, j, v, h => by
    unfold elemValue at h
    cases j with
    | obj m =>
      simp only at h
      obtain ⟨vs, hvs, rfl⟩ := exceptMap_ok h
      simpa [satTy] using unmFields_sound c hc fs m vs hvs
    | num lit => simp at h
    | null => simp at h
    | bool b => simp at h
    | str s => simp at h
    | arr l => simp at h
  | .slice t, j, v, h => by
    unfold elemValue at h
    cases j with
    | arr l =>
      simp only at h
      simpa [satTy] using slice_sound (c := c.top) (fun j v hv => elemValue_sound c.top (Cfg.top_pinned hc) t j v hv) h
    | obj m => simp at h
    | num lit => simp at h
    | null => simp at h
    | bool b => simp at h
    | str s => simp at h
  | .map t, j, v, h => by
    unfold elemValue at h
    cases j with
    | obj m =>
      simp only at h
      obtain ⟨vs, hvs, rfl⟩ := exceptMap_ok h
      simpa [satTy] using
        mapEntries_sound (fun j v hv => mapElemValue_sound c.top (Cfg.top_pinned hc) t j v hv) (canonObj m) vs hvs
    | arr l => simp at h
    | num lit => simp at h
    | null => simp at h
    | bool b => simp at h
    | str s => simp at h
theorem mapElemValue_sound (c : Cfg) (hc : c.pinned = false) :
    ∀ (t : Ty) (j : J) (v : Val), mapElemValue c t j = .ok v → satTy c t j v = true
  | .ptr t, j, v, h => by
    unfold mapElemValue at h
    simp only [hc, Bool.false_and, Bool.false_eq_true, if_false] at h
    obtain ⟨v', hv', rfl⟩ := exceptMap_ok h
    simpa [satTy] using mapElemValue_sound c hc t j v' hv'
  | .prim k, j, v, h => by
    unfold mapElemValue at h
    cases j with
    | num s => simpa [satTy, primDenotes] using convertFromString_denotes h
    | str s =>
      simp only at h
      split at h
      · rename_i hk; simp at h; subst h; subst hk
        have hcv : convertFromString .string s = .ok (.str s) := rfl
        simpa [satTy, primDenotes] using convertFromString_denotes hcv
      · simp at h
    | bool b =>
      simp only at h
      split at h
      · rename_i hk; simp at h; subst h; subst hk; simp [satTy, primDenotes, scalarEq]
      · simp at h
    | null => simp at h
    | arr l => simp at h
    | obj m => simp at h
  | .struct fs, j, v, h => by
    unfold mapElemValue at h
    cases j with
    | obj m =>
      simp only at h
      obtain ⟨vs, hvs, rfl⟩ := exceptMap_ok h
      simpa [satTy] using unmFields_sound c hc fs m vs hvs
    | num lit => simp at h
    | null => simp at h
    | bool b => simp at h
    | str s => simp at h
    | arr l => simp at h
  | .slice t, j, v, h => by
    unfold mapElemValue at h
    cases j with
    | arr l =>
      simp only at h
      simpa [satTy] using slice_sound (c := c.top) (fun j v hv => elemValue_sound c.top (Cfg.top_pinned hc) t j v hv) h
    | obj m => simp at h
    | num lit => simp at h
    | null => simp only at h; split at h <;> simp at h
    | bool b => simp at h
    | str s => simp at h
  | .map t, j, v, h => by
    unfold mapElemValue at h
    cases j with
    | obj m =>
      simp only at h
      obtain ⟨vs, hvs, rfl⟩ := exceptMap_ok h
      simpa [satTy] using
        mapEntries_sound (fun j v hv => mapElemValue_sound c.top (Cfg.top_pinned hc) t j v hv) (canonObj m) vs hvs
    | arr l => simp at h
    | num lit => simp at h
    | null => simp at h
    | bool b => simp at h
    | str s => simp at h
theorem absentRequired_sound (c : Cfg) (hc : c.pinned = false) :
    ∀ (t : Ty) (v : Val), absentRequired c t = .ok v → satAbsent c t v = true
  | .ptr t, v, h => by
    unfold absentRequired at h
    simp only [hc, Bool.false_and, Bool.false_eq_true, if_false] at h
    obtain ⟨v', hv', rfl⟩ := exceptMap_ok h
    simpa [satAbsent] using absentRequired_sound c hc t v' hv'
  | .prim _, v, h => by simp [absentRequired] at h
  | .struct fs, v, h => by
    unfold absentRequired at h
    cases hr : structRequired fs with
    | error e => simp [hr] at h
    | ok b =>
      cases b with
      | true => simp [hr] at h
      | false =>
        simp only [hr] at h
        obtain ⟨vs, hvs, rfl⟩ := exceptMap_ok h
        simpa [satAbsent] using unmFields_sound c.top (Cfg.top_pinned hc) fs [] vs hvs
  | .slice _, v, h => by simp [absentRequired] at h
  | .map _, v, h => by simp [absentRequired] at h; subst h; simp [satAbsent]
theorem unmFields_sound (c : Cfg) (hc : c.pinned = false) :
    ∀ (fs : Fields) (m : Obj) (vs : VFields), unmFields c fs m = .ok vs → satFields c fs m vs = true
  | .nil, m, vs, h => by simp [unmFields] at h; subst h; simp [satFields]
  | .cons name tag t rest, m, vs, h => by
    unfold unmFields at h
    cases hf : fieldCore c name tag t.isSlice m (fun o j => withValue (c.nestIn m) o t j) (fun _ => absentRequired c t)
        (defaultVal c t) (zero t) with
    | error e => simp [hf] at h
    | ok v =>
      cases hrest : unmFields c rest m with
      | error e => simp [hf, hrest] at h
      | ok vs' =>
        simp [hf, hrest] at h; subst h
        have h1 := fieldCore_sound (k := derefKind t) (conv := fun j v => satTy (c.nestIn m) t j v)
          (absent := fun v => satAbsent c t v) (dflt := fun d v => satDefault t d v) (isZ := fun v => isZero t v) hc
          (fun o j v hv => withValue_sound (c.nestIn m) (Cfg.nest_pinned hc) t o j v hv)
          (fun v hv => absentRequired_sound c hc t v hv)
          (fun d v hv => defaultVal_sound c hc t d v hv)
          (isZero_zero t) hf
        have h2 := unmFields_sound c hc rest m vs' hrest
        simp [satFields, h1, h2]
end

end GoZero.C08
