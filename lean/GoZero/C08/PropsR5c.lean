/-
C08 — round 5c: a fresh target per entry / per element.  The value stored under a key of a map field (at an index of a
slice field) is a function of the input under that key (at that index) alone — no entry sees what another entry left
behind.  In the code this is the allocation discipline tied by `Tie.tie_generateMap_fresh_target` /
`tie_fillSlice_fresh_target` (seeded C08-9 hoisted generateMap's scratch value out of the loop: all entries of a
`map[string]*T` pointed to the last value, optional fields of a `map[string]Struct` were carried over between entries).
-/
import GoZero.C08.PropsR5
namespace GoZero.C08.Props
open GoZero.C08 GoZero.C08.Spec

def elemAt : VList → Nat → Option Val
  | .nil, _ => none
  | .cons v _, 0 => some v
  | .cons _ rest, i + 1 => elemAt rest i

/-- every entry of the result comes from the entry of the input at the same place, through `f` alone -/
theorem mapEntries_pointwise {f : J → Except Err Val} : ∀ (m : Obj) (vs : VFields), mapEntries f m = .ok vs →
    ∀ (i : Nat) (k : Str) (j : J), m[i]? = some (k, j) → ∃ v, f j = .ok v ∧ valAt vs i = some (k, v)
  | [], vs, _, i, k, j, hi => by simp at hi
  | (k0, j0) :: rest, vs, h, i, k, j, hi => by
    unfold mapEntries at h
    cases hf : f j0 with
    | error e => simp [hf] at h
    | ok v0 =>
      cases hr : mapEntries f rest with
      | error e => simp [hf, hr] at h
      | ok vs' =>
        simp [hf, hr] at h; subst h
        cases i with
        | zero =>
          simp at hi
          obtain ⟨rfl, rfl⟩ := hi
          exact ⟨v0, hf, rfl⟩
        | succ n =>
          simp at hi
          obtain ⟨v, hv, hat⟩ := mapEntries_pointwise rest vs' hr n k j hi
          exact ⟨v, hv, by simpa [valAt] using hat⟩

/-- **entries are independent** — two runs (two documents, or one document visited in two orders) that bind the same key to the
same input store the same value under it, whatever else the documents hold and wherever the entry sits -/
theorem mapEntries_independent {f : J → Except Err Val} {m m' : Obj} {vs vs' : VFields}
    (h : mapEntries f m = .ok vs) (h' : mapEntries f m' = .ok vs') {i i' : Nat} {k : Str} {j : J}
    (hi : m[i]? = some (k, j)) (hi' : m'[i']? = some (k, j)) :
    ∃ v, f j = .ok v ∧ valAt vs i = some (k, v) ∧ valAt vs' i' = some (k, v) := by
  obtain ⟨v, hv, hat⟩ := mapEntries_pointwise m vs h i k j hi
  obtain ⟨v', hv', hat'⟩ := mapEntries_pointwise m' vs' h' i' k j hi'
  have : v = v' := by rw [hv] at hv'; cases hv'; rfl
  subst this
  exact ⟨v, hv, hat, hat'⟩

theorem mapElems_pointwise {f : J → Except Err Val} : ∀ (l : List J) (vs : VList), mapElems f l = .ok vs →
    ∀ (i : Nat) (j : J), l[i]? = some j → ∃ v, f j = .ok v ∧ elemAt vs i = some v
  | [], vs, _, i, j, hi => by simp at hi
  | j0 :: rest, vs, h, i, j, hi => by
    unfold mapElems at h
    cases hf : f j0 with
    | error e => simp [hf] at h
    | ok v0 =>
      cases hr : mapElems f rest with
      | error e => simp [hf, hr] at h
      | ok vs' =>
        simp [hf, hr] at h; subst h
        cases i with
        | zero =>
          simp at hi
          subst hi
          exact ⟨v0, hf, rfl⟩
        | succ n =>
          simp at hi
          obtain ⟨v, hv, hat⟩ := mapElems_pointwise rest vs' hr n j hi
          exact ⟨v, hv, by simpa [elemAt] using hat⟩

/-- **elements are independent** — the same input element gives the same stored element, at whatever index and next to
whatever neighbours -/
theorem mapElems_independent {f : J → Except Err Val} {l l' : List J} {vs vs' : VList}
    (h : mapElems f l = .ok vs) (h' : mapElems f l' = .ok vs') {i i' : Nat} {j : J}
    (hi : l[i]? = some j) (hi' : l'[i']? = some j) :
    ∃ v, f j = .ok v ∧ elemAt vs i = some v ∧ elemAt vs' i' = some v := by
  obtain ⟨v, hv, hat⟩ := mapElems_pointwise l vs h i j hi
  obtain ⟨v', hv', hat'⟩ := mapElems_pointwise l' vs' h' i' j hi'
  have : v = v' := by rw [hv] at hv'; cases hv'; rfl
  subst this
  exact ⟨v, hv, hat, hat'⟩

/-- **a map field, end to end** (`fillMap` → `generateMap`): for every configuration, element type and two accepted documents, an
entry bound to the same input in both holds the same value in both results, namely `mapElemValue` of that input alone -/
theorem map_field_entries_independent (c : Cfg) (hc : c.pinned = false) (o : Option Opts) (t : Ty) (m m' : Obj) (v v' : Val)
    (h : withValue c o (.map t) (.obj m) = .ok v) (h' : withValue c o (.map t) (.obj m') = .ok v')
    {i i' : Nat} {k : Str} {j : J} (hi : (canonObj m)[i]? = some (k, j)) (hi' : (canonObj m')[i']? = some (k, j)) :
    ∃ vs vs' w, v = .map vs ∧ v' = .map vs' ∧ mapElemValue c.top t j = .ok w
      ∧ valAt vs i = some (k, w) ∧ valAt vs' i' = some (k, w) := by
  have _ := hc
  unfold withValue at h h'
  simp only at h h'
  obtain ⟨vs, hvs, rfl⟩ := exceptMap_ok h
  obtain ⟨vs', hvs', rfl⟩ := exceptMap_ok h'
  obtain ⟨w, hw, h1, h2⟩ := mapEntries_independent hvs hvs' hi hi'
  exact ⟨vs, vs', w, rfl, rfl, hw, h1, h2⟩

/-- **a slice field, end to end** (`fillSlice`): a non-null element of an accepted array is stored, at its own index, as
`elemValue` of that element alone (the same in every document that holds it) -/
theorem slice_field_elements_independent (c : Cfg) (o : Option Opts) (t : Ty) (l l' : List J) (v v' : Val)
    (h : withValue c o (.slice t) (.arr l) = .ok v) (h' : withValue c o (.slice t) (.arr l') = .ok v')
    {i i' : Nat} {j : J} (hn : j.isNull = false) (hi : l[i]? = some j) (hi' : l'[i']? = some j) :
    ∃ vs vs' w, v = sliceResult l vs ∧ v' = sliceResult l' vs' ∧ elemValue c.top t j = .ok w
      ∧ elemAt vs i = some w ∧ elemAt vs' i' = some w := by
  unfold withValue at h h'
  simp only at h h'
  obtain ⟨vs, hvs, rfl⟩ := exceptMap_ok h
  obtain ⟨vs', hvs', rfl⟩ := exceptMap_ok h'
  obtain ⟨w, hw, h1, h2⟩ := mapElems_independent hvs hvs' hi hi'
  simp only [hn, Bool.false_eq_true, if_false] at hw
  exact ⟨vs, vs', w, rfl, rfl, hw, h1, h2⟩

/-- non-vacuity (the shape seeded C08-9 broke): `map[string]*[]int` from `{k: [1], j: []}` — every entry keeps its own value -/
example :
    (match withValue {} none (.map (.ptr (.slice (.prim (.int 64)))))
        (.obj [("k".toList, .arr [.num "1".toList]), ("j".toList, .arr [])]) with
      | .ok (.map (.cons _ (.ptr (.list .nil)) (.cons _ (.ptr (.list (.cons (.int 1) .nil))) .nil))) => true
      | _ => false) = true := by decide +kernel

end GoZero.C08.Props
