/-
C08 — round 5e: the front ends keep nothing between calls.  A history of calls through one front end (`ParseHeaders`,
`ParsePath`, `ParseForm`) is judged call by call: the verdict and the value of the i-th call are a function of the i-th input
alone.  `headerParamsOn stale h` is what `encoding.ParseHeaders` would hand to the unmarshaller if the intermediate map still
held `stale` from an earlier call (seeded C08-10: a pooled map that is cleared on the success path only).
-/
import GoZero.C08.PropsR5d
namespace GoZero.C08.Props
open GoZero.C08 GoZero.C08.Spec

/-- the map a front end fills, started from what an earlier call left in it -/
def headerParamsOn (stale : Obj) (h : List (Str × HVals)) : Obj := stale ++ headerParams h

/-- a history of header parses through one `ParseHeaders`, with the map carried over after a rejected call when `leak` -/
def headerHistory (leak : Bool) (fs : Fields) : Obj → List (List (Str × HVals)) → List (Except Err VFields)
  | _, [] => []
  | stale, h :: rest =>
    let m := headerParamsOn stale h
    let res := unmFields (httpCfgHeader false) (viewFields "header".toList fs) m
    res :: headerHistory leak fs (match res with | .ok _ => [] | .error _ => if leak then m else []) rest

/-- **history independence** — as the code is (a new map per call: `Tie.tie_frontEnds_keep_no_state`), every call of a history is
judged on its own input: the i-th result is `httpParseHeaders` of the i-th header set, whatever came before -/
theorem frontEnd_history_independent (fs : Fields) : ∀ (hs : List (List (Str × HVals))),
    headerHistory false fs [] hs = hs.map (fun h => httpParseHeaders false fs h)
  | [] => rfl
  | h :: rest => by
    have ih := frontEnd_history_independent fs rest
    simp only [httpParseHeaders] at ih
    simp only [headerHistory, headerParamsOn, List.nil_append, List.map_cons, httpParseHeaders]
    congr 1
    cases unmFields (httpCfgHeader false) (viewFields "header".toList fs) (headerParams h) <;> simpa using ih

/-- …and therefore every accepted call of every history satisfies the constraints on ITS OWN headers -/
theorem frontEnd_history_sound (fs : Fields) (hs : List (List (Str × HVals))) (i : Nat) (h : List (Str × HVals)) (vs : VFields)
    (hi : hs[i]? = some h) (hr : (headerHistory false fs [] hs)[i]? = some (.ok vs)) :
    satFields (httpCfgHeader false) (viewFields "header".toList fs) (headerParams h) vs = true := by
  rw [frontEnd_history_independent] at hr
  simp only [List.getElem?_map, hi, Option.map_some, Option.some.injEq] at hr
  exact unmFields_sound _ rfl _ _ _ hr

/-- WITNESS (what seeded C08-10 does; not the behaviour of /repo): with the map carried over after a rejected call, the
second request — which carries no `A` header — is accepted with the first request's value for the optional field `A`, and
its required-with-default field is not the default: the result does not satisfy the constraints on its own headers -/
theorem leaked_header_map_witness :
    let fs : Fields := .cons "A".toList (some "header|a,optional".toList) (.prim .string)
      (.cons "B".toList (some "header|b,range=[1:5]".toList) (.prim (.int 64)) .nil)
    let h1 : List (Str × HVals) := [("a".toList, some ["stale".toList]), ("b".toList, some ["9".toList])]
    let h2 : List (Str × HVals) := [("b".toList, some ["3".toList])]
    (match headerHistory true fs [] [h1, h2] with
      | [.error .range, .ok vs] => !satFields (httpCfgHeader false) (viewFields "header".toList fs) (headerParams h2) vs
      | _ => false) = true
    ∧ (match headerHistory false fs [] [h1, h2] with
      | [.error .range, .ok vs] => satFields (httpCfgHeader false) (viewFields "header".toList fs) (headerParams h2) vs
      | _ => false) = true := by
  constructor <;> decide +kernel

end GoZero.C08.Props
