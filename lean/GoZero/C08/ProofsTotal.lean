/-
C08 — the model of the repaired unmarshaller never reaches a Go panic (helper lemmas for `no_panic`).
-/
import GoZero.C08.Proofs
namespace GoZero.C08

/-- the result is not the `panic` outcome -/
def NP {α : Type} (x : Except Err α) : Prop := x ≠ .error .panic

theorem NP_ok {α : Type} (a : α) : NP (.ok a : Except Err α) := by simp [NP]
theorem NP_map {α β : Type} {x : Except Err α} (f : α → β) (h : NP x) : NP (x.map f) := by
  cases x <;> simp_all [NP, Except.map]

theorem NP_parseInt (b : Nat) (s : Str) : NP (parseInt b s) := by
  unfold NP parseInt; simp only; repeat' split
  all_goals simp
theorem NP_parseUint (b : Nat) (s : Str) : NP (parseUint b s) := by
  unfold NP parseUint; simp only; repeat' split
  all_goals simp
theorem NP_parseDec (s : Str) : NP (parseDec s) := by
  unfold NP parseDec; simp only; repeat' split
  all_goals simp
theorem NP_floatSyntax (s : Str) : NP (floatSyntax s) := by
  have := NP_parseDec
  unfold NP at *
  unfold floatSyntax
  split; · simp
  split; · simp
  rename_i e he
  simp only
  split; · simp
  split; · simp
  split; · simp
  split
  · split <;> simp
  · intro h; simp at h; subst h; exact this _ he
theorem NP_parseFloat (b : Nat) (s : Str) : NP (parseFloat b s) := by
  have := NP_floatSyntax s
  unfold NP at *
  unfold parseFloat
  repeat' split
  all_goals (try simp)
  rename_i e he; intro h; subst h; exact this he
theorem NP_convertFromString (k : Kind) (s : Str) : NP (convertFromString k s) := by
  cases k with
  | bool => unfold NP convertFromString; simp only; split <;> (try split) <;> simp
  | int b => exact NP_map _ (NP_parseInt b s)
  | uint b => exact NP_map _ (NP_parseUint b s)
  | float b => exact NP_map _ (NP_parseFloat b s)
  | string => simp [NP, convertFromString]

theorem NP_validateJsonNumberRange (c : Cfg) (o : Option Opts) (lit : Str) : NP (validateJsonNumberRange c o lit) := by
  have := NP_parseFloat 64 lit
  unfold NP at *
  unfold validateJsonNumberRange
  repeat' split
  all_goals (try simp)
  rename_i e he; intro h; subst h; exact this he

theorem NP_validateValueRange (c : Cfg) (o : Option Opts) (v : Val) : NP (validateValueRange c o v) := by
  unfold NP validateValueRange
  repeat' split
  all_goals simp

theorem NP_validateInOptions (o : Option Opts) (t : Str) : NP (validateInOptions o t) := by
  unfold NP validateInOptions
  repeat' split
  all_goals simp

theorem NP_bind {α β : Type} {x : Except Err α} {f : α → Except Err β} (hx : NP x) (hf : ∀ a, NP (f a)) :
    NP (match x with | .error e => .error e | .ok a => f a) := by
  cases x with
  | error e => simpa [NP] using hx
  | ok a => exact hf a

theorem NP_jsonNumberPath (c : Cfg) (o : Option Opts) (k : Option Kind) (lit : Str) : NP (jsonNumberPath c o k lit) := by
  have h1 := NP_validateJsonNumberRange c o lit
  have h2 := NP_validateInOptions o lit
  have h3 := fun b => NP_parseInt b lit
  have h4 := fun b => NP_parseUint b lit
  have h5 := NP_parseFloat 64 lit
  unfold NP at *
  unfold jsonNumberPath
  intro h
  simp only [Except.map] at h
  repeat' split at h
  all_goals simp_all

theorem NP_primWithValue (c : Cfg) (o : Option Opts) (k : Kind) (j : J) : NP (primWithValue c o k j) := by
  have h1 := fun lit => NP_validateJsonNumberRange c o lit
  have h2 := fun t => NP_validateInOptions o t
  have h3 := fun s => NP_convertFromString k s
  have h4 := fun v => NP_validateValueRange c o v
  have h5 := fun lit => NP_jsonNumberPath c o (some k) lit
  unfold NP at *
  unfold primWithValue primFromString primNotFromString
  intro h
  repeat' split at h
  all_goals simp_all

theorem NP_effOptional (o : Opts) (key : Str) (m : Obj) : NP (effOptional o key m) := by
  unfold NP effOptional
  repeat' split
  all_goals simp

theorem NP_resolveOpts (c : Cfg) (po : Option Opts) (key : Str) (m : Obj) : NP (resolveOpts c po key m) := by
  unfold resolveOpts
  split
  · simp [NP]
  · apply NP_map
    have := NP_effOptional
    unfold NP at *
    unfold toOptionsWithContext
    intro h
    repeat' split at h
    all_goals simp_all

theorem NP_defaultVal (c : Cfg) (hc : c.pinned = false) : ∀ (t : Ty) (d : Str), NP (defaultVal c t d)
  | .ptr t, d => by
    unfold defaultVal
    simp only [hc, Bool.false_and, Bool.false_eq_true, if_false]
    exact NP_map _ (NP_defaultVal c hc t d)
  | .prim k, d => by unfold defaultVal; exact NP_convertFromString k d
  | .struct _, d => by simp [NP, defaultVal]
  | .map _, d => by simp [NP, defaultVal]
  | .slice t, d => by
    cases t with
    | prim k => cases k <;> simp [NP, defaultVal]
    | ptr t => simp [NP, defaultVal]
    | slice t => simp [NP, defaultVal]
    | map t => simp [NP, defaultVal]
    | struct fs => simp [NP, defaultVal]

theorem NP_mapElems {f : J → Except Err Val} (hf : ∀ j, NP (f j)) : ∀ l : List J, NP (mapElems f l)
  | [] => by simp [NP, mapElems]
  | j :: rest => by
    unfold mapElems
    have h1 := hf j
    have h2 := NP_mapElems hf rest
    unfold NP at *
    intro h
    repeat' split at h
    all_goals simp_all

theorem NP_mapEntries {f : J → Except Err Val} (hf : ∀ j, NP (f j)) : ∀ m : Obj, NP (mapEntries f m)
  | [] => by simp [NP, mapEntries]
  | (k, j) :: rest => by
    unfold mapEntries
    have h1 := hf j
    have h2 := NP_mapEntries hf rest
    unfold NP at *
    intro h
    repeat' split at h
    all_goals simp_all

/-- no field tag of the type makes `parseKeyAndOptions` index an empty segment list (a tag value such as `\`) -/
def tagNoPanic (name : Str) (tag : Option Str) : Bool :=
  match tag with
  | none => true
  | some tv => match parseTag name tv with | .error .panic => false | _ => true

mutual
def tagsOK : Ty → Bool
  | .prim _ => true
  | .ptr t => tagsOK t
  | .slice t => tagsOK t
  | .map t => tagsOK t
  | .struct fs => tagsOKFields fs
def tagsOKFields : Fields → Bool
  | .nil => true
  | .cons name tag t rest => tagNoPanic name tag && tagsOK t && tagsOKFields rest
end

theorem NP_recLookup (unk : Bool) : ∀ (ch : List Obj) (k : Str), NP (recLookup unk ch k)
  | [], k => by unfold recLookup; split <;> simp [NP]
  | cur :: parents, k => by
    unfold recLookup
    have ih := NP_recLookup unk parents k
    split
    · exact ih
    · split
      · rename_i e he; rw [he] at ih; simpa [NP] using ih
      · split <;> simp [NP]
      · simp [NP]
    · simp [NP]

theorem NP_chainedLookup (unk : Bool) : ∀ (keys : List Str) (ch : List Obj), NP (chainedLookup unk keys ch)
  | [], ch => by simp [chainedLookup, NP]
  | [k], ch => by simpa [chainedLookup] using NP_recLookup unk ch k
  | k :: k2 :: rest, ch => by
    unfold chainedLookup
    have h1 := NP_recLookup unk ch k
    split
    · rename_i e he; rw [he] at h1; simpa [NP] using h1
    · exact NP_chainedLookup unk (k2 :: rest) _
    · simp [NP]

theorem NP_firstLookup (unk inh : Bool) (anc : List Obj) (k : Str) (m : Obj) : NP (firstLookup unk inh anc k m) := by
  unfold firstLookup
  split
  · exact NP_recLookup _ _ _
  · simp [NP]

theorem NP_lookupKey (c : Cfg) (inh : Bool) (key : Str) (m : Obj) : NP (lookupKey c inh key m) := by
  unfold lookupKey
  split
  · exact NP_firstLookup _ _ _ _ _
  · unfold dottedLookup
    split
    · simp [NP]
    · exact NP_firstLookup _ _ _ _ _
    · split
      · rename_i k _ _ _ _ e he
        have h1 := NP_firstLookup false inh c.anc k m
        rw [he] at h1; simpa [NP] using h1
      · exact NP_chainedLookup _ _ _
      · simp [NP]

theorem NP_fieldCore {c : Cfg} {name : Str} {tag : Option Str} {isSlice : Bool} {m : Obj}
    {wv : Option Opts → J → Except Err Val} {ar : Unit → Except Err Val} {dv : Str → Except Err Val} {z : Val}
    (hc : c.pinned = false) (ht : tagNoPanic name tag = true)
    (hwv : ∀ o j, NP (wv o j)) (har : NP (ar ())) (hdv : ∀ d, NP (dv d)) :
    NP (fieldCore c name tag isSlice m wv ar dv z) := by
  unfold fieldCore
  cases tag with
  | none => simp [NP]
  | some tv =>
    simp only
    unfold tagNoPanic at ht
    simp only at ht
    cases hp : parseTag name tv with
    | error e =>
      simp only [hp, parseTagC, Except.map] at ht ⊢
      cases e <;> simp_all [NP]
    | ok kp0 =>
      simp only [parseTagC, hp, Except.map]
      generalize canonTag c.keyFn c.pinned kp0 = kp
      obtain ⟨key, po⟩ := kp
      simp only
      cases hr : resolveOpts c po key m with
      | error e => have := NP_resolveOpts c po key m; rw [hr] at this; simpa [NP] using this
      | ok o =>
      simp only
      split; · simp [NP]
      have hl := NP_lookupKey c (optInherit o) key m
      cases hlk : lookupKey c (optInherit o) key m with
      | error e => rw [hlk] at hl; simpa [NP] using hl
      | ok lk =>
        cases lk with
        | none =>
          simp only
          split
          · exact hdv _
          · split
            · simp [NP]
            · exact har
        | some j0 =>
          simp only [hc, Bool.false_and, Bool.false_eq_true, if_false]
          split
          · split <;> simp [NP]
          · exact hwv _ _

theorem NP_structRequired : ∀ fs : Fields, tagsOKFields fs = true → NP (structRequired fs)
  | .nil, _ => by simp [NP, structRequired]
  | .cons name tag t rest, h => by
    unfold tagsOKFields at h
    simp only [Bool.and_eq_true] at h
    obtain ⟨⟨h1, h2⟩, h3⟩ := h
    unfold structRequired
    cases tag with
    | none => simp [NP]
    | some tv =>
      simp only
      unfold tagNoPanic at h1
      simp only at h1
      cases hp : parseTag name tv with
      | error e => simp only [hp] at h1 ⊢; cases e <;> simp_all [NP]
      | ok kp =>
        obtain ⟨key, po⟩ := kp
        cases po with
        | none =>
          simp only
          cases t with
          | struct fs' =>
            simp only
            have := NP_structRequired fs' (by simpa [tagsOK] using h2)
            have hr := NP_structRequired rest h3
            cases hs : structRequired fs' with
            | error e => simp only [hs] at this ⊢; exact this
            | ok b => cases b <;> simp [NP] <;> exact hr
          | prim k => simp [NP]
          | ptr t => simp [NP]
          | slice t => simp [NP]
          | map t => simp [NP]
        | some o =>
          simp only
          split; · simp [NP]
          split; · simp [NP]
          exact NP_structRequired rest h3

theorem NP_slice {t : Ty} {l : List J} {ev : J → Except Err Val} (hev : ∀ j, NP (ev j)) :
    NP ((mapElems (fun j => if j.isNull then .ok (zero t) else ev j) l).map (sliceResult l)) := by
  apply NP_map
  apply NP_mapElems
  intro j
  split
  · simp [NP]
  · exact hev j

mutual
theorem NP_withValue (c : Cfg) (hc : c.pinned = false) :
    ∀ (t : Ty) (o : Option Opts) (j : J), tagsOK t = true → NP (withValue c o t j)
  | .ptr t, o, j, h => by
    unfold withValue
    simp only [hc, Bool.false_and, Bool.false_eq_true, if_false]
    exact NP_map _ (NP_withValue c hc t o j (by simpa [tagsOK] using h))
  | .prim k, o, j, _ => by unfold withValue; exact NP_primWithValue c o k j
  | .struct fs, o, j, h => by
    unfold withValue
    split
    · exact NP_map _ (NP_unmFields c hc fs _ (by simpa [tagsOK] using h))
    · exact NP_jsonNumberPath _ _ _ _
    · simp [NP]
  | .slice t, o, j, h => by
    unfold withValue
    split
    · exact NP_slice fun j => NP_elemValue c.top (Cfg.top_pinned hc) t j (by simpa [tagsOK] using h)
    · simp [NP]
    · simp [NP]
    · simp [NP]
  | .map t, o, j, h => by
    unfold withValue
    split
    · exact NP_map _ (NP_mapEntries (fun j => NP_mapElemValue c.top (Cfg.top_pinned hc) t j (by simpa [tagsOK] using h)) _)
    · simp [NP]
    · simp [NP]
    · simp [NP]
theorem NP_elemValue (c : Cfg) (hc : c.pinned = false) :
    ∀ (t : Ty) (j : J), tagsOK t = true → NP (elemValue c t j)
  | .ptr t, j, h => by
    unfold elemValue
    simp only [hc, Bool.false_and, Bool.false_eq_true, if_false]
    exact NP_map _ (NP_elemValue c hc t j (by simpa [tagsOK] using h))
  | .prim k, j, _ => by
    unfold elemValue
    split
    · exact NP_convertFromString _ _
    · exact NP_convertFromString _ _
    · split <;> simp [NP]
    · simp [NP]
  | .struct fs, j, h => by
    unfold elemValue
    split
    · exact NP_map _ (NP_unmFields c hc fs _ (by simpa [tagsOK] using h))
    · simp [NP]
  | .slice t, j, h => by
    unfold elemValue
    split
    · exact NP_slice fun j => NP_elemValue c.top (Cfg.top_pinned hc) t j (by simpa [tagsOK] using h)
    · simp [NP]
  | .map t, j, h => by
    unfold elemValue
    split
    · exact NP_map _ (NP_mapEntries (fun j => NP_mapElemValue c.top (Cfg.top_pinned hc) t j (by simpa [tagsOK] using h)) _)
    · simp [NP]
    · simp [NP]
    · simp [NP]
theorem NP_mapElemValue (c : Cfg) (hc : c.pinned = false) :
    ∀ (t : Ty) (j : J), tagsOK t = true → NP (mapElemValue c t j)
  | .ptr t, j, h => by
    unfold mapElemValue
    simp only [hc, Bool.false_and, Bool.false_eq_true, if_false]
    exact NP_map _ (NP_mapElemValue c hc t j (by simpa [tagsOK] using h))
  | .prim k, j, _ => by
    unfold mapElemValue
    split
    · split <;> simp [NP]
    · split <;> simp [NP]
    · exact NP_convertFromString _ _
    · simp [NP]
  | .struct fs, j, h => by
    unfold mapElemValue
    split
    · exact NP_map _ (NP_unmFields c hc fs _ (by simpa [tagsOK] using h))
    · simp [NP]
  | .slice t, j, h => by
    unfold mapElemValue
    split
    · exact NP_slice fun j => NP_elemValue c.top (Cfg.top_pinned hc) t j (by simpa [tagsOK] using h)
    · simp [NP, hc]
    · simp [NP]
  | .map t, j, h => by
    unfold mapElemValue
    split
    · exact NP_map _ (NP_mapEntries (fun j => NP_mapElemValue c.top (Cfg.top_pinned hc) t j (by simpa [tagsOK] using h)) _)
    · simp [NP]
theorem NP_absentRequired (c : Cfg) (hc : c.pinned = false) :
    ∀ (t : Ty), tagsOK t = true → NP (absentRequired c t)
  | .ptr t, h => by
    unfold absentRequired
    simp only [hc, Bool.false_and, Bool.false_eq_true, if_false]
    exact NP_map _ (NP_absentRequired c hc t (by simpa [tagsOK] using h))
  | .prim _, _ => by simp [NP, absentRequired]
  | .struct fs, h => by
    unfold absentRequired
    have h1 := NP_structRequired fs (by simpa [tagsOK] using h)
    cases hs : structRequired fs with
    | error e => rw [hs] at h1; simpa [NP] using h1
    | ok b =>
      cases b with
      | true => simp [NP]
      | false => exact NP_map _ (NP_unmFields c.top (Cfg.top_pinned hc) fs _ (by simpa [tagsOK] using h))
  | .slice _, _ => by simp [NP, absentRequired]
  | .map _, _ => by simp [NP, absentRequired]
theorem NP_unmFields (c : Cfg) (hc : c.pinned = false) :
    ∀ (fs : Fields) (m : Obj), tagsOKFields fs = true → NP (unmFields c fs m)
  | .nil, m, _ => by simp [NP, unmFields]
  | .cons name tag t rest, m, h => by
    unfold tagsOKFields at h
    simp only [Bool.and_eq_true] at h
    obtain ⟨⟨h1, h2⟩, h3⟩ := h
    unfold unmFields
    have hf := NP_fieldCore (c := c) (name := name) (tag := tag) (isSlice := t.isSlice) (m := m)
      (wv := fun o j => withValue (c.nestIn m) o t j) (ar := fun _ => absentRequired c t) (dv := defaultVal c t) (z := zero t)
      hc h1 (fun o j => NP_withValue (c.nestIn m) (Cfg.nest_pinned hc) t o j h2) (NP_absentRequired c hc t h2) (NP_defaultVal c hc t)
    have hr := NP_unmFields c hc rest m h3
    unfold NP at *
    intro h
    repeat' split at h
    all_goals simp_all
end

end GoZero.C08
