/-
C08 — round 5 property theorems: keys with dots.  `readKeys` / `getValue` / `getValueWithChainedKeys` are inside the model
(`Model.lookupKey`); `accept_sound`, `accept_complete`, `no_panic` and the clause theorems of PropsR4 now speak about the path
through them, for every option set (`Cfg.opaqueKeys` = WithOpaqueKeys on/off together with every other option) and for both
positions of a struct (`Cfg.anc`: the enclosing objects).  Here: what the lookup is, clause by clause.
-/
import GoZero.C08.PropsR4
namespace GoZero.C08.Props
open GoZero.C08 GoZero.C08.Spec

/-- **opaque keys are literal** — under `WithOpaqueKeys` (rest/httpx form and path) every key, with or without dots, is looked
up as it is written, whatever the rest of the configuration and wherever the struct sits -/
theorem lookupKey_opaque (c : Cfg) (h : c.opaqueKeys = true) (key : Str) (m : Obj) :
    lookupKey c false key m = .ok (getKey key m) := by
  simp [lookupKey, firstLookup, h]

/-- a key without dots is looked up as it is written under every configuration -/
theorem lookupKey_plain (c : Cfg) (key : Str) (m : Obj) (h : key.contains '.' = false) :
    lookupKey c false key m = .ok (getKey key m) := by
  unfold lookupKey
  rw [h]
  simp [firstLookup]

/-- the lookup of a key never panics and never depends on the options other than `opaqueKeys` and the position -/
theorem lookupKey_options (c : Cfg) (inh : Bool) (key : Str) (m : Obj) :
    lookupKey c inh key m = lookupKey { opaqueKeys := c.opaqueKeys, anc := c.anc } inh key m
    ∧ lookupKey c inh key m ≠ .error .panic :=
  ⟨rfl, NP_lookupKey c inh key m⟩

/-- **`inherit`** (round 5c: inside the model) — a field tagged `inherit` whose key has no dots (or is opaque) is looked up through
`recursiveValuer.Value` on the current object followed by the enclosing ones (`Cfg.anc`), i.e. (`recLookup_is_recValue` below,
PropsR4.recValue_found_iff / recValue_scalar_nearest / recValue_inherits) the nearest binding wins -/
theorem lookupKey_inherit (c : Cfg) (key : Str) (m : Obj) (h : c.opaqueKeys = true ∨ key.contains '.' = false) :
    lookupKey c true key m = recLookup false (m :: c.anc) key := by
  unfold lookupKey
  rcases h with h | h
  · simp [h, firstLookup]
  · rw [h]; simp [firstLookup]

/-- the same document, the same key text: the chained lookup finds the nested binding, the opaque one the literal binding -/
example :
    (match lookupKey {} false "p.a".toList [("p".toList, .obj [("a".toList, .num "5".toList)]), ("p.a".toList, .num "9".toList)] with
      | .ok (some (.num s)) => s == "5".toList | _ => false) = true
    ∧ (match lookupKey { opaqueKeys := true } false "p.a".toList
        [("p".toList, .obj [("a".toList, .num "5".toList)]), ("p.a".toList, .num "9".toList)] with
      | .ok (some (.num s)) => s == "9".toList | _ => false) = true := by
  constructor <;> decide

/-- **the chained lookup is the valuers' lookup** — wherever the model's `recLookup` (no unknown ancestors) gives an answer, the
model of `recursiveValuer.Value` (`recValue`, PropsR4: `recValue_found_iff`, `recValue_scalar_nearest`, `recValue_inherits`) gives
the same answer (and `recLookup` answers only where the merge loop of `recursiveValuer.Value` has nothing to add) -/
theorem recLookup_is_recValue : ∀ (ch : List Obj) (k : Str) (r : Option J),
    recLookup false ch k = .ok r → recValue ch k = r
  | [], k, r, h => by
    simp [recLookup] at h; subst h; rfl
  | cur :: parents, k, r, h => by
    unfold recLookup at h
    unfold recValue recValueM
    cases hg : getKey k cur with
    | none =>
      simp only [hg] at h ⊢
      exact recLookup_is_recValue parents k r h
    | some v =>
      cases v with
      | obj vm =>
        simp only [hg] at h ⊢
        cases hp : recLookup false parents k with
        | error e => simp [hp] at h
        | ok pr =>
          have ih : (recValueM parents k).1 = pr := recLookup_is_recValue parents k pr hp
          rw [ih]
          cases pr with
          | none => simp [hp] at h; subst h; rfl
          | some pv =>
            cases pv with
            | obj pm =>
              simp only [hp] at h
              by_cases hall : pm.all (fun kv => hasKey kv.1 vm) = true
              · simp only [hall, if_true] at h
                have hr : r = some (.obj vm) := by
                  cases h; rfl
                subst hr
                have hf : pm.filter (fun kv => !hasKey kv.1 vm) = [] := by
                  rw [List.filter_eq_nil_iff]
                  intro a ha
                  have := (List.all_eq_true.mp hall) a ha
                  simp [this]
                simp [mergeMissing, hf]
              · simp [hall] at h
            | null => simp [hp] at h; subst h; rfl
            | bool b => simp [hp] at h; subst h; rfl
            | num s => simp [hp] at h; subst h; rfl
            | str s => simp [hp] at h; subst h; rfl
            | arr l => simp [hp] at h; subst h; rfl
      | null => simp [hg] at h ⊢; exact h
      | bool b => simp [hg] at h ⊢; exact h
      | num s => simp [hg] at h ⊢; exact h
      | str s => simp [hg] at h ⊢; exact h
      | arr l => simp [hg] at h ⊢; exact h

/-- the last segment of `a.c` is not bound inside `a`: the lookup falls back to the enclosing object (both models agree) -/
example :
    (match recLookup false [[("b".toList, .num "1".toList)], [("c".toList, .str "up".toList)]] "c".toList,
           recValue [[("b".toList, .num "1".toList)], [("c".toList, .str "up".toList)]] "c".toList with
      | .ok (some (.str a)), some (.str b) => a == "up".toList && b == "up".toList | _, _ => false) = true := by decide

/-- **clause 1 under WithOpaqueKeys (rest/httpx path and form), end to end** — a field that is neither defaulted nor optional on
this input is bound under its key AS WRITTEN in every accepted parameter map: a nested path `p: {a: …}` does not supply the
form field `p.a` -/
theorem clause_required_supplied_opaque {c : Cfg} {name tv : Str} {isSl : Bool} {k : Kind} {m : Obj} {w : Val}
    {conv : J → Val → Bool} {dflt : Str → Val → Bool} {isZ : Val → Bool} {key : Str} {po : Option Opts}
    (hop : c.opaqueKeys = true) (hinh : optInherit po = false)
    (hsat : fieldSat c name (some tv) isSl (some k) m w conv (fun _ => false) dflt isZ = true)
    (hp : parseTagC c.repaired name tv = .ok (key, po)) (hkey : key ≠ "-".toList)
    (hd : (effOpts po).default = []) (hopt : declOptional (effOpts po) m = false) :
    (getKey key m).isSome = true := by
  obtain ⟨j0, hj⟩ := clause_required_supplied hsat hp hkey hd hopt
  rw [hinh, lookupKey_opaque c hop] at hj
  have : getKey key m = some j0 := by injection hj
  simp [this]

/-- non-vacuity, on the model of `httpx.ParseForm`'s unmarshaler: the required form field `p.a` is supplied by the literal name
only; the nested shape is refused with `not set` -/
example :
    (match unmFields (httpCfgForm false) (.cons "A".toList (some "p.a".toList) (.prim (.int 64)) .nil)
        [("p.a".toList, .arr [.str "5".toList])] with | .ok (.cons _ (.int 5) .nil) => true | _ => false) = true
    ∧ (match unmFields (httpCfgForm false) (.cons "A".toList (some "p.a".toList) (.prim (.int 64)) .nil)
        [("p".toList, .obj [("a".toList, .arr [.str "5".toList])])] with | .error .notSet => true | _ => false) = true
    ∧ (match unmFields (httpCfgJson false) (.cons "A".toList (some "p.a".toList) (.prim (.int 64)) .nil)
        [("p".toList, .obj [("a".toList, .num "5".toList)])] with | .ok (.cons _ (.int 5) .nil) => true | _ => false) = true := by
  refine ⟨?_, ?_, ?_⟩ <;> decide +kernel

end GoZero.C08.Props
