/-
C08 — specification.  `satisfies c ty j v`: the value `v` is an acceptable result of unmarshalling the
document `j` into the struct type `ty` — stated field by field from the *declared* tag options, not from
the unmarshaller's control flow:

  * a field whose key is absent from the input holds its declared default, or is declared optional
    (given its dependency) and holds the zero value, or is a nested struct and holds what unmarshalling the
    empty object gives — a scalar field that is neither optional nor defaulted must be supplied;
  * `optional=dep`: supplied iff `dep` is; `optional=!dep`: exactly one of the two is supplied;
  * a supplied numeric field lies inside its declared range (open/closed ends), a supplied field with
    declared options holds one of them;
  * the target holds exactly the value the supplied text denotes.

The same function is the run-time monitor evaluated on the implementation's own results.
-/
import GoZero.C08.Model
namespace GoZero.C08.Spec
open GoZero.C08

def Range.contains (r : Range) (q : Dec) : Bool :=
  (if r.leftInc then Dec.le r.left q else Dec.lt r.left q)
  && (if r.rightInc then Dec.le q r.right else Dec.lt q r.right)

/-- the text of a supplied scalar -/
def textOf : J → Option Str
  | .num s => some s
  | .str s => some s
  | .bool b => some (boolText b)
  | _ => none

/-- the finite number a supplied scalar denotes -/
def numOf : J → Option Dec
  | .num s => match floatSyntax s with | .ok (.fin d) => some d | _ => none
  | .str s => match floatSyntax s with | .ok (.fin d) => some d | _ => none
  | _ => none

def numEqv : Num → Num → Bool
  | .fin a, .fin b => Dec.eqv a b
  | .posInf, .posInf => true
  | .negInf, .negInf => true
  | .nan, .nan => true
  | _, _ => false

/-- scalar values are equal (floats by numeric value) -/
def scalarEq : Val → Val → Bool
  | .bool a, .bool b => a == b
  | .int a, .int b => a == b
  | .flt a, .flt b => numEqv a b
  | .str a, .str b => a == b
  | _, _ => false

/-- `v` is the value of kind `k` that the text `s` denotes -/
def textDenotes (k : Kind) (s : Str) (v : Val) : Bool :=
  match k with
  | .float _ => match floatSyntax s with | .ok x => scalarEq (.flt x) v | .error _ => false
  | _ => match convertFromString k s with | .ok v' => scalarEq v' v | .error _ => false

/-- `v` is exactly the supplied scalar `x` at kind `k` -/
def primDenotes (k : Kind) (x : J) (v : Val) : Bool :=
  match x with
  | .bool b => k = .bool && scalarEq (.bool b) v
  | .num s => textDenotes k s v
  | .str s => textDenotes k s v
  | _ => false

/-- the dependency declared by `optional=dep` / `optional=!dep` holds -/
def depOK (o : Opts) (key : Str) (m : Obj) : Bool :=
  !o.optional ||
  match o.optionalDep with
  | [] => true
  | c :: d => if c = '!' then (!d.isEmpty && (hasKey d m != hasKey key m)) else hasKey (c :: d) m == hasKey key m

/-- the field may be left out (or be null) in this input -/
def declOptional (o : Opts) (m : Obj) : Bool :=
  o.optional &&
  match o.optionalDep with
  | [] => true
  | c :: d => if c = '!' then hasKey d m else !hasKey (c :: d) m

def rangeOK (o : Opts) (k : Option Kind) (x : J) : Bool :=
  match o.range, k with
  | some r, some k =>
    if k.isNumeric then (match numOf x with | some q => Range.contains r q | none => false) else true
  | _, _ => true

def optionsOK (o : Opts) (k : Option Kind) (x : J) : Bool :=
  o.options.isEmpty || k.isNone ||
  match textOf x with
  | some t => o.options.contains t
  | none => false

/-- the declarative counterpart of one field (`conv` = holds the supplied value, `absent` = what an absent
required field may hold, `dflt` = holds the default, `isZ` = untouched) -/
def fieldSat (c : Cfg) (name : Str) (tag : Option Str) (isSlice : Bool) (k : Option Kind) (m : Obj) (v : Val)
    (conv : J → Val → Bool) (absent : Val → Bool) (dflt : Str → Val → Bool) (isZ : Val → Bool) : Bool :=
  match tag with
  | none => isZ v
  | some tv =>
    match parseTagC c.repaired name tv with
    | .error _ => false
    | .ok (key, po) =>
      if key = "-".toList then isZ v
      else
        let o : Opts := effOpts po
        depOK o key m &&
        match getKey key m with
        | none =>
          if !o.default.isEmpty then dflt o.default v
          else if declOptional o m then isZ v
          else absent v
        | some j0 =>
          match fromArrayValue c isSlice j0 with
          | .null => declOptional o m && isZ v
          | j => rangeOK o k j && optionsOK o k j && conv j v

mutual
def isZero : Ty → Val → Bool
  | .prim .bool, v => scalarEq (.bool false) v
  | .prim (.int _), v => scalarEq (.int 0) v
  | .prim (.uint _), v => scalarEq (.int 0) v
  | .prim (.float _), v => scalarEq (.flt (.fin ⟨0, 0⟩)) v
  | .prim .string, v => scalarEq (.str []) v
  | .ptr _, v => match v with | .nil => true | _ => false
  | .slice _, v => match v with | .nil => true | _ => false
  | .map _, v => match v with | .nil => true | _ => false
  | .struct fs, v => match v with | .struct vs => isZeroFields fs vs | _ => false
def isZeroFields : Fields → VFields → Bool
  | .nil, vs => match vs with | .nil => true | _ => false
  | .cons name _ t rest, vs =>
    match vs with
    | .cons n v vs' => n == name && isZero t v && isZeroFields rest vs'
    | .nil => false
end

/-- positional correspondence of the elements of an array with the elements of a result list -/
def satElems (p : J → Val → Bool) : List J → VList → Bool
  | [], .nil => true
  | j :: rest, .cons v vs => p j v && satElems p rest vs
  | _, _ => false

/-- positional correspondence of the (canonical) entries of an object with the entries of a result map -/
def satEntries (p : J → Val → Bool) : Obj → VFields → Bool
  | [], .nil => true
  | (k, j) :: rest, .cons k' v vs => k == k' && p j v && satEntries p rest vs
  | _, _ => false

/-- the result of a supplied array: `[]` gives an empty slice, all-null leaves nil, else element by element -/
def sliceSat (p : J → Val → Bool) (l : List J) (v : Val) : Bool :=
  if l.isEmpty then (match v with | .list .nil => true | _ => false)
  else if allNull l then (match v with | .nil => true | _ => false)
  else match v with | .list vs => satElems p l vs | _ => false

def strListIs : List Str → VList → Bool
  | [], .nil => true
  | s :: rest, .cons v vs => scalarEq (.str s) v && strListIs rest vs
  | _, _ => false

def satDefault : Ty → Str → Val → Bool
  | .ptr t, d, v => match v with | .ptr v' => satDefault t d v' | _ => false
  | .prim k, d, v => match convertFromString k d with | .ok v' => scalarEq v' v | .error _ => false
  | .slice (.prim .string), d, v =>
    if (parseGroupedSegments d).isEmpty then (match v with | .nil => true | _ => false)
    else match v with | .list vs => strListIs (parseGroupedSegments d) vs | _ => false
  | _, _, _ => false

mutual
/-- `v` holds exactly the supplied value `j` at type `t` (and, for structs, the nested fields satisfy their constraints) -/
def satTy (c : Cfg) : Ty → J → Val → Bool
  | .ptr t, j, v => match v with | .ptr v' => satTy c t j v' | _ => false
  | .prim k, j, v => primDenotes k j v
  | .struct fs, j, v =>
    match j, v with
    | .obj m, .struct vs => satFields c fs m vs
    | _, _ => false
  | .slice t, j, v =>
    match j with
    | .arr l => sliceSat (fun j v => if j.isNull then isZero t v else satTy c t j v) l v
    | _ => false
  | .map t, j, v =>
    match j, v with
    | .obj m, .map vm => satEntries (fun j v => satTy c t j v) (canonObj m) vm
    | _, _ => false
/-- what a field that is absent, not optional and not defaulted may hold: only nested structs, as if `{}` was supplied -/
def satAbsent (c : Cfg) : Ty → Val → Bool
  | .ptr t, v => match v with | .ptr v' => satAbsent c t v' | _ => false
  | .prim _, _ => false
  | .struct fs, v => match v with | .struct vs => satFields c fs [] vs | _ => false
  | .slice _, _ => false
  | .map _, v => match v with | .map .nil => true | _ => false
def satFields (c : Cfg) : Fields → Obj → VFields → Bool
  | .nil, _, vs => match vs with | .nil => true | _ => false
  | .cons name tag t rest, m, vs =>
    match vs with
    | .cons n v vs' =>
      n == name
      && fieldSat c name tag t.isSlice (derefKind t) m v (fun j v => satTy c t j v) (fun v => satAbsent c t v)
           (fun d v => satDefault t d v) (fun v => isZero t v)
      && satFields c rest m vs'
    | .nil => false
end

/-- the property's acceptance condition for a struct type, a document and a result -/
def satisfies (c : Cfg) (ty : Ty) (j : J) (v : Val) : Bool :=
  match ty, j, v with
  | .struct fs, .obj m, .struct vs => satFields c fs m vs
  | _, _, _ => false

end GoZero.C08.Spec
