/-
C08 — specification.  `satisfies c ty j v`: the value `v` is an acceptable result of unmarshalling the
document `j` into the struct type `ty` — stated field by field from the *declared* tag options, not from
the unmarshaller's control flow:

  * a field whose key is absent from the input holds its declared default, or is declared optional
    (given its dependency) and holds the zero value, or is a nested struct and holds what unmarshalling the
    empty object gives — a scalar field that is neither optional nor defaulted must be supplied;
  * `optional=dep`: supplied iff `dep` is; `optional=!dep`: exactly one of the two is supplied;
  * a supplied numeric field lies inside its declared range (open/closed ends), a supplied field with
    declared options holds one of them;
  * the target holds exactly the value the supplied text denotes.

The same function is the run-time monitor evaluated on the implementation's own results.
-/
import GoZero.C08.Model
namespace GoZero.C08.Spec
open GoZero.C08

def Range.contains (r : Range) (q : Dec) : Bool :=
  (if r.leftInc then Dec.le r.left q else Dec.lt r.left q)
  && (if r.rightInc then Dec.le q r.right else Dec.lt q r.right)

/-- the text of a supplied scalar -/
def textOf : J → Option Str
  | .num s => some s
  | .str s => some s
  | .bool b => some (boolText b)
  | _ => none

/-- the finite number a supplied scalar denotes -/
def numOf : J → Option Dec
  | .num s => match floatSyntax s with | .ok (.fin d) => some d | _ => none
  | .str s => match floatSyntax s with | .ok (.fin d) => some d | _ => none
  | _ => none

def numEqv : Num → Num → Bool
  | .fin a, .fin b => Dec.eqv a b
  | .posInf, .posInf => true
  | .negInf, .negInf => true
  | .nan, .nan => true
  | _, _ => false

/-- scalar values are equal (floats by numeric value) -/
def scalarEq : Val → Val → Bool
  | .bool a, .bool b => a == b
  | .int a, .int b => a == b
  | .flt a, .flt b => numEqv a b
  | .str a, .str b => a == b
  | _, _ => false

/-- `v` is the value of kind `k` that the text `s` denotes -/
def textDenotes (k : Kind) (s : Str) (v : Val) : Bool :=
  match k with
  | .float _ => match floatSyntax s with | .ok x => scalarEq (.flt x) v | .error _ => false
  | _ => match convertFromString k s with | .ok v' => scalarEq v' v | .error _ => false

/-- `v` is exactly the supplied scalar `x` at kind `k` -/
def primDenotes (k : Kind) (x : J) (v : Val) : Bool :=
  match x with
  | .bool b => k = .bool && scalarEq (.bool b) v
  | .num s => textDenotes k s v
  | .str s => textDenotes k s v
  | _ => false

/-- the dependency declared by `optional=dep` / `optional=!dep` holds -/
def depOK (o : Opts) (key : Str) (m : Obj) : Bool :=
  !o.optional ||
  match o.optionalDep with
  | [] => true
  | c :: d => if c = '!' then (!d.isEmpty && (hasKey d m != hasKey key m)) else hasKey (c :: d) m == hasKey key m

/-- the field may be left out (or be null) in this input -/
def declOptional (o : Opts) (m : Obj) : Bool :=
  o.optional &&
  match o.optionalDep with
  | [] => true
  | c :: d => if c = '!' then hasKey d m else !hasKey (c :: d) m

def rangeOK (o : Opts) (k : Option Kind) (x : J) : Bool :=
  match o.range, k with
  | some r, some k =>
    if k.isNumeric then (match numOf x with | some q => Range.contains r q | none => false) else true
  | _, _ => true

def optionsOK (o : Opts) (k : Option Kind) (x : J) : Bool :=
  o.options.isEmpty || k.isNone ||
  match textOf x with
  | some t => o.options.contains t
  | none => false

/-- the declarative counterpart of one field (`conv` = holds the supplied value, `absent` = what an absent
required field may hold, `dflt` = holds the default, `isZ` = untouched) -/
def fieldSat (c : Cfg) (name : Str) (tag : Option Str) (isSlice : Bool) (k : Option Kind) (m : Obj) (v : Val)
    (conv : J → Val → Bool) (absent : Val → Bool) (dflt : Str → Val → Bool) (isZ : Val → Bool) : Bool :=
  match tag with
  | none => isZ v
  | some tv =>
    match parseTagC c.repaired name tv with
    | .error _ => false
    | .ok (key, po) =>
      if key = "-".toList then isZ v
      else
        let o : Opts := effOpts po
        depOK o key m &&
        match lookupKey c (optInherit po) key m with
        | .error _ => false
        | .ok none =>
          if !o.default.isEmpty then dflt o.default v
          else if declOptional o m then isZ v
          else absent v
        | .ok (some j0) =>
          match fromArrayValue c isSlice j0 with
          | .null => declOptional o m && isZ v
          | j => rangeOK o k j && optionsOK o k j && conv j v

mutual
def isZero : Ty → Val → Bool
  | .prim .bool, v => scalarEq (.bool false) v
  | .prim (.int _), v => scalarEq (.int 0) v
  | .prim (.uint _), v => scalarEq (.int 0) v
  | .prim (.float _), v => scalarEq (.flt (.fin ⟨0, 0⟩)) v
  | .prim .string, v => scalarEq (.str []) v
  | .ptr _, v => match v with | .nil => true | _ => false
  | .slice _, v => match v with | .nil => true | _ => false
  | .map _, v => match v with | .nil => true | _ => false
  | .struct fs, v => match v with | .struct vs => isZeroFields fs vs | _ => false
def isZeroFields : Fields → VFields → Bool
  | .nil, vs => match vs with | .nil => true | _ => false
  | .cons name _ t rest, vs =>
    match vs with
    | .cons n v vs' => n == name && isZero t v && isZeroFields rest vs'
    | .nil => false
end

/-- positional correspondence of the elements of an array with the elements of a result list -/
def satElems (p : J → Val → Bool) : List J → VList → Bool
  | [], .nil => true
  | j :: rest, .cons v vs => p j v && satElems p rest vs
  | _, _ => false

/-- positional correspondence of the (canonical) entries of an object with the entries of a result map -/
def satEntries (p : J → Val → Bool) : Obj → VFields → Bool
  | [], .nil => true
  | (k, j) :: rest, .cons k' v vs => k == k' && p j v && satEntries p rest vs
  | _, _ => false

/-- the result of a supplied array: `[]` gives an empty slice, all-null leaves nil, else element by element -/
def sliceSat (p : J → Val → Bool) (l : List J) (v : Val) : Bool :=
  if l.isEmpty then (match v with | .list .nil => true | _ => false)
  else if allNull l then (match v with | .nil => true | _ => false)
  else match v with | .list vs => satElems p l vs | _ => false

def strListIs : List Str → VList → Bool
  | [], .nil => true
  | s :: rest, .cons v vs => scalarEq (.str s) v && strListIs rest vs
  | _, _ => false

def satDefault : Ty → Str → Val → Bool
  | .ptr t, d, v => match v with | .ptr v' => satDefault t d v' | _ => false
  | .prim k, d, v => match convertFromString k d with | .ok v' => scalarEq v' v | .error _ => false
  | .slice (.prim .string), d, v =>
    if (parseGroupedSegments d).isEmpty then (match v with | .nil => true | _ => false)
    else match v with | .list vs => strListIs (parseGroupedSegments d) vs | _ => false
  | _, _, _ => false

mutual
/-- `v` holds exactly the supplied value `j` at type `t` (and, for structs, the nested fields satisfy their constraints) -/
def satTy (c : Cfg) : Ty → J → Val → Bool
  | .ptr t, j, v => match v with | .ptr v' => satTy c t j v' | _ => false
  | .prim k, j, v => primDenotes k j v
  | .struct fs, j, v =>
    match j, v with
    | .obj m, .struct vs => satFields c fs m vs
    | _, _ => false
  | .slice t, j, v =>
    match j with
    | .arr l => sliceSat (fun j v => if j.isNull then isZero t v else satTy c.top t j v) l v
    | _ => false
  | .map t, j, v =>
    match j, v with
    | .obj m, .map vm => satEntries (fun j v => satTy c.top t j v) (canonObj m) vm
    | _, _ => false
/-- what a field that is absent, not optional and not defaulted may hold: only nested structs, as if `{}` was supplied -/
def satAbsent (c : Cfg) : Ty → Val → Bool
  | .ptr t, v => match v with | .ptr v' => satAbsent c t v' | _ => false
  | .prim _, _ => false
  | .struct fs, v => match v with | .struct vs => satFields c.top fs [] vs | _ => false
  | .slice _, _ => false
  | .map _, v => match v with | .map .nil => true | _ => false
def satFields (c : Cfg) : Fields → Obj → VFields → Bool
  | .nil, _, vs => match vs with | .nil => true | _ => false
  | .cons name tag t rest, m, vs =>
    match vs with
    | .cons n v vs' =>
      n == name
      && fieldSat c name tag t.isSlice (derefKind t) m v (fun j v => satTy (c.nestIn m) t j v) (fun v => satAbsent c t v)
           (fun d v => satDefault t d v) (fun v => isZero t v)
      && satFields c rest m vs'
    | .nil => false
end

/-- the property's acceptance condition for a struct type, a document and a result -/
def satisfies (c : Cfg) (ty : Ty) (j : J) (v : Val) : Bool :=
  match ty, j, v with
  | .struct fs, .obj m, .struct vs => satFields c fs m vs
  | _, _, _ => false

/-! ## the converse: inputs that must be accepted

`complete c ty j`: the document `j` meets every declared constraint of the struct type `ty` with correctly typed
values — stated from the declared tag options and the kinds, not from the unmarshaller's control flow:

  * every tag parses, no option the model does not follow (`env=`, `inherit`, dotted keys);
  * `optional=dep` / `optional=!dep` hold on the input;
  * an absent field has a default whose text is a literal of the field's type, or is declared optional, or is a
    map, or is a nested struct none of whose fields is required and that accepts the empty object;
  * a null is supplied only for a field that is declared optional on this input;
  * a supplied scalar is correctly typed (`primOK`): outside string mode a JSON number whose literal is an integer
    literal of the bit size / a float64 literal (no float32 overflow), a JSON string for a string field, a JSON bool
    for a bool field; in string mode (`,string`, form/path/header values) a string or number whose text is a literal
    of the kind; it lies inside the declared range (a range is declared on numeric kinds only) and is one of the
    declared options;
  * arrays, objects for slices, maps, nested structs, element by element.
-/

/-- the text is a literal of kind `k` (`strconv` syntax and bit size; bool: 1/0/true/false in any case) -/
def textTyped (k : Kind) (s : Str) : Bool :=
  match convertFromString k s with | .ok _ => true | .error _ => false

/-- `json.Number.Float64` succeeds on the literal -/
def f64OK (lit : Str) : Bool :=
  match parseFloat 64 lit with | .ok _ => true | .error _ => false

/-- a JSON number is a correctly typed value of kind `k` outside string mode -/
def numTyped (k : Kind) (lit : Str) : Bool :=
  f64OK lit &&
  match k with
  | .int b => (match parseInt b lit with | .ok _ => true | .error _ => false)
  | .uint b => (match parseUint b lit with | .ok _ => true | .error _ => false)
  | .float b => (match parseFloat 64 lit with | .ok x => !(b = 32 && float32Overflows x) | .error _ => false)
  | _ => false

/-- the supplied scalar lies inside the declared range (no range: nothing to check) -/
def inRange (r : Option Range) (x : J) : Bool :=
  match r with
  | none => true
  | some r => match numOf x with | some q => Range.contains r q | none => false

def inOptions (opts : List Str) (x : J) : Bool :=
  opts.isEmpty || match textOf x with | some t => opts.contains t | none => false

/-- a supplied scalar for a field of kind `k`: correctly typed, inside the range, among the options -/
def primOK (fs : Bool) (r : Option Range) (opts : List Str) (k : Kind) (x : J) : Bool :=
  (r.isNone || k.isNumeric) && inRange r x && inOptions opts x &&
  (if fs then
     (match x with
      | .str s => textTyped k s
      | .num lit => textTyped k lit && f64OK lit
      | _ => false)
   else
     (match x with
      | .num lit => numTyped k lit
      | .str _ => k = .string
      | .bool _ => k = .bool
      | _ => false))

def allJ (p : J → Bool) : List J → Bool
  | [] => true
  | j :: rest => p j && allJ p rest

def allEntries (p : J → Bool) : Obj → Bool
  | [] => true
  | (_, j) :: rest => p j && allEntries p rest

/-- the declarative counterpart of one field for the converse direction (`okv` = the supplied value is fine given
string mode, range and options; `okAbs` = the field may be absent although required; `okDflt` = the default is a
literal of the type) -/
def fieldOK (c : Cfg) (name : Str) (tag : Option Str) (isSlice : Bool) (m : Obj)
    (okv : Bool → Option Range → List Str → J → Bool) (okAbs : Bool) (okDflt : Str → Bool) : Bool :=
  match tag with
  | none => true
  | some tv =>
    match parseTagC c.repaired name tv with
    | .error _ => false
    | .ok (key, po) =>
      depOK (effOpts po) key m &&
      (key = "-".toList ||
       (
        match lookupKey c (optInherit po) key m with
        | .error _ => false
        | .ok none =>
          if !(effOpts po).default.isEmpty then okDflt (effOpts po).default
          else (declOptional (effOpts po) m || okAbs)
        | .ok (some j0) =>
          match fromArrayValue c isSlice j0 with
          | .null => declOptional (effOpts po) m
          | j => okv (effOpts po).fromString (effOpts po).range (effOpts po).options j))

mutual
/-- the supplied (non-null) value `j` is fine for a field of type `t` -/
def okTy (c : Cfg) (fs : Bool) (r : Option Range) (opts : List Str) : Ty → J → Bool
  | .ptr t, j => okTy c fs r opts t j
  | .prim k, j => primOK (c.fromString || fs) r opts k j
  | .struct fs', j => match j with | .obj m => okFields c fs' m | _ => false
  | .slice t, j => match j with | .arr l => allJ (fun j => j.isNull || okElem c.top t j) l | _ => false
  | .map t, j => match j with | .obj m => allEntries (fun j => okMapElem c.top t j) (canonObj m) | _ => false
/-- a non-null element of an array: numbers and strings whose text is a literal of the kind, bools for bools -/
def okElem (c : Cfg) : Ty → J → Bool
  | .ptr t, j => okElem c t j
  | .prim k, j =>
    match j with
    | .num s => textTyped k s
    | .str s => textTyped k s
    | .bool _ => k = .bool
    | _ => false
  | .struct fs, j => match j with | .obj m => okFields c fs m | _ => false
  | .slice t, j => match j with | .arr l => allJ (fun j => j.isNull || okElem c.top t j) l | _ => false
  | .map t, j => match j with | .obj m => allEntries (fun j => okMapElem c.top t j) (canonObj m) | _ => false
/-- a value of an object for a map field -/
def okMapElem (c : Cfg) : Ty → J → Bool
  | .ptr t, j => okMapElem c t j
  | .prim k, j =>
    match j with
    | .bool _ => k = .bool
    | .str _ => k = .string
    | .num lit => textTyped k lit
    | _ => false
  | .struct fs, j => match j with | .obj m => okFields c fs m | _ => false
  | .slice t, j => match j with | .arr l => allJ (fun j => j.isNull || okElem c.top t j) l | _ => false
  | .map t, j => match j with | .obj m => allEntries (fun j => okMapElem c.top t j) (canonObj m) | _ => false
/-- a field that is neither optional nor defaulted may still be absent: maps, and nested structs without required fields -/
def okAbsent (c : Cfg) : Ty → Bool
  | .ptr t => okAbsent c t
  | .prim _ => false
  | .struct fs => (match structRequired fs with | .ok false => true | _ => false) && okFields c.top fs []
  | .slice _ => false
  | .map _ => true
def okFields (c : Cfg) : Fields → Obj → Bool
  | .nil, _ => true
  | .cons name tag t rest, m =>
    fieldOK c name tag t.isSlice m (fun fs r opts j => okTy (c.nestIn m) fs r opts t j) (okAbsent c t)
      (fun d => match defaultVal c.repaired t d with | .ok _ => true | .error _ => false)
    && okFields c rest m
end

/-- the document meets all declared constraints of the type with correctly typed values -/
def complete (c : Cfg) (ty : Ty) (j : J) : Bool :=
  match ty, j with
  | .struct fs, .obj m => okFields c fs m
  | _, _ => false

end GoZero.C08.Spec
