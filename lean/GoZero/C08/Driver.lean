/-
C08 — driver.  One trace line = one unmarshal:
  u key=<k> fs=<0/1> fa=<0/1> T <type tokens> I <input tokens>  =>  ok <value dump> | err <class> | PANIC …
Correspondence: the model's verdict and value equal the implementation's.  Monitors (on the implementation's own
observation): an accepted result must satisfy `Spec.satisfies`; an input that is `Spec.complete` (all declared
constraints met with correctly typed values) must be accepted; a panic is a violation.  Where the model answers
`outside` (inherit, dotted keys, string-encoded containers) only the panic monitor applies.
-/
import GoZero.Base.Trace
import GoZero.C08.Spec
namespace GoZero.C08

open GoZero

def primOfToken : String → Option Kind
  | "bool" => some .bool | "int" => some (.int 64) | "i8" => some (.int 8) | "i16" => some (.int 16)
  | "i32" => some (.int 32) | "i64" => some (.int 64) | "uint" => some (.uint 64) | "u8" => some (.uint 8)
  | "u16" => some (.uint 16) | "u32" => some (.uint 32) | "u64" => some (.uint 64) | "f32" => some (.float 32)
  | "f64" => some (.float 64) | "str" => some .string | _ => none

def dropPrefix (pre s : String) : Option Str :=
  if s.startsWith pre then some (s.toList.drop pre.length) else none

mutual
def parseTyT : Nat → List String → Option (Ty × List String)
  | 0, _ => none
  | fuel + 1, toks =>
    match toks with
    | "*" :: rest => (parseTyT fuel rest).map fun (t, r) => (.ptr t, r)
    | "[]" :: rest => (parseTyT fuel rest).map fun (t, r) => (.slice t, r)
    | "map" :: rest => (parseTyT fuel rest).map fun (t, r) => (.map t, r)
    | "{" :: rest => (parseFieldsT fuel rest).map fun (fs, r) => (.struct fs, r)
    | t :: rest => (primOfToken t).map fun k => (.prim k, rest)
    | [] => none
def parseFieldsT : Nat → List String → Option (Fields × List String)
  | 0, _ => none
  | fuel + 1, toks =>
    match toks with
    | "}" :: rest => some (.nil, rest)
    | name :: rest =>
      match parseTyT fuel rest with
      | some (t, tag :: r2) =>
        let tg : Option (Option Str) :=
          if tag = "x" then some none else (dropPrefix "t:" tag).map some
        match tg with
        | none => none
        | some tg =>
          match parseFieldsT fuel r2 with
          | some (fs, r3) => some (.cons name.toList tg t fs, r3)
          | none => none
      | _ => none
    | [] => none
end

def isJsonNumber (s : Str) : Bool :=
  let s1 := if s.head? = some '-' then s.tail else s
  let ip := (takeDigits s1).1
  let r1 := (takeDigits s1).2
  let ipOk := !ip.isEmpty && (ip.length = 1 || ip.head? ≠ some '0')
  let hasDot := r1.head? = some '.'
  let fp := if hasDot then (takeDigits r1.tail).1 else []
  let r2 := if hasDot then (takeDigits r1.tail).2 else r1
  let fpOk := !hasDot || !fp.isEmpty
  let expOk := match r2 with
    | [] => true
    | e :: r3 =>
      (e = 'e' || e = 'E') &&
      (let r4 := if r3.head? = some '-' ∨ r3.head? = some '+' then r3.tail else r3
       !r4.isEmpty && r4.all isDigit)
  ipOk && fpOk && expOk

mutual
def parseJT : Nat → List String → Option (J × List String)
  | 0, _ => none
  | fuel + 1, toks =>
    match toks with
    | "{" :: rest => (parseObjT fuel rest).map fun (m, r) => (.obj m, r)
    | "[" :: rest => (parseArrT fuel rest).map fun (l, r) => (.arr l, r)
    | "null" :: rest => some (.null, rest)
    | "true" :: rest => some (.bool true, rest)
    | "false" :: rest => some (.bool false, rest)
    | t :: rest =>
      match dropPrefix "n:" t with
      | some lit => if isJsonNumber lit then some (.num lit, rest) else none
      | none => (dropPrefix "s:" t).map fun s => (.str s, rest)
    | [] => none
def parseObjT : Nat → List String → Option (Obj × List String)
  | 0, _ => none
  | fuel + 1, toks =>
    match toks with
    | "}" :: rest => some ([], rest)
    | k :: rest =>
      match parseJT fuel rest with
      | some (v, r2) => (parseObjT fuel r2).map fun (m, r3) => ((k.toList, v) :: m, r3)
      | none => none
    | [] => none
def parseArrT : Nat → List String → Option (List J × List String)
  | 0, _ => none
  | fuel + 1, toks =>
    match toks with
    | "]" :: rest => some ([], rest)
    | _ =>
      match parseJT fuel toks with
      | some (v, r2) => (parseArrT fuel r2).map fun (l, r3) => (v :: l, r3)
      | none => none
end

def parseFloatDump (s : Str) : Option Num :=
  if s = "NaN".toList then some .nan
  else if s = "+Inf".toList then some .posInf
  else if s = "-Inf".toList then some .negInf
  else match parseDec s with | .ok d => some (.fin d) | .error _ => none

def parseIntDump (s : Str) : Option Int :=
  let neg := s.head? = some '-'
  let body := if neg then s.tail else s
  if body.isEmpty || !body.all isDigit then none
  else some (if neg then -(digitsVal body 0 : Int) else (digitsVal body 0 : Int))

mutual
def parseValT : Nat → List String → Option (Val × List String)
  | 0, _ => none
  | fuel + 1, toks =>
    match toks with
    | "{" :: rest => (parseVFieldsT fuel rest).map fun (fs, r) => (.struct fs, r)
    | "m{" :: rest => (parseVFieldsT fuel rest).map fun (fs, r) => (.map fs, r)
    | "[" :: rest => (parseVListT fuel rest).map fun (l, r) => (.list l, r)
    | "&" :: rest => (parseValT fuel rest).map fun (v, r) => (.ptr v, r)
    | "nil" :: rest => some (.nil, rest)
    | "b:true" :: rest => some (.bool true, rest)
    | "b:false" :: rest => some (.bool false, rest)
    | t :: rest =>
      match dropPrefix "i:" t with
      | some s => (parseIntDump s).map fun i => (.int i, rest)
      | none =>
        match dropPrefix "f:" t with
        | some s => (parseFloatDump s).map fun x => (.flt x, rest)
        | none => (dropPrefix "s:" t).map fun s => (.str s, rest)
    | [] => none
def parseVFieldsT : Nat → List String → Option (VFields × List String)
  | 0, _ => none
  | fuel + 1, toks =>
    match toks with
    | "}" :: rest => some (.nil, rest)
    | k :: rest =>
      match parseValT fuel rest with
      | some (v, r2) => (parseVFieldsT fuel r2).map fun (fs, r3) => (.cons k.toList v fs, r3)
      | none => none
    | [] => none
def parseVListT : Nat → List String → Option (VList × List String)
  | 0, _ => none
  | fuel + 1, toks =>
    match toks with
    | "]" :: rest => some (.nil, rest)
    | _ =>
      match parseValT fuel toks with
      | some (v, r2) => (parseVListT fuel r2).map fun (l, r3) => (.cons v l, r3)
      | none => none
end

mutual
def valAgree : Val → Val → Bool
  | .bool a, .bool b => a == b
  | .int a, .int b => a == b
  | .flt a, .flt b => Spec.numEqv a b
  | .str a, .str b => a == b
  | .nil, .nil => true
  | .ptr a, .ptr b => valAgree a b
  | .struct a, .struct b => vfAgree a b
  | .map a, .map b => vfAgree a b
  | .list a, .list b => vlAgree a b
  | _, _ => false
def vfAgree : VFields → VFields → Bool
  | .nil, .nil => true
  | .cons k v r, .cons k' v' r' => k == k' && valAgree v v' && vfAgree r r'
  | _, _ => false
def vlAgree : VList → VList → Bool
  | .nil, .nil => true
  | .cons v r, .cons v' r' => valAgree v v' && vlAgree r r'
  | _, _ => false
end

structure Op where
  cfg : Cfg
  ty : Ty
  input : J

def parseOp (toks : List String) : Option Op :=
  match toks with
  | _ :: k :: fs :: fa :: "T" :: rest =>
    let cfgToks := [k, fs, fa]
    match parseTyT (rest.length + 1) rest with
    | some (ty, "I" :: r2) =>
      match parseJT (r2.length + 1) r2 with
      | some (j, []) =>
        -- fs: 0 = no option, 1 = WithStringValues + WithOpaqueKeys (rest/httpx form / path), 2 = WithStringValues,
        -- 3 = WithOpaqueKeys; key=header: WithStringValues + WithCanonicalKeyFunc (never opaque)
        let fs := kvNat cfgToks "fs"
        let hdr := kvStr cfgToks "key" = "header"
        some { cfg := { fromString := fs = 1 || fs = 2, fromArray := kvNat cfgToks "fa" = 1,
                        canonical := hdr, opaqueKeys := (fs = 1 || fs = 3) && !hdr }, ty := ty, input := j }
      | _ => none
    | _ => none
  | _ => none

/-- coverage label of a model result -/
def resultLabel : Except Err Val → String
  | .ok _ => "accept"
  | .error e => "reject-" ++ e.name

mutual
def tyFeatures : Ty → List String
  | .prim .bool => ["kind-bool"]
  | .prim (.int _) => ["kind-int"]
  | .prim (.uint _) => ["kind-uint"]
  | .prim (.float _) => ["kind-float"]
  | .prim .string => ["kind-string"]
  | .ptr t => (if t.isContainer then "ptr-to-container" else "ptr") :: tyFeatures t
  | .slice t => "slice" :: tyFeatures t
  | .map t => "map" :: tyFeatures t
  | .struct fs => "struct" :: fieldsFeatures fs
def fieldsFeatures : Fields → List String
  | .nil => []
  | .cons name tag t rest =>
    (match tag with
     | none => ["tag-otherkey"]
     | some tv =>
       match parseTag name tv with
       | .error _ => ["tag-malformed"]
       | .ok (_, none) => ["tag-noopts"]
       | .ok (_, some o) =>
         (if o.optional then (if o.optionalDep.isEmpty then ["opt-optional"] else
            if o.optionalDep.head? = some '!' then ["opt-optional-notdep"] else ["opt-optional-dep"]) else [])
         ++ (if o.default.isEmpty then [] else ["opt-default"])
         ++ (if o.range.isSome then ["opt-range"] else [])
         ++ (if o.options.isEmpty then [] else ["opt-options"])
         ++ (if o.fromString then ["opt-string"] else [])
         ++ (if o.inherit then ["opt-inherit"] else [])
         ++ (if o.envVar.isEmpty then [] else ["opt-env(unset)"])
         ++ (if o.optional && !o.optionalDep.isEmpty && o.range.isSome then ["opt-dep+range"] else []))
    ++ tyFeatures t ++ fieldsFeatures rest
end

/-- keys with dots: which way the lookup went (generator quality counters) -/
def dottedFeatures (c : Cfg) (key : Str) (m : Obj) : List String :=
  if !key.contains '.' then []
  else if c.opaqueKeys then
    ["key-dotted-opaque", if hasKey key m then "key-dotted-opaque-literal-found" else
      (match dottedLookup false false [] (fieldsDot key) m with
       | .ok (some _) => "key-dotted-opaque-absent-but-nested-path-exists"
       | _ => "key-dotted-opaque-absent")]
  else
    ["key-dotted-chained", s!"key-dotted-segments-{(fieldsDot key).length}"] ++
    (if (fieldsDot key).length < (splitOnChar '.' key).length then ["key-dotted-empty-segment"] else []) ++
    (if hasKey key m then ["key-dotted-chained-literal-binding-ignored"] else []) ++
    (match lookupKey c false key m with
     | .ok (some _) =>
       -- found in the innermost object, or inherited from an enclosing one
       (match (fieldsDot key).getLast?, (fieldsDot key).head? with
        | some lastk, some k0 =>
          (match getKey k0 m with
           | some (.obj _) => if hasKey lastk m && (fieldsDot key).length > 1 then ["key-dotted-chained-found(enclosing-binds-the-last-segment-too)"] else ["key-dotted-chained-found"]
           | _ => ["key-dotted-chained-found"])
        | _, _ => ["key-dotted-chained-found"])
     | .ok none =>
       (match (fieldsDot key).head? with
        | some k0 => (match getKey k0 m with
                      | some (.obj _) => ["key-dotted-chained-absent(path-ends-inside)"]
                      | some _ => ["key-dotted-chained-absent(first-segment-not-an-object)"]
                      | none => ["key-dotted-chained-absent(first-segment-absent)"])
        | none => ["key-dotted-chained-absent(no-segments)"])
     | .error _ => ["key-dotted-chained-outside(unknown-ancestors-or-merge)"])

/-- interesting states of the top-level fields of one input (generator quality counters) -/
def inputFeatures (c : Cfg) : Fields → Obj → List String
  | .nil, _ => []
  | .cons name tag t rest, m =>
    (match tag with
     | none => []
     | some tv =>
       match parseTagC c name tv with
       | .ok (key, some o) =>
         dottedFeatures c key m ++
         match (match lookupKey c o.inherit key m with | .ok x => x | .error _ => none) with
         | none =>
           (if !o.default.isEmpty then ["in-default-filled"] else [])
           ++ (if Spec.declOptional o m then ["in-absent-optional"] else [])
           ++ (if o.optional && !o.optionalDep.isEmpty && !Spec.declOptional o m then ["in-absent-dep-violated"] else [])
         | some .null => ["in-null"]
         | some j =>
           (match o.range, Spec.numOf (fromArrayValue c t.isSlice j) with
            | some r, some q =>
              (if Dec.eqv q r.left || Dec.eqv q r.right then
                 [if (Dec.eqv q r.left && r.leftInc) || (Dec.eqv q r.right && r.rightInc) then "in-range-at-closed-bound"
                  else "in-range-at-open-bound"] else [])
              ++ (if Spec.Range.contains r q then ["in-range-inside"] else ["in-range-outside"])
              ++ (if Dec.eqv r.left maxFloat64.neg then
                    ["in-range-halfopen-left"] ++ (if Dec.le q ⟨0, 0⟩ && Spec.Range.contains r q then
                      ["in-range-halfopen-left-nonpositive-inside" ++ (if (derefKind t).isSome && t.isSlice = false &&
                          (match t with | .ptr _ => true | _ => false) then "(ptr)" else "")] else [])
                  else [])
              ++ (if Dec.eqv r.right maxFloat64 then ["in-range-halfopen-right"] else [])
              ++ (if !o.optionalDep.isEmpty then ["in-dep+range-supplied"] else [])
            | some _, none => ["in-range-nonnumeric"]
            | none, _ => [])
           ++ (if !o.options.isEmpty then
                 [if Spec.optionsOK o (derefKind t) (fromArrayValue c t.isSlice j) then "in-options-member" else "in-options-nonmember"]
               else [])
           ++ (if o.optional && !o.optionalDep.isEmpty then ["in-dep-supplied"] else [])
       | .ok (key, none) => dottedFeatures c key m ++ (if (getKey key m).isNone then ["in-absent-required"] else [])
       | .error _ => [])
    ++ inputFeatures c rest m

def dedup (l : List String) : List String :=
  l.foldl (fun acc x => if acc.contains x then acc else acc ++ [x]) []

/-- significant digits of the mantissa of a number literal (float64 carries 15 of them exactly) -/
def sigDigits (s : Str) : Nat :=
  ((dropWhileL (fun c => c = '0') ((s.takeWhile (fun c => c ≠ 'e' && c ≠ 'E')).filter isDigit))).length

/-- the document a front end (YAML / TOML → JSON, conf's key lowering) hands on holds the values that were supplied:
same structure, strings, bools and nulls, numbers with the same value (literals beyond 15 significant digits are rounded by
the front ends' float64 and are not compared); `keyEq` compares object keys (conf lowers them) -/
def docEquivF (keyEq : Str → Str → Bool) : Nat → J → J → Bool
  | 0, _, _ => false
  | fuel + 1, a, b =>
    match a, b with
    -- core/conf (toLowerCaseInterface) hands an empty array on as a nil slice, written `[ null ]` by the harness
    | .arr [], .arr [.null] => true
    | .null, .null => true
    -- a number literal beyond the float64 range is not a number to YAML: it is handed on as the text it was
    | .num x, .str y => x == y && (match parseFloat 64 x with | .error .overflow => true | _ => false)
    | .bool x, .bool y => x == y
    | .str x, .str y => x == y
    | .num x, .num y =>
      x == y || sigDigits x > 15 ||
        (match floatSyntax x, floatSyntax y with
         | .ok (.fin p), .ok (.fin q) => Dec.eqv p q
         | _, _ => false)
    | .arr x, .arr y => x.length == y.length && (x.zip y).all fun pq => docEquivF keyEq fuel pq.1 pq.2
    | .obj x, .obj y =>
      -- every binding handed on comes from a supplied binding with an equal key, and no supplied key is lost
      (canonObj y).all (fun kv => (canonObj x).any fun kv' => keyEq kv'.1 kv.1 && docEquivF keyEq fuel kv'.2 kv.2)
      && (canonObj x).all (fun kv' => (canonObj y).any fun kv => keyEq kv'.1 kv.1)
    | _, _ => false

def jSize : J → Nat
  | .arr l => 1 + jSizeL l
  | .obj m => 1 + jSizeO m
  | _ => 1
where
  jSizeL : List J → Nat
    | [] => 0
    | j :: rest => jSize j + jSizeL rest
  jSizeO : List (Str × J) → Nat
    | [] => 0
    | (_, j) :: rest => jSize j + jSizeO rest

def docEquiv (keyEq : Str → Str → Bool) (a b : J) : Bool :=
  docEquivF keyEq (jSize a + jSize b + 2) a b

/-- core/conf hands the unmarshaller a document in which every key that names a field of the struct at that place
(up to case) is written in lower case — otherwise the lower-casing unmarshaller cannot find it -/
def confKeysLowered : Nat → Ty → J → Bool
  | 0, _, _ => true
  | fuel + 1, t, j =>
    match t, j with
    | .ptr t', _ => confKeysLowered fuel t' j
    | .struct fs, .obj m =>
      m.all fun kv =>
        let rec go : Fields → Bool
          | .nil => true
          | .cons name tag ft rest =>
            (match tag with
             | some tv =>
               match parseTag name tv with
               | .ok (key, _) => if lower key = lower kv.1 then kv.1 = lower kv.1 && confKeysLowered fuel ft kv.2 else true
               | .error _ => true
             | none => true) && go rest
        go fs
    | .slice t', .arr l => l.all fun x => confKeysLowered fuel t' x
    | .map t', .obj m => m.all fun kv => confKeysLowered fuel t' kv.2
    | _, _ => true

/-- one unmarshal of the document `doc` under `op.cfg` into `op.ty`, compared with the observation `obs` -/
def runU (r : Report) (sec : Nat) (l : Line) (op : Op) (mode : String) (obs : List String) : Report := Id.run do
    let mut r := { r with ops := r.ops + 1 }
    let res := unmarshal op.cfg op.ty op.input
    r := r.addCover (resultLabel res)
    r := r.addCover mode
    for f in dedup (tyFeatures op.ty) do r := r.addCover f
    match op.ty, op.input with
    | .struct fs, .obj m => for f in dedup (inputFeatures op.cfg.repaired fs m) do r := r.addCover f
    | _, _ => r := r.addCover "in-toplevel-not-object"
    let impl := joinSp obs
    let cmpl := Spec.complete op.cfg op.ty op.input
    let outside := match res with | .error .outside => true | _ => false
    if outside then r := r.addCover "model-outside(panic-monitor-only)"
    match obs with
    | "ok" :: vt =>
      match parseValT (vt.length + 1) vt with
      | some (v, []) =>
        if !outside then
          r := r.addCover (if cmpl then "accepted-and-complete" else "accepted-not-complete")
          -- monitor: the property on the implementation's own result
          if !Spec.satisfies op.cfg op.ty op.input v then
            r := r.violation sec l.idx s!"accepted-but-constraints-violated op=[{joinSp l.op}] impl=[{impl}]"
          match res with
          | .ok mv => if !valAgree mv v then r := r.mismatch sec l.idx "ok(other value)" impl
          | .error e => r := r.mismatch sec l.idx s!"err {e.name}" impl
      | _ => r := r.mismatch sec l.idx "unparsable-value" impl
    | ["err", cls] =>
      if !outside then
        -- monitor: the converse direction of the property
        if cmpl then
          r := r.violation sec l.idx s!"rejected-but-constraints-met op=[{joinSp l.op}] impl=[{impl}]"
        else r := r.addCover "rejected-not-complete"
        match res with
        | .ok _ => r := r.mismatch sec l.idx "ok" impl
        | .error e =>
          if e.name ≠ cls then
            -- Go iterates maps in random order: when several entries of a map fail, which error is reported
            -- first is not determined; the verdict (reject) is compared, the class is not
            if (tyFeatures op.ty).contains "map" then r := r.addCover "map-order-ambiguous-error"
            else r := r.mismatch sec l.idx s!"err {e.name}" impl
    | "PANIC" :: _ =>
      r := r.violation sec l.idx s!"panic op=[{joinSp l.op}] impl=[{impl}]"
      match res with
      | .error .panic => pure ()
      | .error .outside => pure ()
      | _ => r := r.mismatch sec l.idx (resultLabel res) impl
    | _ => r := r.mismatch sec l.idx "unparsable-observation" impl
    return r

def cfgMode (c : Cfg) : String :=
  if c.canonical then "mode-header" else if c.fromArray then "mode-form"
  else if c.fromString then "mode-fromstring" else "mode-json"

def runLine (r : Report) (sec : Nat) (l : Line) : Report :=
  match parseOp l.op with
  | none => r.mismatch sec l.idx "bad-op" (joinSp l.op)
  | some op => runU r sec l op (cfgMode op.cfg) l.obs

/-- `uy` / `ut`: the document written as YAML / TOML through `UnmarshalYamlBytes` / `UnmarshalTomlBytes`.  Observation:
`D <the JSON document the front end produced | none> R <result>`.  Monitors: a panic; the produced document holds the
supplied values (`docEquiv`); then every monitor of `u` on the produced document. -/
def runFrontEnd (r : Report) (sec : Nat) (l : Line) (mode : String) (conf yaml : Bool) : Report :=
  match parseOp l.op with
  | none => r.mismatch sec l.idx "bad-op" (joinSp l.op)
  | some op0 =>
    -- core/conf: the JSON unmarshaler with WithCanonicalKeyFunc(strings.ToLower); the handed-on document has lowered keys
    -- uy / ut: `fa=1` selects the Reader form of the front end, not WithFromArray
    let reader := !conf && op0.cfg.fromArray
    let op : Op := if conf then { op0 with cfg := { lower := true } } else { op0 with cfg := { op0.cfg with fromArray := false, opaqueKeys := false } }
    let mode := if reader then mode ++ "(Reader)" else mode
    let keyEq : Str → Str → Bool := if conf then (fun a b => lower a == lower b) else (· == ·)
    match l.obs with
    | "PANIC" :: _ => (r.violation sec l.idx s!"panic op=[{joinSp l.op}] impl=[{joinSp l.obs}]")
    | "D" :: "none" :: "R" :: rest =>
      -- the front end refused the text (a number outside its range, a top level that is not an object, …): the
      -- unmarshaller must refuse too
      let r := { r with ops := r.ops + 1 }
      let r := (r.addCover mode).addCover "frontend-refused-the-text"
      if rest = ["err", "convert"] then r
      else r.violation sec l.idx s!"accepted-although-the-front-end-refused op=[{joinSp l.op}] impl=[{joinSp l.obs}]"
    | "D" :: dt =>
      match parseJT (dt.length + 1) dt with
      | some (doc, "R" :: obs) =>
        let nullDoc := conf && (match op.input, doc with | .null, .obj [] => true | _, _ => false)
        -- the model of the front end: YAML hands a null on as the empty string (`Model.yamlNulls true`; a documented domain
        -- restriction of the converse clause, Props.yaml_null_witness), JSON and TOML hand the document on as it is
        let expected := if yaml then yamlNulls true op.input else op.input
        let r := if nullDoc then r.addCover "conf-null-document-is-the-empty-configuration"
          else if docEquiv keyEq expected doc then
            (if yaml && !(docEquiv (· == ·) op.input expected) then
               r.addCover "frontend-yaml-null-is-empty-string(outside-domain)"
             else r.addCover "frontend-document-equivalent")
          else if yaml && docEquiv keyEq op.input doc then
            r.mismatch sec l.idx "yaml-null-is-the-empty-string" s!"the YAML front end kept a null: {joinSp l.obs}"
          else r.violation sec l.idx s!"front-end-changed-the-supplied-values op=[{joinSp l.op}] impl=[{joinSp l.obs}]"
        let r := if conf && !(docEquiv (· == ·) expected doc) then r.addCover "conf-keys-lowered" else r
        let r := if conf && !(confKeysLowered (jSize doc + 2) op.ty doc) then
            r.violation sec l.idx s!"conf-field-key-not-lowered op=[{joinSp l.op}] impl=[{joinSp l.obs}]"
          else r
        runU r sec l { op with input := doc } mode obs
      | _ => r.mismatch sec l.idx "unparsable-observation" (joinSp l.obs)
    | _ => r.mismatch sec l.idx "unparsable-observation" (joinSp l.obs)

/-! ### `p`: one request through `httpx.Parse`; `pp` / `pf` / `ph` / `pj`: the same request through `ParsePath` /
`ParseForm` / `ParseHeaders` (→ `encoding.ParseHeaders`) / `ParseJsonBody` alone
  p T { Name ty t:<key>|<tag value> … } P { k s:v … } F { k [ s:v … ] … } H { k [ s:v … ] | k null … } B <json value | none>
A header / form key may carry zero values: `k [ ]` (empty slice) or `k null` (nil slice). -/

structure POp where
  fs : Fields
  p : Obj
  f : List (Str × List Str)
  h : List (Str × HVals)
  b : Option J

def strOf : J → Option Str
  | .str s => some s
  | _ => none

/-- form values: a nil and an empty value list are the same to `GetFormValues` (nothing left after filtering) -/
def multiOf : Obj → Option (List (Str × List Str))
  | [] => some []
  | (k, .arr l) :: rest =>
    match l.mapM strOf, multiOf rest with
    | some vs, some r => some ((k, vs) :: r)
    | _, _ => none
  | (k, .null) :: rest => (multiOf rest).map fun r => (k, []) :: r
  | _ => none

def hmultiOf : Obj → Option (List (Str × HVals))
  | [] => some []
  | (k, .arr l) :: rest =>
    match l.mapM strOf, hmultiOf rest with
    | some vs, some r => some ((k, some vs) :: r)
    | _, _ => none
  | (k, .null) :: rest => (hmultiOf rest).map fun r => (k, none) :: r
  | _ => none

def parsePOp (toks : List String) : Option POp :=
  match toks with
  | _ :: "T" :: rest =>
    match parseTyT (rest.length + 1) rest with
    | some (.struct fs, "P" :: r1) =>
      match parseJT (r1.length + 1) r1 with
      | some (.obj p, "F" :: r2) =>
        match parseJT (r2.length + 1) r2 with
        | some (.obj f, "H" :: r3) =>
          match parseJT (r3.length + 1) r3 with
          | some (.obj h, "B" :: r4) =>
            match multiOf f, hmultiOf h with
            | some f', some h' =>
              if r4 = ["none"] then some { fs := fs, p := p, f := f', h := h', b := none }
              else match parseJT (r4.length + 1) r4 with
                | some (j, []) => some { fs := fs, p := p, f := f', h := h', b := some j }
                | _ => none
            | _, _ => none
          | _ => none
        | _ => none
      | _ => none
    | _ => none
  | _ => none

def fieldKeyOf (tag : Option Str) : Str := match tag with | some tv => (splitTag tv).1 | none => []

/-- the part of a `Parse` result that the unmarshaler with tag key `key` is responsible for (zero elsewhere) -/
def viewVals (key : Str) : Fields → VFields → VFields
  | .cons n tag t rest, .cons _ v r => .cons n (if fieldKeyOf tag = key then v else zero t) (viewVals key rest r)
  | _, _ => .nil

def keyCover : Fields → List String
  | .nil => []
  | .cons _ tag t rest => ("http-field-" ++ String.ofList (fieldKeyOf tag)) :: (tyFeatures t ++ keyCover rest)

/-- which of the four unmarshalers an op runs -/
structure Sel where
  path : Bool
  form : Bool
  header : Bool
  json : Bool

def selOf : String → Option (Sel × String)
  | "p" => some (⟨true, true, true, true⟩, "httpx.Parse")
  | "pp" => some (⟨true, false, false, false⟩, "httpx.ParsePath")
  | "pf" => some (⟨false, true, false, false⟩, "httpx.ParseForm")
  | "ph" => some (⟨false, false, true, false⟩, "httpx.ParseHeaders")
  | "pj" => some (⟨false, false, false, true⟩, "httpx.ParseJsonBody")
  | _ => none

/-- the model of one of `ParsePath` / `ParseForm` / `ParseHeaders` / `ParseJsonBody` alone: the fields of the other
tag keys stay untouched; all four = `httpParse` -/
def httpParseSel (sel : Sel) (op : POp) : Except Err VFields :=
  if sel.path && sel.form && sel.header && sel.json then httpParse false op.fs op.p op.f op.h op.b
  else
    let part (run : Bool) (key : String) (x : Except Err VFields) : Except Err VFields :=
      if run then x else .ok (zeroFields (viewFields key.toList op.fs))
    match part sel.path "path" (httpParsePath false op.fs op.p) with
    | .error e => .error e
    | .ok v1 =>
      match part sel.form "form" (httpParseForm false op.fs op.f) with
      | .error e => .error e
      | .ok v2 =>
        match part sel.header "header" (httpParseHeaders false op.fs op.h) with
        | .error e => .error e
        | .ok v3 =>
          match part sel.json "json" (httpParseJsonBody false op.fs op.b) with
          | .error e => .error e
          | .ok v4 => .ok (mergeViews op.fs v1 v2 v3 v4)

def runPLine (r : Report) (sec : Nat) (l : Line) : Report :=
  match (l.op.head?.bind selOf), parsePOp l.op with
  | some (sel, fname), some op => Id.run do
    let mut r := { r with ops := r.ops + 1 }
    let res := httpParseSel sel op
    let vp := viewFields "path".toList op.fs
    let vf := viewFields "form".toList op.fs
    let vh := viewFields "header".toList op.fs
    let vj := viewFields "json".toList op.fs
    let fObj := formParams op.f
    let hObj := headerParams op.h
    let body := op.b.getD (.obj [])
    r := r.addCover ("mode-" ++ fname)
    r := r.addCover (match res with | .ok _ => "http-accept" | .error e => "http-reject-" ++ e.name)
    for f in dedup (keyCover op.fs) do r := r.addCover f
    if op.b.isSome then r := r.addCover "http-json-body"
    if op.f.any (fun kv => kv.2.length > 1) then r := r.addCover "http-form-multi-valued"
    if op.f.any (fun kv => kv.2.any (·.isEmpty)) then r := r.addCover "http-form-empty-value"
    if op.f.any (fun kv => kv.2.isEmpty) then r := r.addCover "http-form-zero-values"
    if op.h.any (fun kv => kv.2.len > 1) then r := r.addCover "http-header-multi-valued"
    if op.h.any (fun kv => kv.2 == some []) then r := r.addCover "http-header-zero-values(empty-slice)"
    if op.h.any (fun kv => kv.2 == none) then r := r.addCover "http-header-zero-values(nil-slice)"
    if op.h.any (fun kv => (kv.2.getD []).any (·.isEmpty)) then r := r.addCover "http-header-empty-string"
    if op.p.any (fun kv => match kv.2 with | .str [] => true | _ => false) then r := r.addCover "http-path-empty-string"
    for f in dedup ((if sel.path then inputFeatures (httpCfgPath false) vp op.p else [])
        ++ (if sel.form then inputFeatures (httpCfgForm false) vf fObj else [])
        ++ (if sel.header then inputFeatures (httpCfgHeader false) vh hObj else [])
        ++ (match sel.json, body with | true, .obj m => inputFeatures (httpCfgJson false) vj m | _, _ => [])) do r := r.addCover f
    let cmpl := (!sel.path || Spec.okFields (httpCfgPath false) vp op.p)
      && (!sel.form || Spec.okFields (httpCfgForm false) vf fObj)
      && (!sel.header || Spec.okFields (httpCfgHeader false) vh hObj)
      && (!sel.json || Spec.complete (httpCfgJson false) (.struct vj) body)
    let outside := match res with | .error .outside => true | _ => false
    if outside then r := r.addCover "model-outside(panic-monitor-only)"
    let impl := joinSp l.obs
    match l.obs with
    | "ok" :: vt =>
      match parseValT (vt.length + 1) vt with
      | some (.struct vs, []) =>
        if !outside then
          r := r.addCover (if cmpl then "accepted-and-complete" else "accepted-not-complete")
          let part (run : Bool) (key : String) (fsv : Fields) (ok : VFields → Bool) : Bool :=
            if run then ok (viewVals key.toList op.fs vs) else Spec.isZeroFields fsv (viewVals key.toList op.fs vs)
          let sat := part sel.path "path" vp (Spec.satFields (httpCfgPath false) vp op.p)
            && part sel.form "form" vf (Spec.satFields (httpCfgForm false) vf fObj)
            && part sel.header "header" vh (Spec.satFields (httpCfgHeader false) vh hObj)
            && part sel.json "json" vj (fun v => Spec.satisfies (httpCfgJson false) (.struct vj) body (.struct v))
          if !sat then
            r := r.violation sec l.idx s!"accepted-but-constraints-violated op=[{joinSp l.op}] impl=[{impl}]"
          match res with
          | .ok mv => if !vfAgree mv vs then r := r.mismatch sec l.idx "ok(other value)" impl
          | .error e => r := r.mismatch sec l.idx s!"err {e.name}" impl
      | _ => r := r.mismatch sec l.idx "unparsable-value" impl
    | ["err", cls] =>
      if !outside then
        if cmpl then
          r := r.violation sec l.idx s!"rejected-but-constraints-met op=[{joinSp l.op}] impl=[{impl}]"
        else r := r.addCover "rejected-not-complete"
        match res with
        | .ok _ => r := r.mismatch sec l.idx "ok" impl
        | .error e =>
          if e.name ≠ cls then
            if (keyCover op.fs).contains "map" then r := r.addCover "map-order-ambiguous-error"
            else r := r.mismatch sec l.idx s!"err {e.name}" impl
    | "PANIC" :: _ =>
      r := r.violation sec l.idx s!"panic op=[{joinSp l.op}] impl=[{impl}]"
    | _ => r := r.mismatch sec l.idx "unparsable-observation" impl
    return r
  | _, _ => r.mismatch sec l.idx "bad-op" (joinSp l.op)

/-- the verdict on an invalid call: rejected; a panic only from the caller's reader -/
def runInvalid (r : Report) (sec : Nat) (l : Line) (readPanic : Bool) : Report :=
  match l.obs with
  | "ok" :: _ => r.violation sec l.idx s!"accepted-with-invalid-target-or-source op=[{joinSp l.op}] impl=[{joinSp l.obs}]"
  | ["err", _] => r.addCover "entry-invalid-call-rejected"
  | "PANIC" :: _ =>
    if readPanic then r.addCover "entry-reader-panic-propagates(the caller's panic)"
    else r.violation sec l.idx s!"panic op=[{joinSp l.op}] impl=[{joinSp l.obs}]"
  | _ => r.mismatch sec l.idx "unparsable-observation" (joinSp l.obs)


/-! ### `pe`: `httpx.Parse` on requests as they arrive
  pe kind=<K> T … P … F … H … B <json>
K = chunked (Content-Length -1) | wrongct | noct: the body is not looked at (`Model.withJsonBody`), the request is judged without
it; nobody (Content-Length > 0, no bytes) | readerr | overcap (a body over the 8 MB cap is cut: malformed) | tgt-nil | tgt-val |
tgt-nilptr | tgt-ptrint: must be rejected; undercap: an ordinary request with a large body. -/
def runPELine (r : Report) (sec : Nat) (l : Line) : Report :=
  match l.op with
  | _ :: k :: rest =>
    let kind := kvStr [k] "kind"
    let r := r.addCover s!"http-entry-{kind}"
    let asP : Line := { l with op := "p" :: rest }
    if kind = "chunked" || kind = "wrongct" || kind = "noct" then
      -- the body is ignored: the same request without a body
      match parsePOp ("p" :: rest) with
      | some op =>
        -- the body starts at the LAST `B` token (a header may be named B; body keys are never upper case)
        let toks := ((("p" :: rest).reverse.dropWhile (· ≠ "B")).drop 1).reverse ++ ["B", "none"]
        let _ := op
        runPLine (r.addCover "http-body-not-looked-at(withJsonBody=false)") sec { asP with op := toks }
      | none => r.mismatch sec l.idx "bad-op" (joinSp l.op)
    else if kind = "undercap" then runPLine r sec asP
    else
      match parsePOp ("p" :: rest) with
      | some op =>
        -- path, form and headers are parsed before the body / may refuse first: any rejection is fine, acceptance is not
        let _ := op
        runInvalid { r with ops := r.ops + 1 } sec l false
      | none => r.mismatch sec l.idx "bad-op" (joinSp l.op)
  | _ => r.mismatch sec l.idx "bad-op" (joinSp l.op)

/-! ### `um`: one struct type carrying a `json` and a `form` tag on every field, read by the unmarshaler of one of the keys -/

def keyPart (tv : Str) : Str := tv.takeWhile (· ≠ ',')

mutual
/-- the type as the `form` unmarshaler reads it: the bare key, no options -/
def formViewTy : Ty → Ty
  | .prim k => .prim k
  | .ptr t => .ptr (formViewTy t)
  | .slice t => .slice (formViewTy t)
  | .map t => .map (formViewTy t)
  | .struct fs => .struct (formViewFields fs)
def formViewFields : Fields → Fields
  | .nil => .nil
  | .cons n tag t rest =>
    .cons n (match tag with | some [] => some [] | some tv => some (keyPart tv) | none => none) (formViewTy t) (formViewFields rest)
end

mutual
/-- some nested struct type is "required" under one tag key and not under the other: the place where a cache keyed by the
type alone (structRequiredCache) hands one unmarshaler the other's answer -/
def requiredDiffersTy : Ty → Ty → Bool
  | .ptr a, .ptr b => requiredDiffersTy a b
  | .slice a, .slice b => requiredDiffersTy a b
  | .map a, .map b => requiredDiffersTy a b
  | .struct a, .struct b =>
    (match structRequired a, structRequired b with
     | .ok x, .ok y => x != y
     | .error _, .error _ => false
     | _, _ => true) || requiredDiffersFields a b
  | _, _ => false
def requiredDiffersFields : Fields → Fields → Bool
  | .cons _ _ t r, .cons _ _ t' r' => requiredDiffersTy t t' || requiredDiffersFields r r'
  | _, _ => false
end

def runMLine (r : Report) (sec : Nat) (l : Line) : Report :=
  match parseOp l.op with
  | none => r.mismatch sec l.idx "bad-op" (joinSp l.op)
  | some op0 =>
    let form := kvStr (l.op.take 4) "key" = "form"
    let op : Op := { op0 with cfg := {}, ty := if form then formViewTy op0.ty else op0.ty }
    let other : Ty := if form then op0.ty else formViewTy op0.ty
    let mode := if form then "mode-two-keys(form)" else "mode-two-keys(json)"
    -- whether a nested struct needs a value is cached per (tag key, type) since a8b007f; before, the cache was keyed by
    -- the type alone and the verdict followed whichever unmarshaler saw the type first (Props.structRequiredCache_witness):
    -- such a history dependence shows here as rejected-but-constraints-met / accepted-but-constraints-violated / mismatch
    let r := if requiredDiffersTy op.ty other then r.addCover "two-keys-required-differs" else r
    runU r sec l op mode l.obs

/-! ### `v`: lookups through the valuers of core/mapping/valuer.go on a chain of nested objects
  v C [ {current} {parent} {grandparent} … ] Q [ s:r.<key> | s:s.<key> … ]  =>  found <value> | absent ; …
`r.` = `recursiveValuer` (a field tagged `inherit`), `s.` = `simpleValuer`; the queries run in order on the same maps (the
merge of an inherited object is kept in the current node). -/

def jTokens : Nat → J → String
  | 0, _ => "?"
  | fuel + 1, j =>
    match j with
    | .null => "null"
    | .bool b => if b then "true" else "false"
    | .num s => "n:" ++ String.ofList s
    | .str s => "s:" ++ String.ofList s
    | .arr l => "[ " ++ String.join (l.map fun x => jTokens fuel x ++ " ") ++ "]"
    | .obj m => "{ " ++ String.join ((canonObj m).map fun kv => String.ofList kv.1 ++ " " ++ jTokens fuel kv.2 ++ " ") ++ "}"

def splitOnTok (sep : String) : List String → List (List String)
  | [] => [[]]
  | t :: rest =>
    match splitOnTok sep rest with
    | [] => [[]]
    | h :: tl => if t = sep then [] :: h :: tl else (t :: h) :: tl

def objsOf : List J → Option (List Obj)
  | [] => some []
  | .obj m :: rest => (objsOf rest).map (m :: ·)
  | _ => none

def runVLine (r : Report) (sec : Nat) (l : Line) : Report :=
  match l.op with
  | "v" :: "C" :: rest =>
    match parseJT (rest.length + 1) rest with
    | some (.arr cl, "Q" :: r2) =>
      match objsOf cl, parseJT (r2.length + 1) r2 with
      | some ch0, some (.arr ql, []) => Id.run do
        let mut r := { r with ops := r.ops + 1 }
        r := r.addCover "mode-valuer"
        r := r.addCover s!"valuer-chain-depth-{ch0.length}"
        match l.obs with
        | "PANIC" :: _ => return r.violation sec l.idx s!"panic op=[{joinSp l.op}] impl=[{joinSp l.obs}]"
        | _ => pure ()
        let answers := splitOnTok ";" l.obs
        if answers.length ≠ ql.length then return r.mismatch sec l.idx "answer-count" (joinSp l.obs)
        let mut ch := ch0
        for (q, ans) in ql.zip answers do
          match q with
          | .str (kind :: '.' :: key) =>
            let rec_ : Bool := kind = 'r'
            let mres : Option J := if rec_ then (recValueM ch key).1 else simpleValue ch key
            let boundInChain := ch.any (hasKey key ·)
            let boundInCurrent := match ch with | cur :: _ => hasKey key cur | [] => false
            let nearest : Option J := (ch.filterMap (getKey key ·)).head?
            let expected := match mres with
              | some j => "found " ++ jTokens (jSize j + 1) j
              | none => "absent"
            r := r.addCover (if rec_ then "valuer-recursive-lookup" else "valuer-simple-lookup")
            if rec_ then
              match getKey key (ch.headD []), mres with
              | none, some _ => r := r.addCover "valuer-inherited-from-ancestor"
              | some (.obj _), some (.obj m) =>
                if (match (recValueM (ch.drop 1) key).1 with | some (.obj _) => true | _ => false) then
                  r := r.addCover "valuer-objects-merged"
                else if m.isEmpty then pure () else pure ()
              | _, _ => pure ()
            else if boundInChain && !boundInCurrent then r := r.addCover "valuer-simple-ignores-ancestors"
            -- monitor (on the implementation's own answer): found iff bound where the valuer may look; a binding that
            -- is not an object is handed over as the nearest node binds it (the supplied value, unchanged)
            let found : Bool := ans.head? = some "found"
            let shouldFind : Bool := if rec_ then boundInChain else boundInCurrent
            if found ≠ shouldFind then
              r := r.violation sec l.idx s!"valuer-lookup-wrong(found={found},bound={shouldFind}) key={String.ofList key} op=[{joinSp l.op}] impl=[{joinSp l.obs}]"
            else match nearest with
              | some (.obj vm) =>
                -- an object: every binding the nearest node supplies under this key is handed over unchanged; with
                -- `inherit` the keys it does not bind come from the nearest ancestor object that binds them
                if found then
                  match parseJT (ans.length + 1) (ans.drop 1) with
                  | some (.obj res, []) =>
                    let own := (canonObj vm).all fun kv =>
                      match getKey kv.1 res with
                      | some x => jTokens (jSize x + 1) x == jTokens (jSize kv.2 + 1) kv.2
                      | none => false
                    let inherited : Bool := !rec_ || ((ch.drop 1).filterMap (getKey key ·)).all fun pj =>
                      match pj with
                      | .obj pm => (canonObj pm).all fun kv => hasKey kv.1 res
                      | _ => true
                    let nothingElse := (canonObj res).all fun kv =>
                      hasKey kv.1 vm || (rec_ && ((ch.drop 1).filterMap (getKey key ·)).any fun pj =>
                        match pj with | .obj pm => hasKey kv.1 pm | _ => false)
                    if !own then
                      r := r.violation sec l.idx s!"valuer-lookup-wrong(a supplied binding of the object was replaced or lost) key={String.ofList key} op=[{joinSp l.op}] impl=[{joinSp l.obs}]"
                    else if !nothingElse then
                      r := r.violation sec l.idx s!"valuer-lookup-wrong(a binding that nobody supplied) key={String.ofList key} op=[{joinSp l.op}] impl=[{joinSp l.obs}]"
                    else if !inherited then r := r.addCover "valuer-inheritance-stops-at-a-non-object"
                  | _ =>
                    r := r.violation sec l.idx s!"valuer-lookup-wrong(an object was supplied, something else handed over) key={String.ofList key} op=[{joinSp l.op}] impl=[{joinSp l.obs}]"
              | some j =>
                if found && joinSp ans ≠ "found " ++ jTokens (jSize j + 1) j then
                  r := r.violation sec l.idx s!"valuer-lookup-wrong(value of the nearest binding changed) key={String.ofList key} op=[{joinSp l.op}] impl=[{joinSp l.obs}]"
              | none => pure ()
            if joinSp ans ≠ expected then r := r.mismatch sec l.idx expected (joinSp ans)
            if rec_ then ch := (recValueM ch key).2
          | _ => r := r.mismatch sec l.idx "bad-query" (joinSp l.op)
        return r
      | _, _ => r.mismatch sec l.idx "bad-op" (joinSp l.op)
    | _ => r.mismatch sec l.idx "bad-op" (joinSp l.op)
  | _ => r.mismatch sec l.idx "bad-op" (joinSp l.op)

/-! ### `e`: the entry points of core/mapping with every kind of target and source
  e fn=<bytes|reader|map|key|yaml|toml> tgt=<ptr|ptrptr|nil|val|nilptr|ptrint> src=<doc|empty|malformed|readerr|readpanic> T <type> I <input>
A valid target with a decoded document is an ordinary unmarshal (all monitors of `u`); everything else must be rejected
(`Props.entry_rejects_invalid`), and only the caller's reader may panic (`Props.entry_no_panic`). -/

def targetOf : String → Option Target
  | "ptr" => some .ptr | "ptrptr" => some .ptrptr | "nil" => some .nilIface | "val" => some .value
  | "nilptr" => some .nilPtr | "ptrint" => some .ptrNonStruct | _ => none

def sourceOf : String → Option Source
  | "doc" => some .doc | "empty" => some .empty | "malformed" => some .malformed | "readerr" => some .readErr
  | "readpanic" => some .readPanic | _ => none

def runELine (r : Report) (sec : Nat) (l : Line) : Report :=
  match l.op with
  | _ :: fn :: tg :: sr :: rest =>
    let cfgToks := [fn, tg, sr]
    let fnS := kvStr cfgToks "fn"
    match targetOf (kvStr cfgToks "tgt"), sourceOf (kvStr cfgToks "src"),
          parseOp ("u" :: (if fnS = "key" then "key=key" else "key=json") :: "fs=0" :: "fa=0" :: rest) with
    | some tgt, some src, some op =>
      let r := r.addCover s!"entry-{fnS}-tgt-{kvStr cfgToks "tgt"}-src-{kvStr cfgToks "src"}"
      let res := entryPoint op.cfg tgt src op.ty op.input
      if tgt.valid && src == .doc then
        -- YAML hands a null on as the empty string (domain restriction, see `uy`)
        runU r sec l { op with input := if fnS = "yaml" then yamlNulls true op.input else op.input } s!"mode-entry({fnS})" l.obs
      else
        let r := { r with ops := r.ops + 1 }
        let r := r.addCover (match res with | .error .panic => "entry-model-panic" | .error _ => "entry-model-reject" | .ok _ => "entry-model-accept")
        runInvalid r sec l (src == .readPanic)
    | _, _, _ => r.mismatch sec l.idx "bad-op" (joinSp l.op)
  | _ => r.mismatch sec l.idx "bad-op" (joinSp l.op)

def runSection (r : Report) (s : Section) : Report :=
  s.lines.foldl (fun r l => if (l.op.head?.bind selOf).isSome then runPLine r s.idx l
    else if l.op.head? = some "uy" then runFrontEnd r s.idx l "mode-yaml(UnmarshalYamlBytes)" false true
    else if l.op.head? = some "ut" then runFrontEnd r s.idx l "mode-toml(UnmarshalTomlBytes)" false false
    else if l.op.head? = some "c" then
      let fmt := kvStr (l.op.take 4) "fmt"
      let via := kvStr (l.op.take 4) "via"
      runFrontEnd r s.idx l s!"mode-conf({if via = "file" then "Load:" else if via = "cfgfile" then "LoadConfig:" else if via = "alias" then "LoadConfigFrom…Bytes:" else "LoadFrom…Bytes:"}{fmt})" true (fmt = "yaml")
    else if l.op.head? = some "v" then runVLine r s.idx l
    else if l.op.head? = some "um" then runMLine r s.idx l
    else if l.op.head? = some "u" then runLine r s.idx l
    else if l.op.head? = some "e" then runELine r s.idx l
    else if l.op.head? = some "pe" then runPELine r s.idx l
    else r.mismatch s.idx l.idx "bad-op" (joinSp l.op)) r

def driver (secs : List Section) : Report := secs.foldl runSection {}

end GoZero.C08
