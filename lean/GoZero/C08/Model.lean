/-
C08 — declarative validation.  Executable model of core/mapping (unmarshaler.go, fieldoptions.go,
utils.go) for struct types built from primitive kinds, pointers and nested structs (core Lean only).

Strings are `List Char` so that every function is structurally recursive and reduces in the kernel
(`decide` on concrete witnesses).  Numbers are exact decimals `Dec = num × 10^exp`; Go compares
`float64`s, which agrees with the exact comparison whenever literals and bounds have ≤ 15 significant
digits (float policy, DESIGN section 2).

The model follows the Go control flow function by function; names are the Go names.
`Cfg.pinned = true` selects the behaviour of the pinned commit where it differs from the repaired code
(both defects found for this property):
  * `toOptionsWithContext` rebuilt the option set without `Range` and `Inherit`;
  * `validateNumberRange` let NaN through (every comparison with NaN is false);
  * `processNamedField` under `WithFromArray` called `reflect.TypeOf(nil).Kind()` on a null value (panic);
  * `generateMap` stored non-pointer values into maps with pointer element type (`SetMapIndex` panic) and
    `fillSlice` formatted its error with `reflect.Value.Type` of a nil map value (panic);
  * (round 2) pointers to slices and maps: `fillSlice` / `fillMap` / `fillSliceWithDefault` were handed the pointer
    type, so `*[]T` with `[]`, `*[]string` with a default, `*map[string]T` with any input (even absent) and
    `[]*[]T` with a non-null element panicked (`reflect.Set` / `reflect.Type.Key`); the repaired code fills the
    container and points to it.  Where the pinned behaviour was not replayed the pinned model answers `outside`.
-/
namespace GoZero.C08

abbrev Str := List Char

/-! ## exact decimals -/

structure Dec where
  num : Int
  exp : Int
  deriving Repr, DecidableEq

namespace Dec
def ofInt (i : Int) : Dec := ⟨i, 0⟩
/-- both numerators scaled to the common (smaller) exponent -/
def scaleL (a b : Dec) : Int := a.num * 10 ^ (a.exp - min a.exp b.exp).toNat
def scaleR (a b : Dec) : Int := b.num * 10 ^ (b.exp - min a.exp b.exp).toNat
def le (a b : Dec) : Bool := decide (scaleL a b ≤ scaleR a b)
def lt (a b : Dec) : Bool := decide (scaleL a b < scaleR a b)
def neg (a : Dec) : Dec := ⟨-a.num, a.exp⟩
def abs (a : Dec) : Dec := ⟨Int.ofNat a.num.natAbs, a.exp⟩
def isInt (a : Dec) : Bool := a.exp ≥ 0 || a.num % (10 ^ (-a.exp).toNat) == 0
def eqv (a b : Dec) : Bool := decide (scaleL a b = scaleR a b)
end Dec

/-- a `float64` as far as the property can see it -/
inductive Num where
  | fin (d : Dec)
  | posInf
  | negInf
  | nan
  deriving Repr, DecidableEq

/-! ## types, inputs, values -/

inductive Kind where
  | bool
  | int (bits : Nat)
  | uint (bits : Nat)
  | float (bits : Nat)
  | string
  deriving Repr, DecidableEq

def Kind.isNumeric : Kind → Bool
  | .int _ | .uint _ | .float _ => true
  | _ => false

mutual
inductive Ty where
  | prim (k : Kind)
  | ptr (t : Ty)
  | slice (t : Ty)
  | map (t : Ty)                 -- map[string]t
  | struct (fs : Fields)
  deriving Repr
/-- `tag = none`: the field carries tags but not the unmarshaler's key (`usingDifferentKeys`);
`tag = some v`: the tag value under the unmarshaler's key (`some []`: no tag at all). -/
inductive Fields where
  | nil
  | cons (name : Str) (tag : Option Str) (t : Ty) (rest : Fields)
  deriving Repr
end

/-- a decoded document (`jsonx.Unmarshal` with `UseNumber`): numbers keep their text -/
inductive J where
  | null
  | bool (b : Bool)
  | num (s : Str)
  | str (s : Str)
  | arr (l : List J)
  | obj (l : List (Str × J))
  deriving Repr

abbrev Obj := List (Str × J)

def J.isNull : J → Bool
  | .null => true
  | _ => false

mutual
inductive Val where
  | bool (b : Bool)
  | int (i : Int)
  | flt (x : Num)
  | str (s : Str)
  | nil                          -- nil pointer / nil slice / nil map
  | ptr (v : Val)
  | struct (fs : VFields)
  | list (l : VList)
  | map (m : VFields)
  deriving Repr
inductive VFields where
  | nil
  | cons (k : Str) (v : Val) (rest : VFields)
  deriving Repr
inductive VList where
  | nil
  | cons (v : Val) (rest : VList)
  deriving Repr
end

/-- error classes (the harness maps Go error texts to the same names) -/
inductive Err where
  | notSet        -- `field "x" is not set`, `"x" is not set`
  | range         -- errNumberRange
  | options       -- value not in options
  | mismatch      -- errTypeMismatch / `type mismatch for field`
  | syntax        -- strconv: invalid syntax
  | overflow      -- strconv: value out of range / float32 overflow
  | notString     -- `the value in map is not string`
  | nilValue      -- `field "x" mustn't be nil`
  | dep           -- optional=dep / optional=!dep violated
  | tag           -- malformed tag option
  | unsupported   -- errUnsupportedType
  | json          -- encoding/json refused a string-encoded slice/map
  | panic         -- the Go code would panic
  | outside       -- outside the modelled family (never produced on generated inputs)
  deriving Repr, DecidableEq

def Err.name : Err → String
  | .notSet => "notset" | .range => "range" | .options => "options" | .mismatch => "mismatch"
  | .syntax => "syntax" | .overflow => "overflow" | .notString => "notstring" | .nilValue => "nil"
  | .dep => "dep" | .tag => "tag" | .unsupported => "unsupported" | .json => "json" | .panic => "panic" | .outside => "outside"

/-- last binding wins, as in a Go map built by the decoder -/
def getKey (k : Str) : Obj → Option J
  | [] => none
  | (k', v) :: rest =>
    match getKey k rest with
    | some x => some x
    | none => if k' = k then some v else none

def hasKey (k : Str) (o : Obj) : Bool := (getKey k o).isSome

/-! ## strings -/

def isSpace (c : Char) : Bool := c = ' ' || c = '\t' || c = '\n' || c = '\r'

def trimLeft : Str → Str
  | [] => []
  | c :: cs => if isSpace c then trimLeft cs else c :: cs

def trim (s : Str) : Str := (trimLeft (trimLeft s).reverse).reverse

def lowerChar (c : Char) : Char :=
  if 'A'.toNat ≤ c.toNat ∧ c.toNat ≤ 'Z'.toNat then Char.ofNat (c.toNat + 32) else c

def lower (s : Str) : Str := s.map lowerChar

/-- `strings.Split(s, sep)` for a one-character separator -/
def splitOnChar (sep : Char) : Str → List Str
  | [] => [[]]
  | c :: cs =>
    match splitOnChar sep cs with
    | [] => [[]]      -- unreachable
    | h :: t => if c = sep then [] :: h :: t else (c :: h) :: t

def isDigit (c : Char) : Bool := '0'.toNat ≤ c.toNat && c.toNat ≤ '9'.toNat

def digitsVal : Str → Nat → Nat
  | [], acc => acc
  | c :: cs, acc => digitsVal cs (acc * 10 + (c.toNat - '0'.toNat))

def takeDigits : Str → Str × Str
  | [] => ([], [])
  | c :: cs => if isDigit c then ((c :: (takeDigits cs).1), (takeDigits cs).2) else ([], c :: cs)

/-! ## strconv -/

def applySign (neg : Bool) (n : Int) : Int := if neg then -n else n

/-- `strconv.ParseInt(s, 10, bits)` -/
def parseInt (bits : Nat) (s : Str) : Except Err Int :=
  let neg := s.head? = some '-'
  let body := if s.head? = some '-' ∨ s.head? = some '+' then s.tail else s
  if body = [] ∨ !(body.all isDigit) then .error .syntax
  else
    let v : Int := applySign neg (digitsVal body 0)
    if v < -(2 ^ (bits - 1) : Int) ∨ v ≥ (2 ^ (bits - 1) : Int) then .error .overflow else .ok v

/-- `strconv.ParseUint(s, 10, bits)` -/
def parseUint (bits : Nat) (s : Str) : Except Err Int :=
  if s = [] ∨ !(s.all isDigit) then .error .syntax
  else
    let n : Int := digitsVal s 0
    if n ≥ (2 ^ bits : Int) then .error .overflow else .ok n

/-- decimal floating-point syntax of `strconv.ParseFloat`:
`[+-]? (digits [. digits?] | . digits) ([eE] [+-]? digits)?`; exponents longer than 4 digits are outside the model. -/
def parseDec (s : Str) : Except Err Dec :=
  let neg := s.head? = some '-'
  let s1 := if s.head? = some '-' ∨ s.head? = some '+' then s.tail else s
  let ip := (takeDigits s1).1
  let r1 := (takeDigits s1).2
  let hasDot := r1.head? = some '.'
  let fp := if hasDot then (takeDigits r1.tail).1 else []
  let r2 := if hasDot then (takeDigits r1.tail).2 else r1
  if ip = [] ∧ fp = [] then .error .syntax
  else
    let m : Int := applySign neg (digitsVal (ip ++ fp) 0)
    match r2 with
    | [] => .ok ⟨m, -(fp.length : Int)⟩
    | e :: r3 =>
      if e = 'e' ∨ e = 'E' then
        let eneg := r3.head? = some '-'
        let r4 := if r3.head? = some '-' ∨ r3.head? = some '+' then r3.tail else r3
        if r4 = [] ∨ !(r4.all isDigit) then .error .syntax
        else if r4.length > 4 then .error .outside
        else
          let ev : Int := digitsVal r4 0
          .ok ⟨m, applySign eneg ev - (fp.length : Int)⟩
      else .error .syntax

/-- smallest magnitude that `ParseFloat(_, 64)` rounds to ±Inf: 2^1024 − 2^970 -/
def overflow64 : Dec := .ofInt (2 ^ 1024 - 2 ^ 970)
/-- smallest magnitude that `ParseFloat(_, 32)` rounds to ±Inf: 2^128 − 2^103 -/
def overflow32 : Dec := .ofInt (2 ^ 128 - 2 ^ 103)
/-- math.MaxFloat32 = 2^128 − 2^104 -/
def maxFloat32 : Dec := .ofInt (2 ^ 128 - 2 ^ 104)
/-- math.MaxFloat64 = 2^1024 − 2^971 -/
def maxFloat64 : Dec := .ofInt (2 ^ 1024 - 2 ^ 971)

/-- `underscoreOK` of strconv for decimal text: an underscore only between two digits;
`saw`: `^` start, `0` digit, `_` underscore, `!` anything else -/
def underscoreLoop : Str → Char → Bool
  | [], saw => saw ≠ '_'
  | c :: rest, saw =>
    if isDigit c then underscoreLoop rest '0'
    else if c = '_' then (if saw ≠ '0' then false else underscoreLoop rest '_')
    else if saw = '_' then false
    else underscoreLoop rest '!'

/-- the text without its digit-separating underscores, if they are placed legally -/
def cleanUnderscores (s : Str) : Option Str :=
  if !s.contains '_' then some s
  else if underscoreLoop s '^' then some (s.filter (· ≠ '_')) else none

/-- the number a text denotes in `strconv.ParseFloat` syntax, machine limits aside: decimals (with
digit-separating underscores), `inf`/`infinity` with optional sign, `nan`; hex floats with a `p` exponent are
outside the model. -/
def floatSyntax (s : Str) : Except Err Num :=
  match cleanUnderscores s with
  | none => .error .syntax
  | some s' =>
    match parseDec s' with
    | .ok d => .ok (.fin d)
    | .error e =>
      let l := lower s
      if l = "nan".toList then .ok .nan
      else if l = "inf".toList ∨ l = "+inf".toList ∨ l = "infinity".toList ∨ l = "+infinity".toList then .ok .posInf
      else if l = "-inf".toList ∨ l = "-infinity".toList then .ok .negInf
      else if l.take 2 = "0x".toList ∨ l.take 3 = "-0x".toList ∨ l.take 3 = "+0x".toList then
        (if l.contains 'p' then .error .outside else .error .syntax)
      else .error e

/-- `strconv.ParseFloat(s, bits)`: `floatSyntax` plus the overflow test of the target size -/
def parseFloat (bits : Nat) (s : Str) : Except Err Num :=
  match floatSyntax s with
  | .error e => .error e
  | .ok (.fin d) =>
    if Dec.le (if bits = 32 then overflow32 else overflow64) d.abs then .error .overflow else .ok (.fin d)
  | .ok x => .ok x

/-- `convertTypeFromString(kind, str)` followed by `setMatchedPrimitiveValue` -/
def convertFromString (k : Kind) (s : Str) : Except Err Val :=
  match k with
  | .bool =>
    let l := lower s
    if l = "1".toList ∨ l = "true".toList then .ok (.bool true)
    else if l = "0".toList ∨ l = "false".toList then .ok (.bool false)
    else .error .mismatch
  | .int b => (parseInt b s).map .int
  | .uint b => (parseUint b s).map .int
  | .float b => (parseFloat b s).map .flt
  | .string => .ok (.str s)

/-! ## tags -/

structure Range where
  left : Dec
  leftInc : Bool
  right : Dec
  rightInc : Bool
  deriving Repr, DecidableEq

/-- `fieldOptions` (with its embedded `fieldOptionsWithContext`) -/
structure Opts where
  inherit : Bool := false
  fromString : Bool := false
  optional : Bool := false
  options : List Str := []
  default : Str := []
  envVar : Str := []
  range : Option Range := none
  optionalDep : Str := []
  deriving Repr, DecidableEq

/-- `parseSegments`: comma separated, `\` escapes outside groups, `( [` open and `) ]` close a group -/
def segLoop : Str → Bool → Bool → Str → List Str → List Str
  | [], _, _, buf, acc =>
    if trim buf = [] then acc.reverse else (trim buf :: acc).reverse
  | ch :: rest, true, g, buf, acc => segLoop rest false g (buf ++ [ch]) acc
  | ch :: rest, false, g, buf, acc =>
    if ch = ',' then
      if g then segLoop rest false g (buf ++ [ch]) acc else segLoop rest false g [] (trim buf :: acc)
    else if ch = '\\' then
      if g then segLoop rest false g (buf ++ [ch]) acc else segLoop rest true g buf acc
    else if ch = '(' ∨ ch = '[' then segLoop rest false true (buf ++ [ch]) acc
    else if ch = ')' ∨ ch = ']' then segLoop rest false false (buf ++ [ch]) acc
    else segLoop rest false g (buf ++ [ch]) acc

def parseSegments (val : Str) : List Str := segLoop val false false [] []

def dropWhileL (p : Char → Bool) : Str → Str
  | [] => []
  | c :: cs => if p c then dropWhileL p cs else c :: cs

def parseGroupedSegments (val : Str) : List Str :=
  let v1 := dropWhileL (fun c => c = '(' || c = '[') val
  let v2 := (dropWhileL (fun c => c = ')' || c = ']') v1.reverse).reverse
  parseSegments v2

def parseOptions (val : Str) : List Str :=
  match val with
  | [] => []
  | c :: _ => if c = '[' then parseGroupedSegments val else splitOnChar '|' val

/-- `parseProperty`: `name=value`, exactly one `=` -/
def parseProperty (option : Str) : Except Err Str :=
  match splitOnChar '=' option with
  | [_, v] => .ok (trim v)
  | _ => .error .tag

def parseBound (s : Str) (dflt : Dec) : Except Err Dec :=
  if s = [] then .ok dflt
  else match parseFloat 64 s with
    | .ok (.fin d) => .ok d
    | .ok _ => .error .outside
    | .error e => .error e

/-- `parseNumberRange` -/
def parseNumberRange (str : Str) : Except Err Range :=
  match str with
  | [] => .error .range
  | c0 :: s1 =>
    if c0 ≠ '[' ∧ c0 ≠ '(' then .error .range
    else if s1 = [] then .error .range
    else
      let cl := s1.getLast?
      if cl ≠ some ']' ∧ cl ≠ some ')' then .error .range
      else
        match splitOnChar ':' s1.dropLast with
        | [f0, f1] =>
          if f0 = [] ∧ f1 = [] then .error .range
          else
            match parseBound f0 maxFloat64.neg with
            | .error e => .error e
            | .ok l =>
              match parseBound f1 maxFloat64 with
              | .error e => .error e
              | .ok r =>
                let li := decide (c0 = '[')
                let ri := decide (cl = some ']')
                if Dec.lt r l then .error .range
                else if Dec.eqv l r ∧ (!li ∨ !ri) then .error .range
                else .ok ⟨l, li, r, ri⟩
        | _ => .error .range

/-- `parseOption` -/
def parseOption (o : Opts) (option : Str) : Except Err Opts :=
  if option = "inherit".toList then .ok { o with inherit := true }
  else if option = "string".toList then .ok { o with fromString := true }
  else if "optional".toList.isPrefixOf option then
    match splitOnChar '=' option with
    | [_] => .ok { o with optional := true }
    | [_, d] => .ok { o with optional := true, optionalDep := d }
    | _ => .error .tag
  else if "options".toList.isPrefixOf option then
    (parseProperty option).map fun v => { o with options := parseOptions v }
  else if "default".toList.isPrefixOf option then
    (parseProperty option).map fun v => { o with default := v }
  else if "env".toList.isPrefixOf option then
    (parseProperty option).map fun v => { o with envVar := v }
  else if "range".toList.isPrefixOf option then
    match parseProperty option with
    | .error e => .error e
    | .ok v => (parseNumberRange v).map fun r => { o with range := some r }
  else .ok o

def parseOptionList : List Str → Opts → Except Err Opts
  | [], o => .ok o
  | s :: rest, o =>
    match parseOption o (trim s) with
    | .error e => .error e
    | .ok o' => parseOptionList rest o'

/-- `parseKeyAndOptions` (the cache is transparent: same tag text, same result): key and options of a field. -/
def parseTag (name : Str) (tagValue : Str) : Except Err (Str × Option Opts) :=
  let value := trim tagValue
  if value = [] then .ok (name, none)
  else
    match parseSegments value with
    | [] => .error .panic                -- `segments[0]` on an empty slice (tag value `\`)
    | k :: options =>
      let key := if trim k = [] then name else trim k
      if options = [] then .ok (key, none)
      else (parseOptionList options {}).map fun o => (key, some o)

/-! ## option resolution against the input -/

structure Cfg where
  fromString : Bool := false     -- WithStringValues (form, path, header)
  fromArray : Bool := false      -- WithFromArray (form)
  canonical : Bool := false      -- WithCanonicalKeyFunc(textproto.CanonicalMIMEHeaderKey) (header)
  lower : Bool := false          -- WithCanonicalKeyFunc(strings.ToLower) (core/conf)
  opaqueKeys : Bool := false         -- WithOpaqueKeys (form, path): a key with dots is looked up literally
  anc : List (List (List Char × J)) := []   -- position, not an option: the objects enclosing the node, nearest first (a struct-typed field is read from a node whose parent is the valuer of the enclosing struct)
  pinned : Bool := false         -- behaviour of the pinned commit (see header)
  deriving Repr

/-- the same configuration on the repaired code -/
def Cfg.repaired (c : Cfg) : Cfg := { c with pinned := false }

/-- the unmarshaler inside a struct-typed field: `processFieldStruct` hands on a node whose parent is the valuer of the
enclosing struct (`simpleValuer{current: mv, parent: vp.parent}`) -/
def Cfg.nestIn (c : Cfg) (m : List (List Char × J)) : Cfg := { c with anc := m :: c.anc }

/-- the unmarshaler on a fresh node without ancestors: struct elements of slices and maps (`fillStructElement` →
`u.unmarshal`), an absent struct field (`valueWithParent{value: emptyMap}`) -/
def Cfg.top (c : Cfg) : Cfg := { c with anc := [] }

/-! ## canonical keys (header unmarshaler) -/

def upperChar (c : Char) : Char :=
  if 'a'.toNat ≤ c.toNat ∧ c.toNat ≤ 'z'.toNat then Char.ofNat (c.toNat - 32) else c

def validHeaderByte (c : Char) : Bool :=
  ('a'.toNat ≤ c.toNat && c.toNat ≤ 'z'.toNat) || ('A'.toNat ≤ c.toNat && c.toNat ≤ 'Z'.toNat) || isDigit c
  || "!#$%&'*+-.^_`|~".toList.contains c

def canonLoop : Str → Bool → Str
  | [], _ => []
  | c :: rest, up => (if up then upperChar c else lowerChar c) :: canonLoop rest (c = '-')

/-- `textproto.CanonicalMIMEHeaderKey` -/
def canonKey (s : Str) : Str := if s.all validHeaderByte then canonLoop s true else s

/-- the dependency key of `optional=dep` / `optional=!dep` under a canonical-key function `kf`: the repaired code
canonicalises the key after the `!`; the pinned commit canonicalised the whole text, which leaves `!a` as it is
(`textproto.CanonicalMIMEHeaderKey` does not touch a text with an invalid header byte) -/
def canonDep (kf : Str → Str) (pinned : Bool) (d : Str) : Str :=
  if pinned then kf d
  else match d with
    | [] => []
    | c :: rest => if c = '!' then '!' :: kf rest else kf (c :: rest)

/-- the canonical-key function of the unmarshaler: MIME header keys (rest header parser), lower case (core/conf), none -/
def Cfg.keyFn (c : Cfg) : Option (Str → Str) :=
  if c.canonical then some canonKey else if c.lower then some GoZero.C08.lower else none

/-- `parseOptionsWithContext`: key and dependency key through the canonical-key function -/
def canonTag (kf : Option (Str → Str)) (pinned : Bool) (kp : Str × Option Opts) : Str × Option Opts :=
  match kf with
  | some kf =>
    (kf kp.1, kp.2.map fun o => if o.optionalDep.isEmpty then o else { o with optionalDep := canonDep kf pinned o.optionalDep })
  | none => kp

/-- the `optional` that `toOptionsWithContext` computes -/
def effOptional (o : Opts) (key : Str) (m : Obj) : Except Err Bool :=
  if o.optional then
    match o.optionalDep with
    | [] => .ok true
    | c :: dep =>
      if c = '!' then
        if dep = [] then .error .dep
        else if hasKey dep m = hasKey key m then .error .dep
        else .ok (hasKey dep m)
      else if hasKey (c :: dep) m ≠ hasKey key m then .error .dep
      else .ok (!hasKey (c :: dep) m)
  else .ok false

/-- `toOptionsWithContext`: the rebuilt option set copies every field (repaired code);
at the pinned commit it forgot `Range` and `Inherit`. -/
def toOptionsWithContext (c : Cfg) (o : Opts) (key : Str) (m : Obj) : Except Err Opts :=
  match effOptional o key m with
  | .error e => .error e
  | .ok optional =>
    if o.optional = optional then .ok o
    else .ok { o with optional := optional
                      inherit := if c.pinned then false else o.inherit
                      range := if c.pinned then none else o.range }

/-! ## checks -/

def numLt (x : Num) (b : Dec) : Bool :=
  match x with | .fin d => Dec.lt d b | .negInf => true | _ => false
def numLe (x : Num) (b : Dec) : Bool :=
  match x with | .fin d => Dec.le d b | .negInf => true | _ => false
def numGt (x : Num) (b : Dec) : Bool :=
  match x with | .fin d => Dec.lt b d | .posInf => true | _ => false
def numGe (x : Num) (b : Dec) : Bool :=
  match x with | .fin d => Dec.le b d | .posInf => true | _ => false

/-- `validateNumberRange`: `true` = errNumberRange -/
def rangeRejects (c : Cfg) (r : Range) (x : Num) : Bool :=
  (!c.pinned && x = .nan)
  || (r.leftInc && numLt x r.left) || (!r.leftInc && numLe x r.left)
  || (r.rightInc && numGt x r.right) || (!r.rightInc && numGe x r.right)

/-- `validateJsonNumberRange`: the literal goes through `json.Number.Float64` -/
def validateJsonNumberRange (c : Cfg) (o : Option Opts) (lit : Str) : Except Err Unit :=
  match o with
  | none => .ok ()
  | some o =>
    match o.range with
    | none => .ok ()
    | some r =>
      match parseFloat 64 lit with
      | .error e => .error e
      | .ok x => if rangeRejects c r x then .error .range else .ok ()

def valToNum : Val → Option Num
  | .int i => some (.fin (.ofInt i))
  | .flt x => some x
  | _ => none

/-- `validateValueRange` on an already converted Go value -/
def validateValueRange (c : Cfg) (o : Option Opts) (v : Val) : Except Err Unit :=
  match o with
  | none => .ok ()
  | some o =>
    match o.range with
    | none => .ok ()
    | some r =>
      match valToNum v with
      | none => .error .range
      | some x => if rangeRejects c r x then .error .range else .ok ()

/-- the option set of a field without options is the zero `fieldOptions` -/
def effOpts (o : Option Opts) : Opts := match o with | some o => o | none => {}

def optOptions (o : Option Opts) : List Str := match o with | none => [] | some o => o.options
def optOptional (o : Option Opts) : Bool := match o with | none => false | some o => o.optional
def optFromString (o : Option Opts) : Bool := match o with | none => false | some o => o.fromString
def optDefault (o : Option Opts) : Str := match o with | none => [] | some o => o.default

/-- `validateValueInOptions` / the options test of `processNamedFieldWithValueFromString` on the text of the value -/
def validateInOptions (o : Option Opts) (text : Str) : Except Err Unit :=
  if optOptions o = [] then .ok ()
  else if (optOptions o).contains text then .ok () else .error .options

/-- `lang.Repr` of a Go bool -/
def boolText (b : Bool) : Str := if b then "true".toList else "false".toList

/-! ## primitive paths -/

/-- `reflect.Value.OverflowFloat` on a float32 target: MaxFloat32 < |x| ≤ MaxFloat64 -/
def float32Overflows : Num → Bool
  | .fin d => Dec.lt maxFloat32 d.abs
  | _ => false

/-- `processFieldPrimitiveWithJSONNumber`; `k = none` stands for a non-primitive target kind -/
def jsonNumberPath (c : Cfg) (o : Option Opts) (k : Option Kind) (lit : Str) : Except Err Val :=
  match validateJsonNumberRange c o lit with
  | .error e => .error e
  | .ok () =>
    match validateInOptions o lit with
    | .error e => .error e
    | .ok () =>
      match k with
      | some (.int b) => (parseInt b lit).map .int
      | some (.uint b) => (parseUint b lit).map .int
      | some (.float b) =>
        match parseFloat 64 lit with
        | .error e => .error e
        | .ok x => if b = 32 && float32Overflows x then .error .overflow else .ok (.flt x)
      | _ => .error .mismatch

/-- `processFieldPrimitive` on a primitive target kind -/
def primNotFromString (c : Cfg) (o : Option Opts) (k : Kind) (j : J) : Except Err Val :=
  match j with
  | .num lit => jsonNumberPath c o (some k) lit
  | .str s =>
    if k = .string then
      match validateInOptions o s with
      | .error e => .error e
      | .ok () =>
        match validateValueRange c o (.str s) with
        | .error e => .error e
        | .ok () => .ok (.str s)
    else .error .mismatch
  | .bool b =>
    if k = .bool then
      match validateInOptions o (boolText b) with
      | .error e => .error e
      | .ok () =>
        match validateValueRange c o (.bool b) with
        | .error e => .error e
        | .ok () => .ok (.bool b)
    else .error .mismatch
  | _ => .error .mismatch

/-- `processNamedFieldWithValueFromString` + `fillPrimitive` -/
def primFromString (c : Cfg) (o : Option Opts) (k : Kind) (j : J) : Except Err Val :=
  match j with
  | .str s =>
    match validateInOptions o s with
    | .error e => .error e
    | .ok () =>
      match convertFromString k s with
      | .error e => .error e
      | .ok v =>
        match validateValueRange c o v with
        | .error e => .error e
        | .ok () => .ok v
  | .num lit =>
    match validateInOptions o lit with
    | .error e => .error e
    | .ok () =>
      match validateJsonNumberRange c o lit with
      | .error e => .error e
      | .ok () => convertFromString k lit
  | _ => .error .notString

def primWithValue (c : Cfg) (o : Option Opts) (k : Kind) (j : J) : Except Err Val :=
  if c.fromString || optFromString o then primFromString c o k j else primNotFromString c o k j

/-! ## the unmarshaller -/

mutual
def zero : Ty → Val
  | .prim .bool => .bool false
  | .prim (.int _) => .int 0
  | .prim (.uint _) => .int 0
  | .prim (.float _) => .flt (.fin ⟨0, 0⟩)
  | .prim .string => .str []
  | .ptr _ => .nil
  | .slice _ => .nil
  | .map _ => .nil
  | .struct fs => .struct (zeroFields fs)
def zeroFields : Fields → VFields
  | .nil => .nil
  | .cons name _ t rest => .cons name (zero t) (zeroFields rest)
end

/-- `implicitValueRequiredStruct` -/
def structRequired : Fields → Except Err Bool
  | .nil => .ok false
  | .cons name tag t rest =>
    match tag with
    | none => .ok true
    | some tv =>
      match parseTag name tv with
      | .error e => .error e
      | .ok (_, none) =>
        match t with
        | .struct fs' =>
          match structRequired fs' with
          | .error e => .error e
          | .ok true => .ok true
          | .ok false => structRequired rest
        | _ => .ok true
      | .ok (_, some o) =>
        if !o.optional && o.default = [] then .ok true
        else if o.optionalDep.head? = some '!' then .ok true
        else structRequired rest

/-- effective input of a field under `WithFromArray` -/
def fromArrayValue (c : Cfg) (isSlice : Bool) (j : J) : J :=
  if c.fromArray && !isSlice then
    match j with
    | .arr (h :: _) => h
    | _ => j
  else j

/-- key and options of a field as the unmarshaler `c` reads them -/
def parseTagC (c : Cfg) (name : Str) (tagValue : Str) : Except Err (Str × Option Opts) :=
  (parseTag name tagValue).map (canonTag c.keyFn c.pinned)

/-- `parseOptionsWithContext` after the tag is parsed: no options stay `nil`, else `toOptionsWithContext` -/
def resolveOpts (c : Cfg) (po : Option Opts) (key : Str) (m : Obj) : Except Err (Option Opts) :=
  match po with
  | none => .ok none
  | some o => (toOptionsWithContext c o key m).map some

/-- options the model does not follow: `inherit` (parent lookups).  `env=NAME` is followed for an *unset* variable
(`proc.Env` returns the empty string and the field is processed as if the option was absent); a set variable is
outside the model (assumption: the harness only names variables that are not set). -/
def optInherit (o : Option Opts) : Bool :=
  match o with
  | some o => o.inherit
  | none => false

/-! ### keys with dots: `getValue` / `readKeys` / `getValueWithChainedKeys`

`readKeys(key, opaque)`: an opaque unmarshaler (`WithOpaqueKeys`: rest/httpx form and path) looks the key up literally;
every other one splits it at the dots (`strings.FieldsFunc`, empty segments dropped; the package-level `cacheKeys` is
transparent: it is consulted only on the non-opaque path, same text, same split).  `getValueWithChainedKeys`: the first
segment through the field's valuer (simple: the current object only — `inherit` is outside the model), every further one
through `recursiveValuer{current: nextm, parent: m}`, i.e. in the object found so far, else in the enclosing objects,
nearest first.  The ancestors of a nested struct's node are not threaded by the model: with `unk = true` a lookup that
runs past the objects the model knows answers `outside`.  Where `recursiveValuer.Value` would merge inherited entries
into the found object (it writes into the caller's document) the model answers `outside` as well. -/

/-- `strings.FieldsFunc(key, func(c rune) bool { return c == '.' })` -/
def fieldsDot (s : Str) : List Str := (splitOnChar '.' s).filter (fun seg => !seg.isEmpty)

/-- `recursiveValuer.Value` on the chain `ch` (current object first), without the merge -/
def recLookup (unk : Bool) : List Obj → Str → Except Err (Option J)
  | [], _ => if unk then .error .outside else .ok none
  | cur :: parents, k =>
    match getKey k cur with
    | none => recLookup unk parents k
    | some (.obj vm) =>
      match recLookup unk parents k with
      | .error e => .error e
      | .ok (some (.obj pm)) => if pm.all (fun kv => hasKey kv.1 vm) then .ok (some (.obj vm)) else .error .outside
      | .ok _ => .ok (some (.obj vm))
    | some v => .ok (some v)

/-- `getValueWithChainedKeys` below the first segment -/
def chainedLookup (unk : Bool) : List Str → List Obj → Except Err (Option J)
  | [], _ => .ok none
  | [k], ch => recLookup unk ch k
  | k :: k2 :: rest, ch =>
    match recLookup unk ch k with
    | .error e => .error e
    | .ok (some (.obj nm)) => chainedLookup unk (k2 :: rest) (nm :: ch)
    | .ok _ => .ok none

/-- the first segment goes through the field's own valuer (`createValuer`): simple, or recursive under `inherit` -/
def firstLookup (unk inh : Bool) (anc : List Obj) (k : Str) (m : Obj) : Except Err (Option J) :=
  if inh then recLookup unk (m :: anc) k else .ok (getKey k m)

/-- `getValueWithChainedKeys(valuer, keys)` with the valuer of the field -/
def dottedLookup (unk inh : Bool) (anc : List Obj) (keys : List Str) (m : Obj) : Except Err (Option J) :=
  match keys with
  | [] => .ok none
  | [k] => firstLookup unk inh anc k m
  | k :: k2 :: rest =>
    match firstLookup unk inh anc k m with
    | .error e => .error e
    | .ok (some (.obj nm)) => chainedLookup unk (k2 :: rest) (nm :: m :: anc)
    | .ok _ => .ok none

/-- `getValue(valuer, canonicalKey, u.opts.opaqueKeys)`; `inh`: the field is tagged `inherit`, `createValuer` hands out a
`recursiveValuer` (the current object, then the enclosing ones, nearest first) instead of the simple one -/
def lookupKey (c : Cfg) (inh : Bool) (key : Str) (m : Obj) : Except Err (Option J) :=
  if c.opaqueKeys || !key.contains '.' then firstLookup false inh c.anc key m
  else dottedLookup false inh c.anc (fieldsDot key) m

/-- `processField` / `processNamedField` for one field against the object `m`; the type-directed
continuations are passed in (`wv` = with a value, `ar` = absent and required, `dv` = default, `z` = zero value) -/
def fieldCore (c : Cfg) (name : Str) (tag : Option Str) (isSlice : Bool) (m : Obj)
    (wv : Option Opts → J → Except Err Val) (ar : Unit → Except Err Val) (dv : Str → Except Err Val) (z : Val) :
    Except Err Val :=
  match tag with
  | none => .ok z
  | some tv =>
    match parseTagC c name tv with
    | .error e => .error e
    | .ok (key, po) =>
      match resolveOpts c po key m with
      | .error e => .error e
      | .ok o =>
        if key = "-".toList then .ok z
        else
          match lookupKey c (optInherit o) key m with
          | .error e => .error e
          | .ok none =>
            if optDefault o ≠ [] then dv (optDefault o)
            else if optOptional o then .ok z
            else ar ()
          | .ok (some j0) =>
            -- pinned commit: `reflect.TypeOf(nil).Kind()` under WithFromArray
            if c.pinned && c.fromArray && !isSlice && j0.isNull then .error .panic else
            match fromArrayValue c isSlice j0 with
            | .null => if optOptional o then .ok z else .error .nilValue
            | j => wv o j

def Ty.isSlice : Ty → Bool
  | .slice _ => true
  | _ => false

/-! ### slices and maps -/

def mapElems (f : J → Except Err Val) : List J → Except Err VList
  | [] => .ok .nil
  | j :: rest =>
    match f j with
    | .error e => .error e
    | .ok v =>
      match mapElems f rest with
      | .error e => .error e
      | .ok vs => .ok (.cons v vs)

def mapEntries (f : J → Except Err Val) : Obj → Except Err VFields
  | [] => .ok .nil
  | (k, j) :: rest =>
    match f j with
    | .error e => .error e
    | .ok v =>
      match mapEntries f rest with
      | .error e => .error e
      | .ok vs => .ok (.cons k v vs)

def allNull : List J → Bool
  | [] => true
  | j :: rest => j.isNull && allNull rest

/-- what `fillSlice` stores: an empty slice for `[]`, nothing (nil) when every element is null, else the converted elements -/
def sliceResult (l : List J) (vs : VList) : Val :=
  if l.isEmpty then .list .nil else if allNull l then .nil else .list vs

def strLt : Str → Str → Bool
  | [], [] => false
  | [], _ :: _ => true
  | _ :: _, [] => false
  | a :: as, b :: bs => a.toNat < b.toNat || (a.toNat = b.toNat && strLt as bs)

/-- insert a binding into a key-sorted object, replacing an earlier binding of the same key -/
def insertEntry (k : Str) (j : J) : Obj → Obj
  | [] => [(k, j)]
  | (k', j') :: rest =>
    if k = k' then (k, j) :: rest
    else if strLt k k' then (k, j) :: (k', j') :: rest
    else (k', j') :: insertEntry k j rest

/-- the entries of a decoded object as a Go map holds them (last binding wins), in key order (the order the
harness prints map results in) -/
def canonObj (m : Obj) : Obj := m.foldl (fun acc kv => insertEntry kv.1 kv.2 acc) []

def derefKind : Ty → Option Kind
  | .ptr t => derefKind t
  | .prim k => some k
  | _ => none

/-- pointer to slice / pointer to map: the pinned commit mishandled them (see header) -/
def Ty.isContainer : Ty → Bool
  | .slice _ => true
  | .map _ => true
  | _ => false

/-- `fillSliceWithDefault` for `[]string`: the default is split with `parseGroupedSegments` -/
def strList : List Str → VList
  | [] => .nil
  | s :: rest => .cons (.str s) (strList rest)

/-- `setValueFromString(kind, value, default)` through `ensureValue` (allocates every pointer level);
`[]string` defaults go through `fillSliceWithDefault` -/
def defaultVal (c : Cfg) : Ty → Str → Except Err Val
  | .ptr t, d =>
    -- pinned commit: `fillSlice` on the pointer value (`reflect.Set` panic)
    if c.pinned && t.isContainer then (match t with | .slice (.prim .string) => .error .panic | _ => .error .outside)
    else (defaultVal c t d).map .ptr
  | .prim k, d => convertFromString k d
  | .slice (.prim .string), d =>
    .ok (if (parseGroupedSegments d).isEmpty then .nil else .list (strList (parseGroupedSegments d)))
  | .slice _, _ => .error .outside
  | _, _ => .error .unsupported

mutual
/-- `processNamedFieldWithValue` below the nil test: dispatch on the dereferenced kind; pointers are
allocated on the way back (`SetValue`). -/
def withValue (c : Cfg) (o : Option Opts) : Ty → J → Except Err Val
  | .ptr t, j =>
    if c.pinned && t.isContainer then
      (match t, j with
       | .slice _, .arr [] => .error .panic          -- `value.Set(MakeSlice(SliceOf(fieldType.Elem())))`
       | .map _, _ => .error .panic                  -- `fieldType.Key()` on a pointer type
       | _, _ => .error .outside)
    else (withValue c o t j).map .ptr
  | .prim k, j => primWithValue c o k j
  | .struct fs, j =>
    match j with
    | .obj m => (unmFields c fs m).map .struct
    | .num lit => jsonNumberPath c o none lit
    | _ => .error .mismatch
  | .slice t, j =>
    match j with
    | .arr l => (mapElems (fun j => if j.isNull then .ok (zero t) else elemValue c.top t j) l).map (sliceResult l)
    | .num _ => .error .json          -- fillSliceFromString: encoding/json refuses a number
    | .str _ => .error .outside       -- string-encoded slice ([]byte base64, JSON text)
    | _ => .error .mismatch
  | .map t, j =>
    match j with
    | .obj m => (mapEntries (fun j => mapElemValue c.top t j) (canonObj m)).map .map
    | .num _ => .error .json          -- fillMapFromString
    | .str _ => .error .outside
    | _ => .error .mismatch

/-- one non-null element of a slice (`fillSlice` loop body / `fillSliceValue`) -/
def elemValue (c : Cfg) : Ty → J → Except Err Val
  | .ptr t, j =>
    if c.pinned && t.isContainer then .error .panic   -- `fillSlice(dereffedBaseType, conv.Index(i))`: `reflect.Set` panic
    else (elemValue c t j).map .ptr
  | .prim k, j =>
    match j with
    | .num s => convertFromString k s
    | .str s => convertFromString k s
    | .bool b => if k = .bool then .ok (.bool b) else .error .mismatch
    | _ => .error .mismatch
  | .struct fs, j =>
    match j with
    | .obj m => (unmFields c fs m).map .struct
    | _ => .error .mismatch
  | .slice t, j =>
    match j with
    | .arr l => (mapElems (fun j => if j.isNull then .ok (zero t) else elemValue c.top t j) l).map (sliceResult l)
    | _ => .error .mismatch
  | .map t, j =>
    match j with
    | .obj m => (mapEntries (fun j => mapElemValue c.top t j) (canonObj m)).map .map
    | .num _ => .error .unsupported
    | .str _ => .error .unsupported
    | _ => .error .mismatch

/-- one value of a map (`generateMap` loop body; repaired code: pointer element types go through
`SetMapIndexValue`, a null for a slice element type is a type mismatch) -/
def mapElemValue (c : Cfg) : Ty → J → Except Err Val
  | .ptr t, j =>
    if c.pinned && t.isContainer then .error .outside
    else if c.pinned && (derefKind t).isSome then
      (match mapElemValue c t j with | .error e => .error e | .ok _ => .error .panic)
    else (mapElemValue c t j).map .ptr
  | .prim k, j =>
    match j with
    | .bool b => if k = .bool then .ok (.bool b) else .error .mismatch
    | .str s => if k = .string then .ok (.str s) else .error .mismatch
    | .num lit => convertFromString k lit
    | _ => .error .mismatch
  | .struct fs, j =>
    match j with
    | .obj m => (unmFields c fs m).map .struct
    | _ => .error .mismatch
  | .slice t, j =>
    match j with
    | .arr l => (mapElems (fun j => if j.isNull then .ok (zero t) else elemValue c.top t j) l).map (sliceResult l)
    | .null => if c.pinned then .error .panic else .error .mismatch
    | _ => .error .mismatch
  | .map t, j =>
    match j with
    | .obj m => (mapEntries (fun j => mapElemValue c.top t j) (canonObj m)).map .map
    | _ => .error .mismatch

/-- `processNamedFieldWithoutValue` for a field that is neither defaulted nor optional -/
def absentRequired (c : Cfg) : Ty → Except Err Val
  | .ptr t =>
    if c.pinned && t.isContainer then (match t with | .map _ => .error .panic | _ => .error .outside)
    else (absentRequired c t).map .ptr
  | .prim _ => .error .notSet
  | .struct fs =>
    match structRequired fs with
    | .error e => .error e
    | .ok true => .error .notSet
    | .ok false => (unmFields c.top fs []).map .struct
  | .slice _ => .error .mismatch
  | .map _ => .ok (.map .nil)

def unmFields (c : Cfg) : Fields → Obj → Except Err VFields
  | .nil, _ => .ok .nil
  | .cons name tag t rest, m =>
    match fieldCore c name tag t.isSlice m (fun o j => withValue (c.nestIn m) o t j) (fun _ => absentRequired c t)
            (defaultVal c t) (zero t) with
    | .error e => .error e
    | .ok v =>
      match unmFields c rest m with
      | .error e => .error e
      | .ok vs => .ok (.cons name v vs)
end

/-- `Unmarshaler.Unmarshal(i, &v)` with `v` of struct type `ty` -/
def unmarshal (c : Cfg) (ty : Ty) (j : J) : Except Err Val :=
  match ty with
  | .struct fs =>
    match j with
    | .obj m => (unmFields c fs m).map .struct
    | .arr _ => .error .mismatch
    | _ => .error .unsupported
  | _ => .error .outside

/-! ## the YAML front end -/

mutual
/-- what `encoding.YamlToJson` does to the nulls of a document (`asIs = true`, the code: `toStringKeyMap` sends a YAML null
through `lang.Repr(nil)` and hands on the empty *string*, at every depth); `asIs = false`: a front end that keeps nulls
(JSON, TOML has none) -/
def yamlNulls (asIs : Bool) : J → J
  | .null => if asIs then .str [] else .null
  | .arr l => .arr (yamlNullsL asIs l)
  | .obj m => .obj (yamlNullsO asIs m)
  | j => j
def yamlNullsL (asIs : Bool) : List J → List J
  | [] => []
  | j :: rest => yamlNulls asIs j :: yamlNullsL asIs rest
def yamlNullsO (asIs : Bool) : List (Str × J) → List (Str × J)
  | [] => []
  | (k, j) :: rest => (k, yamlNulls asIs j) :: yamlNullsO asIs rest
end


/-! ## core/mapping/valuer.go: simple and recursive (inherit) lookups

A struct nested in a struct is unmarshalled from a node whose parent is the valuer of the enclosing field, so a lookup
sees a chain of objects: the current one first, then the enclosing ones, nearest first.  `inherit` selects
`recursiveValuer` (`createValuer`). -/

/-- the objects a valuer can see: current node first, then its ancestors (nearest first) -/
abbrev Chain := List Obj

/-- `simpleValuer.Value`: the current node only -/
def simpleValue (ch : Chain) (k : Str) : Option J :=
  match ch with
  | [] => none
  | cur :: _ => getKey k cur

/-- the loop of `recursiveValuer.Value`: `for k, v := range pm { if _, ok := vm[k]; !ok { vm[k] = v } }` — the child's
own bindings stay, the parent's fill in the keys the child does not bind -/
def mergeMissing (vm pm : Obj) : Obj := vm ++ pm.filter (fun kv => !hasKey kv.1 vm)

/-- replace the binding of `k` (the merged object is the very map stored under `k`: the merge is visible to later lookups) -/
def setKey (k : Str) (v : J) (o : Obj) : Obj := o.filter (fun kv => kv.1 ≠ k) ++ [(k, v)]

/-- `recursiveValuer.Value` with the state it leaves behind: the current node's binding, else the ancestors'; when both the
current binding and the inherited one are objects the inherited entries are merged *into the current node's object* -/
def recValueM : Chain → Str → Option J × Chain
  | [], _ => (none, [])
  | cur :: parents, k =>
    match getKey k cur with
    | none => ((recValueM parents k).1, cur :: (recValueM parents k).2)
    | some (.obj vm) =>
      match (recValueM parents k).1 with
      | some (.obj pm) =>
        (some (.obj (mergeMissing vm pm)), setKey k (.obj (mergeMissing vm pm)) cur :: (recValueM parents k).2)
      | _ => (some (.obj vm), cur :: (recValueM parents k).2)
    | some v => (some v, cur :: parents)

/-- the value an `inherit` lookup returns -/
def recValue (ch : Chain) (k : Str) : Option J := (recValueM ch k).1

/-! ## rest/httpx.Parse: path, form, header and JSON body unmarshalers on one target -/

def httpCfgPath (pinned : Bool) : Cfg := { fromString := true, opaqueKeys := true, pinned := pinned }
def httpCfgForm (pinned : Bool) : Cfg := { fromString := true, fromArray := true, opaqueKeys := true, pinned := pinned }
def httpCfgHeader (pinned : Bool) : Cfg := { fromString := true, canonical := true, pinned := pinned }
def httpCfgJson (pinned : Bool) : Cfg := { pinned := pinned }

/-- tags of a request struct are written `key|value` (one tag key per field) -/
def splitTag (tv : Str) : Str × Str := (tv.takeWhile (· ≠ '|'), (tv.dropWhile (· ≠ '|')).drop 1)

/-- the fields as the unmarshaler with tag key `key` sees them: fields tagged with another key are skipped (`usingDifferentKeys`) -/
def viewFields (key : Str) : Fields → Fields
  | .nil => .nil
  | .cons n tag t rest =>
    .cons n (match tag with
             | none => none
             | some tv => if (splitTag tv).1 = key then some (splitTag tv).2 else none) t (viewFields key rest)

def stripArraySuffix (k : Str) : Str :=
  if "][".toList.isPrefixOf k.reverse then (k.reverse.drop 2).reverse else k

/-- `GetFormValues`: empty values are ignored, a name without values left is dropped, a trailing `[]` of the name is cut;
every value list is handed over as a `[]string` -/
def formParams : List (Str × List Str) → Obj
  | [] => []
  | (k, vs) :: rest =>
    if (vs.filter (fun v => !v.isEmpty)).isEmpty then formParams rest
    else (stripArraySuffix k, .arr ((vs.filter (fun v => !v.isEmpty)).map .str)) :: formParams rest

/-- the values of one key of an `http.Header`: `none` is a nil `[]string` (`http.Header{"X": nil}`), `some []` an
empty one (a middleware that filtered every value away: `h[k] = kept[:0]`) -/
abbrev HVals := Option (List Str)

def HVals.len : HVals → Nat
  | none => 0
  | some l => l.length

/-- `[]string` handed to the unmarshaller as a value: a nil slice behaves like an array whose elements are all null
(`fillSlice` stores nothing: `refValue.IsNil()`), for every other target kind both are "a slice" -/
def HVals.toJ : HVals → J
  | none => .arr [.null]
  | some l => .arr (l.map .str)

/-- the decision of `encoding.ParseHeaders`: `len(v) == 1` ⇒ the value is handed over as a string -/
def headerScalar (len : Int) : Bool := decide (len = 1)

/-- `v[i]` in Go: an index outside `0 ≤ i < len(v)` panics -/
def goIndex (vs : HVals) (i : Int) : Except Err Str :=
  if i < 0 then .error .panic
  else match (vs.getD [])[i.toNat]? with
    | some v => .ok v
    | none => .error .panic

/-- one iteration of the loop of `encoding.ParseHeaders` for an arbitrary scalar-vs-slice decision `scalar` and
index `idx` (the code: `if len(v) == 1 { m[k] = v[0] } else { m[k] = v }`) -/
def headerEntryG (scalar : Int → Bool) (idx : Int) (vs : HVals) : Except Err J :=
  if scalar vs.len then (goIndex vs idx).map .str else .ok vs.toJ

/-- the loop body of `encoding.ParseHeaders` as it is written -/
def headerEntry (vs : HVals) : Except Err J := headerEntryG headerScalar 0 vs

/-- what `headerEntry` computes (total: `Props.headerEntry_total`) -/
def headerVal : HVals → J
  | some [v] => .str v
  | vs => vs.toJ

/-- `encoding.ParseHeaders`: a single value is handed over as a string, zero or several as a `[]string`
(net/http has canonicalised the names) -/
def headerParams : List (Str × HVals) → Obj
  | [] => []
  | (k, vs) :: rest => (canonKey k, headerVal vs) :: headerParams rest

/-- every field keeps the value of the unmarshaler that owns its tag key -/
def mergeViews : Fields → VFields → VFields → VFields → VFields → VFields
  | .cons n tag _ rest, .cons _ v1 r1, .cons _ v2 r2, .cons _ v3 r3, .cons _ v4 r4 =>
    let k := match tag with | some tv => (splitTag tv).1 | none => []
    .cons n (if k = "path".toList then v1 else if k = "form".toList then v2 else if k = "header".toList then v3 else v4)
      (mergeViews rest r1 r2 r3 r4)
  | _, _, _, _, _ => .nil

/-- `httpx.ParsePath`: the path unmarshaler on the path variables -/
def httpParsePath (pinned : Bool) (fs : Fields) (p : Obj) : Except Err VFields :=
  unmFields (httpCfgPath pinned) (viewFields "path".toList fs) p

/-- `httpx.ParseForm`: the form unmarshaler on `GetFormValues` -/
def httpParseForm (pinned : Bool) (fs : Fields) (f : List (Str × List Str)) : Except Err VFields :=
  unmFields (httpCfgForm pinned) (viewFields "form".toList fs) (formParams f)

/-- `httpx.ParseHeaders` = `encoding.ParseHeaders(r.Header, v)`: the header unmarshaler on `headerParams` -/
def httpParseHeaders (pinned : Bool) (fs : Fields) (h : List (Str × HVals)) : Except Err VFields :=
  unmFields (httpCfgHeader pinned) (viewFields "header".toList fs) (headerParams h)

/-- `httpx.ParseJsonBody`: the JSON unmarshaler on the body, on the empty object without one (`UnmarshalJsonMap(nil, v)`) -/
def httpParseJsonBody (pinned : Bool) (fs : Fields) (b : Option J) : Except Err VFields :=
  match unmarshal (httpCfgJson pinned) (.struct (viewFields "json".toList fs)) (b.getD (.obj [])) with
  | .ok (.struct v4) => .ok v4
  | .ok _ => .error .outside
  | .error e => .error e

/-- `httpx.Parse(r, &v)`: ParsePath, ParseForm, ParseHeaders, ParseJsonBody in this order, the first error wins;
without a JSON body the json unmarshaler runs on the empty object -/
def httpParse (pinned : Bool) (fs : Fields) (p : Obj) (f : List (Str × List Str)) (h : List (Str × HVals)) (b : Option J) :
    Except Err VFields :=
  match httpParsePath pinned fs p with
  | .error e => .error e
  | .ok v1 =>
    match httpParseForm pinned fs f with
    | .error e => .error e
    | .ok v2 =>
      match httpParseHeaders pinned fs h with
      | .error e => .error e
      | .ok v3 =>
        match httpParseJsonBody pinned fs b with
        | .error e => .error e
        | .ok v4 => .ok (mergeViews fs v1 v2 v3 v4)

/-! ## the public entry points: what they are handed besides the document (round 5d)

`UnmarshalJsonBytes / Reader / Map`, `UnmarshalKey`, `UnmarshalYaml… / Toml…`, `conf.LoadFrom…Bytes`, `httpx.Parse…` all end in
`Unmarshaler.unmarshal(i, v)`: the source is decoded first (an empty / malformed text, a reader that fails: the decoder's
error), then the target is looked at: `reflect.TypeOf(v).Kind() != reflect.Ptr` ⇒ `errValueNotSettable`, a document that is
an object needs `Deref(type)` to be a struct (else `errTypeMismatch`), `ValidatePtr` refuses a nil pointer.  A `**T` target is
allocated and filled.  At the pinned commit `reflect.TypeOf(nil).Kind()` panics for an untyped nil target
(`Props.pinned_nil_target_panics`; fixes/not-applied/C08-nil-target.patch).  A panic of the caller's reader is the caller's: it propagates. -/

inductive Target where
  | ptr            -- *T
  | ptrptr         -- **T (nil inner pointer): allocated
  | nilIface       -- untyped nil
  | value          -- T, not a pointer
  | nilPtr         -- (*T)(nil)
  | ptrNonStruct   -- *int
  deriving Repr, DecidableEq

inductive Source where
  | doc            -- a document was decoded
  | empty          -- empty text / reader at EOF
  | malformed      -- not JSON (truncated, over the body cap of rest/httpx)
  | readErr        -- the reader returned an error
  | readPanic      -- the reader panicked
  deriving Repr, DecidableEq

def Target.valid : Target → Bool
  | .ptr | .ptrptr => true
  | _ => false

def entryPoint (c : Cfg) (tgt : Target) (src : Source) (ty : Ty) (j : J) : Except Err Val :=
  match src with
  | .readPanic => .error .panic
  | .empty | .malformed | .readErr => .error .json
  | .doc =>
    match tgt with
    | .nilIface => if c.pinned then .error .panic else .error .unsupported
    | .value => .error .unsupported
    | .nilPtr => .error .unsupported
    | .ptrNonStruct => .error .mismatch
    | .ptr | .ptrptr => unmarshal c ty j

/-- `withJsonBody`: the body of a request is read iff `Content-Length > 0` and the content type names JSON -/
def withJsonBody (contentLength : Int) (jsonType : Bool) : Bool := decide (contentLength > 0) && jsonType

/-- `httpx.Parse` on a request as it arrives: the body counts only under `withJsonBody` (a chunked body, `Content-Length: -1`,
or a body under another content type is not looked at), and then it must decode -/
def httpParseReq (pinned : Bool) (fs : Fields) (p : Obj) (f : List (Str × List Str)) (h : List (Str × HVals))
    (contentLength : Int) (jsonType : Bool) (src : Source) (b : J) : Except Err VFields :=
  if withJsonBody contentLength jsonType then
    match src with
    | .doc => httpParse pinned fs p f h (some b)
    | .readPanic =>
      (match httpParsePath pinned fs p, httpParseForm pinned fs f, httpParseHeaders pinned fs h with
       | .ok _, .ok _, .ok _ => .error .panic
       | .error e, _, _ => .error e
       | _, .error e, _ => .error e
       | _, _, .error e => .error e)
    | _ =>
      (match httpParsePath pinned fs p, httpParseForm pinned fs f, httpParseHeaders pinned fs h with
       | .ok _, .ok _, .ok _ => .error .json
       | .error e, _, _ => .error e
       | _, .error e, _ => .error e
       | _, _, .error e => .error e)
  else httpParse pinned fs p f h none

end GoZero.C08
