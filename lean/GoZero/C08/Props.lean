/-
C08 — property theorems (stage 1; extended below as the proofs are completed).
-/
import GoZero.C08.Spec
namespace GoZero.C08.Props
open GoZero.C08 GoZero.C08.Spec

/-- the model accepts `j` with a result that violates the declared constraints -/
def acceptsUnsound (c : Cfg) (ty : Ty) (j : J) : Bool :=
  match unmarshal c ty j with
  | .ok v => !satisfies c ty j v
  | .error _ => false

theorem acceptsUnsound_spec {c : Cfg} {ty : Ty} {j : J} (h : acceptsUnsound c ty j = true) :
    ∃ v, unmarshal c ty j = .ok v ∧ satisfies c ty j v = false := by
  unfold acceptsUnsound at h
  split at h
  · rename_i v hv; exact ⟨v, hv, by simpa using h⟩
  · simp at h

def witnessDepRangeTy : Ty :=
  .struct (.cons "A".toList (some "a,optional".toList) (.prim (.int 64))
          (.cons "B".toList (some "b,optional=a,range=[1:5]".toList) (.prim (.int 64)) .nil))
def witnessDepRangeIn : J := .obj [("a".toList, .num "1".toList), ("b".toList, .num "100".toList)]

/-- the confirmed defect of the pinned commit: with `optional=dep` the rebuilt option set lost the range,
so `{"a":1,"b":100}` is accepted into `B int json:"b,optional=a,range=[1:5]"` although 100 ∉ [1,5]. -/
theorem pinned_dep_range_witness :
    acceptsUnsound { pinned := true } witnessDepRangeTy witnessDepRangeIn = true := by decide +kernel

/-- the repaired code rejects the same input (`errNumberRange`) -/
theorem fixed_dep_range_rejected :
    (match unmarshal {} witnessDepRangeTy witnessDepRangeIn with | .error .range => true | _ => false) = true := by
  decide +kernel

end GoZero.C08.Props
