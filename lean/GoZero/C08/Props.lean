/-
C08 — property theorems: accept_sound (nothing invalid is accepted), accept_complete (the converse), no_panic,
range_exact / dep_exact, httpParse_sound (the four unmarshalers of rest/httpx.Parse), and the decided witnesses of the
defects of the pinned commit next to their repaired counterparts.
-/
import GoZero.C08.ProofsTotal
import GoZero.C08.ProofsComplete
namespace GoZero.C08.Props
open GoZero.C08 GoZero.C08.Spec

/-- the model accepts `j` with a result that violates the declared constraints -/
def acceptsUnsound (c : Cfg) (ty : Ty) (j : J) : Bool :=
  match unmarshal c ty j with
  | .ok v => !satisfies c ty j v
  | .error _ => false

theorem acceptsUnsound_spec {c : Cfg} {ty : Ty} {j : J} (h : acceptsUnsound c ty j = true) :
    ∃ v, unmarshal c ty j = .ok v ∧ satisfies c ty j v = false := by
  unfold acceptsUnsound at h
  split at h
  · rename_i v hv; exact ⟨v, hv, by simpa using h⟩
  · simp at h

def witnessDepRangeTy : Ty :=
  .struct (.cons "A".toList (some "a,optional".toList) (.prim (.int 64))
          (.cons "B".toList (some "b,optional=a,range=[1:5]".toList) (.prim (.int 64)) .nil))
def witnessDepRangeIn : J := .obj [("a".toList, .num "1".toList), ("b".toList, .num "100".toList)]

/-- the confirmed defect of the pinned commit: with `optional=dep` the rebuilt option set lost the range,
so `{"a":1,"b":100}` is accepted into `B int json:"b,optional=a,range=[1:5]"` although 100 ∉ [1,5]. -/
theorem pinned_dep_range_witness :
    acceptsUnsound { pinned := true } witnessDepRangeTy witnessDepRangeIn = true := by decide +kernel

/-- the repaired code rejects the same input (`errNumberRange`) -/
theorem fixed_dep_range_rejected :
    (match unmarshal {} witnessDepRangeTy witnessDepRangeIn with | .error .range => true | _ => false) = true := by
  decide +kernel

def witnessNaNTy : Ty := .struct (.cons "F".toList (some "f,string,range=[1:5]".toList) (.prim (.float 64)) .nil)
def witnessNaNIn : J := .obj [("f".toList, .str "NaN".toList)]

/-- second defect of the pinned commit: every comparison with NaN is false, so `{"f":"NaN"}` passes
`range=[1:5]` on `F float64 json:"f,string,range=[1:5]"` (same through form/path/header values). -/
theorem pinned_nan_range_witness :
    acceptsUnsound { pinned := true } witnessNaNTy witnessNaNIn = true := by decide +kernel

theorem fixed_nan_range_rejected :
    (match unmarshal {} witnessNaNTy witnessNaNIn with | .error .range => true | _ => false) = true := by
  decide +kernel

/-- third defect of the pinned commit: under `WithFromArray` a null value reaches `reflect.TypeOf(nil).Kind()` — a panic -/
theorem pinned_fromArray_nil_panics :
    (match unmarshal { fromString := true, fromArray := true, pinned := true }
        (.struct (.cons "F".toList (some "a,optional".toList) (.prim .string) .nil)) (.obj [("a".toList, .null)]) with
     | .error .panic => true | _ => false) = true := by decide +kernel

theorem fixed_fromArray_nil_accepted :
    (match unmarshal { fromString := true, fromArray := true }
        (.struct (.cons "F".toList (some "a,optional".toList) (.prim .string) .nil)) (.obj [("a".toList, .null)]) with
     | .ok _ => true | _ => false) = true := by decide +kernel

def witnessHeaderTy : Ty :=
  .struct (.cons "A".toList (some "a,optional".toList) (.prim .string)
          (.cons "B".toList (some "b,optional=!a".toList) (.prim .string) .nil))
def witnessHeaderIn : J := .obj [("A".toList, .str "1".toList), ("B".toList, .str "2".toList)]

/-- fourth defect of the pinned commit (header unmarshaler): the canonical-key function was applied to the whole
text `!a`, which leaves it unchanged, so the dependency was looked up under `a` instead of `A`: with both headers
supplied, `B string header:"b,optional=!a"` was accepted although exactly one of A, B may be present. -/
theorem pinned_header_notdep_witness :
    acceptsUnsound { fromString := true, canonical := true, pinned := true } witnessHeaderTy witnessHeaderIn = true := by
  decide +kernel

theorem fixed_header_notdep_rejected :
    (match unmarshal { fromString := true, canonical := true } witnessHeaderTy witnessHeaderIn with
     | .error .dep => true | _ => false) = true := by decide +kernel

/-- fifth defect of the pinned commit: maps with pointer element type panic on any scalar value, and a null value
for a slice element type panics while the error message is built -/
theorem pinned_map_panics :
    (match unmarshal { pinned := true } (.struct (.cons "M".toList (some "m".toList) (.map (.ptr (.prim (.int 64)))) .nil))
        (.obj [("m".toList, .obj [("k".toList, .num "1".toList)])]) with | .error .panic => true | _ => false) = true
    ∧ (match unmarshal { pinned := true } (.struct (.cons "M".toList (some "m".toList) (.map (.slice (.prim (.int 64)))) .nil))
        (.obj [("m".toList, .obj [("k".toList, .null)])]) with | .error .panic => true | _ => false) = true := by
  constructor <;> decide +kernel

/-- **accept_sound** — nothing invalid is ever accepted: for every struct type (any nesting of structs and
pointers, any tag text), every unmarshaler configuration of the repaired code and every input document, a
successful unmarshal yields a value that satisfies the declared constraints: required scalars supplied,
`optional=dep` / `optional=!dep` respected, supplied numbers inside their range, supplied values among their
options, target = supplied values with defaults filled. -/
theorem accept_sound (c : Cfg) (hc : c.pinned = false) (ty : Ty) (j : J) (v : Val)
    (h : unmarshal c ty j = .ok v) : satisfies c ty j v = true := by
  unfold unmarshal at h
  cases ty with
  | struct fs =>
    cases j with
    | obj m =>
      simp only at h
      obtain ⟨vs, hvs, rfl⟩ := exceptMap_ok h
      simpa [satisfies] using unmFields_sound c hc fs m vs hvs
    | null => simp at h
    | bool b => simp at h
    | num s => simp at h
    | str s => simp at h
    | arr l => simp at h
  | prim k => simp at h
  | ptr t => simp at h
  | slice t => simp at h
  | map t => simp at h

/-- **accept_complete** — the converse: for every struct type, every unmarshaler configuration of the repaired code and
every input document, if the input meets all declared constraints with correctly typed values (`Spec.complete`:
every tag parses and uses only modelled options, dependencies hold, absent fields are defaulted / optional / maps /
nested structs without required fields, nulls only for optional fields, supplied scalars are literals of their kind
inside the declared range and among the declared options, containers element by element) then the unmarshaller
accepts it — and by `accept_sound` the result holds exactly the supplied values with defaults filled.

What `Spec.complete` leaves out (the named gap): values the code also accepts but that are not "correctly typed" in
the sense above — a JSON number for a string-mode field whose literal `json.Number.Float64` refuses, string-encoded
slices/maps, a range declared on a non-numeric field (the code rejects every supplied value of such a field) — and
the premise `f64OK` (the literal parses as float64) is part of `numTyped`; it is implied for integer literals of a bit
size ≤ 64 (`int_literal_typed`; `Kind.int b` allows any `b`), and is the float64 typing itself for floats. -/
theorem accept_complete (c : Cfg) (hc : c.pinned = false) (ty : Ty) (j : J)
    (h : complete c ty j = true) :
    ∃ v, unmarshal c ty j = .ok v ∧ satisfies c ty j v = true := by
  unfold complete at h
  cases ty with
  | struct fs =>
    cases j with
    | obj m =>
      simp only at h
      obtain ⟨vs, hvs⟩ := okFields_complete c hc fs m h
      have hu : unmarshal c (.struct fs) (.obj m) = .ok (.struct vs) := by simp [unmarshal, hvs, Except.map]
      exact ⟨_, hu, accept_sound c hc _ _ _ hu⟩
    | null => simp at h
    | bool b => simp at h
    | num s => simp at h
    | str s => simp at h
    | arr l => simp at h
  | prim k => simp at h
  | ptr t => simp at h
  | slice t => simp at h
  | map t => simp at h

/-- the premise "the literal parses as float64" inside `Spec.numTyped` is implied for the integer kinds of Go (bit size ≤ 64):
an integer literal of the field's bit size is a correctly typed JSON number -/
theorem int_literal_typed (b : Nat) (hb : b ≤ 64) (lit : Str) :
    ((∃ i, parseInt b lit = .ok i) → numTyped (.int b) lit = true)
    ∧ ((∃ i, parseUint b lit = .ok i) → numTyped (.uint b) lit = true) :=
  ⟨fun ⟨_, h⟩ => numTyped_int hb h, fun ⟨_, h⟩ => numTyped_uint hb h⟩

/-- **range_exact** (used by the converse direction) — on the repaired code the range test accepts a finite number
exactly when it lies inside the declared range, open and closed ends respected. -/
theorem range_exact (c : Cfg) (hc : c.pinned = false) (r : Range) (d : Dec) :
    rangeRejects c r (.fin d) = false ↔ Range.contains r d = true := by
  constructor
  · intro h
    obtain ⟨d', hd, hcont⟩ := rangeRejects_false hc h
    cases hd; exact hcont
  · exact rangeRejects_of_contains hc

/-- **dep_exact** (used by the converse direction) — `optional` / `optional=dep` / `optional=!dep` are resolved without
error exactly when the declared dependency holds on the input, and then to the declared optionality. -/
theorem dep_exact (o : Opts) (key : Str) (m : Obj) :
    (∃ b, effOptional o key m = .ok b) ↔ depOK o key m = true := by
  constructor
  · rintro ⟨b, hb⟩; exact (effOptional_spec hb).1
  · intro h; exact ⟨_, effOptional_of_depOK h⟩

example : Range.contains ⟨⟨1, 0⟩, true, ⟨5, 0⟩, false⟩ ⟨45, -1⟩ = true ∧ Range.contains ⟨⟨1, 0⟩, true, ⟨5, 0⟩, false⟩ ⟨5, 0⟩ = false := by
  decide

/-- **no_panic** — no input makes the (repaired) unmarshaller panic: for every type whose tag texts do not make
`parseKeyAndOptions` index an empty segment list (`tagsOK`; the only offender is a tag value that is a lone
escape character), every configuration and every input document, the model never reaches a Go panic.
(A panic of the real code is caught by the harness and reported as a violation.) -/
theorem no_panic (c : Cfg) (hc : c.pinned = false) (ty : Ty) (hty : tagsOK ty = true) (j : J) :
    unmarshal c ty j ≠ .error .panic := by
  unfold unmarshal
  cases ty with
  | struct fs =>
    cases j with
    | obj m =>
      have := NP_map Val.struct (NP_unmFields c hc fs m (by simpa [tagsOK] using hty))
      simpa [NP] using this
    | null => simp
    | bool b => simp
    | num s => simp
    | str s => simp
    | arr l => simp
  | prim k => simp
  | ptr t => simp
  | slice t => simp
  | map t => simp

/-- non-vacuity: a nested type with every option kind, and an input that is accepted -/
def exampleTy : Ty :=
  .struct (.cons "A".toList (some "a,optional".toList) (.prim (.int 8))
          (.cons "B".toList (some "b,optional=a,range=[1:5]".toList) (.ptr (.prim (.int 64)))
          (.cons "C".toList (some "c,default=2.5,range=(0:10)".toList) (.prim (.float 64))
          (.cons "D".toList (some "d,options=foo|bar".toList) (.prim .string)
          (.cons "E".toList (some "e".toList)
            (.struct (.cons "X".toList (some "x,string,range=[0:1]".toList) (.prim (.uint 8)) .nil))
          (.cons "S".toList (some "s,optional".toList) (.slice (.ptr (.prim (.int 16))))
          (.cons "M".toList (some "m".toList) (.map (.struct (.cons "Y".toList (some "y,default=3".toList) (.prim (.int 64)) .nil)))
           .nil)))))))
def exampleIn : J :=
  .obj [("a".toList, .num "7".toList), ("b".toList, .num "5".toList), ("d".toList, .str "bar".toList),
        ("e".toList, .obj [("x".toList, .str "1".toList)]),
        ("s".toList, .arr [.num "1".toList, .null, .str "3".toList]),
        ("m".toList, .obj [("k".toList, .obj []), ("a".toList, .obj [("y".toList, .num "9".toList)])])]

example : tagsOK exampleTy = true := by decide +kernel

example : (match unmarshal {} exampleTy exampleIn with | .ok v => satisfies {} exampleTy exampleIn v | _ => false) = true := by
  decide +kernel

/-- non-vacuity of `accept_complete`: the example input is complete; one step outside the range it is not -/
example : complete {} exampleTy exampleIn = true := by decide +kernel

example : complete {} exampleTy
    (.obj [("a".toList, .num "7".toList), ("b".toList, .num "6".toList), ("d".toList, .str "bar".toList),
           ("e".toList, .obj [("x".toList, .str "1".toList)])]) = false := by decide +kernel

/-! ### round 2: defects of the pinned commit found while widening the family -/

def ptrSliceTy : Ty := .struct (.cons "A".toList (some "a".toList) (.ptr (.slice (.prim (.int 64)))) .nil)
def ptrMapTy : Ty := .struct (.cons "A".toList (some "a".toList) (.ptr (.map (.prim (.int 64)))) .nil)

/-- sixth defect (pointer to slice / map fields): `A *[]int json:"a"` panics on `{"a":[]}` (`reflect.Set` of a `[][]int`
into a `*[]int`), `A *map[string]int json:"a"` panics on every input, even `{}` (`reflect.Type.Key` of a pointer type),
`A []*[]int` panics on `{"a":[[1]]}` — replayed on the real code; 'no input makes the unmarshaller panic' -/
theorem pinned_ptr_container_panics :
    (match unmarshal { pinned := true } ptrSliceTy (.obj [("a".toList, .arr [])]) with | .error .panic => true | _ => false) = true
    ∧ (match unmarshal { pinned := true } ptrMapTy (.obj []) with | .error .panic => true | _ => false) = true
    ∧ (match unmarshal { pinned := true } (.struct (.cons "A".toList (some "a".toList) (.slice (.ptr (.slice (.prim (.int 64))))) .nil))
        (.obj [("a".toList, .arr [.arr [.num "1".toList]])]) with | .error .panic => true | _ => false) = true := by
  refine ⟨?_, ?_, ?_⟩ <;> decide +kernel

/-- the repaired code fills the container and points to it: `{"a":[]}` gives a pointer to an empty slice, `{}` a pointer
to an empty map, and both inputs are complete (so `accept_complete` covers them) -/
theorem fixed_ptr_container_accepted :
    (match unmarshal {} ptrSliceTy (.obj [("a".toList, .arr [])]) with
     | .ok (.struct (.cons _ (.ptr (.list .nil)) .nil)) => true | _ => false) = true
    ∧ (match unmarshal {} ptrMapTy (.obj []) with
       | .ok (.struct (.cons _ (.ptr (.map .nil)) .nil)) => true | _ => false) = true
    ∧ complete {} ptrSliceTy (.obj [("a".toList, .arr [.num "1".toList, .num "2".toList])]) = true := by
  refine ⟨?_, ?_, ?_⟩ <;> decide +kernel

/-- `fillSliceWithDefault` at the pinned commit: the parsed default was cached under its text alone, so a `[]string` field
with `default=[true]` was filled from the list `[true]` (a JSON bool) that a `[]bool` field with the same default text had
parsed before — `fillSliceValue` refuses a bool for a string element (replayed: type mismatch, although the same type is
accepted in a fresh process) -/
def pinnedStringDefaultFromCache (cached : List J) : Except Err Val :=
  (mapElems (fun j => if j.isNull then .ok (zero (.prim .string)) else elemValue { pinned := true } (.prim .string) j) cached).map
    (sliceResult cached)

/-- seventh defect: acceptance depended on which types had been unmarshalled before (the converse clause fails) -/
theorem pinned_defaultCache_witness :
    (match pinnedStringDefaultFromCache [.bool true] with | .error .mismatch => true | _ => false) = true
    ∧ complete {} (.struct (.cons "A".toList (some "a,default=[true]".toList) (.slice (.prim .string)) .nil)) (.obj []) = true
    ∧ (match unmarshal {} (.struct (.cons "A".toList (some "a,default=[true]".toList) (.slice (.prim .string)) .nil)) (.obj []) with
       | .ok (.struct (.cons _ (.list (.cons (.str s) .nil)) .nil)) => s == "true".toList | _ => false) = true := by
  refine ⟨?_, ?_, ?_⟩ <;> decide +kernel

/-! ### rest/httpx.Parse -/

/-- `httpx.ParsePath` alone: an accepted request satisfies the constraints of the `path` fields against the path variables -/
theorem parsePath_sound (fs : Fields) (p : Obj) (v : VFields) (h : httpParsePath false fs p = .ok v) :
    satFields (httpCfgPath false) (viewFields "path".toList fs) p v = true :=
  unmFields_sound _ rfl _ _ _ h

/-- `httpx.ParseForm` alone, against what `GetFormValues` keeps of the form values -/
theorem parseForm_sound (fs : Fields) (f : List (Str × List Str)) (v : VFields) (h : httpParseForm false fs f = .ok v) :
    satFields (httpCfgForm false) (viewFields "form".toList fs) (formParams f) v = true :=
  unmFields_sound _ rfl _ _ _ h

/-- `httpx.ParseHeaders` / `encoding.ParseHeaders` alone, against the header map with zero, one or several values per key -/
theorem parseHeaders_sound (fs : Fields) (hd : List (Str × HVals)) (v : VFields) (h : httpParseHeaders false fs hd = .ok v) :
    satFields (httpCfgHeader false) (viewFields "header".toList fs) (headerParams hd) v = true :=
  unmFields_sound _ rfl _ _ _ h

/-- `httpx.ParseJsonBody` alone (no body = the empty object) -/
theorem parseJsonBody_sound (fs : Fields) (b : Option J) (v : VFields) (h : httpParseJsonBody false fs b = .ok v) :
    satisfies (httpCfgJson false) (.struct (viewFields "json".toList fs)) (b.getD (.obj [])) (.struct v) = true := by
  have e4 : "json".toList = ['j', 's', 'o', 'n'] := rfl
  rw [e4]
  unfold httpParseJsonBody at h
  split at h
  · rename_i v4 h4
    cases h
    exact accept_sound (httpCfgJson false) rfl _ _ _ h4
  · simp at h
  · simp at h

/-! ### `encoding.ParseHeaders`: scalar or slice, by the number of values of the key -/

/-- **parseHeaders_no_panic (general form)** — whatever decision `scalar` and index `idx` the loop body of `ParseHeaders`
uses, it never panics on any value list (nil, empty, one, several values) **iff** the decision only says "scalar" for
lengths that the index is inside of. -/
theorem headerEntryG_no_panic_iff (scalar : Int → Bool) (idx : Int) :
    (∀ vs : HVals, headerEntryG scalar idx vs ≠ .error .panic)
      ↔ (∀ n : Nat, scalar n = true → 0 ≤ idx ∧ idx < n) := by
  constructor
  · intro h n hn
    have h1 := h (some (List.replicate n []))
    simp only [headerEntryG, HVals.len, List.length_replicate, hn, if_true, goIndex] at h1
    by_cases hneg : idx < 0
    · simp [hneg, Except.map] at h1
    · simp only [hneg, if_false, Option.getD_some] at h1
      refine ⟨by omega, ?_⟩
      by_cases hlt : idx < n
      · exact hlt
      · have : (List.replicate n ([] : Str))[idx.toNat]? = none := by
          apply List.getElem?_eq_none; simp; omega
        simp [this, Except.map] at h1
  · intro h vs
    unfold headerEntryG
    by_cases hs : scalar vs.len = true
    · obtain ⟨h0, h1⟩ := h _ hs
      simp only [hs, if_true, goIndex]
      have hneg : ¬ idx < 0 := by omega
      simp only [hneg, if_false]
      have hlen : idx.toNat < (vs.getD []).length := by
        cases vs with
        | none => simp [HVals.len] at h1; omega
        | some l => simp [HVals.len] at h1 ⊢; omega
      rw [List.getElem?_eq_getElem hlen]
      simp [Except.map]
    · simp [hs]

/-- **parseHeaders_no_panic** — the loop body as written (`len(v) == 1` ⇒ `v[0]`, else the slice) is total: for a header
key with zero values (nil or empty slice), one value or several, it yields `headerVal`, never a panic. -/
theorem headerEntry_total (vs : HVals) : headerEntry vs = .ok (headerVal vs) := by
  cases vs with
  | none => rfl
  | some l =>
    match l with
    | [] => rfl
    | [v] => rfl
    | a :: b :: rest =>
      have hne : ¬ (((a :: b :: rest).length : Nat) : Int) = 1 := by simp; omega
      simp only [headerEntry, headerEntryG, headerScalar, HVals.len, headerVal, hne, decide_false]
      rfl

theorem headerEntry_no_panic (vs : HVals) : headerEntry vs ≠ .error .panic := by
  rw [headerEntry_total]; simp

/-- the flipped decision (`len(v) > 1` ⇒ slice, else `v[0]`) panics on a key without values: the general theorem is not vacuous -/
example : (match headerEntryG (fun n => !decide (n > 1)) 0 none with | .error .panic => true | _ => false) = true
    ∧ (match headerEntryG (fun n => !decide (n > 1)) 0 (some []) with | .error .panic => true | _ => false) = true := by
  constructor <;> decide

/-- a header key with zero values reaches the unmarshaller as a slice: a scalar field is rejected, a slice field takes
the empty slice, an optional field does not mask it -/
example :
    (match httpParseHeaders false (.cons "A".toList (some "header|a,optional".toList) (.prim .string) .nil) [("a".toList, some [])] with
     | .error .notString => true | _ => false) = true
    ∧ (match httpParseHeaders false (.cons "A".toList (some "header|a".toList) (.slice (.prim .string)) .nil) [("a".toList, some [])] with
       | .ok (.cons _ (.list .nil) .nil) => true | _ => false) = true
    ∧ (match httpParseHeaders false (.cons "A".toList (some "header|a".toList) (.slice (.prim .string)) .nil) [("a".toList, none)] with
       | .ok (.cons _ .nil .nil) => true | _ => false) = true := by
  refine ⟨?_, ?_, ?_⟩ <;> decide +kernel

/-- **httpParse_sound** — `httpx.Parse` (path, form, header and JSON-body unmarshalers on one request struct): if the
request is accepted, the result is the merge of four per-source results each of which satisfies the declared constraints
of the fields of its source against that source's parameters (`GetFormValues` / `ParseHeaders` views included). -/
theorem httpParse_sound (fs : Fields) (p : Obj) (f : List (Str × List Str)) (h : List (Str × HVals)) (b : Option J)
    (vs : VFields) (hp : httpParse false fs p f h b = .ok vs) :
    ∃ v1 v2 v3 v4, vs = mergeViews fs v1 v2 v3 v4
      ∧ satFields (httpCfgPath false) (viewFields "path".toList fs) p v1 = true
      ∧ satFields (httpCfgForm false) (viewFields "form".toList fs) (formParams f) v2 = true
      ∧ satFields (httpCfgHeader false) (viewFields "header".toList fs) (headerParams h) v3 = true
      ∧ satisfies (httpCfgJson false) (.struct (viewFields "json".toList fs)) (b.getD (.obj [])) (.struct v4) = true := by
  unfold httpParse at hp
  cases h1 : httpParsePath false fs p with
  | error e => simp [h1] at hp
  | ok v1 =>
    cases h2 : httpParseForm false fs f with
    | error e => simp [h1, h2] at hp
    | ok v2 =>
      cases h3 : httpParseHeaders false fs h with
      | error e => simp [h1, h2, h3] at hp
      | ok v3 =>
        cases h4 : httpParseJsonBody false fs b with
        | error e => simp [h1, h2, h3, h4] at hp
        | ok v4 =>
          simp [h1, h2, h3, h4] at hp
          exact ⟨v1, v2, v3, v4, hp.symm, parsePath_sound fs p v1 h1, parseForm_sound fs f v2 h2,
            parseHeaders_sound fs h v3 h3, parseJsonBody_sound fs b v4 h4⟩

/-- non-vacuity: a request with a path variable, a multi-valued form field in bracket notation with an empty value, a header and a defaulted JSON field -/
example :
    (match httpParse false
        (.cons "A".toList (some "path|a,range=[1:5]".toList) (.prim (.int 64))
        (.cons "C".toList (some "form|c,optional".toList) (.slice (.prim (.int 64)))
        (.cons "D".toList (some "header|x-d,optional".toList) (.prim .string)
        (.cons "E".toList (some "json|e,default=3".toList) (.prim (.int 64)) .nil))))
        [("a".toList, .str "5".toList)] [("c[]".toList, ["1".toList, [], "2".toList])] [("x-d".toList, some ["v".toList])] none with
     | .ok (.cons _ (.int 5) (.cons _ (.list (.cons (.int 1) (.cons (.int 2) .nil))) (.cons _ (.str _) (.cons _ (.int 3) .nil)))) => true
     | _ => false) = true := by decide +kernel

/-! ### round 4: the YAML front end (internal/encoding.YamlToJson, reached through `UnmarshalYamlBytes` and `conf.LoadFromYamlBytes`): a YAML null is the empty string -/

def yamlNullTy : Ty :=
  .struct (.cons "A".toList (some "a,optional".toList) (.prim (.int 64))
          (.cons "B".toList (some "b".toList) (.prim .string) .nil))
def yamlNullDoc : J := .obj [("a".toList, .null), ("b".toList, .str "x".toList)]

/-- DOMAIN RESTRICTION, decided in round 4 (not a defect): the YAML front end hands a YAML null (`key:`, `key: null`,
`key: ~`) on as the empty *string* (`Model.yamlNulls true`, internal/encoding.toStringKeyMap → `lang.Repr(nil)`); configurations
with `Pass:` / `Name:` lines rely on it and upstream keeps it.  A null is not a correctly typed value of an int field, so
such a document is outside the quantifier of the converse clause for YAML bodies and YAML configuration.  The theorem
records the consequence exactly: the JSON form `{"a":null,"b":"x"}` is complete and accepted; the same document through the
YAML front end reaches the unmarshaller as `{"a":"","b":"x"}` and is rejected (type mismatch — replayed:
`conf.LoadFromYamlBytes("a:\nb: x\n")` into `A int json:"a,optional"`); a front end that kept the null (the patch kept under
fixes/not-applied/) would accept it.  The driver's model of the front end is `yamlNulls true`: a change of the behaviour is
a correspondence mismatch. -/
theorem yaml_null_witness :
    complete {} yamlNullTy yamlNullDoc = true
    ∧ (match unmarshal {} yamlNullTy yamlNullDoc with | .ok _ => true | _ => false) = true
    ∧ (match unmarshal {} yamlNullTy (yamlNulls true yamlNullDoc) with | .error .mismatch => true | _ => false) = true
    ∧ (match unmarshal {} yamlNullTy (yamlNulls false yamlNullDoc) with | .ok _ => true | _ => false) = true := by
  refine ⟨?_, ?_, ?_, ?_⟩ <;> decide +kernel

end GoZero.C08.Props
