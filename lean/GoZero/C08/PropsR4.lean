/-
C08 — round 4 property theorems: the clauses of the property stated one by one for every top-level field of every
accepted document (composed from `accept_sound`), the configuration / YAML / TOML front ends, and the valuers of
core/mapping/valuer.go (`inherit`).
-/
import GoZero.C08.Props
namespace GoZero.C08.Props
open GoZero.C08 GoZero.C08.Spec

/-! ### the i-th field of a struct type and of a result -/

def fieldAt : Fields → Nat → Option (Str × Option Str × Ty)
  | .nil, _ => none
  | .cons n tag t _, 0 => some (n, tag, t)
  | .cons _ _ _ rest, i + 1 => fieldAt rest i

def valAt : VFields → Nat → Option (Str × Val)
  | .nil, _ => none
  | .cons n v _, 0 => some (n, v)
  | .cons _ _ rest, i + 1 => valAt rest i

/-- a result that satisfies the spec satisfies it field by field -/
theorem satFields_at (c : Cfg) : ∀ (fs : Fields) (m : Obj) (vs : VFields) (i : Nat) (name : Str) (tag : Option Str) (t : Ty),
    satFields c fs m vs = true → fieldAt fs i = some (name, tag, t) →
    ∃ v, valAt vs i = some (name, v)
      ∧ fieldSat c name tag t.isSlice (derefKind t) m v (fun j v => satTy (c.nestIn m) t j v) (fun v => satAbsent c t v)
          (fun d v => satDefault t d v) (fun v => isZero t v) = true
  | .nil, _, _, _, _, _, _, _, h => by simp [fieldAt] at h
  | .cons n tg ty rest, m, vs, i, name, tag, t, hs, hf => by
    cases vs with
    | nil => simp [satFields] at hs
    | cons n' v vs' =>
      simp only [satFields, Bool.and_eq_true] at hs
      obtain ⟨⟨hn, hfs⟩, hrest⟩ := hs
      cases i with
      | zero =>
        simp only [fieldAt, Option.some.injEq, Prod.mk.injEq] at hf
        obtain ⟨rfl, rfl, rfl⟩ := hf
        have : n' = n := by simpa using hn
        subst this
        exact ⟨v, rfl, hfs⟩
      | succ j =>
        simp only [fieldAt] at hf
        obtain ⟨w, hw, hsat⟩ := satFields_at c rest m vs' j name tag t hrest hf
        exact ⟨w, by simpa [valAt] using hw, hsat⟩

/-- **clauses, field by field** — for every configuration of the repaired code, every struct type, every document and
every top-level field (index `i`): if the document is accepted, the result has a value for the field and that value
satisfies `Spec.fieldSat` — the conjunction of the clauses below. -/
theorem accepted_fieldwise (c : Cfg) (hc : c.pinned = false) (fs : Fields) (m : Obj) (v : Val)
    (h : unmarshal c (.struct fs) (.obj m) = .ok v) (i : Nat) (name : Str) (tag : Option Str) (t : Ty)
    (hf : fieldAt fs i = some (name, tag, t)) :
    ∃ vs w, v = .struct vs ∧ valAt vs i = some (name, w)
      ∧ fieldSat c name tag t.isSlice (derefKind t) m w (fun j v => satTy (c.nestIn m) t j v) (fun v => satAbsent c t v)
          (fun d v => satDefault t d v) (fun v => isZero t v) = true := by
  have hs := accept_sound c hc _ _ _ h
  cases v with
  | struct vs =>
    simp only [satisfies] at hs
    obtain ⟨w, hw, hsat⟩ := satFields_at c fs m vs i name tag t hs hf
    exact ⟨vs, w, rfl, hw, hsat⟩
  | bool x => simp [satisfies] at hs
  | int x => simp [satisfies] at hs
  | flt x => simp [satisfies] at hs
  | str x => simp [satisfies] at hs
  | nil => simp [satisfies] at hs
  | ptr x => simp [satisfies] at hs
  | list x => simp [satisfies] at hs
  | map x => simp [satisfies] at hs

section clauses
variable {c : Cfg} {name : Str} {tv : Str} {isSl : Bool} {k : Kind} {m : Obj} {w : Val}
  {conv : J → Val → Bool} {absent : Val → Bool} {dflt : Str → Val → Bool} {isZ : Val → Bool}
  {key : Str} {po : Option Opts}

/-- **clause 1 (required fields are supplied)** — a scalar field whose tag declares neither a default nor (given its
dependency, on this input) optionality is present in every accepted document. -/
theorem clause_required_supplied
    (hsat : fieldSat c name (some tv) isSl (some k) m w conv (fun _ => false) dflt isZ = true)
    (hp : parseTagC c.repaired name tv = .ok (key, po)) (hkey : key ≠ "-".toList)
    (hd : (effOpts po).default = []) (hopt : declOptional (effOpts po) m = false) :
    ∃ j0, lookupKey c (optInherit po) key m = .ok (some j0) := by
  unfold fieldSat at hsat
  simp only [hp, hkey, if_false, Bool.and_eq_true] at hsat
  obtain ⟨_, hrest⟩ := hsat
  cases hg : lookupKey c (optInherit po) key m with
  | error e => simp [hg] at hrest
  | ok lk =>
    cases lk with
    | some j => exact ⟨j, rfl⟩
    | none => simp [hg, hd, hopt] at hrest

/-- **clause 2 (dependencies)** — `optional=dep`: the field is supplied iff `dep` is; `optional=!dep`: exactly one of the two. -/
theorem clause_dependency
    (hsat : fieldSat c name (some tv) isSl (some k) m w conv absent dflt isZ = true)
    (hp : parseTagC c.repaired name tv = .ok (key, po)) (hkey : key ≠ "-".toList) :
    depOK (effOpts po) key m = true := by
  unfold fieldSat at hsat
  simp only [hp, hkey, if_false, Bool.and_eq_true] at hsat
  exact hsat.1

/-- **clauses 3, 4, 5 (range, options, exact value)** — a supplied (non-null) value of a field lies inside the declared range
(open / closed ends: `Range.contains`) when the field is numeric, is one of the declared options, and the target holds
exactly the value it denotes. -/
theorem clause_supplied
    (hsat : fieldSat c name (some tv) isSl (some k) m w conv absent dflt isZ = true)
    (hp : parseTagC c.repaired name tv = .ok (key, po)) (hkey : key ≠ "-".toList)
    {j0 : J} (hg : lookupKey c (optInherit po) key m = .ok (some j0)) (hnn : (fromArrayValue c isSl j0).isNull = false) :
    rangeOK (effOpts po) (some k) (fromArrayValue c isSl j0) = true
    ∧ optionsOK (effOpts po) (some k) (fromArrayValue c isSl j0) = true
    ∧ conv (fromArrayValue c isSl j0) w = true := by
  unfold fieldSat at hsat
  simp only [hp, hkey, if_false, Bool.and_eq_true, hg] at hsat
  obtain ⟨_, hrest⟩ := hsat
  cases hj : fromArrayValue c isSl j0 with
  | null => simp [hj, J.isNull] at hnn
  | bool b => simp only [hj, Bool.and_eq_true] at hrest; exact ⟨hrest.1.1, hrest.1.2, hrest.2⟩
  | num s => simp only [hj, Bool.and_eq_true] at hrest; exact ⟨hrest.1.1, hrest.1.2, hrest.2⟩
  | str s => simp only [hj, Bool.and_eq_true] at hrest; exact ⟨hrest.1.1, hrest.1.2, hrest.2⟩
  | arr l => simp only [hj, Bool.and_eq_true] at hrest; exact ⟨hrest.1.1, hrest.1.2, hrest.2⟩
  | obj o => simp only [hj, Bool.and_eq_true] at hrest; exact ⟨hrest.1.1, hrest.1.2, hrest.2⟩

/-- the range clause spelled out: a declared range on a numeric kind ⇒ the supplied text denotes a finite number inside it -/
theorem rangeOK_numeric {o : Opts} {r : Range} {x : J} (hr : o.range = some r) (hk : k.isNumeric = true)
    (h : rangeOK o (some k) x = true) : ∃ q, numOf x = some q ∧ Range.contains r q = true := by
  unfold rangeOK at h
  simp only [hr, hk, if_true] at h
  cases hn : numOf x with
  | none => simp [hn] at h
  | some q => exact ⟨q, rfl, by simpa [hn] using h⟩

/-- **clause 5b (defaults)** — an absent field with a declared default holds the default; an absent optional field is untouched. -/
theorem clause_absent
    (hsat : fieldSat c name (some tv) isSl (some k) m w conv absent dflt isZ = true)
    (hp : parseTagC c.repaired name tv = .ok (key, po)) (hkey : key ≠ "-".toList) (hg : lookupKey c (optInherit po) key m = .ok none) :
    (if !(effOpts po).default.isEmpty then dflt (effOpts po).default w
     else if declOptional (effOpts po) m then isZ w else absent w) = true := by
  unfold fieldSat at hsat
  simp only [hp, hkey, if_false, Bool.and_eq_true, hg] at hsat
  exact hsat.2

end clauses

/-! ### configuration (core/conf) and the YAML / TOML front ends -/

/-- `conf.LoadFromJsonBytes` after decoding and key lowering: the JSON unmarshaler with `strings.ToLower` as canonical key function -/
def confCfg : Cfg := { lower := true }

/-- **configuration, both directions** — for every struct type and every (lowered) configuration document: accepted ⇒ the
constraints hold; constraints met with correctly typed values ⇒ accepted. -/
theorem conf_load_sound_complete (ty : Ty) (j : J) :
    (∀ v, unmarshal confCfg ty j = .ok v → satisfies confCfg ty j v = true)
    ∧ (complete confCfg ty j = true → ∃ v, unmarshal confCfg ty j = .ok v ∧ satisfies confCfg ty j v = true)
    ∧ (tagsOK ty = true → unmarshal confCfg ty j ≠ .error .panic) :=
  ⟨fun v h => accept_sound confCfg rfl ty j v h, accept_complete confCfg rfl ty j, fun h => no_panic confCfg rfl ty h j⟩

/-- keys are matched without regard to case: a field tagged `Name` is filled from the (lowered) key `name`, its range enforced -/
example :
    (match unmarshal confCfg (.struct (.cons "A".toList (some "Name,range=[1:5]".toList) (.prim (.int 64)) .nil))
        (.obj [("name".toList, .num "5".toList)]) with | .ok (.struct (.cons _ (.int 5) .nil)) => true | _ => false) = true
    ∧ (match unmarshal confCfg (.struct (.cons "A".toList (some "Name,range=[1:5]".toList) (.prim (.int 64)) .nil))
        (.obj [("name".toList, .num "6".toList)]) with | .error .range => true | _ => false) = true := by
  constructor <;> decide +kernel

/-- **YAML / TOML bodies, both directions** — `UnmarshalYamlBytes` / `UnmarshalTomlBytes` run the JSON unmarshaler (with the
options they are given: `fromString` for `WithStringValues`) on the converted document `conv src`; whatever the
conversion is, acceptance implies the constraints on the converted document, and a converted document that meets them is accepted. -/
theorem frontend_sound_complete (conv : J → J) (fromString : Bool) (ty : Ty) (src : J) :
    (∀ v, unmarshal { fromString := fromString } ty (conv src) = .ok v →
        satisfies { fromString := fromString } ty (conv src) v = true)
    ∧ (complete { fromString := fromString } ty (conv src) = true →
        ∃ v, unmarshal { fromString := fromString } ty (conv src) = .ok v) :=
  ⟨fun v h => accept_sound _ rfl ty _ v h,
   fun h => (accept_complete _ rfl ty _ h).imp fun _ hv => hv.1⟩

/-! ### state shared between unmarshalers: `structRequiredCache` -/

/-- `processNamedFieldWithoutValue`, struct case, with the answer `req` of `structValueRequired` -/
def absentStructWith (c : Cfg) (req : Except Err Bool) (fs : Fields) : Except Err Val :=
  match req with
  | .error e => .error e
  | .ok true => .error .notSet
  | .ok false => (unmFields c.top fs []).map .struct

/-- the model (and the repaired code) asks about the type *as its own tag key reads it* -/
theorem absentRequired_struct (c : Cfg) (fs : Fields) :
    absentRequired c (.struct fs) = absentStructWith c (structRequired fs) fs := by
  unfold absentRequired absentStructWith
  cases structRequired fs with
  | error e => rfl
  | ok b => cases b <;> rfl

def cacheInnerJson : Fields := .cons "A".toList (some "a,optional".toList) (.prim (.int 64)) .nil
/-- the same Go struct `struct{ A int `json:"a,optional" form:"a"` }` as the `form` unmarshaler reads it -/
def cacheInnerForm : Fields := .cons "A".toList (some "a".toList) (.prim (.int 64)) .nil
def cacheOuterJson : Ty := .struct (.cons "In".toList (some "in".toList) (.struct cacheInnerJson) .nil)

/-- PINNED BEHAVIOUR BEFORE a8b007f (defect found in round 4, fixed by fixes/C08-struct-required-cache-per-tag-key.patch =
/repo a8b007f: cache key = tag key + type): `structRequiredCache` was keyed by the reflect type alone.  For
`type Inner struct{ A int `json:"a,optional" form:"a"` }`, `type Outer struct{ In Inner `json:"in" form:"in"` }`: under `json` no field
of Inner is required, `{}` meets every constraint and is accepted; once a `form` unmarshaler had asked about Inner (answer:
required, `a` has no options there) the `json` unmarshaler was handed that answer (last conjunct) and rejected `{}` with
`"in" is not set` — acceptance depended on which unmarshaler saw the type first.  The `um` lines of the mapping harness
replay it; on a tree without the fix the check reports rejected-but-constraints-met with a two-line replay. -/
theorem structRequiredCache_witness :
    (match structRequired cacheInnerJson with | .ok false => true | _ => false) = true
    ∧ (match structRequired cacheInnerForm with | .ok true => true | _ => false) = true
    ∧ complete {} cacheOuterJson (.obj []) = true
    ∧ (match unmarshal {} cacheOuterJson (.obj []) with | .ok _ => true | _ => false) = true
    ∧ (match absentStructWith {} (structRequired cacheInnerForm) cacheInnerJson with | .error .notSet => true | _ => false) = true := by
  refine ⟨?_, ?_, ?_, ?_, ?_⟩ <;> decide +kernel

/-! ### core/mapping/valuer.go -/

theorem hasKey_eq (k : Str) (o : Obj) : hasKey k o = (getKey k o).isSome := rfl

/-- `simpleValuer` never looks at an ancestor -/
theorem simpleValue_ignores_ancestors (cur : Obj) (ps ps' : Chain) (k : Str) :
    simpleValue (cur :: ps) k = simpleValue (cur :: ps') k := rfl

/-- without ancestors an `inherit` lookup is the ordinary lookup and changes nothing -/
theorem recValue_no_ancestors (cur : Obj) (k : Str) : recValueM [cur] k = (getKey k cur, [cur]) := by
  unfold recValueM
  cases h : getKey k cur with
  | none => simp [recValueM]
  | some v => cases v <;> simp [recValueM]

/-- a key the current node does not bind is inherited from the ancestors -/
theorem recValue_inherits (cur : Obj) (ps : Chain) (k : Str) (h : getKey k cur = none) :
    recValue (cur :: ps) k = recValue ps k := by
  simp [recValue, recValueM, h]

/-- a binding of the current node that is not an object is handed over unchanged (the supplied value wins over every
ancestor) and no map is touched -/
theorem recValue_scalar_nearest (cur : Obj) (ps : Chain) (k : Str) (v : J) (h : getKey k cur = some v)
    (hv : ∀ o, v ≠ .obj o) : recValueM (cur :: ps) k = (some v, cur :: ps) := by
  unfold recValueM
  cases v with
  | obj o => exact absurd rfl (hv o)
  | null => simp [h]
  | bool b => simp [h]
  | num s => simp [h]
  | str s => simp [h]
  | arr l => simp [h]

theorem getKey_append (k : Str) (a b : Obj) :
    getKey k (a ++ b) = (match getKey k b with | some x => some x | none => getKey k a) := by
  induction a with
  | nil => cases h : getKey k b <;> simp [getKey, h]
  | cons kv a ih =>
    obtain ⟨k', v⟩ := kv
    simp only [List.cons_append, getKey, ih]
    cases getKey k b <;> simp

theorem getKey_filter_unbound (k : Str) (vm pm : Obj) :
    getKey k (pm.filter (fun kv => !hasKey kv.1 vm)) = (if hasKey k vm then none else getKey k pm) := by
  induction pm with
  | nil => simp [getKey]
  | cons kv pm ih =>
    obtain ⟨k', v⟩ := kv
    by_cases hb : hasKey k' vm = true
    · simp only [List.filter, hb, Bool.not_true, getKey, ih]
      by_cases hk : hasKey k vm = true
      · simp [hk]
      · have hne : k' ≠ k := by intro e; subst e; exact hk hb
        simp [hk, hne]
        cases getKey k pm <;> rfl
    · simp only [Bool.not_eq_true] at hb
      simp only [List.filter, hb, Bool.not_false, getKey, ih]
      by_cases hk : hasKey k vm = true
      · have hne : k' ≠ k := by intro e; subst e; simp [hb] at hk
        simp [hk, hne]
      · simp [hk]

/-- **merge of an inherited object** — the child's own bindings stay as they are, the keys it does not bind are taken
from the parent's object: the merged object answers every key like the child, else like the parent -/
theorem getKey_mergeMissing (k : Str) (vm pm : Obj) :
    getKey k (mergeMissing vm pm) = (match getKey k vm with | some v => some v | none => getKey k pm) := by
  unfold mergeMissing
  rw [getKey_append, getKey_filter_unbound]
  cases h : getKey k vm with
  | none => simp [hasKey_eq, h]; cases getKey k pm <;> rfl
  | some v => simp [hasKey_eq, h]

/-- **inherit lookup** — for every chain of nested objects: the lookup finds the key iff some object of the chain binds it -/
theorem recValue_found_iff (ch : Chain) (k : Str) : (recValue ch k).isSome = ch.any (fun o => hasKey k o) := by
  induction ch with
  | nil => simp [recValue, recValueM]
  | cons cur ps ih =>
    simp only [recValue] at ih ⊢
    unfold recValueM
    cases h : getKey k cur with
    | none => simp [hasKey_eq, h, ih]
    | some v =>
      cases v with
      | obj vm =>
        simp only [List.any_cons, hasKey_eq, h, Option.isSome_some, Bool.true_or]
        split <;> rfl
      | null => simp [hasKey_eq, h]
      | bool b => simp [hasKey_eq, h]
      | num s => simp [hasKey_eq, h]
      | str s => simp [hasKey_eq, h]
      | arr l => simp [hasKey_eq, h]

/-- non-vacuity: a three-level chain; `b` is an object at every level: the nearest bindings win, missing ones are inherited -/
example :
    (match recValue [[("a".toList, .num "1".toList)], [("a".toList, .num "2".toList), ("c".toList, .str "up".toList)], []] "a".toList with
     | some (.num s) => s == "1".toList | _ => false) = true
    ∧ (match recValue [[("a".toList, .num "1".toList)], [("c".toList, .str "up".toList)], []] "c".toList with
       | some (.str s) => s == "up".toList | _ => false) = true
    ∧ (simpleValue [[("a".toList, .num "1".toList)], [("c".toList, .str "up".toList)]] "c".toList).isNone = true
    ∧ (match recValueM [[("b".toList, .obj [("x".toList, .num "1".toList)])],
                        [("b".toList, .obj [("x".toList, .num "9".toList), ("y".toList, .num "2".toList)])]] "b".toList with
       | (some (.obj [(_, .num x), (_, .num y)]), [cur, _]) => x == "1".toList && y == "2".toList && hasKey "b".toList cur
       | _ => false) = true := by
  refine ⟨?_, ?_, ?_, ?_⟩ <;> decide +kernel

end GoZero.C08.Props
