/-
C08 — helper lemmas for `accept_complete`: an input that meets all declared constraints with correctly typed
values (`Spec.complete`) is accepted by the model of the repaired unmarshaller.
-/
import GoZero.C08.Proofs
namespace GoZero.C08
open Spec

/-! ### option resolution -/

theorem resolve_ok {c : Cfg} {po : Option Opts} {key : Str} {m : Obj}
    (h : depOK (effOpts po) key m = true) : ∃ om, resolveOpts c po key m = .ok om := by
  unfold resolveOpts
  cases po with
  | none => exact ⟨none, rfl⟩
  | some o =>
    simp only [effOpts] at h
    simp only [toOptionsWithContext, effOptional_of_depOK h]
    split
    · exact ⟨_, rfl⟩
    · exact ⟨_, rfl⟩

/-! ### the checks accept what the declarative tests accept -/

theorem validateInOptions_ok {o : Option Opts} {j : J} {t : Str}
    (h : inOptions (effOpts o).options j = true) (ht : textOf j = some t) : validateInOptions o t = .ok () := by
  unfold validateInOptions
  have e : optOptions o = (effOpts o).options := by cases o <;> rfl
  rw [e]
  unfold inOptions at h
  by_cases h1 : (effOpts o).options = []
  · simp [h1]
  · have h2 : (effOpts o).options.contains t = true := by simpa [h1, ht] using h
    rw [if_neg h1, if_pos h2]

theorem jsonRange_ok {c : Cfg} {o : Option Opts} {lit : Str} (hc : c.pinned = false)
    (hp : f64OK lit = true) (h : inRange (effOpts o).range (.num lit) = true) :
    validateJsonNumberRange c o lit = .ok () := by
  unfold validateJsonNumberRange
  cases o with
  | none => rfl
  | some o =>
    simp only [effOpts] at h
    cases hr : o.range with
    | none => simp [hr]
    | some r =>
      simp only [hr, inRange, numOf] at h ⊢
      unfold f64OK at hp
      cases hx : parseFloat 64 lit with
      | error e => simp [hx] at hp
      | ok x =>
        simp only [parseFloat_syntax hx] at h
        cases x with
        | fin d => simp [rangeRejects_of_contains hc h]
        | posInf => simp at h
        | negInf => simp at h
        | nan => simp at h

theorem valueRange_ok {c : Cfg} {o : Option Opts} {k : Kind} {s : Str} {v : Val} (hc : c.pinned = false)
    (hnum : ((effOpts o).range.isNone || k.isNumeric) = true) (hv : convertFromString k s = .ok v)
    (h : inRange (effOpts o).range (.str s) = true) : validateValueRange c o v = .ok () := by
  unfold validateValueRange
  cases o with
  | none => rfl
  | some o =>
    simp only [effOpts] at h hnum
    cases hr : o.range with
    | none => simp [hr]
    | some r =>
      simp only [hr, inRange, numOf, Option.isNone_some, Bool.false_or] at h hnum ⊢
      cases k with
      | bool => simp [Kind.isNumeric] at hnum
      | string => simp [Kind.isNumeric] at hnum
      | int b =>
        obtain ⟨i, hi, rfl⟩ := exceptMap_ok hv
        simp only [parseInt_floatSyntax hi] at h
        have : rangeRejects c r (.fin (.ofInt i)) = false := rangeRejects_of_contains hc h
        simp [valToNum, this]
      | uint b =>
        obtain ⟨i, hi, rfl⟩ := exceptMap_ok hv
        simp only [parseUint_floatSyntax hi] at h
        have : rangeRejects c r (.fin (.ofInt i)) = false := rangeRejects_of_contains hc h
        simp [valToNum, this]
      | float b =>
        obtain ⟨y, hy, rfl⟩ := exceptMap_ok hv
        simp only [parseFloat_syntax hy] at h
        cases y with
        | fin d => simp [valToNum, rangeRejects_of_contains hc h]
        | posInf => simp at h
        | negInf => simp at h
        | nan => simp at h

theorem textTyped_ok {k : Kind} {s : Str} (h : textTyped k s = true) : ∃ v, convertFromString k s = .ok v := by
  unfold textTyped at h
  cases hc : convertFromString k s with
  | error e => simp [hc] at h
  | ok v => exact ⟨v, rfl⟩

theorem range_none_of_nonNumeric {o : Option Opts} {k : Kind} (hk : k.isNumeric = false)
    (hnum : ((effOpts o).range.isNone || k.isNumeric) = true) (v : Val) (c : Cfg) :
    validateValueRange c o v = .ok () := by
  unfold validateValueRange
  cases o with
  | none => rfl
  | some o =>
    simp only [effOpts, hk, Bool.or_false] at hnum
    cases hr : o.range with
    | none => simp [hr]
    | some r => simp [hr] at hnum

/-- every primitive path accepts a correctly typed scalar inside the range and among the options -/
theorem primWithValue_complete {c : Cfg} {o : Option Opts} {k : Kind} {j : J} (hc : c.pinned = false)
    (h : primOK (c.fromString || optFromString o) (effOpts o).range (effOpts o).options k j = true) :
    ∃ v, primWithValue c o k j = .ok v := by
  unfold primOK at h
  simp only [Bool.and_eq_true] at h
  obtain ⟨⟨⟨hnum, hr⟩, hopt⟩, hty⟩ := h
  unfold primWithValue
  by_cases hfs : (c.fromString || optFromString o) = true
  · rw [if_pos hfs]
    rw [if_pos hfs] at hty
    unfold primFromString
    cases j with
    | str s =>
      simp only at hty ⊢
      obtain ⟨v, hv⟩ := textTyped_ok hty
      refine ⟨v, ?_⟩
      simp [validateInOptions_ok hopt rfl, hv, valueRange_ok hc hnum hv hr]
    | num lit =>
      simp only [Bool.and_eq_true] at hty ⊢
      obtain ⟨v, hv⟩ := textTyped_ok hty.1
      refine ⟨v, ?_⟩
      simp [validateInOptions_ok hopt rfl, jsonRange_ok hc hty.2 hr, hv]
    | null => simp at hty
    | bool b => simp at hty
    | arr l => simp at hty
    | obj m => simp at hty
  · rw [if_neg hfs]
    rw [if_neg hfs] at hty
    unfold primNotFromString
    cases j with
    | num lit =>
      simp only at hty ⊢
      unfold numTyped at hty
      simp only [Bool.and_eq_true] at hty
      unfold jsonNumberPath
      simp only [jsonRange_ok hc hty.1 hr, validateInOptions_ok hopt rfl]
      cases k with
      | bool => simp at hty
      | string => simp at hty
      | int b =>
        cases hp : parseInt b lit with
        | error e => simp [hp] at hty
        | ok i => exact ⟨.int i, by simp [hp, Except.map]⟩
      | uint b =>
        cases hp : parseUint b lit with
        | error e => simp [hp] at hty
        | ok i => exact ⟨.int i, by simp [hp, Except.map]⟩
      | float b =>
        cases hp : parseFloat 64 lit with
        | error e => simp [hp] at hty
        | ok x =>
          have h2 : (b = 32 && float32Overflows x) = false := by
            have := hty.2; simp only [hp] at this
            cases hb : (b = 32 && float32Overflows x) with
            | false => rfl
            | true => rw [hb] at this; simp at this
          exact ⟨.flt x, by simp only [h2]; simp⟩
    | str s =>
      simp only at hty ⊢
      have hk : k = .string := by simpa using hty
      subst hk
      refine ⟨.str s, ?_⟩
      simp [validateInOptions_ok hopt rfl, range_none_of_nonNumeric (k := .string) rfl hnum]
    | bool b =>
      simp only at hty ⊢
      have hk : k = .bool := by simpa using hty
      subst hk
      refine ⟨.bool b, ?_⟩
      have : textOf (.bool b) = some (boolText b) := rfl
      simp [validateInOptions_ok hopt this, range_none_of_nonNumeric (k := .bool) rfl hnum]
    | null => simp at hty
    | arr l => simp at hty
    | obj m => simp at hty

/-! ### lists -/

theorem allJ_mapElems {p : J → Bool} {f : J → Except Err Val} (hf : ∀ j, p j = true → ∃ v, f j = .ok v) :
    ∀ l : List J, allJ p l = true → ∃ vs, mapElems f l = .ok vs
  | [], _ => ⟨.nil, rfl⟩
  | j :: rest, h => by
    simp only [allJ, Bool.and_eq_true] at h
    obtain ⟨v, hv⟩ := hf j h.1
    obtain ⟨vs, hvs⟩ := allJ_mapElems hf rest h.2
    exact ⟨.cons v vs, by simp [mapElems, hv, hvs]⟩

theorem allEntries_mapEntries {p : J → Bool} {f : J → Except Err Val} (hf : ∀ j, p j = true → ∃ v, f j = .ok v) :
    ∀ m : Obj, allEntries p m = true → ∃ vs, mapEntries f m = .ok vs
  | [], _ => ⟨.nil, rfl⟩
  | (k, j) :: rest, h => by
    simp only [allEntries, Bool.and_eq_true] at h
    obtain ⟨v, hv⟩ := hf j h.1
    obtain ⟨vs, hvs⟩ := allEntries_mapEntries hf rest h.2
    exact ⟨.cons k v vs, by simp [mapEntries, hv, hvs]⟩

theorem slice_complete {c : Cfg} {t : Ty} {l : List J} {ev : J → Except Err Val}
    (hev : ∀ j, okElem c t j = true → ∃ v, ev j = .ok v)
    (h : allJ (fun j => j.isNull || okElem c t j) l = true) :
    ∃ v, (mapElems (fun j => if j.isNull then .ok (zero t) else ev j) l).map (sliceResult l) = .ok v := by
  obtain ⟨vs, hvs⟩ := allJ_mapElems (f := fun j => if j.isNull then .ok (zero t) else ev j) (by
    intro j hj
    by_cases hn : j.isNull = true
    · exact ⟨zero t, by simp [hn]⟩
    · simp only [hn, Bool.false_or] at hj
      obtain ⟨v, hv⟩ := hev j hj
      exact ⟨v, by simp [hn, hv]⟩) l h
  exact ⟨sliceResult l vs, by simp [hvs, Except.map]⟩

/-! ### one field -/

theorem fieldCore_complete {c : Cfg} {name : Str} {tag : Option Str} {isSlice : Bool} {m : Obj}
    {wv : Option Opts → J → Except Err Val} {ar : Unit → Except Err Val} {dv : Str → Except Err Val} {z : Val}
    {okv : Bool → Option Range → List Str → J → Bool} {okAbs : Bool} {okDflt : Str → Bool}
    (hc : c.pinned = false)
    (hwv : ∀ om j, okv (optFromString om) (effOpts om).range (effOpts om).options j = true → ∃ v, wv om j = .ok v)
    (har : okAbs = true → ∃ v, ar () = .ok v)
    (hdv : ∀ d, okDflt d = true → ∃ v, dv d = .ok v)
    (h : fieldOK c name tag isSlice m okv okAbs okDflt = true) :
    ∃ v, fieldCore c name tag isSlice m wv ar dv z = .ok v := by
  unfold fieldOK at h
  unfold fieldCore
  have hrep : c.repaired = c := by cases c; simp_all [Cfg.repaired]
  rw [hrep] at h
  cases tag with
  | none => exact ⟨z, rfl⟩
  | some tv =>
    simp only at h ⊢
    cases hp : parseTagC c name tv with
    | error e => simp [hp] at h
    | ok kp =>
      obtain ⟨key, po⟩ := kp
      simp only [hp, Bool.and_eq_true] at h ⊢
      obtain ⟨hdep, hrest⟩ := h
      obtain ⟨om, hom⟩ := resolve_ok (c := c) hdep
      obtain ⟨_, hopt, hdef, hrange, hoptions, hfs⟩ := resolve_spec hc hom
      have hout := resolve_inherit hc hom
      simp only [hom]
      by_cases hk : key = "-".toList
      · exact ⟨z, by simp [hk]⟩
      · simp only [hk, decide_false, Bool.false_or, Bool.and_eq_true, Bool.not_eq_true'] at hrest
        have hval := hrest
        rw [if_neg hk, hout]
        cases hl : lookupKey c (optInherit po) key m with
        | error e => simp [hl] at hval
        | ok lk =>
        cases lk with
        | none =>
          simp only [hl] at hval ⊢
          rw [hdef]
          by_cases hd : (effOpts po).default = []
          · have hval' : declOptional (effOpts po) m = true ∨ okAbs = true := by simpa [hd] using hval
            simp only [hd, ne_eq, not_true_eq_false, if_false, hopt]
            by_cases ho' : declOptional (effOpts po) m = true
            · exact ⟨z, by simp [ho']⟩
            · rcases hval' with h1 | ha
              · exact absurd h1 ho'
              · obtain ⟨v, hv⟩ := har ha
                exact ⟨v, by simp [ho', hv]⟩
          · have hval' : okDflt (effOpts po).default = true := by simpa [hd] using hval
            rw [if_pos hd]
            exact hdv _ hval'
        | some j0 =>
          simp only [hl, hc, Bool.false_and, Bool.false_eq_true, if_false] at hval ⊢
          cases hj : fromArrayValue c isSlice j0 with
          | null =>
            simp only [hj] at hval ⊢
            exact ⟨z, by simp [hopt, hval]⟩
          | bool b =>
            simp only [hj] at hval ⊢
            exact hwv om _ (by rw [hfs, hrange, hoptions]; exact hval)
          | num s =>
            simp only [hj] at hval ⊢
            exact hwv om _ (by rw [hfs, hrange, hoptions]; exact hval)
          | str s =>
            simp only [hj] at hval ⊢
            exact hwv om _ (by rw [hfs, hrange, hoptions]; exact hval)
          | arr l =>
            simp only [hj] at hval ⊢
            exact hwv om _ (by rw [hfs, hrange, hoptions]; exact hval)
          | obj l =>
            simp only [hj] at hval ⊢
            exact hwv om _ (by rw [hfs, hrange, hoptions]; exact hval)

/-! ### the recursion -/

theorem exists_map {α β : Type} {x : Except Err α} (f : α → β) (h : ∃ a, x = .ok a) : ∃ b, x.map f = .ok b := by
  obtain ⟨a, ha⟩ := h
  exact ⟨f a, by simp [ha, Except.map]⟩

mutual
theorem okTy_complete (c : Cfg) (hc : c.pinned = false) :
    ∀ (t : Ty) (o : Option Opts) (j : J),
      okTy c (optFromString o) (effOpts o).range (effOpts o).options t j = true → ∃ v, withValue c o t j = .ok v
  | .ptr t, o, j, h => by
    unfold withValue
    simp only [hc, Bool.false_and, Bool.false_eq_true, if_false]
    exact exists_map _ (okTy_complete c hc t o j (by simpa [okTy] using h))
  | .prim k, o, j, h => by
    unfold withValue
    exact primWithValue_complete hc (by simpa [okTy] using h)
  | .struct fs, o, j, h => by
    unfold okTy at h
    unfold withValue
    cases j with
    | obj m => exact exists_map _ (okFields_complete c hc fs m h)
    | null => simp at h
    | bool b => simp at h
    | num s => simp at h
    | str s => simp at h
    | arr l => simp at h
  | .slice t, o, j, h => by
    unfold okTy at h
    unfold withValue
    cases j with
    | arr l => exact slice_complete (c := c.top) (fun j hj => okElem_complete c.top (Cfg.top_pinned hc) t j hj) h
    | null => simp at h
    | bool b => simp at h
    | num s => simp at h
    | str s => simp at h
    | obj m => simp at h
  | .map t, o, j, h => by
    unfold okTy at h
    unfold withValue
    cases j with
    | obj m =>
      exact exists_map _ (allEntries_mapEntries (fun j hj => okMapElem_complete c.top (Cfg.top_pinned hc) t j hj) (canonObj m) h)
    | null => simp at h
    | bool b => simp at h
    | num s => simp at h
    | str s => simp at h
    | arr l => simp at h
theorem okElem_complete (c : Cfg) (hc : c.pinned = false) :
    ∀ (t : Ty) (j : J), okElem c t j = true → ∃ v, elemValue c t j = .ok v
  | .ptr t, j, h => by
    unfold elemValue
    simp only [hc, Bool.false_and, Bool.false_eq_true, if_false]
    exact exists_map _ (okElem_complete c hc t j (by simpa [okElem] using h))
  | .prim k, j, h => by
    unfold okElem at h
    unfold elemValue
    cases j with
    | num s => exact textTyped_ok h
    | str s => exact textTyped_ok h
    | bool b =>
      have hk : k = .bool := by simpa using h
      exact ⟨.bool b, by simp [hk]⟩
    | null => simp at h
    | arr l => simp at h
    | obj m => simp at h
  | .struct fs, j, h => by
    unfold okElem at h
    unfold elemValue
    cases j with
    | obj m => exact exists_map _ (okFields_complete c hc fs m h)
    | null => simp at h
    | bool b => simp at h
    | num s => simp at h
    | str s => simp at h
    | arr l => simp at h
  | .slice t, j, h => by
    unfold okElem at h
    unfold elemValue
    cases j with
    | arr l => exact slice_complete (c := c.top) (fun j hj => okElem_complete c.top (Cfg.top_pinned hc) t j hj) h
    | null => simp at h
    | bool b => simp at h
    | num s => simp at h
    | str s => simp at h
    | obj m => simp at h
  | .map t, j, h => by
    unfold okElem at h
    unfold elemValue
    cases j with
    | obj m =>
      exact exists_map _ (allEntries_mapEntries (fun j hj => okMapElem_complete c.top (Cfg.top_pinned hc) t j hj) (canonObj m) h)
    | null => simp at h
    | bool b => simp at h
    | num s => simp at h
    | str s => simp at h
    | arr l => simp at h
theorem okMapElem_complete (c : Cfg) (hc : c.pinned = false) :
    ∀ (t : Ty) (j : J), okMapElem c t j = true → ∃ v, mapElemValue c t j = .ok v
  | .ptr t, j, h => by
    unfold mapElemValue
    simp only [hc, Bool.false_and, Bool.false_eq_true, if_false]
    exact exists_map _ (okMapElem_complete c hc t j (by simpa [okMapElem] using h))
  | .prim k, j, h => by
    unfold okMapElem at h
    unfold mapElemValue
    cases j with
    | num s => exact textTyped_ok h
    | str s =>
      have hk : k = .string := by simpa using h
      exact ⟨.str s, by simp [hk]⟩
    | bool b =>
      have hk : k = .bool := by simpa using h
      exact ⟨.bool b, by simp [hk]⟩
    | null => simp at h
    | arr l => simp at h
    | obj m => simp at h
  | .struct fs, j, h => by
    unfold okMapElem at h
    unfold mapElemValue
    cases j with
    | obj m => exact exists_map _ (okFields_complete c hc fs m h)
    | null => simp at h
    | bool b => simp at h
    | num s => simp at h
    | str s => simp at h
    | arr l => simp at h
  | .slice t, j, h => by
    unfold okMapElem at h
    unfold mapElemValue
    cases j with
    | arr l => exact slice_complete (c := c.top) (fun j hj => okElem_complete c.top (Cfg.top_pinned hc) t j hj) h
    | null => simp at h
    | bool b => simp at h
    | num s => simp at h
    | str s => simp at h
    | obj m => simp at h
  | .map t, j, h => by
    unfold okMapElem at h
    unfold mapElemValue
    cases j with
    | obj m =>
      exact exists_map _ (allEntries_mapEntries (fun j hj => okMapElem_complete c.top (Cfg.top_pinned hc) t j hj) (canonObj m) h)
    | null => simp at h
    | bool b => simp at h
    | num s => simp at h
    | str s => simp at h
    | arr l => simp at h
theorem okAbsent_complete (c : Cfg) (hc : c.pinned = false) :
    ∀ (t : Ty), okAbsent c t = true → ∃ v, absentRequired c t = .ok v
  | .ptr t, h => by
    unfold absentRequired
    simp only [hc, Bool.false_and, Bool.false_eq_true, if_false]
    exact exists_map _ (okAbsent_complete c hc t (by simpa [okAbsent] using h))
  | .prim _, h => by simp [okAbsent] at h
  | .struct fs, h => by
    unfold okAbsent at h
    simp only [Bool.and_eq_true] at h
    unfold absentRequired
    cases hr : structRequired fs with
    | error e => simp [hr] at h
    | ok b =>
      cases b with
      | true => simp [hr] at h
      | false => exact exists_map _ (okFields_complete c.top (Cfg.top_pinned hc) fs [] h.2)
  | .slice _, h => by simp [okAbsent] at h
  | .map _, _ => ⟨.map .nil, by simp [absentRequired]⟩
theorem okFields_complete (c : Cfg) (hc : c.pinned = false) :
    ∀ (fs : Fields) (m : Obj), okFields c fs m = true → ∃ vs, unmFields c fs m = .ok vs
  | .nil, m, _ => ⟨.nil, by simp [unmFields]⟩
  | .cons name tag t rest, m, h => by
    unfold okFields at h
    simp only [Bool.and_eq_true] at h
    have hrep : c.repaired = c := by cases c; simp_all [Cfg.repaired]
    obtain ⟨v, hv⟩ := fieldCore_complete (wv := fun o j => withValue (c.nestIn m) o t j) (ar := fun _ => absentRequired c t)
      (dv := defaultVal c t) (z := zero t) hc
      (fun om j hj => okTy_complete (c.nestIn m) (Cfg.nest_pinned hc) t om j hj)
      (fun ha => okAbsent_complete c hc t ha)
      (fun d hd => by
        rw [hrep] at hd
        cases hdv : defaultVal c t d with
        | error e => simp [hdv] at hd
        | ok v => exact ⟨v, rfl⟩)
      h.1
    obtain ⟨vs, hvs⟩ := okFields_complete c hc rest m h.2
    exact ⟨.cons name v vs, by simp [unmFields, hv, hvs]⟩
end

/-! ### `f64OK` follows from the integer syntax for bit sizes ≤ 64 -/

theorem parseInt_bound {b : Nat} {s : Str} {i : Int} (h : parseInt b s = .ok i) :
    -(2 ^ (b - 1) : Int) ≤ i ∧ i < (2 ^ (b - 1) : Int) := by
  unfold parseInt at h
  simp only at h
  generalize (if s.head? = some '-' ∨ s.head? = some '+' then s.tail else s) = body at h
  by_cases hc : body = [] ∨ (!(body.all isDigit)) = true
  · rw [if_pos hc] at h; simp at h
  · rw [if_neg hc] at h
    split at h
    · simp at h
    · simp only [Except.ok.injEq] at h
      subst h
      omega

theorem parseUint_bound {b : Nat} {s : Str} {i : Int} (h : parseUint b s = .ok i) :
    0 ≤ i ∧ i < (2 ^ b : Int) := by
  unfold parseUint at h
  simp only at h
  by_cases hc : s = [] ∨ (!(s.all isDigit)) = true
  · rw [if_pos hc] at h; simp at h
  · rw [if_neg hc] at h
    split at h
    · simp at h
    · simp only [Except.ok.injEq] at h
      subst h
      omega

theorem pow_le_64 {n : Nat} (hn : n ≤ 64) : (2 ^ n : Int) ≤ 2 ^ 64 := by
  have : (2 ^ n : Nat) ≤ 2 ^ 64 := Nat.pow_le_pow_right (by decide) hn
  exact_mod_cast this

theorem pow64_small : (2 : Int) ^ 64 < 2 ^ 1024 - 2 ^ 970 := by decide +kernel

theorem f64OK_of_small {s : Str} {i : Int} (hs : floatSyntax s = .ok (.fin ⟨i, 0⟩))
    (h1 : -(2 ^ 64 : Int) ≤ i) (h2 : i ≤ 2 ^ 64) : f64OK s = true := by
  have h4 := pow64_small
  unfold f64OK parseFloat
  simp only [hs]
  have : Dec.le overflow64 (Dec.abs ⟨i, 0⟩) = false := by
    simp [Dec.le, Dec.scaleL, Dec.scaleR, Dec.abs, overflow64, Dec.ofInt]
    omega
  simp [this]

/-- an integer literal of a bit size ≤ 64 is a correctly typed JSON number: the float64 premise is implied -/
theorem numTyped_int {b : Nat} {s : Str} {i : Int} (hb : b ≤ 64) (h : parseInt b s = .ok i) :
    numTyped (.int b) s = true := by
  obtain ⟨h1, h2⟩ := parseInt_bound h
  have h3 := pow_le_64 (n := b - 1) (by omega)
  have := f64OK_of_small (parseInt_floatSyntax h) (by omega) (by omega)
  simp [numTyped, this, h]

theorem numTyped_uint {b : Nat} {s : Str} {i : Int} (hb : b ≤ 64) (h : parseUint b s = .ok i) :
    numTyped (.uint b) s = true := by
  obtain ⟨h1, h2⟩ := parseUint_bound h
  have h3 := pow_le_64 hb
  have := f64OK_of_small (parseUint_floatSyntax h) (by omega) (by omega)
  simp [numTyped, this, h]

end GoZero.C08
