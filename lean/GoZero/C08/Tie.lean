/-
C08 — Tie: what the extractor read from core/mapping *now* equals what the model was written against.
A failing obligation here means the code moved away from the model (a dropped field in a rebuilt option
set, a changed keyword or separator, a changed comparison in the range test, a changed bit size, a
reordered check on a primitive path).
-/
import GoZero.Extracted.C08
import GoZero.C08.Model
namespace GoZero.C08.Tie
open GoZero.C08
open GoZero.Extracted.C08

theorem extraction_clean : extractionErrors = [] := by decide

/-! ### tag grammar: keywords and separators used by `parseOption` / `parseSegments` / `parseOptions` -/

theorem tie_keywords :
    (inheritOption, stringOption, optionalOption, optionsOption, defaultOption, envOption, rangeOption)
      = ("inherit", "string", "optional", "options", "default", "env", "range") := by decide

theorem tie_separators :
    optionSeparator = "|" ∧ equalToken = "=" ∧ escapeChar = ('\\'.toNat : Int) ∧ leftBracket = ('('.toNat : Int)
      ∧ rightBracket = (')'.toNat : Int) ∧ leftSquareBracket = ('['.toNat : Int)
      ∧ rightSquareBracket = (']'.toNat : Int) ∧ segmentSeparator = (','.toNat : Int)
      ∧ notSymbol = ('!'.toNat : Int) ∧ ignoreKey = "-" ∧ delimiter = ('.'.toNat : Int) := by decide

/-! ### the rebuilt option sets copy every field of `fieldOptionsWithContext` -/

/-- the field name left of `:` in `Field: expr` -/
def copiedField (s : String) : String := (s.splitOn ":").headD ""

theorem tie_ctxFields :
    ctxFields = ["Inherit", "FromString", "Optional", "Options", "Default", "EnvVar", "Range"] := by decide

/-- `toOptionsWithContext` rebuilds the option set with the resolved `optional` and *every* other field
(the pinned commit dropped `Inherit` and `Range`: the model's `Cfg.pinned` branch). -/
theorem tie_toOptionsWithContext_copies :
    toOptionsWithContextCopies =
      ["Inherit: o.Inherit", "FromString: o.FromString", "Optional: optional", "Options: o.Options",
       "Default: o.Default", "EnvVar: o.EnvVar", "Range: o.Range"] := by decide

theorem tie_parseOptionsWithContext_copies :
    parseOptionsWithContextCopies =
      ["Inherit: options.Inherit", "FromString: options.FromString", "Optional: options.Optional",
       "Options: options.Options", "Default: options.Default", "EnvVar: options.EnvVar",
       "Range: options.Range"] := by decide

/-! ### the range test -/

/-- `validateNumberRange`: NaN is rejected first, then the two one-sided tests with these comparison
directions (the model's `rangeRejects` with `pinned = false`). -/
theorem tie_validateNumberRange :
    validateNumberRangeStmts =
      ["if nr == nil => return nil",
       "if math.IsNaN(fv) => return errNumberRange",
       "if (nr.leftInclude && fv < nr.left) || (!nr.leftInclude && fv <= nr.left) => return errNumberRange",
       "if (nr.rightInclude && fv > nr.right) || (!nr.rightInclude && fv >= nr.right) => return errNumberRange",
       "return nil"] := by decide

theorem tie_validateJsonNumberRange :
    validateJsonNumberRangeStmts =
      ["if opts == nil || opts.Range == nil => return nil",
       "stmt fv, err := v.Float64()",
       "if err != nil => return err",
       "return validateNumberRange(fv, opts.Range)"] := by decide

theorem tie_validateValueRange :
    validateValueRangeStmts =
      ["if opts == nil || opts.Range == nil => return nil",
       "stmt fv, ok := toFloat64(mapValue)",
       "if !ok => return errNumberRange",
       "return validateNumberRange(fv, opts.Range)"] := by decide

/-! ### conversions -/

/-- bit sizes of `convertTypeFromString` (the model's `Kind.int b` / `Kind.uint b` / `Kind.float b`; `intSize` = 64
on the checked platform) -/
theorem tie_convertCases :
    convertCases =
      ["case reflect.Bool => switch …",
       "case reflect.Int => return strconv.ParseInt(str, 10, intSize)",
       "case reflect.Int8 => return strconv.ParseInt(str, 10, 8)",
       "case reflect.Int16 => return strconv.ParseInt(str, 10, 16)",
       "case reflect.Int32 => return strconv.ParseInt(str, 10, 32)",
       "case reflect.Int64 => return strconv.ParseInt(str, 10, 64)",
       "case reflect.Uint => return strconv.ParseUint(str, 10, intSize)",
       "case reflect.Uint8 => return strconv.ParseUint(str, 10, 8)",
       "case reflect.Uint16 => return strconv.ParseUint(str, 10, 16)",
       "case reflect.Uint32 => return strconv.ParseUint(str, 10, 32)",
       "case reflect.Uint64 => return strconv.ParseUint(str, 10, 64)",
       "case reflect.Float32 => return strconv.ParseFloat(str, 32)",
       "case reflect.Float64 => return strconv.ParseFloat(str, 64)",
       "case reflect.String => return str, nil",
       "default => return nil, errUnsupportedType"] := by decide

/-! ### order of the checks on the primitive paths -/

/-- `processFieldPrimitiveWithJSONNumber`: range, then options, then the conversion by kind (`jsonNumberPath`) -/
theorem tie_jsonNumberPath_prefix :
    jsonNumberShape.take 13 =
      ["call Deref", "call baseType.Kind", "call validateJsonNumberRange", "if err != nil {", "return", "}",
       "call opts.options", "call validateValueInOptions", "if err != nil {", "return", "}", "call Deref",
       "switch typeKind {"] := by decide

/-- `processNamedFieldWithValueFromString`: string-kind test, options, then `fillPrimitive` (`primFromString`) -/
theorem tie_fromStringShape :
    fromStringShape =
      ["if valueKind != reflect.String {", "return", "}", "call opts.options", "if len(options) > 0 {",
       "if !stringx.Contains(options, checkValue) {", "return", "}", "}", "call fillPrimitive", "return"] := by decide

/-- `validateAndSetValue`: convert, then range, then set (`primFromString`, string case) -/
theorem tie_validateAndSetValueShape :
    validateAndSetValueShape =
      ["if !value.CanSet() {", "return", "}", "call convertTypeFromString", "if err != nil {", "return", "}",
       "call validateValueRange", "if err != nil {", "return", "}", "call setMatchedPrimitiveValue", "return"] := by
  decide

/-- `fillWithSameType`: the range test precedes the assignment (`primNotFromString`, string/bool cases) -/
theorem tie_fillWithSameTypeShape :
    fillWithSameTypeShape.take 7 =
      ["if !value.CanSet() {", "return", "}", "call validateValueRange", "if err != nil {", "return", "}"] := by decide

/-- `processNamedFieldWithValue`: nil test (optional ⇒ skip, else error) before anything else, then the
kind dispatch with the from-string test (`fieldCore` / `withValue` / `primWithValue`) -/
theorem tie_withValueShape :
    withValueShape =
      ["if mapValue == nil {", "if opts.optional() {", "return", "}", "return", "}", "if !value.CanSet() {",
       "return", "}", "call maybeNewValue", "call u.processFieldTextUnmarshaler", "if yes {", "return", "}",
       "call Deref", "call Deref(fieldType).Kind", "switch fieldKind {",
       "case reflect.Array, reflect.Map, reflect.Slice, reflect.Struct:", "call u.processFieldNotFromString",
       "return", "default:", "if u.opts.fromString || opts.fromString() {",
       "call u.processNamedFieldWithValueFromString", "return", "}", "call u.processFieldNotFromString",
       "return", "}"] := by decide

/-- `processNamedFieldWithoutValue`: default first, then by kind: optional ⇒ untouched, else required
(`fieldCore` absent branch, `absentRequired`) -/
theorem tie_withoutValueShape :
    withoutValueShape =
      ["call Deref", "call derefedType.Kind", "call opts.getDefault", "if ok {",
       "if derefedType == durationType {", "call fillDurationValue", "return", "}", "switch fieldKind {",
       "case reflect.Array, reflect.Slice:", "call u.fillSliceWithDefault", "return", "default:",
       "call setValueFromString", "return", "}", "}", "if u.opts.fillDefault {",
       "if fieldType.Kind() != reflect.Ptr && fieldKind == reflect.Struct {", "call u.processFieldNotFromString",
       "return", "}", "return", "}", "switch fieldKind {", "case reflect.Array, reflect.Map, reflect.Slice:",
       "if !opts.optional() {", "call u.processFieldNotFromString", "return", "}", "case reflect.Struct:",
       "if !opts.optional() {", "call structValueRequired", "if err != nil {", "return", "}", "if required {",
       "return", "}", "call u.processFieldNotFromString", "return", "}", "default:", "if !opts.optional() {",
       "return", "}", "}", "return"] := by decide

/-- `toOptionsWithContext`: the three dependency cases and their error tests (`effOptional`) -/
theorem tie_toOptionsWithContextShape :
    toOptionsWithContextShape =
      ["if o.optional() {", "call o.optionalDep", "if len(dep) == 0 {", "}", "else{", "if dep[0] == notSymbol {",
       "if len(dep) == 0 {", "return", "}", "call m.Value", "call m.Value", "if baseOn == selfOn {", "return", "}",
       "}", "else{", "call m.Value", "call m.Value", "if baseOn != selfOn {", "return", "}", "}", "}", "}",
       "if o.fieldOptionsWithContext.Optional == optional {", "return", "}", "return"] := by decide

/-- the values `toOptionsWithContext` assigns to `optional`, in source order (`effOptional`: plain ⇒ true,
`!dep` ⇒ baseOn, `dep` ⇒ !baseOn) -/
theorem tie_optionalAssignments : optionalAssignments = ["optional = true", "optional = baseOn", "optional = !baseOn"] := by
  decide

/-- `processNamedField` under WithFromArray takes the first element only of a non-nil value for a non-slice field -/
theorem tie_fromArrayGuard : fromArrayGuard = ["if u.opts.fromArray && mapValue != nil"] := by decide

/-! ### the unmarshalers of the HTTP front end are the configurations the model and the harness run -/

/-- form: key `form`, WithStringValues + WithOpaqueKeys + WithFromArray (`Cfg` with fromString, fromArray) -/
theorem tie_formUnmarshaler :
    formUnmarshalerCall = ["mapping.NewUnmarshaler", "formKey", "mapping.WithStringValues()", "mapping.WithOpaqueKeys()",
      "mapping.WithFromArray()"] := by decide

/-- path: key `path`, WithStringValues + WithOpaqueKeys (`Cfg` with fromString) -/
theorem tie_pathUnmarshaler :
    pathUnmarshalerCall = ["mapping.NewUnmarshaler", "pathKey", "mapping.WithStringValues()", "mapping.WithOpaqueKeys()"] := by
  decide

/-- header: key `header`, WithStringValues + canonical MIME keys (`Cfg` with fromString, canonical) -/
theorem tie_headerUnmarshaler :
    headerUnmarshalerCall = ["mapping.NewUnmarshaler", "headerKey", "mapping.WithStringValues()",
      "mapping.WithCanonicalKeyFunc(textproto.CanonicalMIMEHeaderKey)"] := by decide

theorem tie_jsonUnmarshaler : jsonUnmarshalerCall = ["NewUnmarshaler", "jsonTagKey"] := by decide

/-- the dependency key keeps its `!` and is canonicalised behind it (`canonDep false`) -/
theorem tie_canonicalDep :
    canonicalDepExpr = ["canonicalDep(options.OptionalDep, u.opts.canonicalKey)"]
    ∧ canonicalDepStmts =
        ["if len(dep) > 0 && dep[0] == notSymbol => return string(notSymbol) + canonicalKey(dep[1:])",
         "return canonicalKey(dep)"] := by decide

/-! ### round 2 -/

/-- `parseNumberRange`: the order of the tests, the comparison `left > right`, the equal-bounds rule and the fields of
the result (`Model.parseNumberRange`) -/
theorem tie_parseNumberRange :
    parseNumberRangeStmts =
      ["if len(str) == 0 => return nil, errNumberRange",
       "stmt leftInclude, err := isLeftInclude(str[0])",
       "if err != nil => return nil, err",
       "stmt str = str[1:]",
       "if len(str) == 0 => return nil, errNumberRange",
       "stmt rightInclude, err := isRightInclude(str[len(str)-1])",
       "if err != nil => return nil, err",
       "stmt str = str[:len(str)-1]",
       "stmt fields := strings.Split(str, \":\")",
       "if len(fields) != 2 => return nil, errNumberRange",
       "if len(fields[0]) == 0 && len(fields[1]) == 0 => return nil, errNumberRange",
       "stmt var left float64",
       "if len(fields[0]) > 0 => ",
       "stmt var right float64",
       "if len(fields[1]) > 0 => ",
       "if left > right => return nil, errNumberRange",
       "if left == right => if !leftInclude || !rightInclude { return nil, errNumberRange }",
       "return &numberRange{ left: left, leftInclude: leftInclude, right: right, rightInclude: rightInclude, }, nil"] := by
  rfl

/-- an omitted bound defaults to ∓MaxFloat64 (`parseBound f0 maxFloat64.neg`, `parseBound f1 maxFloat64`) -/
theorem tie_parseNumberRangeDefaults :
    parseNumberRangeDefaults =
      ["if len(fields[0]) > 0 { var err error; if left, err = strconv.ParseFloat(fields[0], 64); err != nil {…} } else { left = -math.MaxFloat64 }",
       "if len(fields[1]) > 0 { var err error; if right, err = strconv.ParseFloat(fields[1], 64); err != nil {…} } else { right = math.MaxFloat64 }"] := by
  rfl

/-- `[` / `]` closed, `(` / `)` open, anything else is an error -/
theorem tie_rangeBrackets :
    isLeftIncludeStmts =
      ["stmt switch b { case '[': return true, nil case '(': return false, nil default: return false, errNumberRange }"]
    ∧ isRightIncludeStmts =
      ["stmt switch b { case ']': return true, nil case ')': return false, nil default: return false, errNumberRange }"] := by
  decide

/-- the kind switch of `processFieldPrimitiveWithJSONNumber` (`jsonNumberPath`): integers through `setValueFromString`,
floats through `json.Number.Float64`, anything else is a type mismatch -/
theorem tie_jsonNumberCases :
    jsonNumberCases =
      ["case reflect.Int, reflect.Int8, reflect.Int16, reflect.Int32, reflect.Int64, reflect.Uint, reflect.Uint8, reflect.Uint16, reflect.Uint32, reflect.Uint64 => if err := setValueFromString(typeKind, target, v.String()); err != nil { return err }",
       "case reflect.Float32 => fValue, err := strconv.ParseFloat(v.String(), 32)",
       "case reflect.Float64 => fValue, err := v.Float64()",
       "default => return newTypeMismatchErrorWithHint(fullName, typeKind.String(), numberTypeString)"] := by rfl

/-- `fillSlice` / `fillMap`: a pointer to a container is filled through its element type and then pointed to (the
`.ptr` cases of `withValue` / `elemValue` / `mapElemValue`; the pinned commit lacked the pointer branch and panicked);
`fillSlice` then: non-slice ⇒ mismatch, nil ⇒ untouched, `[]` ⇒ empty slice (`sliceResult`) -/
theorem tie_fillSlicePrefix :
    fillSliceShape.take 25 =
      ["if !value.CanSet() {", "return", "}", "if fieldType.Kind() == reflect.Ptr {", "call Deref", "call u.fillSlice",
       "if err != nil {", "return", "}", "call SetValue", "return", "}", "if refValue.Kind() != reflect.Slice {", "return",
       "}", "if refValue.IsNil() {", "return", "}", "call fieldType.Elem", "call Deref", "call dereffedBaseType.Kind",
       "if refValue.Len() == 0 {", "call value.Set", "return", "}"] := by decide

theorem tie_fillMapShape :
    fillMapShape =
      ["if !value.CanSet() {", "return", "}", "if fieldType.Kind() == reflect.Ptr {", "call Deref", "call u.fillMap",
       "if err != nil {", "return", "}", "call SetValue", "return", "}", "call fieldType.Key", "call fieldType.Elem",
       "call u.generateMap", "if err != nil {", "return", "}", "if !targetValue.Type().AssignableTo(value.Type()) {",
       "return", "}", "call value.Set", "return"] := by decide

/-- `fillSliceWithDefault`: the parsed default is cached per element kind and text (the model has no cache: same
type and text, same result), strings are split with `parseGroupedSegments`, the slice is filled through the field's
own type (pointer aware) -/
theorem tie_defaultCache :
    defaultCacheUse =
      ["cacheKey := baseFieldKind.String() + \":\" + defaultValue", "slice, ok := defaultCache[cacheKey]",
       "defaultCache[cacheKey] = slice", "return u.fillSlice(value.Type(), value, slice, fullName)"]
    ∧ fillSliceWithDefaultShape =
      ["call derefedType.Elem", "call Deref", "call baseFieldType.Kind", "call baseFieldKind.String",
       "call defaultCacheLock.Lock", "call defaultCacheLock.Unlock", "if !ok {", "if baseFieldKind == reflect.String {",
       "call parseGroupedSegments", "}", "else{", "call jsonx.UnmarshalFromString", "if err != nil {", "return", "}", "}",
       "call defaultCacheLock.Lock", "mapset defaultCache", "call defaultCacheLock.Unlock", "}", "call value.Type",
       "call u.fillSlice", "return"] := by decide

/-! ### rest/httpx.Parse (`Model.httpParse`) -/

/-- path, form, headers, JSON body in this order, the first error wins (stated from the test of the target's kind on: how
`kind` is computed in front of it — with or without the nil guard of fixes/not-applied/C08-nil-target.patch — is not part of the order) -/
theorem tie_httpParseOrder :
    (httpParseShape.dropWhile (fun s => s != "if kind != reflect.Array && kind != reflect.Slice {")).take 18 =
      ["if kind != reflect.Array && kind != reflect.Slice {", "call ParsePath", "if err != nil {", "return", "}",
       "call ParseForm", "if err != nil {", "return", "}", "call ParseHeaders", "if err != nil {", "return", "}", "}",
       "call ParseJsonBody", "if err != nil {", "return", "}"] := by decide +kernel

/-- `GetFormValues`: empty values are skipped, names without a value left are dropped, a trailing `[]` is cut (`formParams`) -/
theorem tie_getFormValues :
    arraySuffix = "[]" ∧
    getFormValuesShape.drop 10 =
      ["range r.Form {", "range values {", "if len(v) == 0 {", "continue", "}", "if n < maxFormParamCount {", "}", "else{",
       "call r.Form.Encode", "return", "}", "}", "if len(filtered) > 0 {", "if strings.HasSuffix(name, arraySuffix) {", "}",
       "mapset params", "}", "}", "return"] := by decide

/-- `ParseHeaders`: one value ⇒ string, several ⇒ list (`headerParams`) -/
theorem tie_parseHeaders :
    parseHeadersShape =
      ["range header {", "if len(v) == 1 {", "mapset m", "}", "else{", "mapset m", "}", "}",
       "call headerUnmarshaler.Unmarshal", "return"] := by decide

/-- `implicitValueRequiredStruct` (`structRequired`): a field under another key, a field without options that is not a
struct, a field that is neither optional nor defaulted, an `optional=!dep` field make the nested struct required -/
theorem tie_structRequiredShape :
    structRequiredShape =
      ["call tp.NumField", "for i < numFields {", "call tp.Field", "if usingDifferentKeys(tag, childField) {", "return",
       "}", "call parseKeyAndOptions", "if err != nil {", "return", "}", "if opts == nil {",
       "if childField.Type.Kind() != reflect.Struct {", "return", "}", "call implicitValueRequiredStruct",
       "if err != nil {", "return", "}", "else{", "if required {", "return", "}", "}", "}", "else{",
       "if !opts.Optional && len(opts.Default) == 0 {", "return", "}", "else{",
       "if len(opts.OptionalDep) > 0 && opts.OptionalDep[0] == notSymbol {", "return", "}", "}", "}", "}", "return"] := by
  rfl

/-! ### round 4: the decision-making conditions on the property's path, translated from the Go expressions into Lean
terms (`extract/c08.go`, `c08Sem`) and proven equal to what the model computes, for all arguments -/

/-- `ParseHeaders`: "hand the value over as a string" is decided exactly as the model's `headerScalar` does -/
theorem tie_parseHeaders_sem (n : Int) : parseHeadersScalar n = headerScalar n := rfl

/-- the scalar branch reads `v[0]`, the other branch hands over the slice itself -/
theorem tie_parseHeaders_branches :
    parseHeadersThenIdx = [0] ∧ parseHeadersElseIdx = [] ∧ parseHeadersThen = ["m[k] = v[0]"]
      ∧ parseHeadersElse = ["m[k] = v"] := by decide

/-- every constant index into `v` in a branch of the extracted decision lies inside `v` for every length that takes that
branch (the semantic reason why `ParseHeaders` cannot panic on nil / empty / single / multiple values) -/
theorem tie_parseHeaders_indexes_in_range (n : Nat) :
    (parseHeadersScalar n = true → ∀ i ∈ parseHeadersThenIdx, 0 ≤ i ∧ i < (n : Int))
    ∧ (parseHeadersScalar n = false → ∀ i ∈ parseHeadersElseIdx, 0 ≤ i ∧ i < (n : Int)) := by
  simp [parseHeadersScalar, parseHeadersThenIdx, parseHeadersElseIdx]
  omega

/-- the loop body of the code (extracted decision and index) is the model's `headerEntry` -/
theorem tie_parseHeaders_entry (vs : HVals) :
    headerEntryG parseHeadersScalar (parseHeadersThenIdx.headD (-1)) vs = headerEntry vs := rfl

/-- `validateNumberRange`: NaN guard, then the translated left and right tests = `rangeRejects` of the repaired code, for
every range and every number (comparison operators, their operands and the inclusive flags are all pinned) -/
theorem tie_rangeRejects_sem (c : Cfg) (hc : c.pinned = false) (r : Range) (x : Num) :
    rangeRejects c r x =
      (decide (x = .nan) || rangeLeftCond numLt numLe numGt numGe r.leftInc x r.left
        || rangeRightCond numLt numLe numGt numGe r.rightInc x r.right) := by
  simp [rangeRejects, rangeLeftCond, rangeRightCond, hc, Bool.or_assoc]

/-- `parseNumberRange`: `left > right` is the model's `Dec.lt r l`; equal bounds are refused unless both ends are closed -/
theorem tie_parseNumberRange_sem (l r : Dec) (li ri : Bool) :
    rangeBoundsSwapped (fun a b => Dec.lt b a) l r = Dec.lt r l
    ∧ (rangeBoundsEqual Dec.eqv l r && rangeEqualNeedsClosed li ri)
        = decide (Dec.eqv l r = true ∧ ((!li) = true ∨ (!ri) = true)) := by
  refine ⟨rfl, ?_⟩
  cases li <;> cases ri <;> cases h : Dec.eqv l r <;> simp [rangeBoundsEqual, rangeEqualNeedsClosed, h]

/-- `parseNumberRange`: exactly two `:`-separated fields, not both empty, a bound is parsed iff its text is not empty
(`parseBound`: the empty text takes the default ∓MaxFloat64) -/
theorem tie_parseNumberRange_fields (fields : List Str) (f0 f1 : Str) :
    (rangeFieldCount fields.length = false ↔ ∃ a b, fields = [a, b])
    ∧ rangeBothOmitted f0.length f1.length = decide (f0 = [] ∧ f1 = [])
    ∧ rangeLeftGiven f0.length = !decide (f0 = [])
    ∧ rangeRightGiven f1.length = !decide (f1 = []) := by
  refine ⟨?_, ?_, ?_, ?_⟩
  · simp only [rangeFieldCount]
    constructor
    · intro h
      match fields, h with
      | [a, b], _ => exact ⟨a, b, rfl⟩
      | [], h => simp at h
      | [_], h => simp at h
      | _ :: _ :: _ :: _, h => simp at h; omega
    · rintro ⟨a, b, rfl⟩; simp
  · cases f0 <;> cases f1 <;> simp [rangeBothOmitted] <;> omega
  · cases f0 <;> simp [rangeLeftGiven] <;> omega
  · cases f1 <;> simp [rangeRightGiven] <;> omega

/-- `toOptionsWithContext`: `optional=!dep` is an error when both or neither are supplied, `optional=dep` when exactly one
is (`effOptional`); the declared option set is returned unchanged iff the resolved `optional` equals the declared one -/
theorem tie_dependency_sem (baseOn selfOn : Bool) :
    depNotViolated baseOn selfOn = decide (baseOn = selfOn)
    ∧ depViolated baseOn selfOn = decide (baseOn ≠ selfOn)
    ∧ optionalUnchanged baseOn selfOn = decide (baseOn = selfOn) := by
  cases baseOn <;> cases selfOn <;> decide

/-- the model's dependency resolution, written with the translated conditions of the code -/
theorem tie_effOptional_sem (o : Opts) (key : Str) (m : Obj) (c : Char) (dep : Str) (ho : o.optional = true)
    (hd : o.optionalDep = c :: dep) :
    effOptional o key m =
      (if c = '!' then
         (if dep = [] then .error .dep
          else if depNotViolated (hasKey dep m) (hasKey key m) then .error .dep else .ok (hasKey dep m))
       else if depViolated (hasKey (c :: dep) m) (hasKey key m) then .error .dep else .ok (!hasKey (c :: dep) m)) := by
  simp only [effOptional, ho, hd, depNotViolated, depViolated, if_true]
  by_cases hc : c = '!'
  · simp only [hc, if_true]
    by_cases hde : dep = []
    · simp [hde]
    · simp only [hde, if_false]
      cases hasKey dep m <;> cases hasKey key m <;> simp
  · simp only [hc, if_false]
    cases hasKey (c :: dep) m <;> cases hasKey key m <;> simp

/-- the not symbol test on the first byte of the dependency -/
theorem tie_depIsNot_sem (c : Char) : depIsNot c.toNat = decide (c = '!') := by
  simp only [depIsNot]
  by_cases h : c = '!'
  · subst h; decide
  · have : ¬ ((c.toNat : Int) = 33) := by
      intro h'
      apply h
      have h2 : c.toNat = '!'.toNat := by
        have : '!'.toNat = 33 := by decide
        omega
      exact Char.toNat_inj.mp h2
    simp [this, h]

/-- `implicitValueRequiredStruct`: a field is required when it is neither optional nor defaulted, or when it is `optional=!dep`
(`structRequired`) -/
theorem tie_structRequired_sem (o : Opts) :
    requiredField o.optional o.default.length = (!o.optional && decide (o.default = []))
    ∧ requiredNotDep o.optionalDep.length ((o.optionalDep.head?.map Char.toNat).getD 0)
        = decide (o.optionalDep.head? = some '!') := by
  constructor
  · cases o.default <;> cases o.optional <;> simp [requiredField] <;> omega
  · cases hd : o.optionalDep with
    | nil => simp [requiredNotDep]
    | cons c rest =>
      have h1 := tie_depIsNot_sem c
      by_cases hc : c = '!'
      · subst hc
        simp [requiredNotDep]
      · have h3 : ¬ ((c.toNat : Int) = 33) := by simpa [depIsNot, hc] using h1
        simp [requiredNotDep, h3, hc]

/-- `GetFormValues`: an empty value is skipped, a name is handed over iff a value is left (`formParams`) -/
theorem tie_getFormValues_sem (v : Str) (filtered : List Str) :
    formSkipValue v.length = v.isEmpty ∧ formKeepName filtered.length = !filtered.isEmpty := by
  constructor
  · cases v <;> simp [formSkipValue] <;> omega
  · cases filtered <;> simp [formKeepName] <;> omega

/-- `fillSlice`: the empty input gives an empty slice (`sliceResult`); `processNamedField`: the WithFromArray block is
entered for a non-nil value only (`fieldCore`: the null test comes after `fromArrayValue`, which leaves null alone) -/
theorem tie_fillSlice_fromArray_sem (l : List J) (c : Cfg) (isSlice : Bool) :
    fillSliceEmpty l.length = l.isEmpty
    ∧ (fromArrayBlock c.fromArray true = false)
    ∧ fromArrayValue c isSlice .null = .null := by
  refine ⟨?_, ?_, ?_⟩
  · cases l <;> simp [fillSliceEmpty] <;> omega
  · simp [fromArrayBlock]
  · simp [fromArrayValue]

/-- `processNamedField` (`fieldCore`): options resolved against the input first, the ignore key, an `env=` value, the
canonical key, the valuer by `inherit`, the lookup; absent ⇒ `processNamedFieldWithoutValue`; under WithFromArray the first
element of a non-empty list for a non-slice field; then `processNamedFieldWithValue` -/
theorem tie_namedFieldShape :
    namedFieldShape =
      ["if !field.IsExported() {", "return", "}", "call u.parseOptionsWithContext", "if err != nil {", "return",
       "}", "if key == ignoreKey {", "return", "}", "call join", "if opts != nil && len(opts.EnvVar) > 0 {",
       "call proc.Env", "if len(envVal) > 0 {", "call u.processFieldWithEnvValue", "return", "}", "}",
       "if u.opts.canonicalKey != nil {", "call u.opts.canonicalKey", "}", "call createValuer", "call getValue",
       "if u.opts.fillDefault {", "if !value.IsZero() {", "return", "}", "call u.processNamedFieldWithoutValue",
       "return", "}", "else{", "if !hasValue {", "call u.processNamedFieldWithoutValue", "return", "}", "}",
       "if u.opts.fromArray && mapValue != nil {", "call field.Type.Kind",
       "if fieldKind != reflect.Slice && fieldKind != reflect.Array {",
       "if valueKind == reflect.Slice || valueKind == reflect.Array {", "if val.Len() > 0 {", "call val.Index",
       "call val.Index(0).Interface", "}", "}", "}", "}", "call u.processNamedFieldWithValue", "return"] := by decide

/-- `structValueRequired`: the cached answer is keyed by the tag key AND the type (a8b007f; keyed by the type alone the `json`
unmarshaler was handed the `form` unmarshaler's answer: Props.structRequiredCache_witness) and computed for the caller's own
tag key — the model has no cache: `absentRequired` asks `structRequired` about the fields as its own key reads them -/
theorem tie_structRequiredCache :
    structRequiredCacheUse =
      ["cacheKey := requiredCacheKey{tag: tag, tp: tp}", "val, ok := structRequiredCache[cacheKey]",
       "required, err := implicitValueRequiredStruct(tag, tp)", "structRequiredCache[cacheKey] = requiredCacheValue{…}"] := by
  decide

/-! ### round 4: front ends, glue between the packages, valuers -/

/-- core/mapping/valuer.go: `simpleValuer` looks at the current node only; `Parent()` wraps the parent in a `recursiveValuer`;
`recursiveValuer.Value`: current node, else the parent chain; two objects are merged by adding the parent's entries under the keys the
child does not bind (`if _, ok := vm[k]; !ok { vm[k] = v }`) — `Model.simpleValue`, `Model.recValueM`, `Model.mergeMissing`;
`createValuer` picks the recursive valuer exactly for `inherit` -/
theorem tie_valuer :
    simpleValuerValueShape =
      ["call sv.current.Value", "return"] ∧
    simpleValuerParentShape =
      ["if sv.parent == nil {", "return", "}", "call sv.parent.Parent", "return"] ∧
    recursiveValuerValueShape =
      ["call rv.current.Value", "if !ok {", "call rv.Parent", "if parent != nil {", "call parent.Value", "return",
      "}", "return", "}", "if !ok {", "return", "}", "call rv.Parent", "if parent == nil {", "return", "}",
      "call parent.Value", "if !ok {", "return", "}", "if !ok {", "return", "}", "range pm {", "if !ok {",
      "mapset vm", "}", "}", "return"] ∧
    recursiveValuerParentShape =
      ["if rv.parent == nil {", "return", "}", "call rv.parent.Parent", "return"] ∧
    mapValuerValueShape =
      ["return"] ∧
    createValuerShape =
      ["if opts.inherit() {", "call v.Parent", "return", "}", "call v.Parent", "return"] := by
  refine ⟨?_, ?_, ?_, ?_, ?_, ?_⟩ <;> decide

/-- `UnmarshalYamlBytes` / `UnmarshalTomlBytes` (and the Reader forms): convert with `encoding.YamlToJson` / `TomlToJson`, an error of the
conversion is returned, else `UnmarshalJsonBytes(b, v, opts...)` — the content, the target and *the options* are forwarded -/
theorem tie_yamlTomlForwarding :
    unmarshalYamlBytesCalls =
      ["call encoding.YamlToJson(content)", "return err", "return UnmarshalJsonBytes(b, v, opts...)"] ∧
    unmarshalTomlBytesCalls =
      ["call encoding.TomlToJson(content)", "return err", "return UnmarshalJsonBytes(b, v, opts...)"] ∧
    unmarshalYamlReaderCalls =
      ["call io.ReadAll(reader)", "return err", "return UnmarshalYamlBytes(b, v, opts...)"] ∧
    unmarshalTomlReaderCalls =
      ["call io.ReadAll(r)", "return err", "return UnmarshalTomlBytes(b, v, opts...)"] := by
  refine ⟨?_, ?_, ?_, ?_⟩ <;> decide

/-- core/mapping/jsonunmarshaler.go: options ⇒ a fresh unmarshaler under the `json` key with them, none ⇒ the shared one; the decoded
document and the target are handed to `Unmarshal` -/
theorem tie_jsonForwarding :
    unmarshalJsonBytesCalls =
      ["return unmarshalJsonBytes(content, v, getJsonUnmarshaler(opts...))"] ∧
    unmarshalJsonMapCalls =
      ["return getJsonUnmarshaler(opts...).Unmarshal(m, v)"] ∧
    getJsonUnmarshalerCalls =
      ["call len(opts)", "return NewUnmarshaler(jsonTagKey, opts...)", "return jsonUnmarshaler"] ∧
    unmarshalJsonBytesInnerCalls =
      ["call jsonx.Unmarshal(content, &m)", "return err", "return unmarshaler.Unmarshal(m, v)"] := by
  refine ⟨?_, ?_, ?_, ?_⟩ <;> decide

/-- core/conf: `LoadFromJsonBytes` decodes, lowers the field keys, unmarshals with `WithCanonicalKeyFunc(toLowerCase)` (the model's
`Cfg.lower`, `toLowerCase = strings.ToLower`), an error is returned; YAML / TOML convert first and forward to it; the file loaders by extension -/
theorem tie_confForwarding :
    confLoadFromJsonBytesCalls =
      ["call buildFieldsInfo(reflect.TypeOf(v), \"\")", "call reflect.TypeOf(v)", "return err",
      "call jsonx.Unmarshal(content, &m)", "return err", "call toLowerCaseKeyMap(m, info)",
      "call mapping.UnmarshalJsonMap(lowerCaseKeyMap, v, mapping.WithCanonicalKeyFunc(toLowerCase))",
      "call mapping.WithCanonicalKeyFunc(toLowerCase)", "return err", "return validate(v)"] ∧
    confLoadFromYamlBytesCalls =
      ["call encoding.YamlToJson(content)", "return err", "return LoadFromJsonBytes(b, v)"] ∧
    confLoadFromTomlBytesCalls =
      ["call encoding.TomlToJson(content)", "return err", "return LoadFromJsonBytes(b, v)"] ∧
    confToLowerCaseCalls =
      ["return strings.ToLower(s)"] ∧
    confLoaders =
      ["\".json\": LoadFromJsonBytes", "\".toml\": LoadFromTomlBytes", "\".yaml\": LoadFromYamlBytes",
      "\".yml\": LoadFromYamlBytes"] := by
  refine ⟨?_, ?_, ?_, ?_, ?_⟩ <;> decide

/-- `conf.Load`: read the file, pick the loader by the lower-cased extension, run it (after `os.ExpandEnv` under `UseEnv`), its error is returned -/
theorem tie_confLoadShape :
    confLoadShape =
      ["call os.ReadFile", "if err != nil {", "return", "}", "call path.Ext", "if !ok {", "return", "}",
      "range opts {", "call o", "}", "if opt.env {", "call os.ExpandEnv", "call ?", "call loader", "return", "}",
      "call loader", "if err != nil {", "return", "}", "call validate", "return"] := by
  decide

/-- `toLowerCaseKeyMap`: keys in sorted order; an exact field key, else the lower-cased key if it names a field, else (map field / nested
object / anything) the key as it is — every binding is kept (`mapset res` on each path): the harness observes the result and the driver's
`docEquiv` monitor checks that it holds the supplied values under keys equal up to case -/
theorem tie_confLowerKeyMapShape :
    confLowerKeyMapShape =
      ["range m {", "}", "call sort.Strings", "range keys {", "if ok {", "call toLowerCaseInterface", "mapset res",
      "continue", "}", "call toLowerCase", "if ok {", "call toLowerCaseInterface", "mapset res", "}", "else{",
      "if info.mapField != nil {", "call toLowerCaseInterface", "mapset res", "}", "else{", "if ok {",
      "call toLowerCaseKeyMap", "mapset res", "}", "else{", "mapset res", "}", "}", "}", "}", "return"] := by
  decide

/-- rest/httpx: `ParseHeaders` forwards `r.Header` to `encoding.ParseHeaders`; `ParseForm` = `GetFormValues` then the form unmarshaler;
`ParsePath` = the path variables through the path unmarshaler; `ParseJsonBody` = the body through `UnmarshalJsonReader` when there is a
JSON body, else `UnmarshalJsonMap(nil, v)` (`Model.httpParsePath/Form/Headers/JsonBody`) -/
theorem tie_httpParseParts :
    httpParseHeadersCalls =
      ["return encoding.ParseHeaders(r.Header, v)"] ∧
    httpParseFormCalls =
      ["call GetFormValues(r)", "return err", "return formUnmarshaler.Unmarshal(params, v)"] ∧
    httpParsePathCalls =
      ["call pathvar.Vars(r)", "call make(map[string]any, len(vars))", "call len(vars)",
      "return pathUnmarshaler.Unmarshal(m, v)"] ∧
    httpParseJsonBodyCalls =
      ["call withJsonBody(r)", "call io.LimitReader(r.Body, maxBodyLen)",
      "return mapping.UnmarshalJsonReader(reader, v)", "return mapping.UnmarshalJsonMap(nil, v)"] ∧
    httpWithJsonBodyCalls =
      ["return r.ContentLength > 0 && strings.Contains(r.Header.Get(header.ContentType), header.ApplicationJson)"] := by
  refine ⟨?_, ?_, ?_, ?_, ?_⟩ <;> decide

/-! ### round 5: keys with dots — `readKeys`, `getValue`, `getValueWithChainedKeys`, `WithOpaqueKeys` -/

/-- the effects of `readKeys` before it touches the package-level cache for the first time -/
def beforeCache (l : List String) : List String := l.takeWhile (fun s => !(s.startsWith "cache-"))

/-- `readKeys(key, opaque)`, order of effects: the opaque flag is tested FIRST and answers with the literal key without
touching `cacheKeys` (`Model.lookupKey`: `c.opaqueKeys` ⇒ `getKey key m`); only the non-opaque path reads the cache, splits
at `delimiter` on a miss (`Model.fieldsDot`, `tie_separators`: `delimiter = '.'`) and writes the split back under the same
key.  A cache consulted before the flag (seeded C08-8) shares one entry between literal and chained lookups. -/
theorem tie_readKeys :
    readKeysEffects =
      ["test opaque", "return-literal []string{key}", "lock", "cache-read cacheKeys[key]", "unlock", "test ok",
       "return keys", "split key", "separator { return c == delimiter }", "lock", "cache-write cacheKeys[key]", "unlock",
       "return keys"]
    ∧ beforeCache readKeysEffects = ["test opaque", "return-literal []string{key}", "lock"]
    ∧ (readKeysEffects.filter (fun s => s.startsWith "cache-write")).length = 1
    ∧ readKeysShape =
      ["if opaque {", "return", "}", "call cacheKeysLock.Lock", "call cacheKeysLock.Unlock", "if ok {", "return", "}",
       "func{", "return", "}", "call cacheKeysLock.Lock", "mapset cacheKeys", "call cacheKeysLock.Unlock", "return"] := by
  refine ⟨?_, ?_, ?_, ?_⟩ <;> decide +kernel

/-- `getValue` forwards key and flag to `readKeys` and the valuer and the keys to `getValueWithChainedKeys`; both call sites hand
it the unmarshaler's own `opaqueKeys` option; `WithOpaqueKeys` sets exactly that option (`Cfg.opaqueKeys`) -/
theorem tie_getValue :
    getValueCalls = ["call readKeys(key, opaque)", "return getValueWithChainedKeys(m, keys)"]
    ∧ getValueSites = ["getValue(m, fieldKey, u.opts.opaqueKeys)", "getValue(valuer, canonicalKey, u.opts.opaqueKeys)"]
    ∧ withOpaqueKeysStmts = ["opt.opaqueKeys = true"] := by
  refine ⟨?_, ?_, ?_⟩ <;> decide

/-- `getValueWithChainedKeys`: no segment ⇒ absent; one segment ⇒ the valuer's own answer; more ⇒ the first segment through the
valuer, and only if that is an object the rest through `recursiveValuer{current: the object, parent: the valuer}`
(`Model.dottedLookup` / `chainedLookup` / `recLookup`: the object found so far first, then the enclosing ones), else absent -/
theorem tie_chainedKeys :
    chainedKeysShape =
      ["switch len(keys) {", "case 0:", "return", "case 1:", "call m.Value", "return", "default:", "call m.Value",
       "if ok {", "if ok {", "call mapValuer", "call getValueWithChainedKeys", "return", "}", "}", "return", "}"]
    ∧ chainedKeysCalls =
      ["call len(keys)", "return nil, false", "call m.Value(keys[0])", "return v, ok", "call m.Value(keys[0])",
       "return getValueWithChainedKeys(recursiveValuer{ current: mapValuer(nextm), parent: m, }, keys[1:])",
       "return nil, false"] := by
  refine ⟨?_, ?_⟩ <;> decide

/-! ### round 5c: a fresh target per entry / per element (`Props.mapEntries_independent`, `mapElems_independent`)

The model converts every entry of a map and every element of a slice with a pure function of that entry's / element's
own input (`Model.mapEntries` / `mapElems`).  The code matches that iff no per-entry target outlives its iteration:
every scratch value is allocated inside the loop (or is a slot addressed by the loop variable) and nothing that is stored
into the result inside a loop was declared outside it.  (Seeded C08-9 hoisted `reflect.New` out of generateMap's loop:
`generateMapAllocs` then reports depth 0 and `generateMapHoisted` lists `target`.) -/

/-- the scratch allocations (`reflect.New`) of a function all sit at loop depth ≥ `d` -/
def scratchDepthAtLeast (d : Int) (allocs : List (String × Int)) : Bool :=
  allocs.all fun a => !(a.1.toList.take 11 == "reflect.New".toList) || decide (d ≤ a.2)

/-- the container itself (`reflect.MakeMap…` / `reflect.MakeSlice`) is made once, outside the loop -/
def containerOnce (allocs : List (String × Int)) : Bool :=
  allocs.all fun a => !(a.1.toList.take 12 == "reflect.Make".toList) || decide (a.2 = 0)

/-- `generateMap`: one result map made before the loop, every scratch target made inside it (three sites: slice, struct and
number elements), every store into the result inside the loop, and nothing stored inside the loop was declared outside it;
the per-entry calls are handed the in-loop target and the entry's own data -/
theorem tie_generateMap_fresh_target :
    scratchDepthAtLeast 1 generateMapAllocs = true
    ∧ containerOnce generateMapAllocs = true
    ∧ (generateMapAllocs.filter fun a => a.1.toList.take 11 == "reflect.New".toList).length = 3
    ∧ generateMapStores.all (fun st => decide (st.2 = 1)) = true
    ∧ generateMapHoisted = []
    ∧ generateMapElemCalls =
        ["u.fillSlice(dereffedElemType, target.Elem(), keythData, mapFullName)",
         "u.unmarshal(keythMap, target.Interface(), mapFullName)",
         "u.generateMap(dereffedElemType.Key(), dereffedElemType.Elem(), keythMap, mapFullName)"] := by
  refine ⟨?_, ?_, ?_, ?_, ?_, ?_⟩ <;> decide +kernel

/-- `fillSlice` / `fillSliceFromString`: one result slice made before the loop; the per-element target is the slot of the loop
variable (`conv.Index(i)` / `conv, i`), the per-element input the element of the loop variable; nothing is stored into the
result inside the loop from a variable declared outside it; `fillStructElement` and `fillSliceValue` (called once per element)
allocate their scratch value on every call -/
theorem tie_fillSlice_fresh_target :
    containerOnce fillSliceAllocs = true ∧ containerOnce fillSliceFromStringAllocs = true
    ∧ fillSliceElemCalls =
        ["u.fillStructElement(baseType, conv.Index(i), ithValue, sliceFullName)",
         "u.fillSlice(baseType, conv.Index(i), ithValue, sliceFullName)",
         "u.fillSliceValue(conv, i, dereffedBaseKind, ithValue, sliceFullName)"]
    ∧ fillSliceFromStringElemCalls = ["u.fillSliceValue(conv, i, baseFieldKind, slice[i], fullName)"]
    ∧ fillSliceHoisted = [] ∧ fillSliceFromStringHoisted = [] ∧ fillSliceValueHoisted = [] ∧ fillStructElementHoisted = []
    ∧ fillStructElementAllocs = [("reflect.New(Deref(baseType))", 0)]
    ∧ fillSliceValueAllocs = [("reflect.New(baseType)", 0)]
    ∧ fillStructElementStores = [("SetValue(baseType, target, ptr.Elem())", 0)] := by
  refine ⟨?_, ?_, ?_, ?_, ?_, ?_, ?_, ?_, ?_, ?_, ?_⟩ <;> decide +kernel

/-! ### round 5e: a front end keeps nothing between calls but its unmarshaler (`Props.frontEnd_history_independent`)

The model of `ParseHeaders` / `ParsePath` / `ParseForm` / conf's key lowering is a function of the call's own input.  The code
matches that iff the intermediate map it fills is made by the call itself and the only package-level state it touches is the
(immutable) unmarshaler.  (Seeded C08-10 took the map from a `sync.Pool` and cleared it on the success path only.) -/

/-- the defining expression makes a new map: a `map[…]…{}` literal or `make(map[…]…` -/
def makesNewMap (origin : String) : Bool :=
  let rhs := (origin.toList.dropWhile (fun c => c != '=')).drop 2
  (rhs.take 9 == "make(map[".toList) || (rhs.take 4 == "map[".toList && rhs.getLast? == some '}')

theorem tie_frontEnds_keep_no_state :
    parseHeadersStateGlobals = ["headerUnmarshaler"] ∧ parsePathStateGlobals = ["pathUnmarshaler"]
    ∧ parseFormStateGlobals = ["formUnmarshaler"] ∧ parseJsonBodyStateGlobals = [] ∧ getFormValuesStateGlobals = []
    ∧ confLowerStateGlobals = [] ∧ confLoadJsonStateGlobals = []
    ∧ parseHeadersStateMapOrigins.length = 1 ∧ parseHeadersStateMapOrigins.all makesNewMap = true
    ∧ parsePathStateMapOrigins.length = 1 ∧ parsePathStateMapOrigins.all makesNewMap = true
    ∧ getFormValuesStateMapOrigins.length = 1 ∧ getFormValuesStateMapOrigins.all makesNewMap = true
    ∧ confLowerStateMapOrigins.length = 1 ∧ confLowerStateMapOrigins.all makesNewMap = true
    ∧ makesNewMap "m := headerMapPool.Get().(map[string]any)" = false := by
  refine ⟨?_, ?_, ?_, ?_, ?_, ?_, ?_, ?_, ?_, ?_, ?_, ?_, ?_, ?_, ?_, ?_⟩ <;> decide +kernel

end GoZero.C08.Tie
