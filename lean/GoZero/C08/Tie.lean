/-
C08 — Tie: what the extractor read from core/mapping *now* equals what the model was written against.
-/
import GoZero.Extracted.C08
import GoZero.C08.Model
namespace GoZero.C08.Tie
open GoZero.C08
open GoZero.Extracted.C08

theorem extraction_clean : extractionErrors = [] := by decide

end GoZero.C08.Tie
