/-
C08 — round 5d: every outcome kind at the public entry points.  What an entry point is handed besides the document — the kind
of target (`Target`) and what became of the source (`Source`) — is inside the model (`Model.entryPoint`, `httpParseReq`):
the property demands that anything but a valid pointer target with a decoded document is rejected, that an accepted result
satisfies the constraints, and that nothing but the caller's own reader can make the call panic.
-/
import GoZero.C08.PropsR5c
namespace GoZero.C08.Props
open GoZero.C08 GoZero.C08.Spec

/-- **accepted ⇒ valid target, decoded source, constraints hold** — for every configuration, target kind, source outcome, type
and document -/
theorem entry_sound (c : Cfg) (hc : c.pinned = false) (tgt : Target) (src : Source) (ty : Ty) (j : J) (v : Val)
    (h : entryPoint c tgt src ty j = .ok v) :
    tgt.valid = true ∧ src = .doc ∧ satisfies c ty j v = true := by
  unfold entryPoint at h
  cases src <;> cases tgt <;> simp [hc] at h <;>
    exact ⟨rfl, rfl, accept_sound c hc ty j v h⟩

/-- **everything else is rejected** -/
theorem entry_rejects_invalid (c : Cfg) (tgt : Target) (src : Source) (ty : Ty) (j : J)
    (h : tgt.valid = false ∨ src ≠ .doc) : ∃ e, entryPoint c tgt src ty j = .error e := by
  unfold entryPoint
  cases src <;> cases tgt <;> simp [Target.valid] at h ⊢
  all_goals (split <;> simp)

/-- **the converse at the entry points** — a valid target and a decoded document that meets every declared constraint with
correctly typed values: accepted -/
theorem entry_complete (c : Cfg) (hc : c.pinned = false) (tgt : Target) (ht : tgt.valid = true) (ty : Ty) (j : J)
    (h : complete c ty j = true) : ∃ v, entryPoint c tgt .doc ty j = .ok v ∧ satisfies c ty j v = true := by
  unfold entryPoint
  cases tgt <;> simp [Target.valid] at ht <;> exact accept_complete c hc ty j h

/-- **no panic of the unmarshaller's own** — on the repaired code only a panicking reader (the caller's) makes a call panic -/
theorem entry_no_panic (c : Cfg) (hc : c.pinned = false) (tgt : Target) (src : Source) (hs : src ≠ .readPanic)
    (ty : Ty) (hty : tagsOK ty = true) (j : J) : entryPoint c tgt src ty j ≠ .error .panic := by
  unfold entryPoint
  cases src <;> cases tgt <;> simp [hc] at hs ⊢
  all_goals exact no_panic c hc ty hty j

/-- PINNED BEHAVIOUR (defect found in round 5d; fixes/not-applied/C08-nil-target.patch): an untyped nil target makes every entry point
panic — `Unmarshaler.unmarshal` calls `reflect.TypeOf(nil).Kind()`; the repaired code answers `errValueNotSettable` -/
theorem pinned_nil_target_panics (ty : Ty) (j : J) :
    entryPoint { pinned := true } .nilIface .doc ty j = .error .panic
    ∧ entryPoint {} .nilIface .doc ty j = .error .unsupported := ⟨rfl, rfl⟩

/-- **httpx.Parse on the request as it arrives** — the body is part of the input only under `withJsonBody`
(`Content-Length > 0` and a JSON content type); accepted ⇒ the four parts satisfy their constraints on what was looked at -/
theorem httpParseReq_sound (fs : Fields) (p : Obj) (f : List (Str × List Str)) (h : List (Str × HVals))
    (cl : Int) (jt : Bool) (src : Source) (b : J) (vs : VFields)
    (hp : httpParseReq false fs p f h cl jt src b = .ok vs) :
    (withJsonBody cl jt = true → src = .doc)
    ∧ httpParse false fs p f h (if withJsonBody cl jt then some b else none) = .ok vs := by
  unfold httpParseReq at hp
  by_cases hw : withJsonBody cl jt = true
  · simp only [hw, if_true] at hp ⊢
    cases src with
    | doc => exact ⟨fun _ => rfl, hp⟩
    | readPanic =>
      exfalso
      cases h1 : httpParsePath false fs p <;> cases h2 : httpParseForm false fs f <;>
        cases h3 : httpParseHeaders false fs h <;> simp [h1, h2, h3] at hp
    | empty =>
      exfalso
      cases h1 : httpParsePath false fs p <;> cases h2 : httpParseForm false fs f <;>
        cases h3 : httpParseHeaders false fs h <;> simp [h1, h2, h3] at hp
    | malformed =>
      exfalso
      cases h1 : httpParsePath false fs p <;> cases h2 : httpParseForm false fs f <;>
        cases h3 : httpParseHeaders false fs h <;> simp [h1, h2, h3] at hp
    | readErr =>
      exfalso
      cases h1 : httpParsePath false fs p <;> cases h2 : httpParseForm false fs f <;>
        cases h3 : httpParseHeaders false fs h <;> simp [h1, h2, h3] at hp
  · simp only [hw] at hp ⊢
    exact ⟨fun hh => absurd hh (by simp), by simpa using hp⟩

/-- non-vacuity: a chunked request (`Content-Length: -1`) with a valid JSON body is judged without its body -/
example : withJsonBody (-1) true = false ∧ withJsonBody 7 true = true ∧ withJsonBody 7 false = false := by decide

end GoZero.C08.Props
