/-
C15 — lookups on states that satisfy the representation invariant: what `Get` returns, that it is a
function of the abstract map only, and which lookups an operation on one member can change.
-/
import GoZero.C15.Proofs2
namespace GoZero.C15

/-! ### the successor point on the sorted key slice -/

/-- the hash value `Get` lands on: `keys[sort.Search(keys ≥ hk) % len(keys)]` -/
def target (keys : List Nat) (hk : Nat) : Nat := keys.getD (searchGE keys hk % keys.length) 0

/-- `t` is the clockwise successor of `hk` among `keys`: the least key `≥ hk`, or the least key at all
when every key is `< hk`. Only membership in `keys` matters. -/
def IsSucc (keys : List Nat) (hk t : Nat) : Prop :=
  t ∈ keys ∧ ((hk ≤ t ∧ ∀ y ∈ keys, hk ≤ y → t ≤ y) ∨ ((∀ y ∈ keys, y < hk) ∧ ∀ y ∈ keys, t ≤ y))

theorem searchGE_le (keys : List Nat) (hk : Nat) : searchGE keys hk ≤ keys.length := by
  unfold searchGE
  exact (List.takeWhile_sublist _).length_le

theorem searchGE_lt_spec (keys : List Nat) (hk : Nat) (hs : keys.Pairwise (· ≤ ·))
    (hlt : searchGE keys hk < keys.length) :
    ∃ t, keys[searchGE keys hk]? = some t ∧ t ∈ keys ∧ hk ≤ t ∧ ∀ y ∈ keys, hk ≤ y → t ≤ y := by
  induction keys with
  | nil => simp at hlt
  | cons y ys ih =>
    have hy := List.pairwise_cons.mp hs
    rw [searchGE_cons] at hlt ⊢
    by_cases h : y < hk
    · simp only [h, if_true] at hlt ⊢
      obtain ⟨t, h1, h2, h3, h4⟩ := ih hy.2 (by simpa using hlt)
      refine ⟨t, by simpa using h1, List.mem_cons_of_mem _ h2, h3, ?_⟩
      intro y' hy' hge
      rcases List.mem_cons.mp hy' with rfl | hy'
      · omega
      · exact h4 y' hy' hge
    · simp only [h, if_false]
      refine ⟨y, by simp, List.mem_cons_self, by omega, ?_⟩
      intro y' hy' _
      rcases List.mem_cons.mp hy' with rfl | hy'
      · exact Nat.le_refl _
      · exact hy.1 y' hy'

theorem searchGE_eq_spec (keys : List Nat) (hk : Nat) (heq : searchGE keys hk = keys.length) :
    ∀ y ∈ keys, y < hk := by
  induction keys with
  | nil => simp
  | cons y ys ih =>
    rw [searchGE_cons] at heq
    by_cases h : y < hk
    · simp only [h, if_true, List.length_cons] at heq
      intro y' hy'
      rcases List.mem_cons.mp hy' with rfl | hy'
      · exact h
      · exact ih (by omega) y' hy'
    · simp [h] at heq

theorem target_isSucc (keys : List Nat) (hk : Nat) (hs : keys.Pairwise (· ≤ ·)) (hne : keys ≠ []) :
    IsSucc keys hk (target keys hk) := by
  have hpos : 0 < keys.length := List.length_pos_iff.mpr hne
  unfold target
  rcases Nat.lt_or_ge (searchGE keys hk) keys.length with hlt | hge
  · obtain ⟨t, h1, h2, h3, h4⟩ := searchGE_lt_spec keys hk hs hlt
    rw [Nat.mod_eq_of_lt hlt, List.getD_eq_getElem?_getD, h1]
    exact ⟨h2, Or.inl ⟨h3, h4⟩⟩
  · have heq : searchGE keys hk = keys.length := Nat.le_antisymm (searchGE_le keys hk) hge
    rw [heq, Nat.mod_self]
    have hall := searchGE_eq_spec keys hk heq
    cases keys with
    | nil => exact absurd rfl hne
    | cons y ys =>
      have hy := List.pairwise_cons.mp hs
      simp only [List.getD_cons_zero]
      refine ⟨List.mem_cons_self, Or.inr ⟨hall, ?_⟩⟩
      intro y' hy'
      rcases List.mem_cons.mp hy' with rfl | hy'
      · exact Nat.le_refl _
      · exact hy.1 y' hy'

/-- successors in two key sets that contain each other's successor coincide -/
theorem isSucc_cross {K K' : List Nat} {hk t t' : Nat} (h : IsSucc K hk t) (h' : IsSucc K' hk t')
    (ht : t ∈ K') (ht' : t' ∈ K) : t = t' := by
  obtain ⟨_, h⟩ := h
  obtain ⟨_, h'⟩ := h'
  rcases h with ⟨h1, h2⟩ | ⟨h1, h2⟩ <;> rcases h' with ⟨g1, g2⟩ | ⟨g1, g2⟩
  · exact Nat.le_antisymm (h2 t' ht' g1) (g2 t ht h1)
  · have := g1 t ht; omega
  · have := h1 t' ht'; omega
  · exact Nat.le_antisymm (h2 t' ht') (g2 t ht)

theorem isSucc_unique {K : List Nat} {hk t t' : Nat} (h : IsSucc K hk t) (h' : IsSucc K hk t') : t = t' :=
  isSucc_cross h h' h.1 h'.1

/-! ### what `Get` returns -/

/-- the choice inside one bucket -/
def pick (H : Hasher) (b : List Node) (k : Node) : Outcome :=
  match b with
  | [] => .none
  | [n] => .node n
  | _ => .node (b.getD (H.inner (verbV k) % b.length) default)

theorem pick_mem (H : Hasher) (b : List Node) (k : Node) (hne : b ≠ []) : ∃ n ∈ b, pick H b k = .node n := by
  match b, hne with
  | [n], _ => exact ⟨n, List.mem_singleton.mpr rfl, rfl⟩
  | a :: c :: rest, _ =>
    have hlt : H.inner (verbV k) % (a :: c :: rest).length < (a :: c :: rest).length :=
      Nat.mod_lt _ (by simp)
    refine ⟨(a :: c :: rest)[H.inner (verbV k) % (a :: c :: rest).length], List.getElem_mem hlt, ?_⟩
    unfold pick
    simp only []
    rw [List.getD_eq_getElem?_getD, List.getElem?_eq_getElem hlt]
    rfl

theorem keys_nil_iff {H : Hasher} {s : CH} {m : SMap} (hi : Inv H s m) :
    s.keys = [] ↔ ∀ x, bucket s.ring x = [] := by
  constructor
  · intro h x
    have := hi.keys.cnt x
    rw [h] at this
    exact List.length_eq_zero_iff.mp (by simpa using this.symm)
  · intro h
    apply List.eq_nil_iff_forall_not_mem.mpr
    intro x hx
    have := hi.keys.cnt x
    rw [h x] at this
    exact (List.count_eq_zero.mp (by simpa using this)) hx

theorem mem_keys_iff {H : Hasher} {s : CH} {m : SMap} (hi : Inv H s m) (x : Nat) :
    x ∈ s.keys ↔ bucket s.ring x ≠ [] := by
  rw [← List.count_pos_iff, hi.keys.cnt x, List.length_pos_iff]

theorem get_eq {H : Hasher} {s : CH} {m : SMap} (hi : Inv H s m) (k : Node) :
    get H s k = if s.keys = [] then .none else pick H (bucket s.ring (target s.keys (H.key k.repr))) k := by
  unfold get getRest
  by_cases hk : s.keys = []
  · have : s.ring.isEmpty = true := (ring_isEmpty_iff _ hi.ring.wf).mpr ((keys_nil_iff hi).mp hk)
    simp [hk, this]
  · have : ¬ s.ring.isEmpty = true := fun h => hk ((keys_nil_iff hi).mpr ((ring_isEmpty_iff _ hi.ring.wf).mp h))
    have hl : ¬ s.keys.length = 0 := fun h => hk (List.length_eq_zero_iff.mp h)
    simp only [this, hk, hl, if_false, Bool.false_eq_true]
    unfold pick target
    rfl

theorem mem_bucket_iff {H : Hasher} {s : CH} {m : SMap} (hi : Inv H s m) (x : Nat) (n : Node) :
    n ∈ bucket s.ring x ↔ ∃ c, m.find n.repr = some (n, c) ∧ x ∈ points H n.repr c := by
  constructor
  · intro hn
    have hv := hi.ring.val x n hn
    unfold valOf at hv
    cases hf : m.find n.repr with
    | none => rw [hf] at hv; simp at hv
    | some p =>
      rw [hf] at hv
      obtain ⟨n', c⟩ := p
      have : n' = n := by simpa using hv
      subst this
      refine ⟨c, rfl, ?_⟩
      have hc := hi.ring.cnt x n'.repr
      have hpos : 0 < (bucket s.ring x).countP (isRepr n'.repr) :=
        List.countP_pos_iff.mpr ⟨n', hn, by simp [isRepr]⟩
      rw [hc] at hpos
      unfold demand SMap.cnt at hpos
      rw [hf] at hpos
      exact List.count_pos_iff.mp hpos
  · rintro ⟨c, hf, hx⟩
    have hc := hi.ring.cnt x n.repr
    unfold demand SMap.cnt at hc
    rw [hf] at hc
    have hpos : 0 < (bucket s.ring x).countP (isRepr n.repr) := by
      rw [hc]; exact List.count_pos_iff.mpr hx
    obtain ⟨a, ha, hpa⟩ := List.countP_pos_iff.mp hpos
    have har : a.repr = n.repr := by simpa [isRepr] using hpa
    have hv := hi.ring.val x a ha
    unfold valOf at hv
    rw [har, hf] at hv
    have : n = a := by simpa using hv
    rw [this]; exact ha

/-- on a represented state `Get` answers `none` (no keys) or a node of the bucket it lands on -/
theorem get_cases {H : Hasher} {s : CH} {m : SMap} (hi : Inv H s m) (k : Node) :
    (s.keys = [] ∧ get H s k = .none) ∨
    (s.keys ≠ [] ∧ ∃ n, n ∈ bucket s.ring (target s.keys (H.key k.repr)) ∧ get H s k = .node n) := by
  rw [get_eq hi k]
  by_cases hk : s.keys = []
  · exact Or.inl ⟨hk, by simp [hk]⟩
  · right
    refine ⟨hk, ?_⟩
    have ht := (target_isSucc s.keys (H.key k.repr) hi.keys.sorted hk).1
    have hne := (mem_keys_iff hi _).mp ht
    obtain ⟨n, hn, hp⟩ := pick_mem H _ k hne
    exact ⟨n, hn, by simp [hk, hp]⟩

theorem points_zero (H : Hasher) (r : String) : points H r 0 = [] := by simp [points]

theorem get_member {H : Hasher} {s : CH} {m : SMap} (hi : Inv H s m) (k n : Node)
    (hg : get H s k = .node n) : ∃ c, m.find n.repr = some (n, c) ∧ 0 < c := by
  rcases get_cases hi k with ⟨_, h⟩ | ⟨_, n', hn', h⟩
  · rw [h] at hg; cases hg
  · rw [h] at hg
    have : n' = n := by injection hg
    subst this
    obtain ⟨c, hf, hx⟩ := (mem_bucket_iff hi _ n').mp hn'
    refine ⟨c, hf, ?_⟩
    cases c with
    | zero => rw [points_zero] at hx; cases hx
    | succ c => omega

theorem get_never_panics {H : Hasher} {s : CH} {m : SMap} (hi : Inv H s m) (k : Node) :
    get H s k ≠ .panic := by
  rcases get_cases hi k with ⟨_, h⟩ | ⟨_, n', _, h⟩ <;> rw [h] <;> intro hc <;> cases hc

theorem get_none_iff {H : Hasher} {s : CH} {m : SMap} (hi : Inv H s m) (k : Node) :
    get H s k = .none ↔ ∀ r, m.cnt r = 0 := by
  constructor
  · intro hg r
    rcases get_cases hi k with ⟨hk, _⟩ | ⟨_, n', _, h⟩
    · have hb := (keys_nil_iff hi).mp hk
      cases hc : m.cnt r with
      | zero => rfl
      | succ c =>
        exfalso
        have h1 := hi.ring.cnt (H.point r 0) r
        rw [hb] at h1
        unfold demand at h1
        rw [hc] at h1
        have : H.point r 0 ∈ points H r (c + 1) := by
          unfold points
          exact List.mem_map.mpr ⟨0, List.mem_range.mpr (by omega), rfl⟩
        have := List.count_pos_iff.mpr this
        simp at h1
        omega
    · rw [h] at hg; cases hg
  · intro hall
    rcases get_cases hi k with ⟨_, h⟩ | ⟨_, n', hn', h⟩
    · exact h
    · exfalso
      obtain ⟨c, hf, hx⟩ := (mem_bucket_iff hi _ n').mp hn'
      have := hall n'.repr
      unfold SMap.cnt at this
      rw [hf] at this
      simp only [] at this
      subst this
      rw [points_zero] at hx; cases hx

/-! ### the state is a function of the abstract map -/

theorem bucket_unique {d : String → Nat → Nat} {val : String → Option Node} {ring1 ring2 : List (Nat × List Node)}
    (h1 : RingOK ring1 d val) (h2 : RingOK ring2 d val) (x : Nat) : bucket ring1 x = bucket ring2 x := by
  have hcount : ∀ (ring : List (Nat × List Node)), RingOK ring d val → ∀ a : Node,
      (bucket ring x).count a = if val a.repr = some a then d a.repr x else 0 := by
    intro ring h a
    by_cases hv : val a.repr = some a
    · simp only [hv, if_true]
      rw [← h.cnt x a.repr, List.count_eq_countP]
      apply List.countP_congr
      intro z hz
      have hvz := h.val x z hz
      constructor
      · intro e
        have : z = a := by simpa using e
        simp [isRepr, this]
      · intro e
        have e' : z.repr = a.repr := by simpa [isRepr] using e
        rw [e', hv] at hvz
        have : a = z := by simpa using hvz
        simp [this]
    · simp only [hv, if_false]
      apply List.count_eq_zero.mpr
      intro ha
      exact hv (h.val x a ha)
  have hperm : (bucket ring1 x).Perm (bucket ring2 x) := by
    apply List.perm_iff_count.mpr
    intro a
    rw [hcount ring1 h1 a, hcount ring2 h2 a]
  apply List.Perm.eq_of_pairwise (le := ReprLe) ?_ (h1.sorted x) (h2.sorted x) hperm
  intro a b ha hb hab hba
  have e : a.repr = b.repr := String.le_antisymm hab hba
  have va := h1.val x a ha
  have vb := h2.val x b hb
  rw [e, vb] at va
  exact (Option.some.inj va).symm

theorem inv_unique {H : Hasher} {s1 s2 : CH} {m : SMap} (h1 : Inv H s1 m) (h2 : Inv H s2 m) :
    s1.keys = s2.keys ∧ ∀ x, bucket s1.ring x = bucket s2.ring x := by
  have hb := bucket_unique h1.ring h2.ring
  refine ⟨?_, hb⟩
  apply List.Perm.eq_of_pairwise (le := (· ≤ ·)) ?_ h1.keys.sorted h2.keys.sorted
  · apply List.perm_iff_count.mpr
    intro x
    rw [h1.keys.cnt x, h2.keys.cnt x, hb x]
  · intro a b _ _ hab hba
    exact Nat.le_antisymm hab hba

theorem get_unique {H : Hasher} {s1 s2 : CH} {m : SMap} (h1 : Inv H s1 m) (h2 : Inv H s2 m) (k : Node) :
    get H s1 k = get H s2 k := by
  obtain ⟨hk, hb⟩ := inv_unique h1 h2
  rw [get_eq h1, get_eq h2, hk, hb]

/-! ### minimal disruption, where no two virtual nodes share a hash value -/

/-- no two virtual nodes in play hash to the same value -/
def NoCollision (H : Hasher) (m : SMap) : Prop :=
  ∀ r1 r2 n1 c1 n2 c2 i1 i2, m.find r1 = some (n1, c1) → m.find r2 = some (n2, c2) → i1 < c1 → i2 < c2 →
    H.point r1 i1 = H.point r2 i2 → r1 = r2 ∧ i1 = i2

theorem mem_points {H : Hasher} {r : String} {c x : Nat} : x ∈ points H r c ↔ ∃ i, i < c ∧ H.point r i = x := by
  unfold points
  simp [List.mem_map, List.mem_range]

theorem points_nodup {H : Hasher} {m : SMap} (hnc : NoCollision H m) {r : String} {n : Node} {c : Nat}
    (hf : m.find r = some (n, c)) : (points H r c).Nodup := by
  unfold points
  rw [List.Nodup, List.pairwise_map]
  apply List.Pairwise.imp_of_mem ?_ (List.nodup_range (n := c))
  intro i j hi hj hij he
  exact hij (hnc r r n c n c i j hf hf (List.mem_range.mp hi) (List.mem_range.mp hj) he).2

theorem bucket_le_one {H : Hasher} {s : CH} {m : SMap} (hi : Inv H s m) (hnc : NoCollision H m) (x : Nat) :
    (bucket s.ring x).length ≤ 1 := by
  match hb : bucket s.ring x with
  | [] => simp
  | [_] => simp
  | a :: b :: rest =>
    exfalso
    have ha : a ∈ bucket s.ring x := by rw [hb]; simp
    have hbm : b ∈ bucket s.ring x := by rw [hb]; simp
    obtain ⟨ca, hfa, hxa⟩ := (mem_bucket_iff hi x a).mp ha
    obtain ⟨cb, hfb, hxb⟩ := (mem_bucket_iff hi x b).mp hbm
    obtain ⟨i, hi1, hi2⟩ := mem_points.mp hxa
    obtain ⟨j, hj1, hj2⟩ := mem_points.mp hxb
    have hr := (hnc _ _ _ _ _ _ i j hfa hfb hi1 hj1 (hi2.trans hj2.symm)).1
    rw [hr, hfb] at hfa
    have hab : b = a := by injection hfa with h; injection h
    subst hab
    have hc := hi.ring.cnt x b.repr
    rw [hb] at hc
    unfold demand SMap.cnt at hc
    rw [hfb] at hc
    simp only [List.countP_cons, isRepr, beq_self_eq_true, if_true] at hc
    have := List.nodup_iff_count.mp (points_nodup hnc hfb) x
    omega

theorem get_node_bucket {H : Hasher} {s : CH} {m : SMap} (hi : Inv H s m) (hnc : NoCollision H m) (k n : Node)
    (hg : get H s k = .node n) :
    s.keys ≠ [] ∧ bucket s.ring (target s.keys (H.key k.repr)) = [n] := by
  rcases get_cases hi k with ⟨_, h⟩ | ⟨hk, n', hn', h⟩
  · rw [h] at hg; cases hg
  · rw [h] at hg
    have : n' = n := by injection hg
    subst this
    refine ⟨hk, ?_⟩
    have hl := bucket_le_one hi hnc (target s.keys (H.key k.repr))
    match hb : bucket s.ring (target s.keys (H.key k.repr)) with
    | [] => rw [hb] at hn'; cases hn'
    | [a] => rw [hb] at hn'; simp at hn'; rw [hn']
    | a :: b :: rest => rw [hb] at hl; simp at hl

/-- **core of minimal disruption**: two represented states whose abstract maps agree except on repr `r`
and have no colliding virtual nodes answer a lookup differently only if one of the answers is the
member with repr `r`. -/
theorem moved_only {H : Hasher} {s s' : CH} {m m' : SMap} (hi : Inv H s m) (hi' : Inv H s' m')
    (hnc : NoCollision H m) (hnc' : NoCollision H m') (r : String)
    (hagree : ∀ r', r' ≠ r → m.find r' = m'.find r') (k a b : Node)
    (hg : get H s k = .node a) (hg' : get H s' k = .node b) (hab : a ≠ b) :
    a.repr = r ∨ b.repr = r := by
  apply Classical.byContradiction
  intro hcon
  have har : a.repr ≠ r := fun e => hcon (Or.inl e)
  have hbr : b.repr ≠ r := fun e => hcon (Or.inr e)
  obtain ⟨hk, hb⟩ := get_node_bucket hi hnc k a hg
  obtain ⟨hk', hb'⟩ := get_node_bucket hi' hnc' k b hg'
  have hs := target_isSucc s.keys (H.key k.repr) hi.keys.sorted hk
  have hs' := target_isSucc s'.keys (H.key k.repr) hi'.keys.sorted hk'
  generalize target s.keys (H.key k.repr) = t at hb hs
  generalize target s'.keys (H.key k.repr) = t' at hb' hs'
  have ha : a ∈ bucket s.ring t := by rw [hb]; simp
  have hbm : b ∈ bucket s'.ring t' := by rw [hb']; simp
  -- `a` also sits at `t` in `s'`, `b` also sits at `t'` in `s`
  have ha' : a ∈ bucket s'.ring t := by
    obtain ⟨c, hf, hx⟩ := (mem_bucket_iff hi t a).mp ha
    exact (mem_bucket_iff hi' t a).mpr ⟨c, by rw [← hagree _ har]; exact hf, hx⟩
  have hb2 : b ∈ bucket s.ring t' := by
    obtain ⟨c, hf, hx⟩ := (mem_bucket_iff hi' t' b).mp hbm
    exact (mem_bucket_iff hi t' b).mpr ⟨c, by rw [hagree _ hbr]; exact hf, hx⟩
  have ht' : t ∈ s'.keys := (mem_keys_iff hi' t).mpr (List.ne_nil_of_mem ha')
  have ht2 : t' ∈ s.keys := (mem_keys_iff hi t').mpr (List.ne_nil_of_mem hb2)
  have := isSucc_cross hs hs' ht' ht2
  subst this
  rw [hb'] at ha'
  exact hab (by simpa using ha')

end GoZero.C15
