/-
C15 — the representation invariant and its preservation by Remove / AddWithReplicas.

`Inv H s m`: the concrete state `s` (sorted key slice, ring map with ordered buckets, node set) is a
representation of the abstract map `m` (repr ↦ value, number of virtual nodes):
  * bucket `x` holds, ordered by repr, the value of every member `r` exactly as many times as `r` has
    virtual nodes hashing to `x`,
  * the key slice is sorted and holds `x` as many times as bucket `x` is long,
  * the node set is the domain of `m`, and no member has more than `replicas` virtual nodes.
-/
import GoZero.C15.Proofs1
namespace GoZero.C15

/-! ### the abstract map -/

theorem find_del (m : SMap) (r r' : String) :
    (m.del r).find r' = if r' = r then none else m.find r' := by
  induction m with
  | nil => simp [SMap.del, SMap.find]
  | cons p rest ih =>
    unfold SMap.del SMap.find at *
    by_cases hp : p.1.repr = r
    · have : (p.1.repr != r) = false := by simp [hp]
      simp only [List.filter_cons, this, Bool.false_eq_true, if_false, ih, List.find?_cons]
      by_cases h : r' = r
      · simp [h]
      · have : (p.1.repr == r') = false := by simp [hp]; exact fun e => h e.symm
        simp [h, this]
    · have h1 : (p.1.repr != r) = true := by simp [hp]
      simp only [List.filter_cons, h1, if_true, List.find?_cons, ih]
      by_cases h : r' = r
      · subst h
        have : (p.1.repr == r') = false := by simp [hp]
        simp [this]
      · simp [h]

theorem find_set (m : SMap) (n : Node) (c : Nat) (r' : String) :
    (m.set n c).find r' = if r' = n.repr then some (n, c) else m.find r' := by
  unfold SMap.set
  show List.find? _ ((n, c) :: m.del n.repr) = _
  rw [List.find?_cons]
  by_cases h : r' = n.repr
  · simp [h]
  · have : (n.repr == r') = false := by simp; exact fun e => h e.symm
    have h2 := find_del m n.repr r'
    unfold SMap.find at h2
    simp [this, h, h2, SMap.find]

theorem cnt_congr {m m' : SMap} (h : ∀ r, m.find r = m'.find r) (r : String) : m.cnt r = m'.cnt r := by
  unfold SMap.cnt; rw [h r]

theorem cnt_del (m : SMap) (r r' : String) : (m.del r).cnt r' = if r' = r then 0 else m.cnt r' := by
  unfold SMap.cnt; rw [find_del]; by_cases h : r' = r <;> simp [h]

theorem cnt_set (m : SMap) (n : Node) (c : Nat) (r' : String) :
    (m.set n c).cnt r' = if r' = n.repr then c else m.cnt r' := by
  unfold SMap.cnt; rw [find_set]; by_cases h : r' = n.repr <;> simp [h]

/-! ### ring and keys invariants, parametrised by a multiplicity function -/

def isRepr (r : String) : Node → Bool := fun m => m.repr == r

structure RingOK (ring : List (Nat × List Node)) (d : String → Nat → Nat) (val : String → Option Node) : Prop where
  wf : WFRing ring
  sorted : ∀ x, (bucket ring x).Pairwise ReprLe
  cnt : ∀ x r, (bucket ring x).countP (isRepr r) = d r x
  val : ∀ x n, n ∈ bucket ring x → val n.repr = some n

structure KeysOK (keys : List Nat) (ring : List (Nat × List Node)) : Prop where
  sorted : keys.Pairwise (· ≤ ·)
  cnt : ∀ x, keys.count x = (bucket ring x).length

theorem removePoint_ok (s : CH) (d : String → Nat → Nat) (val : String → Option Node) (x : Nat) (r : String)
    (hr : RingOK s.ring d val) (hk : KeysOK s.keys s.ring) :
    RingOK (removePoint s x r).ring (fun r' y => if r' = r ∧ y = x then d r x - 1 else d r' y) val
    ∧ KeysOK (removePoint s x r).keys (removePoint s x r).ring := by
  unfold removePoint
  by_cases hany : (bucket s.ring x).any (fun m => m.repr == r) = true
  · simp only [hany, if_true]
    obtain ⟨a, ha, hpa⟩ := List.any_eq_true.mp hany
    obtain ⟨a', l1, l2, hl1, hpa', hb, he⟩ := List.exists_of_eraseP (p := fun m => m.repr == r) ha hpa
    have har : a'.repr = r := by simpa using hpa'
    refine ⟨⟨wf_setBucket _ _ _ hr.wf, ?_, ?_, ?_⟩, ⟨removeKey_sorted _ _ hk.sorted, ?_⟩⟩
    · intro y
      rw [bucket_setBucket]
      by_cases hy : y = x
      · simp only [hy, if_true]
        exact List.Pairwise.sublist List.eraseP_sublist (hr.sorted x)
      · simp only [hy, if_false]; exact hr.sorted y
    · intro y r'
      rw [bucket_setBucket]
      by_cases hy : y = x
      · subst hy
        simp only [if_true, he]
        have h0 := hr.cnt y r'
        rw [hb, List.countP_append, List.countP_cons] at h0
        rw [List.countP_append]
        by_cases hr' : r' = r
        · subst hr'
          have : isRepr r' a' = true := by simp [isRepr, har]
          simp only [this, if_true] at h0
          simp only [and_self, if_true]
          omega
        · have : isRepr r' a' = false := by
            simp only [isRepr, har, beq_eq_false_iff_ne, ne_eq]; exact fun e => hr' e.symm
          simp only [this, Bool.false_eq_true, if_false] at h0
          simp only [hr', false_and, if_false]
          omega
      · simp only [hy, if_false, and_false]; exact hr.cnt y r'
    · intro y n hn
      rw [bucket_setBucket] at hn
      by_cases hy : y = x
      · simp only [hy, if_true] at hn
        exact hr.val x n (List.eraseP_sublist.subset hn)
      · simp only [hy, if_false] at hn; exact hr.val y n hn
    · intro y
      rw [count_removeKey _ _ _ hk.sorted, bucket_setBucket, hk.cnt y]
      by_cases hy : y = x
      · subst hy
        simp only [if_true]
        rw [he, hb]
        simp only [List.length_append, List.length_cons]
        omega
      · have : ¬ x = y := fun e => hy e.symm
        simp [hy, this]
  · simp only [hany, Bool.false_eq_true, if_false]
    have h0 : d r x = 0 := by
      rw [← hr.cnt x r]
      apply List.countP_eq_zero.mpr
      intro a ha hpa
      exact hany (List.any_eq_true.mpr ⟨a, ha, hpa⟩)
    have : (fun r' y => if r' = r ∧ y = x then d r x - 1 else d r' y) = d := by
      funext r' y
      by_cases h : r' = r ∧ y = x
      · obtain ⟨rfl, rfl⟩ := h; simp [h0]
      · simp [h]
    rw [this]
    exact ⟨hr, hk⟩

theorem removePoint_replicas (s : CH) (x : Nat) (r : String) : (removePoint s x r).replicas = s.replicas := by
  unfold removePoint; dsimp only; split <;> rfl

theorem removePoint_nodes (s : CH) (x : Nat) (r : String) : (removePoint s x r).nodes = s.nodes := by
  unfold removePoint; dsimp only; split <;> rfl

theorem removeLoop_ok (val : String → Option Node) (r : String) (pt : Nat → Nat) (is : List Nat) :
    ∀ (s : CH) (d : String → Nat → Nat), RingOK s.ring d val → KeysOK s.keys s.ring →
      RingOK (is.foldl (fun s i => removePoint s (pt i) r) s).ring
          (fun r' y => if r' = r then d r y - (is.map pt).count y else d r' y) val
      ∧ KeysOK (is.foldl (fun s i => removePoint s (pt i) r) s).keys (is.foldl (fun s i => removePoint s (pt i) r) s).ring
      ∧ (is.foldl (fun s i => removePoint s (pt i) r) s).replicas = s.replicas
      ∧ (is.foldl (fun s i => removePoint s (pt i) r) s).nodes = s.nodes := by
  induction is with
  | nil =>
    intro s d hr hk
    have : (fun r' y => if r' = r then d r y - ([].map pt).count y else d r' y) = d := by
      funext r' y; by_cases h : r' = r <;> simp [h]
    rw [this]; exact ⟨hr, hk, rfl, rfl⟩
  | cons i rest ih =>
    intro s d hr hk
    obtain ⟨h1, h2⟩ := removePoint_ok s d val (pt i) r hr hk
    have h3 := removePoint_replicas s (pt i) r
    have h4 := removePoint_nodes s (pt i) r
    obtain ⟨g1, g2, g3, g4⟩ := ih _ _ h1 h2
    simp only [List.foldl_cons]
    refine ⟨?_, g2, g3.trans h3, g4.trans h4⟩
    have : (fun r' y => if r' = r then d r y - ((i :: rest).map pt).count y else d r' y)
        = (fun r' y => if r' = r then (if r = r ∧ y = pt i then d r (pt i) - 1 else d r y) - (rest.map pt).count y
            else (if r' = r ∧ y = pt i then d r (pt i) - 1 else d r' y)) := by
      funext r' y
      by_cases h : r' = r
      · subst h
        simp only [if_true, List.map_cons, List.count_cons, true_and]
        by_cases hy : y = pt i
        · subst hy; simp; omega
        · have : (pt i == y) = false := by simp; exact fun e => hy e.symm
          simp [hy, this]
      · simp [h]
    rw [this]; exact g1

/-- insertion of the virtual nodes of one member into the ring map -/
def insertLoop (n : Node) (pts : List Nat) (ring : List (Nat × List Node)) : List (Nat × List Node) :=
  pts.foldl (fun ring x => setBucket ring x (insertNode n (bucket ring x))) ring

theorem insertLoop_ok (val : String → Option Node) (n : Node) (hv : val n.repr = some n) (pts : List Nat) :
    ∀ (ring : List (Nat × List Node)) (d : String → Nat → Nat), RingOK ring d val →
      RingOK (insertLoop n pts ring) (fun r' y => if r' = n.repr then d r' y + pts.count y else d r' y) val
      ∧ ∀ y, (bucket (insertLoop n pts ring) y).length = (bucket ring y).length + pts.count y := by
  induction pts with
  | nil =>
    intro ring d hr
    have : (fun r' y => if r' = n.repr then d r' y + ([] : List Nat).count y else d r' y) = d := by
      funext r' y; by_cases h : r' = n.repr <;> simp [h]
    rw [this]; exact ⟨hr, fun y => by simp [insertLoop]⟩
  | cons x rest ih =>
    intro ring d hr
    have h1 : RingOK (setBucket ring x (insertNode n (bucket ring x)))
        (fun r' y => if r' = n.repr ∧ y = x then d r' y + 1 else d r' y) val := by
      refine ⟨wf_setBucket _ _ _ hr.wf, ?_, ?_, ?_⟩
      · intro y
        rw [bucket_setBucket]
        by_cases hy : y = x
        · simp only [hy, if_true]; exact pairwise_insertNode n _ (hr.sorted x)
        · simp only [hy, if_false]; exact hr.sorted y
      · intro y r'
        rw [bucket_setBucket]
        by_cases hy : y = x
        · subst hy
          simp only [if_true, countP_insertNode, hr.cnt, and_true]
          by_cases hr' : r' = n.repr
          · simp [hr', isRepr]
          · have : isRepr r' n = false := by
              simp only [isRepr, beq_eq_false_iff_ne, ne_eq]; exact fun e => hr' e.symm
            simp [hr', this]
        · simp only [hy, if_false, and_false]; exact hr.cnt y r'
      · intro y a ha
        rw [bucket_setBucket] at ha
        by_cases hy : y = x
        · simp only [hy, if_true] at ha
          rcases (mem_insertNode n a _).mp ha with rfl | ha
          · exact hv
          · exact hr.val x a ha
        · simp only [hy, if_false] at ha; exact hr.val y a ha
    obtain ⟨g1, g2⟩ := ih _ _ h1
    refine ⟨?_, ?_⟩
    · have : (fun r' y => if r' = n.repr then d r' y + (x :: rest).count y else d r' y)
          = (fun r' y => if r' = n.repr then (if r' = n.repr ∧ y = x then d r' y + 1 else d r' y) + rest.count y
              else (if r' = n.repr ∧ y = x then d r' y + 1 else d r' y)) := by
        funext r' y
        by_cases h : r' = n.repr
        · simp only [h, if_true, List.count_cons, true_and]
          by_cases hy : y = x
          · subst hy; simp; omega
          · have : (x == y) = false := by simp; exact fun e => hy e.symm
            simp [hy, this]
        · simp [h]
      rw [this]; exact g1
    · intro y
      show (bucket (insertLoop n rest _) y).length = _
      rw [g2 y, bucket_setBucket, List.count_cons]
      by_cases hy : y = x
      · subst hy; simp [length_insertNode]; omega
      · have : (x == y) = false := by simp; exact fun e => hy e.symm
        simp [hy, this]

/-! ### the invariant -/

def demand (H : Hasher) (m : SMap) : String → Nat → Nat := fun r x => (points H r (m.cnt r)).count x
def valOf (m : SMap) : String → Option Node := fun r => (m.find r).map (·.1)

structure Inv (H : Hasher) (s : CH) (m : SMap) : Prop where
  ring : RingOK s.ring (demand H m) (valOf m)
  keys : KeysOK s.keys s.ring
  nodup : s.nodes.Nodup
  nodes : ∀ r, r ∈ s.nodes ↔ (m.find r).isSome = true
  bound : ∀ r, m.cnt r ≤ s.replicas

theorem Inv.congr {H : Hasher} {s : CH} {m m' : SMap} (h : ∀ r, m.find r = m'.find r) (hi : Inv H s m) :
    Inv H s m' := by
  have hd : demand H m' = demand H m := by
    funext r x; unfold demand; rw [cnt_congr h r]
  have hv : valOf m' = valOf m := by
    funext r; unfold valOf; rw [h r]
  exact ⟨by rw [hd, hv]; exact hi.ring, hi.keys, hi.nodup, fun r => by rw [← h r]; exact hi.nodes r,
    fun r => by rw [← cnt_congr h r]; exact hi.bound r⟩

theorem inv_new (H : Hasher) (replicas : Int) : Inv H (CH.new replicas) [] := by
  refine ⟨⟨?_, ?_, ?_, ?_⟩, ⟨?_, ?_⟩, ?_, ?_, ?_⟩ <;>
    simp [CH.new, WFRing, bucket, demand, SMap.cnt, SMap.find, points]

theorem points_count_le (H : Hasher) (r : String) (c R : Nat) (h : c ≤ R) (y : Nat) :
    (points H r c).count y ≤ (points H r R).count y :=
  List.Sublist.count_le y ((List.range_sublist.mpr h).map _)

theorem remove_replicas (H : Hasher) (s : CH) (n : Node) : (remove H s n).replicas = s.replicas := by
  unfold remove
  split
  · simp only []
    have : ∀ (is : List Nat) (s : CH),
        (is.foldl (fun s i => removePoint s (H.point n.repr i) n.repr) s).replicas = s.replicas := by
      intro is
      induction is with
      | nil => intro s; rfl
      | cons i rest ih =>
        intro s
        simp only [List.foldl_cons]
        rw [ih, removePoint_replicas]
    exact this _ _
  · rfl

theorem inv_remove (H : Hasher) (s : CH) (m : SMap) (n : Node) (hi : Inv H s m) :
    Inv H (remove H s n) (m.del n.repr) := by
  unfold remove
  by_cases hc : s.nodes.contains n.repr = true
  · simp only [hc, if_true]
    obtain ⟨g1, g2, g3, g4⟩ :=
      removeLoop_ok (valOf m) n.repr (H.point n.repr) (List.range s.replicas) s _ hi.ring hi.keys
    have hd : (fun r' y => if r' = n.repr then demand H m n.repr y
          - ((List.range s.replicas).map (H.point n.repr)).count y else demand H m r' y)
        = demand H (m.del n.repr) := by
      funext r' y
      unfold demand
      rw [cnt_del]
      by_cases h : r' = n.repr
      · simp only [h, if_true]
        have := points_count_le H n.repr _ _ (hi.bound n.repr) y
        unfold points at this ⊢
        simp only [List.range_zero, List.map_nil, List.count_nil]
        omega
      · simp [h]
    rw [hd] at g1
    refine ⟨⟨g1.wf, g1.sorted, g1.cnt, ?_⟩, g2, ?_, ?_, ?_⟩
    · intro x a ha
      have h1 := g1.val x a ha
      have hne : a.repr ≠ n.repr := by
        intro e
        have hz := g1.cnt x n.repr
        unfold demand at hz
        rw [cnt_del] at hz
        simp only [if_true, points, List.range_zero, List.map_nil, List.count_nil] at hz
        have := List.countP_eq_zero.mp hz a ha
        simp [isRepr, e] at this
      unfold valOf at h1 ⊢
      rw [find_del]; simp only [hne, if_false]; exact h1
    · simp only []; rw [g4]; exact hi.nodup.erase _
    · intro r
      simp only []
      rw [g4, hi.nodup.mem_erase_iff, find_del]
      by_cases h : r = n.repr
      · simp [h]
      · simp [h, hi.nodes r]
    · intro r
      simp only []
      rw [g3, cnt_del]
      by_cases h : r = n.repr
      · simp [h]
      · simp only [h, if_false]; exact hi.bound r
  · simp only [hc, Bool.false_eq_true, if_false]
    have hnot : ¬ n.repr ∈ s.nodes := by simpa using hc
    have hnone : m.find n.repr = none := by
      cases hf : m.find n.repr with
      | none => rfl
      | some p => exact absurd ((hi.nodes n.repr).mpr (by simp [hf])) hnot
    refine Inv.congr ?_ hi
    intro r
    rw [find_del]
    by_cases h : r = n.repr
    · simp [h, hnone]
    · simp [h]

theorem clampReplicas_le (R : Nat) (x : Int) : clampReplicas R x ≤ R := by
  unfold clampReplicas
  split <;> omega

theorem find_cons_self (m : SMap) (n : Node) (c : Nat) (r : String) :
    SMap.find ((n, c) :: m) r = if r = n.repr then some (n, c) else m.find r := by
  unfold SMap.find
  rw [List.find?_cons]
  by_cases h : r = n.repr
  · simp [h]
  · have : (n.repr == r) = false := by simp; exact fun e => h e.symm
    simp [this, h]

theorem inv_addPoints (H : Hasher) (s1 : CH) (m1 : SMap) (n : Node) (c : Nat) (hi : Inv H s1 m1)
    (hnone : m1.find n.repr = none) (hc : c ≤ s1.replicas) :
    Inv H { s1 with nodes := if s1.nodes.contains n.repr then s1.nodes else n.repr :: s1.nodes,
                    keys := sortKeys (s1.keys ++ points H n.repr c),
                    ring := insertLoop n (points H n.repr c) s1.ring } ((n, c) :: m1) := by
  have hcnt : ∀ r, SMap.cnt ((n, c) :: m1) r = if r = n.repr then c else m1.cnt r := by
    intro r; unfold SMap.cnt; rw [find_cons_self]; by_cases h : r = n.repr <;> simp [h]
  have hcnt0 : m1.cnt n.repr = 0 := by unfold SMap.cnt; rw [hnone]
  have hv : valOf ((n, c) :: m1) n.repr = some n := by unfold valOf; rw [find_cons_self]; simp
  have hr0 : RingOK s1.ring (demand H m1) (valOf ((n, c) :: m1)) := by
    refine ⟨hi.ring.wf, hi.ring.sorted, hi.ring.cnt, ?_⟩
    intro x a ha
    have h1 := hi.ring.val x a ha
    have hne : a.repr ≠ n.repr := by
      intro e; rw [e] at h1; unfold valOf at h1; rw [hnone] at h1; simp at h1
    unfold valOf at h1 ⊢
    rw [find_cons_self]; simp only [hne, if_false]; exact h1
  obtain ⟨g1, g2⟩ := insertLoop_ok (valOf ((n, c) :: m1)) n hv (points H n.repr c) s1.ring _ hr0
  have hd : (fun r' y => if r' = n.repr then demand H m1 r' y + (points H n.repr c).count y else demand H m1 r' y)
      = demand H ((n, c) :: m1) := by
    funext r' y
    unfold demand
    rw [hcnt]
    by_cases h : r' = n.repr
    · subst h; simp [hcnt0, points]
    · simp [h]
  rw [hd] at g1
  have hnot : ¬ n.repr ∈ s1.nodes := by
    intro hmem
    have := (hi.nodes n.repr).mp hmem
    rw [hnone] at this; simp at this
  have hcont : s1.nodes.contains n.repr = false := by simpa using hnot
  refine ⟨g1, ⟨sortKeys_sorted _, ?_⟩, ?_, ?_, ?_⟩
  · intro y
    show (sortKeys _).count y = (bucket (insertLoop n _ s1.ring) y).length
    rw [count_sortKeys, List.count_append, g2 y, hi.keys.cnt y]
  · show (if s1.nodes.contains n.repr then s1.nodes else n.repr :: s1.nodes).Nodup
    rw [hcont]; simp only [Bool.false_eq_true, if_false]
    exact List.nodup_cons.mpr ⟨hnot, hi.nodup⟩
  · intro r
    show r ∈ (if s1.nodes.contains n.repr then s1.nodes else n.repr :: s1.nodes) ↔ _
    rw [hcont, find_cons_self]; simp only [Bool.false_eq_true, if_false, List.mem_cons]
    by_cases h : r = n.repr
    · simp [h]
    · simp [h, hi.nodes r]
  · intro r
    show SMap.cnt ((n, c) :: m1) r ≤ s1.replicas
    rw [hcnt]
    by_cases h : r = n.repr
    · simp [h, hc]
    · simp only [h, if_false]; exact hi.bound r

theorem inv_addWithReplicas (H : Hasher) (s : CH) (m : SMap) (n : Node) (replicas : Int) (hi : Inv H s m) :
    Inv H (addWithReplicas H s n replicas) (m.set n (clampReplicas s.replicas replicas)) := by
  have h1 := inv_remove H s m n hi
  have hR := remove_replicas H s n
  have hnone : (m.del n.repr).find n.repr = none := by rw [find_del]; simp
  have := inv_addPoints H (remove H s n) (m.del n.repr) n (clampReplicas (remove H s n).replicas replicas) h1 hnone
    (clampReplicas_le _ _)
  rw [hR] at this
  unfold addWithReplicas SMap.set
  dsimp only
  rw [hR]
  exact this

theorem addWithReplicas_replicas (H : Hasher) (s : CH) (n : Node) (replicas : Int) :
    (addWithReplicas H s n replicas).replicas = s.replicas := by
  unfold addWithReplicas; exact remove_replicas H s n

theorem step_replicas (H : Hasher) (s : CH) (op : Op) : (step H s op).replicas = s.replicas := by
  cases op <;> simp [step, add, addWithWeight, addWithReplicas_replicas, remove_replicas]

theorem inv_step (H : Hasher) (s : CH) (m : SMap) (op : Op) (hi : Inv H s m) :
    Inv H (step H s op) (specStep s.replicas m op) := by
  cases op with
  | add n => exact inv_addWithReplicas H s m n _ hi
  | addR n r => exact inv_addWithReplicas H s m n r hi
  | addW n w => exact inv_addWithReplicas H s m n _ hi
  | remove n => exact inv_remove H s m n hi

theorem inv_foldl (H : Hasher) (ops : List Op) : ∀ (s : CH) (m : SMap), Inv H s m →
    Inv H (ops.foldl (step H) s) (ops.foldl (specStep s.replicas) m) := by
  induction ops with
  | nil => intro s m hi; exact hi
  | cons op rest ih =>
    intro s m hi
    simp only [List.foldl_cons]
    have := ih _ _ (inv_step H s m op hi)
    rw [step_replicas] at this
    exact this

/-- every state reachable from `NewCustomConsistentHash(replicas, h)` by Add / AddWithReplicas /
AddWithWeight / Remove represents the abstract map computed by `specRun`. -/
theorem inv_run (H : Hasher) (replicas : Int) (ops : List Op) :
    Inv H (run H replicas ops) (specRun (CH.new replicas).replicas ops) :=
  inv_foldl H ops _ _ (inv_new H replicas)

end GoZero.C15
