/-
C15 — interleaving model of ConsistentHash under its RWMutex: ONE writer goroutine that runs an arbitrary
program of Add / AddWithReplicas / AddWithWeight / Remove, and ANY NUMBER of reader goroutines calling Get
(thread ids are naturals; the per-thread state is a function `Tid → RPc`).

Granularity (the statement skeletons tied in Tie.lean):
  Remove            repr(node) ; Lock ; body ; Unlock(deferred)
  AddWithReplicas   Remove(node)  — a complete critical section of its own —
                    ; clamp ; repr(node) ; Lock ; addNode, insertion loop, sort ; Unlock(deferred)
  Get               RLock ; `len(h.ring)==0` ; hash, search, bucket, pick ; RUnlock(deferred)
The writer takes the lock only when no reader holds it and the lock is free; a reader takes it only when no
writer holds it.  Between the two critical sections of AddWithReplicas the lock is FREE: readers may run and
see the ring without the node (`remove H s n`).  Get is modelled in two reads (`isEmpty`, then the rest) so
that the proof has to use mutual exclusion: without it the second read could see `keys = []` and panic.

Main result (`explained_exec`): in every schedule every returned Get is the sequential `get` on
  * the state after a prefix `ops.take j` of the writer's program, or
  * the intermediate state `remove H (run (ops.take j)) n` of an adding operation `ops[j]`,
with `j` inside the window [operations completed when the Get began, operations begun when it returned].
-/
import GoZero.C15.Proofs4
namespace GoZero.C15.Conc
open GoZero.C15

abbrev Tid := Nat

/-- where the writer goroutine stands -/
inductive WPc where
  | idle
  | wantRemove (n : Node) (cont : Option Int)   -- inside Remove, before `h.lock.Lock()`; `some r`: called by AddWithReplicas(n, r)
  | holdRemove (n : Node) (cont : Option Int)   -- holds the write lock
  | wantInsert (n : Node) (replicas : Int)      -- Remove returned; before the second `h.lock.Lock()`
  | holdInsert (n : Node) (replicas : Int)
  deriving DecidableEq

/-- where a reader goroutine stands inside `Get(k)`; `lo` = writer operations completed when it took the lock -/
inductive RPc where
  | idle
  | locked (k : Node) (lo : Nat)
  | checked (k : Node) (lo : Nat) (empty : Bool)
  | done (k : Node) (lo : Nat) (o : Outcome)
  deriving DecidableEq

/-- a Get that returned: thread, key, result, and its window -/
structure Obs where
  t : Tid
  k : Node
  o : Outcome
  lo : Nat
  hi : Nat

structure St where
  s : CH
  wlock : Bool
  holders : List Tid
  wpc : WPc
  pos : Nat
  rpc : Tid → RPc
  log : List Obs

inductive Act where
  | w                          -- the writer's next step
  | rget (t : Tid) (k : Node)  -- reader t calls Get(k)
  | r (t : Tid)                -- reader t's next step

/-- node and continuation of an operation: Add passes `h.replicas`, AddWithWeight the weight formula -/
def opSplit (R : Nat) : Op → Node × Option Int
  | .add n => (n, some (R : Int))
  | .addR n r => (n, some r)
  | .addW n w => (n, some (weightReplicas R w))
  | .remove n => (n, none)

def upd (f : Tid → RPc) (t : Tid) (v : RPc) : Tid → RPc := fun t' => if t' = t then v else f t'

/-- operations begun by the writer -/
def started (st : St) : Nat := if st.wpc = .idle then st.pos else st.pos + 1

/-- `atomic = false`: the code as it is (AddWithReplicas = Remove's critical section, then a second one);
`atomic = true`: after fixes/C15-add-single-critical-section.patch (removal and insertion under one lock). -/
def step (H : Hasher) (atomic : Bool) (ops : List Op) (st : St) : Act → Option St
  | .w =>
    match st.wpc with
    | .idle =>
      match ops[st.pos]? with
      | none => none
      | some op => some { st with wpc := .wantRemove (opSplit st.s.replicas op).1 (opSplit st.s.replicas op).2 }
    | .wantRemove n c =>
      if st.wlock = false ∧ st.holders = [] then some { st with wlock := true, wpc := .holdRemove n c } else none
    | .holdRemove n c =>
      match c with
      | none => some { st with s := remove H st.s n, wlock := false, wpc := .idle, pos := st.pos + 1 }
      | some r =>
        if atomic then
          some { st with s := insertPhase H (remove H st.s n) n r, wlock := false, wpc := .idle, pos := st.pos + 1 }
        else some { st with s := remove H st.s n, wlock := false, wpc := .wantInsert n r }
    | .wantInsert n r =>
      if st.wlock = false ∧ st.holders = [] then some { st with wlock := true, wpc := .holdInsert n r } else none
    | .holdInsert n r =>
      some { st with s := insertPhase H st.s n r, wlock := false, wpc := .idle, pos := st.pos + 1 }
  | .rget t k =>
    match st.rpc t with
    | .idle =>
      if st.wlock = false then
        some { st with holders := t :: st.holders, rpc := upd st.rpc t (.locked k st.pos) }
      else none
    | _ => none
  | .r t =>
    match st.rpc t with
    | .idle => none
    | .locked k lo => some { st with rpc := upd st.rpc t (.checked k lo st.s.ring.isEmpty) }
    | .checked k lo b =>
      some { st with rpc := upd st.rpc t (.done k lo (if b then .none else getRest H st.s k)) }
    | .done k lo o =>
      some { st with rpc := upd st.rpc t .idle, holders := st.holders.erase t,
                     log := ⟨t, k, o, lo, started st⟩ :: st.log }

def init (R0 : Int) : St :=
  { s := CH.new R0, wlock := false, holders := [], wpc := .idle, pos := 0, rpc := fun _ => .idle, log := [] }

/-- a schedule: disabled actions are skipped (a blocked goroutine does not move) -/
def exec (H : Hasher) (atomic : Bool) (ops : List Op) (st : St) (sched : List Act) : St :=
  sched.foldl (fun st a => (step H atomic ops st a).getD st) st

/-! ### what a returned Get is explained by -/

def Explained (H : Hasher) (R0 : Int) (ops : List Op) (e : Obs) : Prop :=
  ∃ j, e.lo ≤ j ∧ j ≤ e.hi ∧ j ≤ ops.length ∧
    (e.o = get H (run H R0 (ops.take j)) e.k ∨
      (j < e.hi ∧ ∃ op n r, ops[j]? = some op ∧ opSplit (CH.new R0).replicas op = (n, some r) ∧
        e.o = get H (remove H (run H R0 (ops.take j)) n) e.k))

/-- the shared ring, as a function of the writer's position -/
def ViewOK (H : Hasher) (R0 : Int) (ops : List Op) (st : St) : Prop :=
  match st.wpc with
  | .idle => st.s = run H R0 (ops.take st.pos)
  | .wantRemove n c | .holdRemove n c =>
    st.s = run H R0 (ops.take st.pos) ∧ ∃ op, ops[st.pos]? = some op ∧ opSplit (CH.new R0).replicas op = (n, c)
  | .wantInsert n r | .holdInsert n r =>
    st.s = remove H (run H R0 (ops.take st.pos)) n ∧
      ∃ op, ops[st.pos]? = some op ∧ opSplit (CH.new R0).replicas op = (n, some r)

def holding : WPc → Bool
  | .holdRemove _ _ => true
  | .holdInsert _ _ => true
  | _ => false

def ReaderOK (H : Hasher) (st : St) : RPc → Prop
  | .idle => True
  | .locked _ lo => lo ≤ st.pos
  | .checked _ lo b => lo ≤ st.pos ∧ b = st.s.ring.isEmpty
  | .done k lo o => lo ≤ st.pos ∧ o = get H st.s k

structure Good (H : Hasher) (R0 : Int) (ops : List Op) (st : St) : Prop where
  pos : st.pos ≤ ops.length
  view : ViewOK H R0 ops st
  excl : st.wlock = true → st.holders = []
  hold : holding st.wpc = true → st.wlock = true
  free : holding st.wpc = false → st.wlock = false
  mem : ∀ t, st.rpc t ≠ .idle → t ∈ st.holders
  reader : ∀ t, ReaderOK H st (st.rpc t)
  log : ∀ e ∈ st.log, Explained H R0 ops e

theorem good_init (H : Hasher) (R0 : Int) (ops : List Op) : Good H R0 ops (init R0) := by
  refine ⟨Nat.zero_le _, ?_, ?_, ?_, ?_, ?_, ?_, ?_⟩ <;> simp [init, ViewOK, run, holding, ReaderOK]

/-- a completed operation in terms of its two critical sections -/
theorem step_eq_split (H : Hasher) (s : CH) (op : Op) :
    GoZero.C15.step H s op = match opSplit s.replicas op with
      | (n, none) => remove H s n
      | (n, some r) => insertPhase H (remove H s n) n r := by
  cases op <;> rfl

theorem take_succ_run (H : Hasher) (R0 : Int) (ops : List Op) (j : Nat) (op : Op) (h : ops[j]? = some op) :
    run H R0 (ops.take (j + 1)) = GoZero.C15.step H (run H R0 (ops.take j)) op := by
  rw [List.take_add_one, h]
  simp [run, List.foldl_append]

theorem lt_of_getElem? {ops : List Op} {j : Nat} {op : Op} (h : ops[j]? = some op) : j < ops.length := by
  rcases Nat.lt_or_ge j ops.length with h' | h'
  · exact h'
  · rw [List.getElem?_eq_none h'] at h; cases h

/-- readers not at `t` keep their view when only `t`'s pc, the holders or the log change -/
theorem readerOK_congr {H : Hasher} {st st' : St} (hs : st'.s = st.s) (hp : st'.pos = st.pos) (p : RPc)
    (h : ReaderOK H st p) : ReaderOK H st' p := by
  cases p <;> simp only [ReaderOK, hs, hp] at h ⊢ <;> exact h

/-- the writer's steps that change the ring happen when no reader is inside Get -/
theorem all_idle {H : Hasher} {R0 : Int} {ops : List Op} {st : St} (g : Good H R0 ops st)
    (hh : holding st.wpc = true) (t : Tid) : st.rpc t = .idle := by
  by_cases h : st.rpc t = .idle
  · exact h
  · have := g.mem t h
    rw [g.excl (g.hold hh)] at this
    cases this

theorem good_step (H : Hasher) (atomic : Bool) (R0 : Int) (ops : List Op) (st st' : St) (a : Act)
    (g : Good H R0 ops st) (h : step H atomic ops st a = some st') : Good H R0 ops st' := by
  cases a with
  | w =>
    simp only [step] at h
    cases hw : st.wpc with
    | idle =>
      rw [hw] at h
      simp only at h
      cases hop : ops[st.pos]? with
      | none => rw [hop] at h; cases h
      | some op =>
        rw [hop] at h
        simp only [Option.some.injEq] at h
        subst h
        have hv := g.view
        simp only [ViewOK, hw] at hv
        refine ⟨g.pos, ?_, g.excl, ?_, ?_, g.mem, ?_, g.log⟩
        · simp only [ViewOK]
          refine ⟨hv, op, hop, ?_⟩
          rw [hv, run_replicas]
        · simp [holding]
        · intro _; have := g.free (by rw [hw]; rfl); exact this
        · intro t; exact readerOK_congr rfl rfl _ (g.reader t)
    | wantRemove n c =>
      rw [hw] at h
      simp only at h
      split at h
      · rename_i hc
        simp only [Option.some.injEq] at h
        subst h
        have hv := g.view
        simp only [ViewOK, hw] at hv
        refine ⟨g.pos, ?_, ?_, ?_, ?_, g.mem, ?_, g.log⟩
        · simp only [ViewOK]; exact hv
        · intro _; exact hc.2
        · intro _; rfl
        · simp [holding]
        · intro t; exact readerOK_congr rfl rfl _ (g.reader t)
      · cases h
    | holdRemove n c =>
      rw [hw] at h
      simp only at h
      have hidle := all_idle g (by rw [hw]; rfl)
      have hv := g.view
      simp only [ViewOK, hw] at hv
      obtain ⟨hs, op, hop, hsplit⟩ := hv
      have hlt := lt_of_getElem? hop
      cases c with
      | none =>
        simp only [Option.some.injEq] at h
        subst h
        refine ⟨hlt, ?_, ?_, ?_, ?_, g.mem, ?_, g.log⟩
        · simp only [ViewOK]
          rw [take_succ_run H R0 ops st.pos op hop, step_eq_split, run_replicas, hsplit, hs]
        · intro h; cases h
        · simp [holding]
        · intro _; rfl
        · intro t; simp only [hidle t, ReaderOK]
      | some r =>
        cases atomic with
        | true =>
          simp only [if_true, Option.some.injEq] at h
          subst h
          refine ⟨hlt, ?_, ?_, ?_, ?_, g.mem, ?_, g.log⟩
          · simp only [ViewOK]
            rw [take_succ_run H R0 ops st.pos op hop, step_eq_split, run_replicas, hsplit, hs]
          · intro h; cases h
          · simp [holding]
          · intro _; rfl
          · intro t; simp only [hidle t, ReaderOK]
        | false =>
          simp only [Bool.false_eq_true, if_false, Option.some.injEq] at h
          subst h
          refine ⟨g.pos, ?_, ?_, ?_, ?_, g.mem, ?_, g.log⟩
          · simp only [ViewOK]
            exact ⟨by rw [hs], op, hop, hsplit⟩
          · intro h; cases h
          · simp [holding]
          · intro _; rfl
          · intro t; simp only [hidle t, ReaderOK]
    | wantInsert n r =>
      rw [hw] at h
      simp only at h
      split at h
      · rename_i hc
        simp only [Option.some.injEq] at h
        subst h
        have hv := g.view
        simp only [ViewOK, hw] at hv
        refine ⟨g.pos, ?_, ?_, ?_, ?_, g.mem, ?_, g.log⟩
        · simp only [ViewOK]; exact hv
        · intro _; exact hc.2
        · intro _; rfl
        · simp [holding]
        · intro t; exact readerOK_congr rfl rfl _ (g.reader t)
      · cases h
    | holdInsert n r =>
      rw [hw] at h
      simp only [Option.some.injEq] at h
      subst h
      have hidle := all_idle g (by rw [hw]; rfl)
      have hv := g.view
      simp only [ViewOK, hw] at hv
      obtain ⟨hs, op, hop, hsplit⟩ := hv
      have hlt := lt_of_getElem? hop
      refine ⟨hlt, ?_, ?_, ?_, ?_, g.mem, ?_, g.log⟩
      · simp only [ViewOK]
        rw [take_succ_run H R0 ops st.pos op hop, step_eq_split, run_replicas, hsplit, hs]
      · intro h; cases h
      · simp [holding]
      · intro _; rfl
      · intro t; simp only [hidle t, ReaderOK]
  | rget t k =>
    simp only [step] at h
    cases hr : st.rpc t with
    | idle =>
      rw [hr] at h
      simp only at h
      split at h
      · rename_i hc
        simp only [Option.some.injEq] at h
        subst h
        refine ⟨g.pos, ?_, ?_, g.hold, g.free, ?_, ?_, g.log⟩
        · have := g.view; simp only [ViewOK] at this ⊢; exact this
        · intro hl; simp only at hl; rw [hl] at hc; cases hc
        · intro t' ht'
          simp only [upd] at ht'
          by_cases e : t' = t
          · subst e; exact List.mem_cons_self
          · simp only [e, if_false] at ht'
            exact List.mem_cons_of_mem _ (g.mem t' ht')
        · intro t'
          simp only [upd]
          by_cases e : t' = t
          · simp only [e, if_true, ReaderOK]; exact Nat.le_refl _
          · simp only [e, if_false]; exact readerOK_congr rfl rfl _ (g.reader t')
      · cases h
    | locked _ _ => rw [hr] at h; cases h
    | checked _ _ _ => rw [hr] at h; cases h
    | done _ _ _ => rw [hr] at h; cases h
  | r t =>
    simp only [step] at h
    have hrd := g.reader t
    cases hr : st.rpc t with
    | idle => rw [hr] at h; cases h
    | locked k lo =>
      rw [hr] at h hrd
      simp only [Option.some.injEq] at h
      subst h
      simp only [ReaderOK] at hrd
      refine ⟨g.pos, ?_, g.excl, g.hold, g.free, ?_, ?_, g.log⟩
      · have := g.view; simp only [ViewOK] at this ⊢; exact this
      · intro t' ht'
        simp only [upd] at ht'
        by_cases e : t' = t
        · subst e; exact g.mem t' (by rw [hr]; simp)
        · simp only [e, if_false] at ht'; exact g.mem t' ht'
      · intro t'
        simp only [upd]
        by_cases e : t' = t
        · simp only [e, if_true, ReaderOK]; exact ⟨hrd, trivial⟩
        · simp only [e, if_false]; exact readerOK_congr rfl rfl _ (g.reader t')
    | checked k lo b =>
      rw [hr] at h hrd
      simp only [Option.some.injEq] at h
      subst h
      simp only [ReaderOK] at hrd
      refine ⟨g.pos, ?_, g.excl, g.hold, g.free, ?_, ?_, g.log⟩
      · have := g.view; simp only [ViewOK] at this ⊢; exact this
      · intro t' ht'
        simp only [upd] at ht'
        by_cases e : t' = t
        · subst e; exact g.mem t' (by rw [hr]; simp)
        · simp only [e, if_false] at ht'; exact g.mem t' ht'
      · intro t'
        simp only [upd]
        by_cases e : t' = t
        · simp only [e, if_true, ReaderOK]
          refine ⟨hrd.1, ?_⟩
          rw [hrd.2]; rfl
        · simp only [e, if_false]; exact readerOK_congr rfl rfl _ (g.reader t')
    | done k lo o =>
      rw [hr] at h hrd
      simp only [Option.some.injEq] at h
      subst h
      simp only [ReaderOK] at hrd
      refine ⟨g.pos, ?_, ?_, g.hold, g.free, ?_, ?_, ?_⟩
      · have := g.view; simp only [ViewOK] at this ⊢; exact this
      · intro hl
        simp only at hl
        have := g.excl hl
        simp only [this, List.erase_nil]
      · intro t' ht'
        simp only [upd] at ht'
        by_cases e : t' = t
        · simp only [e, if_true] at ht'; exact absurd rfl ht'
        · simp only [e, if_false] at ht'
          exact (List.mem_erase_of_ne e).mpr (g.mem t' ht')
      · intro t'
        simp only [upd]
        by_cases e : t' = t
        · simp only [e, if_true, ReaderOK]
        · simp only [e, if_false]; exact readerOK_congr rfl rfl _ (g.reader t')
      · intro e he
        simp only [List.mem_cons] at he
        rcases he with rfl | he
        · -- the new log entry: explained by the writer's current position
          have hv := g.view
          unfold Explained
          simp only [started]
          cases hw : st.wpc with
          | idle =>
            simp only [ViewOK, hw] at hv
            refine ⟨st.pos, hrd.1, by simp, g.pos, Or.inl ?_⟩
            rw [hrd.2, hv]
          | wantRemove n c =>
            simp only [ViewOK, hw] at hv
            refine ⟨st.pos, hrd.1, by simp, g.pos, Or.inl ?_⟩
            rw [hrd.2, hv.1]
          | holdRemove n c =>
            simp only [ViewOK, hw] at hv
            refine ⟨st.pos, hrd.1, by simp, g.pos, Or.inl ?_⟩
            rw [hrd.2, hv.1]
          | wantInsert n r =>
            simp only [ViewOK, hw] at hv
            obtain ⟨hs, op, hop, hsplit⟩ := hv
            refine ⟨st.pos, hrd.1, by simp, g.pos, Or.inr ⟨by simp, op, n, r, hop, hsplit, ?_⟩⟩
            rw [hrd.2, hs]
          | holdInsert n r =>
            simp only [ViewOK, hw] at hv
            obtain ⟨hs, op, hop, hsplit⟩ := hv
            refine ⟨st.pos, hrd.1, by simp, g.pos, Or.inr ⟨by simp, op, n, r, hop, hsplit, ?_⟩⟩
            rw [hrd.2, hs]
        · exact g.log e he

theorem good_exec (H : Hasher) (atomic : Bool) (R0 : Int) (ops : List Op) (sched : List Act) :
    ∀ st, Good H R0 ops st → Good H R0 ops (exec H atomic ops st sched) := by
  induction sched with
  | nil => intro st g; exact g
  | cons a rest ih =>
    intro st g
    simp only [exec, List.foldl_cons]
    apply ih
    cases h : step H atomic ops st a with
    | none => simpa using g
    | some st' => simpa using good_step H atomic R0 ops st st' a g h

/-! ### the one-critical-section form: no intermediate state, every Get is linearizable -/

def Linear (H : Hasher) (R0 : Int) (ops : List Op) (e : Obs) : Prop :=
  ∃ j, e.lo ≤ j ∧ j ≤ e.hi ∧ e.o = get H (run H R0 (ops.take j)) e.k

def noMid : WPc → Bool
  | .wantInsert _ _ => false
  | .holdInsert _ _ => false
  | _ => true

structure GoodAtomic (H : Hasher) (R0 : Int) (ops : List Op) (st : St) : Prop where
  good : Good H R0 ops st
  nomid : noMid st.wpc = true
  lin : ∀ e ∈ st.log, Linear H R0 ops e

theorem goodAtomic_step (H : Hasher) (R0 : Int) (ops : List Op) (st st' : St) (a : Act)
    (g : GoodAtomic H R0 ops st) (h : step H true ops st a = some st') : GoodAtomic H R0 ops st' := by
  have g' := good_step H true R0 ops st st' a g.good h
  have hn := g.nomid
  cases a with
  | w =>
    simp only [step] at h
    cases hw : st.wpc with
    | idle =>
      rw [hw] at h; simp only at h
      cases hop : ops[st.pos]? with
      | none => rw [hop] at h; cases h
      | some op => rw [hop] at h; simp only [Option.some.injEq] at h; subst h; exact ⟨g', rfl, g.lin⟩
    | wantRemove n c =>
      rw [hw] at h; simp only at h
      split at h
      · simp only [Option.some.injEq] at h; subst h; exact ⟨g', rfl, g.lin⟩
      · cases h
    | holdRemove n c =>
      rw [hw] at h; simp only at h
      cases c with
      | none => simp only [Option.some.injEq] at h; subst h; exact ⟨g', rfl, g.lin⟩
      | some r => simp only [if_true, Option.some.injEq] at h; subst h; exact ⟨g', rfl, g.lin⟩
    | wantInsert n r => rw [hw] at hn; cases hn
    | holdInsert n r => rw [hw] at hn; cases hn
  | rget t k =>
    simp only [step] at h
    cases hr : st.rpc t with
    | idle =>
      rw [hr] at h; simp only at h
      split at h
      · simp only [Option.some.injEq] at h; subst h; exact ⟨g', hn, g.lin⟩
      · cases h
    | locked _ _ => rw [hr] at h; cases h
    | checked _ _ _ => rw [hr] at h; cases h
    | done _ _ _ => rw [hr] at h; cases h
  | r t =>
    simp only [step] at h
    have hrd := g.good.reader t
    cases hr : st.rpc t with
    | idle => rw [hr] at h; cases h
    | locked k lo => rw [hr] at h; simp only [Option.some.injEq] at h; subst h; exact ⟨g', hn, g.lin⟩
    | checked k lo b => rw [hr] at h; simp only [Option.some.injEq] at h; subst h; exact ⟨g', hn, g.lin⟩
    | done k lo o =>
      rw [hr] at h hrd
      simp only [Option.some.injEq] at h
      subst h
      simp only [ReaderOK] at hrd
      refine ⟨g', hn, ?_⟩
      intro e he
      simp only [List.mem_cons] at he
      rcases he with rfl | he
      · have hv := g.good.view
        unfold Linear
        simp only [started]
        cases hw : st.wpc with
        | idle =>
          simp only [ViewOK, hw] at hv
          exact ⟨st.pos, hrd.1, by simp, by rw [hrd.2, hv]⟩
        | wantRemove n c =>
          simp only [ViewOK, hw] at hv
          exact ⟨st.pos, hrd.1, by simp, by rw [hrd.2, hv.1]⟩
        | holdRemove n c =>
          simp only [ViewOK, hw] at hv
          exact ⟨st.pos, hrd.1, by simp, by rw [hrd.2, hv.1]⟩
        | wantInsert n r => rw [hw] at hn; cases hn
        | holdInsert n r => rw [hw] at hn; cases hn
      · exact g.lin e he

theorem goodAtomic_exec (H : Hasher) (R0 : Int) (ops : List Op) (sched : List Act) :
    ∀ st, GoodAtomic H R0 ops st → GoodAtomic H R0 ops (exec H true ops st sched) := by
  induction sched with
  | nil => intro st g; exact g
  | cons a rest ih =>
    intro st g
    simp only [exec, List.foldl_cons]
    apply ih
    cases h : step H true ops st a with
    | none => simpa using g
    | some st' => simpa using goodAtomic_step H R0 ops st st' a g h

end GoZero.C15.Conc
