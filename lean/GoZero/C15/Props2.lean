/-
C15 — property theorems of round 4: the identity of nodes (`lang.Repr`), end-to-end clause theorems.
-/
import GoZero.C15.Props
import GoZero.C15.ReprProofs
import GoZero.C15.Proofs6
namespace GoZero.C15

/-! ### `lang.Repr` does not alias different numbers, whatever their Go types -/

/-- **numeric values of ANY integer kinds (int8 … int64, uint8 … uint64, named ints, pointers to ints) get the
same `Repr` exactly when they are the same number.** -/
theorem repr_numeric_injective (a b : GoVal) (x y : Int) (ha : a.math = some x) (hb : b.math = some y) :
    reprOf a = reprOf b ↔ x = y := reprOf_numeric_eq_iff a b x y ha hb

/-- injective on each signed kind … -/
theorem repr_int_injective (w : Width) (a b : Int) : reprOf (.int w a) = reprOf (.int w b) ↔ a = b :=
  reprOf_numeric_eq_iff _ _ a b rfl rfl

/-- … and on each unsigned kind … -/
theorem repr_uint_injective (w : Width) (a b : Int) : reprOf (.uint w a) = reprOf (.uint w b) ↔ a = b :=
  reprOf_numeric_eq_iff _ _ a b rfl rfl

/-- … and an unsigned value never shares its `Repr` with a negative one (MaxUint64 is not -1). -/
theorem repr_unsigned_ne_negative (w w' : Width) (u s : Int) (hu : 0 ≤ u) (hs : s < 0) :
    reprOf (.uint w u) ≠ reprOf (.int w' s) := by
  intro h
  have := (reprOf_numeric_eq_iff (.uint w u) (.int w' s) u s rfl rfl).1 h
  omega

theorem repr_bool_injective (a b : Bool) : reprOf (.bool a) = reprOf (.bool b) ↔ a = b := by
  cases a <;> cases b <;> decide

theorem repr_string_injective (a b : String) : reprOf (.str a) = reprOf (.str b) ↔ a = b := by
  simp [reprOf, GoVal.stringerText, GoVal.deref, reprOfValue]

/-- the nil interface and a typed nil pointer are different nodes -/
theorem repr_nil_ne_nilPtr : reprOf .nil ≠ reprOf .nilPtr := by decide

/-- non-vacuity, at the extremes: MaxUint64 / -1, 2^63 / MinInt64, 255 / int8 -1 -/
example : reprOf (.uint .w64 18446744073709551615) = "18446744073709551615" ∧ reprOf (.int .wd (-1)) = "-1" ∧
    reprOf (.uint .w64 9223372036854775808) = "9223372036854775808" ∧
    reprOf (.int .w64 (-9223372036854775808)) = "-9223372036854775808" ∧
    reprOf (.uint .w8 255) = "255" ∧ reprOf (.int .w8 (-1)) = "-1" ∧ reprOf (.ptrInt (-1)) = "-1" ∧
    reprOf (.errorsNew "boom") = "{boom}" ∧ reprOf (.errStringer "boom") = "boom" ∧ reprOf .nilPtr = "<nil>" := by
  decide

example : (GoVal.uint .w64 18446744073709551615).valid ∧ (GoVal.int .w8 (-128)).valid ∧ ¬ (GoVal.int .w8 128).valid := by
  decide

/-- **different numbers are different nodes of the ring**: an operation on the node of number `x` (Add, re-weight,
Remove; any Go type) leaves the membership entry — value and virtual nodes — of the node of every other number
`y` untouched: it neither evicts nor removes it. -/
theorem distinct_numbers_do_not_alias (R0 : Int) (ops : List Op) (op : Op) (a b : GoVal) (x y : Int)
    (ha : a.math = some x) (hb : b.math = some y) (hxy : x ≠ y) (hop : op.repr = a.toNode.repr) :
    (members R0 (ops ++ [op])).find b.toNode.repr = (members R0 ops).find b.toNode.repr := by
  have hne : b.toNode.repr ≠ op.repr := by
    rw [hop]
    intro h
    exact hxy ((reprOf_numeric_eq_iff a b x y ha hb).1 h.symm)
  unfold members
  rw [specRun_snoc, specStep_find _ _ _ _ hne]

/-- so a number that was added and not removed since stays a member whatever happens to OTHER numbers: here for the
last two operations — after `Add(b)` then any operation on a different number `a`, `Get` can still return `b`'s
value and `b` owns the virtual nodes it was added with. -/
theorem number_survives_other_number (R0 : Int) (ops : List Op) (op : Op) (a b : GoVal) (x y : Int)
    (ha : a.math = some x) (hb : b.math = some y) (hxy : x ≠ y) (hop : op.repr = a.toNode.repr) :
    (members R0 (ops ++ [.add b.toNode] ++ [op])).find b.toNode.repr
      = some (b.toNode, clampReplicas (CH.new R0).replicas (CH.new R0).replicas) := by
  rw [distinct_numbers_do_not_alias R0 _ op a b x y ha hb hxy hop]
  unfold members
  rw [specRun_snoc]
  simp only [specStep]
  rw [find_set]
  simp

example : (members 0 ([] ++ [.add (GoVal.uint .w64 18446744073709551615).toNode] ++ [.remove (GoVal.int .wd (-1)).toNode])).find
    "18446744073709551615" = some (⟨"u", "18446744073709551615"⟩, 100) := by decide


/-- the `repr-alias` monitor (Driver.checkReprs) never fires on reprs that are the model's: it flags two values
whose implementation reprs coincide although `sameSlot` (the model's identity) says they are different nodes -/
theorem monitor_sound_alias (a b : GoVal) : (reprOf a == reprOf b && !sameSlot a b) = false := by
  unfold sameSlot
  cases reprOf a == reprOf b <;> rfl

/-- and what `sameSlot` means for numbers is exactly "the same number" -/
theorem sameSlot_numeric (a b : GoVal) (x y : Int) (ha : a.math = some x) (hb : b.math = some y) :
    sameSlot a b = true ↔ x = y := by
  unfold sameSlot
  rw [beq_iff_eq]
  exact reprOf_numeric_eq_iff a b x y ha hb

example : sameSlot (.uint .w64 18446744073709551615) (.int .wd (-1)) = false ∧
    sameSlot (.uint .w8 255) (.int .w16 255) = true := by decide

/-! ### clauses at full strength: end-to-end compositions -/

/-- operations on other reprs do not touch the entry of `r` -/
theorem find_foldl_other (R : Nat) (later : List Op) (m : SMap) (r : String) (h : ∀ op ∈ later, op.repr ≠ r) :
    (later.foldl (specStep R) m).find r = m.find r := by
  induction later generalizing m with
  | nil => rfl
  | cons op rest ih =>
    simp only [List.foldl_cons]
    rw [ih _ (fun o ho => h o (List.mem_cons_of_mem _ ho))]
    exact specStep_find R m op r (fun e => h op (List.mem_cons_self) e.symm)

/-- **a removed node is never returned — until it is added again**: after `Remove(n)`, however many operations on
OTHER nodes follow (adds, re-weights, removes), no `Get` returns a value with `n`'s repr.  (`removed_never_returned`
is the case `later = []`.) -/
theorem removed_never_returned_until_readded (H : Hasher) (R0 : Int) (ops later : List Op) (n k v : Node)
    (hl : ∀ op ∈ later, op.repr ≠ n.repr)
    (h : get H (run H R0 (ops ++ [.remove n] ++ later)) k = .node v) : v.repr ≠ n.repr := by
  obtain ⟨c, hf, _⟩ := get_member_only H R0 _ k v h
  intro e
  unfold members specRun at hf
  rw [List.foldl_append, e, find_foldl_other _ later _ n.repr hl] at hf
  have := specRun_snoc (CH.new R0).replicas ops (.remove n)
  unfold specRun at this
  rw [this] at hf
  simp only [specStep] at hf
  rw [find_del] at hf
  simp at hf

set_option maxRecDepth 100000 in
example : get Pinned.W (run Pinned.W 0 ([.addR Pinned.n 3, .addR Pinned.n1 2] ++ [.remove Pinned.n] ++ [.addR Pinned.x 4, .addW Pinned.n1 1]))
    ⟨"s", "key0"⟩ = .node Pinned.x := by decide

/-- **users, call site → AddWithWeight → ring**: the dispatch of cache.New / kv.NewStore depends only on the
configured membership (address ↦ last configured weight), not on the order of the configuration entries — any two
configurations with the same membership, not only a swap of neighbours (`user_conf_order_irrelevant`). -/
theorem user_dispatch_depends_on_membership_only (H : Hasher) (conf₁ conf₂ : List (Node × Int))
    (h : ∀ r, (members (minReplicas : Int) (conf₁.map fun p => Op.addW p.1 p.2)).find r
            = (members (minReplicas : Int) (conf₂.map fun p => Op.addW p.1 p.2)).find r) (k : Node) :
    get H (userRing H conf₁) k = get H (userRing H conf₂) k := by
  rw [userRing_is_run, userRing_is_run]
  exact history_independent H _ _ _ h k

set_option maxRecDepth 100000 in
/-- non-vacuity: the hypothesis holds for a rotated configuration of three nodes -/
example : get Pinned.W (userRing Pinned.W [(Pinned.n, 3), (Pinned.n1, 2), (Pinned.x, 4)]) ⟨"s", "key0"⟩
    = get Pinned.W (userRing Pinned.W [(Pinned.x, 4), (Pinned.n, 3), (Pinned.n1, 2)]) ⟨"s", "key0"⟩ := by
  apply user_dispatch_depends_on_membership_only
  intro r
  by_cases h1 : r = "n"
  · subst h1; decide
  · by_cases h2 : r = "n1"
    · subst h2; decide
    · by_cases h3 : r = "x"
      · subst h3; decide
      · have e1 : ("n" == r) = false := beq_eq_false_iff_ne.2 (Ne.symm h1)
        have e2 : ("n1" == r) = false := beq_eq_false_iff_ne.2 (Ne.symm h2)
        have e3 : ("x" == r) = false := beq_eq_false_iff_ne.2 (Ne.symm h3)
        simp [members, specRun, specStep, SMap.set, SMap.del, SMap.find, List.find?, List.filter, Pinned.n, Pinned.n1,
          Pinned.x, e1, e2, e3]

/-- **typed end to end (value → lang.Repr → ring)**: for Go values of any integer kinds, `Get` on a ring that went
through `Remove(a)` does not return a node with `a`'s repr, and `b` (another number) keeps its virtual nodes. -/
theorem typed_remove_only_removes_that_number (H : Hasher) (R0 : Int) (ops : List Op) (a b : GoVal) (x y : Int)
    (ha : a.math = some x) (hb : b.math = some y) (hxy : x ≠ y) (k v : Node)
    (h : get H (run H R0 (ops ++ [.remove a.toNode])) k = .node v) :
    v.repr ≠ reprOf a ∧
      (members R0 (ops ++ [.remove a.toNode])).find (reprOf b) = (members R0 ops).find (reprOf b) :=
  ⟨removed_never_returned H R0 ops a.toNode k v h,
   distinct_numbers_do_not_alias R0 ops (.remove a.toNode) a b x y ha hb hxy rfl⟩

/-! ### minimal disruption under a LOCAL hypothesis (clauses 5–7 beyond NoCollision)

`NoCollision` asks that NO two virtual nodes in play share a hash value.  What the proofs need is only that the
virtual node serving THIS key — before or after the operation — belongs to one node (`LandsAlone`).  All other keys
of a ring with collisions (e.g. the label coincidence "n"+"10" = "n1"+"0" under every hash) obey minimal disruption
too.  The hypothesis is still necessary: in `disruption_needs_no_collision` the key lands on shared virtual nodes
before and after. -/

/-- the virtual node that serves `k` is owned by at most one node, before or after `op` -/
def LandsAlone (H : Hasher) (R0 : Int) (ops : List Op) (op : Op) (k : Node) : Prop :=
  (landing H (run H R0 ops) k).length ≤ 1 ∨ (landing H (run H R0 (ops ++ [op])) k).length ≤ 1

/-- strictly weaker than the global hypothesis (one side suffices) -/
theorem landsAlone_of_noCollision (H : Hasher) (R0 : Int) (ops : List Op) (op : Op) (k : Node)
    (hnc : NoCollision H (members R0 ops)) : LandsAlone H R0 ops op k :=
  Or.inl (landing_le_one_of_noCollision (inv_run H R0 ops) hnc k)

/-- one operation, all three cases at once, local hypothesis -/
theorem op_moves_only_to_or_from_local (H : Hasher) (R0 : Int) (ops : List Op) (op : Op) (k : Node)
    (hloc : LandsAlone H R0 ops op k) :
    get H (run H R0 (ops ++ [op])) k = get H (run H R0 ops) k
    ∨ (∃ v, get H (run H R0 ops) k = .node v ∧ v.repr = op.repr)
    ∨ (∃ v, get H (run H R0 (ops ++ [op])) k = .node v ∧ v.repr = op.repr) := by
  apply step_moves_only_local (inv_run H R0 ops) (inv_run H R0 (ops ++ [op])) op.repr ?_ k hloc
  intro r' hr'
  show (members R0 ops).find r' = (members R0 (ops ++ [op])).find r'
  unfold members
  rw [specRun_snoc, specStep_find _ _ _ _ hr']

/-- **adding a new node changes the assignment only of keys that move to it** — for every key served by an unshared
virtual node -/
theorem add_moves_only_to_new_local (H : Hasher) (R0 : Int) (ops : List Op) (op : Op) (n : Node) (hop : op.adds n)
    (hnew : (members R0 ops).find n.repr = none) (k : Node) (hloc : LandsAlone H R0 ops op k) :
    get H (run H R0 (ops ++ [op])) k = get H (run H R0 ops) k ∨ get H (run H R0 (ops ++ [op])) k = .node n := by
  rcases op_moves_only_to_or_from_local H R0 ops op k hloc with h | ⟨v, hv, hr⟩ | ⟨v, hv, hr⟩
  · exact Or.inl h
  · exfalso
    obtain ⟨c, hf, _⟩ := get_member_only H R0 ops k v hv
    rw [hr, adds_repr hop, hnew] at hf
    cases hf
  · right
    obtain ⟨c, hf, _⟩ := get_member_only H R0 _ k v hv
    obtain ⟨c', hf'⟩ := adds_find (R := (CH.new R0).replicas) (m := specRun (CH.new R0).replicas ops) hop
    unfold members at hf
    rw [specRun_snoc, hr, adds_repr hop, hf'] at hf
    have : n = v := by injection hf with h; injection h
    rw [hv, this]

/-- **removing a node changes the assignment only of keys that were assigned to it** — local hypothesis -/
theorem remove_moves_only_from_removed_local (H : Hasher) (R0 : Int) (ops : List Op) (n : Node) (k : Node)
    (hloc : LandsAlone H R0 ops (.remove n) k) :
    get H (run H R0 (ops ++ [.remove n])) k = get H (run H R0 ops) k
    ∨ ∃ v, get H (run H R0 ops) k = .node v ∧ v.repr = n.repr := by
  rcases op_moves_only_to_or_from_local H R0 ops (.remove n) k hloc with h | h | ⟨v, hv, hr⟩
  · exact Or.inl h
  · exact Or.inr h
  · exact absurd hr (removed_never_returned H R0 ops n k v hv)

/-- **re-adding a node with a different replica count or weight only moves keys to or from that node** — local -/
theorem reweight_moves_only_to_or_from_local (H : Hasher) (R0 : Int) (ops : List Op) (op : Op) (n : Node) (hop : op.adds n)
    (k : Node) (hloc : LandsAlone H R0 ops op k) :
    get H (run H R0 (ops ++ [op])) k = get H (run H R0 ops) k
    ∨ (∃ v, get H (run H R0 ops) k = .node v ∧ v.repr = n.repr)
    ∨ get H (run H R0 (ops ++ [op])) k = .node n := by
  rcases op_moves_only_to_or_from_local H R0 ops op k hloc with h | ⟨v, hv, hr⟩ | ⟨v, hv, hr⟩
  · exact Or.inl h
  · exact Or.inr (Or.inl ⟨v, hv, by rw [hr, adds_repr hop]⟩)
  · right; right
    obtain ⟨c, hf, _⟩ := get_member_only H R0 _ k v hv
    obtain ⟨c', hf'⟩ := adds_find (R := (CH.new R0).replicas) (m := specRun (CH.new R0).replicas ops) hop
    unfold members at hf
    rw [specRun_snoc, hr, adds_repr hop, hf'] at hf
    have : n = v := by injection hf with h; injection h
    rw [hv, this]

/-- the driver's per-probe disruption test (`landsAlone` evaluated on the model's states before and after) accepts
every pair of answers of the model: sound also in rings WITH collisions -/
theorem monitor_sound_disruption_local (H : Hasher) (R0 : Int) (ops : List Op) (op : Op) (k : Node)
    (h : landsAlone H (run H R0 ops) (run H R0 (ops ++ [op])) k = true) :
    disruptOk op.repr (decide ((members R0 ops).cnt op.repr > 0)) (decide ((members R0 (ops ++ [op])).cnt op.repr > 0))
      (get H (run H R0 ops) k) (get H (run H R0 (ops ++ [op])) k) = true := by
  apply disruptOk_sound_local (inv_run H R0 ops) (inv_run H R0 (ops ++ [op])) op.repr ?_ k h
  intro r' hr'
  show (members R0 ops).find r' = (members R0 (ops ++ [op])).find r'
  unfold members
  rw [specRun_snoc, specStep_find _ _ _ _ hr']

section LocalExamples
open Pinned (W n n1 x)
set_option maxRecDepth 100000

/-- non-vacuity: a ring WITH a collision (`NoCollision` fails: "n"+"10" = "n1"+"0"), a key that lands on the shared
virtual node before and on `x`'s own virtual node after `AddWithReplicas(x, 3)`: the local hypothesis holds and the
key moves to the new node -/
example : noCollision W (members 0 [.addR n 11, .addR n1 1]) = false ∧
    landsAlone W (run W 0 [.addR n 11, .addR n1 1]) (run W 0 ([.addR n 11, .addR n1 1] ++ [.addR x 3])) ⟨"s", "na"⟩ = true ∧
    get W (run W 0 [.addR n 11, .addR n1 1]) ⟨"s", "na"⟩ = .node n1 ∧
    get W (run W 0 ([.addR n 11, .addR n1 1] ++ [.addR x 3])) ⟨"s", "na"⟩ = .node x := by decide

example : LandsAlone W 0 [.addR n 11, .addR n1 1] (.addR x 3) ⟨"s", "na"⟩ := Or.inr (by decide)

end LocalExamples

end GoZero.C15
