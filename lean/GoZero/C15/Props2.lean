/-
C15 — property theorems of round 4: the identity of nodes (`lang.Repr`), end-to-end clause theorems.
-/
import GoZero.C15.Props
import GoZero.C15.ReprProofs
namespace GoZero.C15

/-! ### `lang.Repr` does not alias different numbers, whatever their Go types -/

/-- **numeric values of ANY integer kinds (int8 … int64, uint8 … uint64, named ints, pointers to ints) get the
same `Repr` exactly when they are the same number.** -/
theorem repr_numeric_injective (a b : GoVal) (x y : Int) (ha : a.math = some x) (hb : b.math = some y) :
    reprOf a = reprOf b ↔ x = y := reprOf_numeric_eq_iff a b x y ha hb

/-- injective on each signed kind … -/
theorem repr_int_injective (w : Width) (a b : Int) : reprOf (.int w a) = reprOf (.int w b) ↔ a = b :=
  reprOf_numeric_eq_iff _ _ a b rfl rfl

/-- … and on each unsigned kind … -/
theorem repr_uint_injective (w : Width) (a b : Int) : reprOf (.uint w a) = reprOf (.uint w b) ↔ a = b :=
  reprOf_numeric_eq_iff _ _ a b rfl rfl

/-- … and an unsigned value never shares its `Repr` with a negative one (MaxUint64 is not -1). -/
theorem repr_unsigned_ne_negative (w w' : Width) (u s : Int) (hu : 0 ≤ u) (hs : s < 0) :
    reprOf (.uint w u) ≠ reprOf (.int w' s) := by
  intro h
  have := (reprOf_numeric_eq_iff (.uint w u) (.int w' s) u s rfl rfl).1 h
  omega

theorem repr_bool_injective (a b : Bool) : reprOf (.bool a) = reprOf (.bool b) ↔ a = b := by
  cases a <;> cases b <;> decide

theorem repr_string_injective (a b : String) : reprOf (.str a) = reprOf (.str b) ↔ a = b := by
  simp [reprOf, GoVal.stringerText, GoVal.deref, reprOfValue]

/-- the nil interface and a typed nil pointer are different nodes -/
theorem repr_nil_ne_nilPtr : reprOf .nil ≠ reprOf .nilPtr := by decide

/-- non-vacuity, at the extremes: MaxUint64 / -1, 2^63 / MinInt64, 255 / int8 -1 -/
example : reprOf (.uint .w64 18446744073709551615) = "18446744073709551615" ∧ reprOf (.int .wd (-1)) = "-1" ∧
    reprOf (.uint .w64 9223372036854775808) = "9223372036854775808" ∧
    reprOf (.int .w64 (-9223372036854775808)) = "-9223372036854775808" ∧
    reprOf (.uint .w8 255) = "255" ∧ reprOf (.int .w8 (-1)) = "-1" ∧ reprOf (.ptrInt (-1)) = "-1" ∧
    reprOf (.errorsNew "boom") = "{boom}" ∧ reprOf (.errStringer "boom") = "boom" ∧ reprOf .nilPtr = "<nil>" := by
  decide

example : (GoVal.uint .w64 18446744073709551615).valid ∧ (GoVal.int .w8 (-128)).valid ∧ ¬ (GoVal.int .w8 128).valid := by
  decide

/-- **different numbers are different nodes of the ring**: an operation on the node of number `x` (Add, re-weight,
Remove; any Go type) leaves the membership entry — value and virtual nodes — of the node of every other number
`y` untouched: it neither evicts nor removes it. -/
theorem distinct_numbers_do_not_alias (R0 : Int) (ops : List Op) (op : Op) (a b : GoVal) (x y : Int)
    (ha : a.math = some x) (hb : b.math = some y) (hxy : x ≠ y) (hop : op.repr = a.toNode.repr) :
    (members R0 (ops ++ [op])).find b.toNode.repr = (members R0 ops).find b.toNode.repr := by
  have hne : b.toNode.repr ≠ op.repr := by
    rw [hop]
    intro h
    exact hxy ((reprOf_numeric_eq_iff a b x y ha hb).1 h.symm)
  unfold members
  rw [specRun_snoc, specStep_find _ _ _ _ hne]

/-- so a number that was added and not removed since stays a member whatever happens to OTHER numbers: here for the
last two operations — after `Add(b)` then any operation on a different number `a`, `Get` can still return `b`'s
value and `b` owns the virtual nodes it was added with. -/
theorem number_survives_other_number (R0 : Int) (ops : List Op) (op : Op) (a b : GoVal) (x y : Int)
    (ha : a.math = some x) (hb : b.math = some y) (hxy : x ≠ y) (hop : op.repr = a.toNode.repr) :
    (members R0 (ops ++ [.add b.toNode] ++ [op])).find b.toNode.repr
      = some (b.toNode, clampReplicas (CH.new R0).replicas (CH.new R0).replicas) := by
  rw [distinct_numbers_do_not_alias R0 _ op a b x y ha hb hxy hop]
  unfold members
  rw [specRun_snoc]
  simp only [specStep]
  rw [find_set]
  simp

example : (members 0 ([] ++ [.add (GoVal.uint .w64 18446744073709551615).toNode] ++ [.remove (GoVal.int .wd (-1)).toNode])).find
    "18446744073709551615" = some (⟨"u", "18446744073709551615"⟩, 100) := by decide

end GoZero.C15
