/-
C15 — abstract specification and executable monitor (core Lean only).

Abstract state: the map  repr ↦ (Go value, number of virtual nodes)  as an association list.
The property speaks about lookups as a function of this map only; the monitor evaluates, on the
observations of the implementation,
  * member-only / none-iff-empty / removed-never-returned  (`memberOk`),
  * minimal disruption between the observations before and after an operation (`disruptOk`),
    where the map has no colliding virtual nodes (`noCollision`),
history independence being checked against a second instance of the real code (see Driver).
-/
import GoZero.C15.Model
namespace GoZero.C15

/-- repr ↦ (value, virtual nodes); the first entry for a repr counts -/
abbrev SMap := List (Node × Nat)

def SMap.find (m : SMap) (r : String) : Option (Node × Nat) := List.find? (fun p => p.1.repr == r) m

def SMap.cnt (m : SMap) (r : String) : Nat :=
  match m.find r with
  | some p => p.2
  | none => 0

def SMap.del (m : SMap) (r : String) : SMap := List.filter (fun p => p.1.repr != r) m

def SMap.set (m : SMap) (n : Node) (c : Nat) : SMap := (n, c) :: m.del n.repr

/-- what an operation does to the abstract map, for a ring constructed with `R` replicas -/
def specStep (R : Nat) (m : SMap) : Op → SMap
  | .add n => m.set n (clampReplicas R R)
  | .addR n r => m.set n (clampReplicas R r)
  | .addW n w => m.set n (clampReplicas R (weightReplicas R w))
  | .remove n => m.del n.repr

def specRun (R : Nat) (ops : List Op) : SMap := ops.foldl (specStep R) []

/-- the abstract map after an operation that ended in its `nth` lock-free `String()` call (see `stepFault`) -/
def faultDel (m : SMap) (r : String) (nth : Nat) : SMap := if nth ≤ 1 then m else m.del r

def specStepFault (m : SMap) (op : Op) (nth : Nat) : SMap :=
  match op with
  | .remove _ => m
  | .add n => faultDel m n.repr nth
  | .addR n _ => faultDel m n.repr nth
  | .addW n _ => faultDel m n.repr nth

/-- the repr an operation is about -/
def Op.repr : Op → String
  | .add n => n.repr
  | .addR n _ => n.repr
  | .addW n _ => n.repr
  | .remove n => n.repr

/-! ### monitor -/

/-- member-only: a returned node is a current member with at least one virtual node (so never a
removed one); `none` only when no member has a virtual node; a panic is never acceptable. -/
def memberOk (m : SMap) : Outcome → Bool
  | .node n => match m.find n.repr with
    | some (v, c) => v == n && c > 0
    | none => false
  | .none => m.all (fun p => m.cnt p.1.repr == 0)
  | .panic => false

def allPoints (H : Hasher) (m : SMap) : List Nat := m.flatMap (fun p => points H p.1.repr p.2)

def adjDistinct : List Nat → Bool
  | [] => true
  | [_] => true
  | a :: b :: rest => a != b && adjDistinct (b :: rest)

/-- no two virtual nodes in play share a hash value -/
def noCollision (H : Hasher) (m : SMap) : Bool := adjDistinct (sortKeys (allPoints H m))

/-- minimal disruption for one probe key: if the answer changed across an operation on repr `r`,
the old answer was the node of repr `r` (remove / re-add) or the new answer is (add / re-add). -/
def disruptOk (r : String) (wasMember isMember : Bool) (before after : Outcome) : Bool :=
  before == after ||
    match before, after with
    | .node a, .node b => (wasMember && a.repr == r) || (isMember && b.repr == r)
    | .none, .node b => isMember && b.repr == r
    | .node a, .none => wasMember && a.repr == r
    | _, _ => false

/-- the collision bucket a lookup of `k` lands on: `h.ring[h.keys[sort.Search(…) % len(h.keys)]]` -/
def landing (H : Hasher) (s : CH) (k : Node) : List Node :=
  bucket s.ring (s.keys.getD (searchGE s.keys (H.key k.repr) % s.keys.length) 0)

/-- LOCAL precondition of minimal disruption for one lookup key: the virtual node serving it is not shared by
several nodes, before or after the operation -/
def landsAlone (H : Hasher) (s s' : CH) (k : Node) : Bool :=
  decide ((landing H s k).length ≤ 1) || decide ((landing H s' k).length ≤ 1)

/-- the `dispatch` monitor on one intercepted command `(node, keys of the call among its arguments)`: `expected k` is the
node the instance's ring gives for key `k` ("-" for none) -/
def cmdOk (expected : String → String) (multi : Bool) (keys : List String) (rec : String × List String) : Bool :=
  if multi then rec.2.all fun k => !keys.contains k || expected k == rec.1
  else match keys with
    | [k] => expected k == rec.1
    | _ => false

def addrText (o : Outcome) : String :=
  match o.addr with
  | some a => a
  | none => "-"

/-- the `lock-leak` monitor: nothing is held after the call ended, however it ended -/
def lockFree (st : Int × Int) : Bool := st.1 == 0 && st.2 == 0

end GoZero.C15
