/-
C15 — soundness of the monitor's executable collision test: `noCollision H m = true → NoCollision H m`.
-/
import GoZero.C15.Proofs4
namespace GoZero.C15

theorem adjDistinct_nodup : ∀ (l : List Nat), l.Pairwise (· ≤ ·) → adjDistinct l = true → l.Nodup
  | [], _, _ => List.nodup_nil
  | [_], _, _ => by simp
  | a :: b :: rest, hs, hd => by
    have hs' := List.pairwise_cons.mp hs
    unfold adjDistinct at hd
    have hab : a ≠ b := by
      intro e; simp [e] at hd
    have hd' : adjDistinct (b :: rest) = true := by
      cases h : adjDistinct (b :: rest) with
      | true => rfl
      | false => rw [h] at hd; simp at hd
    refine List.nodup_cons.mpr ⟨?_, adjDistinct_nodup (b :: rest) hs'.2 hd'⟩
    intro hmem
    rcases List.mem_cons.mp hmem with e | hmem
    · exact hab e
    · have h1 := (List.pairwise_cons.mp hs'.2).1 a hmem
      have h2 := hs'.1 b (List.mem_cons_self)
      exact hab (Nat.le_antisymm h2 h1)

theorem map_range_inj (f : Nat → Nat) : ∀ (c : Nat), ((List.range c).map f).Nodup →
    ∀ i j, i < c → j < c → f i = f j → i = j := by
  intro c
  induction c with
  | zero => intro _ i j hi; omega
  | succ c ih =>
    intro hnd i j hi hj he
    rw [List.range_succ, List.map_append, List.nodup_append] at hnd
    obtain ⟨h1, _, h3⟩ := hnd
    have hmem : ∀ i, i < c → f i ∈ (List.range c).map f :=
      fun i hi => List.mem_map.mpr ⟨i, List.mem_range.mpr hi, rfl⟩
    by_cases hic : i = c
    · by_cases hjc : j = c
      · omega
      · exfalso
        exact h3 (f j) (hmem j (by omega)) (f c) (by simp) (by rw [← he, hic])
    · by_cases hjc : j = c
      · exfalso
        exact h3 (f i) (hmem i (by omega)) (f c) (by simp) (by rw [he, hjc])
      · exact ih h1 i j (by omega) (by omega) he

theorem allPoints_nodup_entries (H : Hasher) : ∀ (m : SMap), (allPoints H m).Nodup →
    ∀ p1 p2 : Node × Nat, p1 ∈ m → p2 ∈ m → ∀ i1 i2, i1 < p1.2 → i2 < p2.2 →
      H.point p1.1.repr i1 = H.point p2.1.repr i2 → p1 = p2 ∧ i1 = i2 := by
  intro m
  induction m with
  | nil => intro _ p1 _ h1; cases h1
  | cons q rest ih =>
    intro hnd p1 p2 h1 h2 i1 i2 hi1 hi2 he
    have hap : allPoints H (q :: rest) = points H q.1.repr q.2 ++ allPoints H rest := by
      simp [allPoints, List.flatMap_cons]
    rw [hap, List.nodup_append] at hnd
    obtain ⟨hq, hrest, hdisj⟩ := hnd
    have inRest : ∀ p : Node × Nat, p ∈ rest → ∀ i, i < p.2 → H.point p.1.repr i ∈ allPoints H rest := by
      intro p hp i hi
      unfold allPoints
      exact List.mem_flatMap.mpr ⟨p, hp, mem_points.mpr ⟨i, hi, rfl⟩⟩
    have inQ : ∀ i, i < q.2 → H.point q.1.repr i ∈ points H q.1.repr q.2 :=
      fun i hi => mem_points.mpr ⟨i, hi, rfl⟩
    rcases List.mem_cons.mp h1 with e1 | h1 <;> rcases List.mem_cons.mp h2 with e2 | h2
    · rw [e1] at hi1 he; rw [e2] at hi2 he; rw [e1, e2]
      exact ⟨rfl, map_range_inj (H.point q.1.repr) q.2 hq i1 i2 hi1 hi2 he⟩
    · rw [e1] at hi1 he
      exact absurd he (hdisj _ (inQ i1 hi1) _ (inRest p2 h2 i2 hi2))
    · rw [e2] at hi2 he
      exact absurd he.symm (hdisj _ (inQ i2 hi2) _ (inRest p1 h1 i1 hi1))
    · exact ih hrest p1 p2 h1 h2 i1 i2 hi1 hi2 he

/-- the collision test of the monitor decides the hypothesis of the minimal-disruption theorems. -/
theorem noCollision_sound (H : Hasher) (m : SMap) (h : noCollision H m = true) : NoCollision H m := by
  unfold noCollision at h
  have hnd : (allPoints H m).Nodup :=
    ((sortKeys_perm _).nodup_iff).mp (adjDistinct_nodup _ (sortKeys_sorted _) h)
  intro r1 r2 n1 c1 n2 c2 i1 i2 h1 h2 hi1 hi2 he
  have m1 := List.mem_of_find?_eq_some h1
  have m2 := List.mem_of_find?_eq_some h2
  have e1 : n1.repr = r1 := by simpa using List.find?_some h1
  have e2 : n2.repr = r2 := by simpa using List.find?_some h2
  have := allPoints_nodup_entries H m hnd (n1, c1) (n2, c2) m1 m2 i1 i2 hi1 hi2 (by simp only [e1, e2]; exact he)
  obtain ⟨hp, hi⟩ := this
  refine ⟨?_, hi⟩
  have : n1 = n2 := by injection hp
  rw [← e1, ← e2, this]

end GoZero.C15

namespace GoZero.C15

/-- the monitor's member-only test accepts every answer of a represented state -/
theorem memberOk_sound {H : Hasher} {s : CH} {m : SMap} (hi : Inv H s m) (k : Node) :
    memberOk m (get H s k) = true := by
  cases hg : get H s k with
  | panic => exact absurd hg (get_never_panics hi k)
  | none =>
    have h0 := (get_none_iff hi k).mp hg
    simp only [memberOk, List.all_eq_true]
    intro p _
    simp [h0]
  | node n =>
    obtain ⟨c, hf, hc⟩ := get_member hi k n hg
    simp only [memberOk, hf]
    simp [hc]

/-- the monitor's disruption test accepts what the theorems allow -/
theorem disruptOk_sound {H : Hasher} {s s' : CH} {m m' : SMap} (hi : Inv H s m) (hi' : Inv H s' m')
    (hnc : NoCollision H m) (hnc' : NoCollision H m') (r : String)
    (hagree : ∀ r', r' ≠ r → m.find r' = m'.find r') (k : Node) :
    disruptOk r (decide (m.cnt r > 0)) (decide (m'.cnt r > 0)) (get H s k) (get H s' k) = true := by
  have hwas : ∀ v, get H s k = .node v → v.repr = r → decide (m.cnt r > 0) = true := by
    intro v hv hr
    obtain ⟨c, hf, hc⟩ := get_member hi k v hv
    rw [hr] at hf
    simp [cnt_of_find hf, hc]
  have his : ∀ v, get H s' k = .node v → v.repr = r → decide (m'.cnt r > 0) = true := by
    intro v hv hr
    obtain ⟨c, hf, hc⟩ := get_member hi' k v hv
    rw [hr] at hf
    simp [cnt_of_find hf, hc]
  rcases step_moves_only hi hi' hnc hnc' r hagree k with h | ⟨v, hv, hr⟩ | ⟨v, hv, hr⟩
  · unfold disruptOk; rw [h]; simp
  · have hw := hwas v hv hr
    rw [hv]
    cases hg' : get H s' k with
    | panic => exact absurd hg' (get_never_panics hi' k)
    | none => simp [disruptOk, hw, hr]
    | node b => simp [disruptOk, hw, hr]
  · have hw := his v hv hr
    rw [hv]
    cases hg : get H s k with
    | panic => exact absurd hg (get_never_panics hi k)
    | none => simp [disruptOk, hw, hr]
    | node a => simp [disruptOk, hw, hr]

end GoZero.C15
