/-
C15 — model of core/lang/lang.go `Repr` / `reprOfValue` (core Lean only).

The ring identifies nodes and lookup keys by `lang.Repr(v)`.  `GoVal` is a Go value as the harness can build it
(one constructor per dynamic type that `Repr` distinguishes), `reprOf` follows the code:
  Repr:        v == nil → "" ;  v implements fmt.Stringer → v.String() ;  dereference pointers while non-nil ;
  reprOfValue: type switch on the dereferenced value (bool, error, float32, float64, Stringer, int, int8, int16,
               int32, int64, string, uint, uint8, uint16, uint32, uint64, []byte, default → fmt.Sprint).
`switchEval` INTERPRETS the table the extractor reads from the type switch (type, function called, argument
sources): conversion (`int(vt)`, `uint64(vt)` with Go's wrap-around), formatting function, base, float format and
bit size.  `Tie.tie_reprSwitch_sem` proves that on every valid value the interpreted table gives `reprOf`.
-/
import GoZero.C15.Model
namespace GoZero.C15

/-- integer widths: `wd` is Go's `int` / `uint` (64 bit) -/
inductive Width where
  | wd | w8 | w16 | w32 | w64
  deriving DecidableEq, Repr

def Width.bits : Width → Nat
  | .wd => 64 | .w8 => 8 | .w16 => 16 | .w32 => 32 | .w64 => 64

def Width.suffix : Width → String
  | .wd => "" | .w8 => "8" | .w16 => "16" | .w32 => "32" | .w64 => "64"

inductive GoVal where
  | nil                                   -- the nil interface
  | bool (b : Bool)
  | int (w : Width) (v : Int)             -- int, int8 … int64
  | uint (w : Width) (v : Int)            -- uint, uint8 … uint64 (0 ≤ v)
  | float (single : Bool) (text : String) -- float32 / float64, identified by its `'f', -1` text
  | str (s : String)
  | bytes (s : String)
  | err (s : String)                      -- a type with `Error()` on the value receiver
  | stringer (ptr : Bool) (s : String)    -- `String()` on the value / on the pointer receiver
  | errStringer (s : String)              -- both `String()` = s and `Error()` = "E!" ++ s (value receiver)
  | errorsNew (s : String)                -- `errors.New(s)`: pointer to a struct without value methods
  | named (v : Int)                       -- `type T int` without methods: reaches `default`
  | ptrInt (v : Int)                      -- `*int`, non-nil
  | nilPtr                                -- `(*int)(nil)`
  deriving DecidableEq, Repr

/-- 2^(bits-1) and 2^bits as literals -/
def Width.half : Width → Int
  | .wd => 9223372036854775808 | .w8 => 128 | .w16 => 32768 | .w32 => 2147483648 | .w64 => 9223372036854775808

def Width.full : Width → Int
  | .wd => 18446744073709551616 | .w8 => 256 | .w16 => 65536 | .w32 => 4294967296 | .w64 => 18446744073709551616

def inSigned (w : Width) (v : Int) : Prop := -w.half ≤ v ∧ v < w.half
def inUnsigned (w : Width) (v : Int) : Prop := 0 ≤ v ∧ v < w.full

instance (w : Width) (v : Int) : Decidable (inSigned w v) := by unfold inSigned; exact inferInstance
instance (w : Width) (v : Int) : Decidable (inUnsigned w v) := by unfold inUnsigned; exact inferInstance

/-- the value fits its Go type -/
def GoVal.valid : GoVal → Prop
  | .int w v => inSigned w v
  | .uint w v => inUnsigned w v
  | .named v => inSigned .wd v
  | .ptrInt v => inSigned .wd v
  | _ => True

instance (v : GoVal) : Decidable v.valid := by cases v <;> unfold GoVal.valid <;> exact inferInstance

/-- `strconv.FormatInt(v, 10)` / `strconv.Itoa` / `strconv.FormatUint(v, 10)`: minus sign, decimal digits -/
def fmtInt (v : Int) : String := toString v

/-- the mathematical value of a numeric Go value -/
def GoVal.math : GoVal → Option Int
  | .int _ v => some v
  | .uint _ v => some v
  | .named v => some v
  | .ptrInt v => some v
  | _ => none

/-! ### `Repr` -/

/-- the first type switch of `Repr`: does the value itself implement `fmt.Stringer`? -/
def GoVal.stringerText : GoVal → Option String
  | .stringer _ s => some s
  | .errStringer s => some s
  | _ => none

/-- `for val.Kind() == reflect.Ptr && !val.IsNil() { val = val.Elem() }` -/
def GoVal.deref : GoVal → GoVal
  | .ptrInt v => .int .wd v
  | v => v          -- `errorsNew` stands for the struct behind the pointer; `nilPtr` stays

/-- the case of `reprOfValue`'s switch selected by the dynamic type of the dereferenced value -/
def GoVal.caseName : GoVal → String
  | .bool _ => "bool"
  | .err _ => "error"
  | .errStringer _ => "error"            -- `case error` comes before `case fmt.Stringer`
  | .float true _ => "float32"
  | .float false _ => "float64"
  | .stringer _ _ => "fmt.Stringer"
  | .int w _ => "int" ++ w.suffix
  | .str _ => "string"
  | .uint w _ => "uint" ++ w.suffix
  | .bytes _ => "[]byte"
  | .ptrInt _ => "int"
  | .nil | .errorsNew _ | .named _ | .nilPtr => "default"

/-- `fmt.Sprint` of the values that reach `default` -/
def sprintDefault : GoVal → String
  | .errorsNew s => "{" ++ s ++ "}"
  | .named v => fmtInt v
  | .nilPtr => "<nil>"
  | _ => ""

/-- `reprOfValue` on a dereferenced value -/
def reprOfValue : GoVal → String
  | .bool b => if b then "true" else "false"
  | .err s => s
  | .errStringer s => "E!" ++ s
  | .float _ t => t
  | .stringer _ s => s
  | .int _ v => fmtInt v
  | .str s => s
  | .uint _ v => fmtInt v
  | .bytes s => s
  | .ptrInt v => fmtInt v
  | v => sprintDefault v

/-- `lang.Repr` -/
def reprOf (v : GoVal) : String :=
  if v = .nil then "" else
  match v.stringerText with
  | some s => s
  | none => reprOfValue v.deref

/-! ### the extracted switch table, interpreted -/

/-- conversion to the signed / unsigned type of width `w`: two's complement wrap-around -/
def wrapSigned (w : Width) (x : Int) : Int := (x + w.half) % w.full - w.half
def wrapUnsigned (w : Width) (x : Int) : Int := x % w.full

/-- a Go conversion `T(vt)` applied to the integer `x`; `vt` itself is the identity -/
def convArg (arg : String) (x : Int) : Option Int :=
  if arg = "vt" then some x
  else if arg = "int(vt)" ∨ arg = "int64(vt)" then some (wrapSigned .w64 x)
  else if arg = "int32(vt)" then some (wrapSigned .w32 x)
  else if arg = "int16(vt)" then some (wrapSigned .w16 x)
  else if arg = "int8(vt)" then some (wrapSigned .w8 x)
  else if arg = "uint(vt)" ∨ arg = "uint64(vt)" then some (wrapUnsigned .w64 x)
  else if arg = "uint32(vt)" then some (wrapUnsigned .w32 x)
  else if arg = "uint16(vt)" then some (wrapUnsigned .w16 x)
  else if arg = "uint8(vt)" then some (wrapUnsigned .w8 x)
  else none

def evBool (args : List String) (v : GoVal) : Option String :=
  if args = ["vt"] then (match v with | .bool b => some (if b then "true" else "false") | _ => none) else none

/-- `strconv.Itoa(a)` / `strconv.FormatInt(a, 10)` -/
def evSigned (a : String) (v : GoVal) : Option String := (v.math.bind (convArg a)).map fmtInt

/-- `strconv.FormatUint(a, 10)`: the argument is a `uint64` -/
def evUnsigned (a : String) (v : GoVal) : Option String :=
  (v.math.bind (convArg a)).bind fun y => if 0 ≤ y then some (fmtInt y) else none

def evFloat (args : List String) (v : GoVal) : Option String :=
  match v with
  | .float true t => if args = ["float64(vt)", "'f'", "-1", "32"] then some t else none
  | .float false t => if args = ["vt", "'f'", "-1", "64"] then some t else none
  | _ => none

def evError (args : List String) (v : GoVal) : Option String :=
  if args = [] then (match v with | .err s => some s | .errStringer s => some ("E!" ++ s) | _ => none) else none

def evString (args : List String) (v : GoVal) : Option String :=
  if args = [] then (match v with | .stringer _ s => some s | .errStringer s => some s | _ => none) else none

def evIdent (args : List String) (v : GoVal) : Option String :=
  if args = [] then (match v with | .str s => some s | _ => none) else none

def evBytes (args : List String) (v : GoVal) : Option String :=
  if args = ["vt"] then (match v with | .bytes s => some s | _ => none) else none

/-- the returned expression of one case, evaluated on a value of that case's type -/
def evalCase (fn : String) (args : List String) (v : GoVal) : Option String :=
  if fn = "strconv.FormatBool" then evBool args v
  else if fn = "strconv.Itoa" then (if args.length = 1 then evSigned (args.getD 0 "") v else none)
  else if fn = "strconv.FormatInt" then (if args.length = 2 ∧ args.getD 1 "" = "10" then evSigned (args.getD 0 "") v else none)
  else if fn = "strconv.FormatUint" then (if args.length = 2 ∧ args.getD 1 "" = "10" then evUnsigned (args.getD 0 "") v else none)
  else if fn = "strconv.FormatFloat" then evFloat args v
  else if fn = "vt.Error" then evError args v
  else if fn = "vt.String" then evString args v
  else if fn = "vt" then evIdent args v
  else if fn = "string" then evBytes args v
  else if fn = "fmt.Sprint" then (if args = ["val.Interface()"] then some (sprintDefault v) else none)
  else none

/-- the first clause whose type list is the case name (Go picks the first matching clause; the dynamic types
modelled match exactly one concrete clause, interface clauses are ordered by `caseName`) -/
def switchEval (table : List (String × String × List String)) (v : GoVal) : Option String :=
  match table.find? (fun c => c.1 == v.caseName) with
  | some c => evalCase c.2.1 c.2.2 v
  | none => none

/-! ### tokens of the trace protocol -/

def GoVal.kind : GoVal → String
  | .nil => "z" | .bool _ => "o"
  | .int .wd _ => "i" | .int .w8 _ => "a" | .int .w16 _ => "h" | .int .w32 _ => "w" | .int .w64 _ => "j"
  | .uint .wd _ => "n" | .uint .w8 _ => "c" | .uint .w16 _ => "k" | .uint .w32 _ => "m" | .uint .w64 _ => "u"
  | .float false _ => "f" | .float true _ => "g"
  | .str _ => "s" | .bytes _ => "b" | .err _ => "e" | .stringer false _ => "t" | .stringer true _ => "p"
  | .errStringer _ => "q" | .errorsNew _ => "x" | .named _ => "d" | .ptrInt _ => "r" | .nilPtr => "y"

/-- the ring's view of a value -/
def GoVal.toNode (v : GoVal) : Node := { kind := v.kind, repr := reprOf v }

def parseIntTok (t : String) : Option Int :=
  match t.toInt? with
  | some v => if toString v = t then some v else none   -- canonical decimal only
  | none => none

def parseGoVal (kind text : String) : Option GoVal :=
  let num (mk : Int → GoVal) : Option GoVal :=
    match parseIntTok text with
    | some v => if (mk v).valid then some (mk v) else none
    | none => none
  if kind = "s" then some (.str text)
  else if kind = "i" then num (.int .wd)
  else if kind = "a" then num (.int .w8)
  else if kind = "h" then num (.int .w16)
  else if kind = "w" then num (.int .w32)
  else if kind = "j" then num (.int .w64)
  else if kind = "n" then num (.uint .wd)
  else if kind = "c" then num (.uint .w8)
  else if kind = "k" then num (.uint .w16)
  else if kind = "m" then num (.uint .w32)
  else if kind = "u" then num (.uint .w64)
  else if kind = "d" then num .named
  else if kind = "r" then num .ptrInt
  else if kind = "o" then (if text = "true" then some (.bool true) else if text = "false" then some (.bool false) else none)
  else if kind = "e" then some (.err text)
  else if kind = "x" then some (.errorsNew text)
  else if kind = "t" then some (.stringer false text)
  else if kind = "p" then some (.stringer true text)
  else if kind = "q" then some (.errStringer text)
  else if kind = "f" then some (.float false text)
  else if kind = "g" then some (.float true text)
  else if kind = "b" then some (.bytes text)
  else if kind = "z" then (if text = "" then some .nil else none)
  else if kind = "y" then (if text = "" then some .nilPtr else none)
  else none

/-- the token of a node as the harness prints it (kind, text of the VALUE): inverse of `toNode ∘ parseGoVal` -/
def nodeToken (n : Node) : String :=
  n.kind ++ ":" ++
    (if n.kind = "x" then String.ofList ((n.repr.toList.drop 1).dropLast)
     else if n.kind = "y" then ""
     else n.repr)

/-- same identity for the ring: the model's notion (equal `Repr`) -/
def sameSlot (a b : GoVal) : Bool := reprOf a == reprOf b

end GoZero.C15
