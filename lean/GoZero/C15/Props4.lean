/-
C15 — round 5c: soundness of the remaining monitor clauses (`dispatch`, commands' `member-only`, `lock-leak`), multi-key
`Del` split per node, self-collisions of one node's virtual nodes, panics inside a critical section.
-/
import GoZero.C15.Props3
namespace GoZero.C15

/-! ### `lock-leak`: the order of lock effects -/

/-- the lock is free however the call ends: after ANY number of effects (panic / Goexit / return there) -/
def PanicSafe (effs : List Eff) : Prop :=
  ∀ p, (effs[p]? = some .work ∨ effs.length ≤ p) → lockFree (lockAfter effs p) = true

/-- a panic can only come out of `work` (user code, runtime), the call can also end after its last effect -/
def exitPoint (effs : List Eff) (p : Nat) : Bool := effs[p]? == some .work || decide (effs.length ≤ p)

theorem lockAfter_ge (effs : List Eff) (p : Nat) (h : effs.length ≤ p) : lockAfter effs p = lockAfter effs effs.length := by
  unfold lockAfter
  rw [List.take_of_length_le h, List.take_of_length_le (Nat.le_refl _)]

/-- finitely many positions decide it -/
theorem panicSafe_of_check (effs : List Eff)
    (h : (List.range (effs.length + 1)).all (fun p => !exitPoint effs p || lockFree (lockAfter effs p)) = true) :
    PanicSafe effs := by
  intro p hx
  rw [List.all_eq_true] at h
  by_cases hp : p ≤ effs.length
  · have := h p (List.mem_range.mpr (by omega))
    have hx' : exitPoint effs p = true := by
      unfold exitPoint; rcases hx with hx | hx <;> simp [hx]
    simpa [hx'] using this
  · rw [lockAfter_ge effs p (by omega)]
    have := h effs.length (List.mem_range.mpr (by omega))
    have hx' : exitPoint effs effs.length = true := by unfold exitPoint; simp
    simpa [hx'] using this

/-- **soundness of the `lock-leak` monitor**: in the model `Get`, `Remove` and `AddWithReplicas` (so also `Add`,
`AddWithWeight`) leave the lock free wherever a user-supplied `String()` or the hash func stops them — the model's own
observation is always `locked=0`. -/
theorem lock_released_however_it_ends : PanicSafe getEffs ∧ PanicSafe removeEffs ∧ PanicSafe addEffs :=
  ⟨panicSafe_of_check _ (by decide), panicSafe_of_check _ (by decide), panicSafe_of_check _ (by decide)⟩

/-- the hypothesis is not empty talk: the same body with an explicit unlock instead of `defer` leaks the read lock when the
lookup panics -/
theorem explicit_unlock_leaks : ¬ PanicSafe [.rlock, .work, .runlock] := by
  intro h
  have := h 1 (Or.inl rfl)
  revert this
  decide

/-! ### `dispatch` and `member-only` on the commands of a public-method call -/

theorem delPerKey_mem (disp : String → Outcome) (keys : List String) (rec : String × List String)
    (h : rec ∈ delPerKey disp keys) : ∃ k ∈ keys, (disp k).addr = some rec.1 ∧ rec.2 = [k] := by
  unfold delPerKey at h
  obtain ⟨k, hk, hm⟩ := List.mem_filterMap.mp h
  cases ha : (disp k).addr with
  | none => rw [ha] at hm; simp at hm
  | some a => rw [ha] at hm; simp at hm; subst hm; exact ⟨k, hk, ha, rfl⟩

theorem delGrouped_mem (disp : String → Outcome) (keys : List String) (rec : String × List String)
    (h : rec ∈ delGrouped disp keys) : ∀ k ∈ rec.2, k ∈ keys ∧ (disp k).addr = some rec.1 := by
  unfold delGrouped at h
  obtain ⟨a, _, hm⟩ := List.mem_map.mp h
  subst hm
  intro k hk
  simp only [List.mem_filter, beq_iff_eq] at hk
  exact hk

theorem mem_dedupKeep (a : String) : ∀ l : List String, a ∈ dedupKeep l ↔ a ∈ l
  | [] => by simp [dedupKeep]
  | b :: l => by
    simp only [dedupKeep, List.mem_cons, List.mem_filter, mem_dedupKeep a l]
    by_cases h : a = b <;> simp [h]

theorem nodup_dedupKeep : ∀ l : List String, (dedupKeep l).Nodup
  | [] => by simp [dedupKeep]
  | b :: l => by
    simp only [dedupKeep, List.nodup_cons, List.mem_filter]
    exact ⟨by simp, (nodup_dedupKeep l).sublist List.filter_sublist⟩

/-- **every key of a multi-key `Del` goes to its ring node, in exactly one command; keys without node go nowhere** -/
theorem delGrouped_partition (disp : String → Outcome) (keys : List String) (k : String) (hk : k ∈ keys) :
    (∀ a, (disp k).addr = some a → ∃ ks, (a, ks) ∈ delGrouped disp keys ∧ k ∈ ks) ∧
    ((disp k).addr = none → ∀ rec ∈ delGrouped disp keys, k ∉ rec.2) ∧
    ((delGrouped disp keys).map (·.1)).Nodup := by
  refine ⟨?_, ?_, ?_⟩
  · intro a ha
    refine ⟨keys.filter fun k => (disp k).addr == some a, ?_, ?_⟩
    · unfold delGrouped delNodes
      refine List.mem_map.mpr ⟨a, ?_, rfl⟩
      rw [mem_dedupKeep]
      exact List.mem_filterMap.mpr ⟨k, hk, ha⟩
    · simp [List.mem_filter, hk, ha]
  · intro hn rec hrec hmem
    have := (delGrouped_mem disp keys rec hrec k hmem).2
    rw [hn] at this; cases this
  · unfold delGrouped
    rw [List.map_map]
    show (List.map (fun a => a) (delNodes disp keys)).Nodup
    rw [List.map_id']
    exact nodup_dedupKeep _

/-- the grouped form reaches the same (node, key) pairs as one command per key -/
theorem delGrouped_same_targets (disp : String → Outcome) (keys : List String) (a k : String) :
    (∃ ks, (a, ks) ∈ delGrouped disp keys ∧ k ∈ ks) ↔ (a, [k]) ∈ delPerKey disp keys := by
  constructor
  · rintro ⟨ks, hm, hk⟩
    have := delGrouped_mem disp keys _ hm k hk
    unfold delPerKey
    exact List.mem_filterMap.mpr ⟨k, this.1, by simp [this.2]⟩
  · intro h
    obtain ⟨k', hk', ha, he⟩ := delPerKey_mem disp keys _ h
    simp only [List.cons.injEq, and_true] at he
    subst he
    exact (delGrouped_partition disp keys k hk').1 a ha

/-- every command of a call goes to the node the ring gives for one of the call's strings -/
theorem command_goes_to_dispatched_node (H : Hasher) (inst : UserInst) (user method : String) (strs : List String)
    (rec : String × List String) (h : rec ∈ callCommands H inst user method strs) :
    ∀ k ∈ rec.2, (inst.dispatch H (strKey k)).addr = some rec.1 ∧ k ∈ strs := by
  intro k hk
  unfold callCommands at h
  simp only at h
  split at h
  · split at h
    · have := delGrouped_mem _ strs rec h k hk; exact ⟨this.2, this.1⟩
    · obtain ⟨k', hk', ha, he⟩ := delPerKey_mem _ strs rec h
      rw [he] at hk; simp at hk; subst hk; exact ⟨ha, hk'⟩
  · obtain ⟨k', hk', ha, he⟩ := delPerKey_mem _ _ rec h
    rw [he] at hk; simp at hk; subst hk
    refine ⟨ha, ?_⟩
    unfold callKeys at hk'
    split at hk'
    · exact hk'
    · split at hk'
      · exact List.mem_of_mem_take hk'
      · cases hs : strs[kvKeyIndex method]? with
        | none => rw [hs] at hk'; simp at hk'
        | some x => rw [hs] at hk'; simp at hk'; subst hk'; exact List.mem_of_getElem? hs

/-- **soundness of the `dispatch` monitor**: every command the MODEL issues for a public-method call passes `cmdOk`
against the instance's own ring -/
theorem monitor_sound_dispatch (H : Hasher) (inst : UserInst) (user method : String) (strs : List String)
    (rec : String × List String) (h : rec ∈ callCommands H inst user method strs) :
    cmdOk (fun k => addrText (inst.dispatch H (strKey k))) (multiKey method) (callKeys user method strs) rec = true := by
  have hall := command_goes_to_dispatched_node H inst user method strs rec h
  unfold cmdOk
  by_cases hm : multiKey method = true
  · simp only [hm, if_true, List.all_eq_true]
    intro k hk
    have := (hall k hk).1
    simp [addrText, this]
  · simp only [hm, Bool.false_eq_true, if_false]
    unfold callCommands at h
    simp only [hm, Bool.false_eq_true, if_false] at h
    obtain ⟨k', hk', ha, he⟩ := delPerKey_mem _ _ rec h
    have hlen : (callKeys user method strs).length ≤ 1 := by
      have := call_targets_one_key user H inst method strs (by simpa using hm)
      simpa [callTargets] using this
    match hc : callKeys user method strs, hlen, hk' with
    | [k], _, hk' =>
      simp only [List.mem_singleton] at hk'
      subst hk'
      simp [addrText, ha]
    | [], _, hk' => simp at hk'
    | _ :: _ :: _, hl, _ => simp at hl

/-- **soundness of `member-only` on commands, whole configuration space**: a command of any public method of an
instance built from ANY configuration (weights that fit) goes to a configured node with a positive weight -/
theorem command_to_weighted_node (user : String) (H : Hasher) (conf : List (Node × Int)) (hw : ∀ p ∈ conf, FitsInt p.2)
    (method : String) (strs : List String) (rec : String × List String)
    (h : rec ∈ callCommands H (userNew user H conf) user method strs) (hne : rec.2 ≠ []) :
    ∃ n w, n.repr = rec.1 ∧ lastEntry conf n.repr = some (n, w) ∧ 0 < w := by
  obtain ⟨k, hk⟩ := List.exists_mem_of_ne_nil _ hne
  have ha := (command_goes_to_dispatched_node H _ user method strs rec h k hk).1
  cases hd : (userNew user H conf).dispatch H (strKey k) with
  | node n =>
    rw [hd] at ha
    simp only [Outcome.addr, Option.some.injEq] at ha
    obtain ⟨w, hl, hpos⟩ := user_dispatch_positive_weight user H conf hw (strKey k) n hd
    exact ⟨n, w, ha, hl, hpos⟩
  | none => rw [hd] at ha; simp [Outcome.addr] at ha
  | panic => rw [hd] at ha; simp [Outcome.addr] at ha

/-! ### self-collisions: several virtual nodes of ONE node on the same hash -/

/-- two virtual nodes of the node with repr `r` (among its first `c`) share a hash -/
def SelfCollides (H : Hasher) (r : String) (c : Nat) : Prop := ∃ i j, i < j ∧ j < c ∧ H.point r i = H.point r j

/-- **representation with multiplicities** (every hash function, self-colliding ones included): a hash slot lists a node
once PER virtual node it has there, and `keys` holds the hash once per listed entry -/
theorem self_collision_multiplicity (H : Hasher) (R0 : Int) (ops : List Op) (x : Nat) (r : String) :
    (bucket (run H R0 ops).ring x).countP (isRepr r) = (points H r ((members R0 ops).cnt r)).count x ∧
    (run H R0 ops).keys.count x = (bucket (run H R0 ops).ring x).length :=
  ⟨(inv_run H R0 ops).ring.cnt x r, (inv_run H R0 ops).keys.cnt x⟩

/-- **Remove drops ALL virtual nodes**, also those behind a self-collision and whatever the node's replica count was:
no slot lists the node afterwards -/
theorem remove_drops_every_virtual_node (H : Hasher) (R0 : Int) (ops : List Op) (n : Node) (x : Nat) :
    (bucket (run H R0 (ops ++ [.remove n])).ring x).countP (isRepr n.repr) = 0 := by
  rw [(self_collision_multiplicity H R0 _ x n.repr).1]
  have : (members R0 (ops ++ [.remove n])).cnt n.repr = 0 := by
    unfold members; rw [specRun_snoc]; simp only [specStep]; rw [cnt_del]; simp
  rw [this, points_zero]; rfl

/-- history independence needs no assumption on the hash: in particular it holds when nodes collide with themselves -/
theorem history_independent_with_self_collisions (H : Hasher) (R0 : Int) (ops₁ ops₂ : List Op) (r : String) (c : Nat)
    (_ : SelfCollides H r c)
    (h : ∀ r, (members R0 ops₁).find r = (members R0 ops₂).find r) (k : Node) :
    get H (run H R0 ops₁) k = get H (run H R0 ops₂) k := history_independent H R0 ops₁ ops₂ h k

/-- a hash under which EVERY virtual node lands on slot 7 -/
def constHash : Hasher := Hasher.ofFunc (fun _ => 7)

theorem constHash_self_collides (r : String) : SelfCollides constHash r 2 := ⟨0, 1, by omega, by omega, rfl⟩

set_option maxRecDepth 100000 in
/-- non-vacuity with the colliding hash: 3 + 2 virtual nodes in one slot, listed 3 and 2 times, 5 key entries; after
`Remove` nothing of the node is left and the other node answers; two orders of the same membership agree -/
example :
    (bucket (run constHash 0 [.addR Pinned.n 3, .addR Pinned.x 2]).ring 7).countP (isRepr "n") = 3 ∧
    (run constHash 0 [.addR Pinned.n 3, .addR Pinned.x 2]).keys = [7, 7, 7, 7, 7] ∧
    (bucket (run constHash 0 [.addR Pinned.n 3, .addR Pinned.x 2, .remove Pinned.n]).ring 7).countP (isRepr "n") = 0 ∧
    get constHash (run constHash 0 [.addR Pinned.n 3, .addR Pinned.x 2, .remove Pinned.n]) ⟨"s", "k"⟩ = .node Pinned.x ∧
    get constHash (run constHash 0 [.addR Pinned.n 3, .addR Pinned.x 2]) ⟨"s", "k"⟩
      = get constHash (run constHash 0 [.addR Pinned.x 2, .addR Pinned.n 5, .addR Pinned.n 3]) ⟨"s", "k"⟩ := by decide

/-! ### a panic inside a critical section -/

/-- a failure in the FIRST iteration of `Remove`'s loop leaves the ring as it was -/
theorem partialRemove_zero (H : Hasher) (s : CH) (n : Node) : partialRemove H s n 0 = s := by
  unfold partialRemove; split <;> simp

/-- a hash func that fails on its first call in the insertion loop: only the `nodes` set has changed, every lookup
answers as before -/
theorem partialInsert_zero_get (H : Hasher) (s : CH) (n : Node) (replicas : Int) (k : Node) :
    get H (partialInsert H s n replicas 0 false) k = get H s k := by
  unfold partialInsert
  simp [get, getRest, points]

/-- … so a hash func that fails on the very first call of an `Add` of a NEW node changes no answer -/
theorem hashFault_first_call_new_node (H : Hasher) (R0 : Int) (ops : List Op) (n : Node) (replicas : Int) (k : Node)
    (hnew : (run H R0 ops).nodes.contains n.repr = false) :
    get H (stepHashFault H (run H R0 ops) n replicas 0) k = get H (run H R0 ops) k := by
  unfold stepHashFault
  simp only [hnew, Bool.false_eq_true, if_false, Nat.not_lt_zero, Nat.sub_zero]
  rw [partialInsert_zero_get]
  unfold remove
  rw [hnew]; rfl

set_option maxRecDepth 100000 in
/-- **witness: a later failure inside the insertion loop breaks the property.** The final `sort.Slice` is not reached, the
key slice stays unsorted, and a lookup is answered differently from a ring built from the same virtual nodes (`x` with
4 virtual nodes and `n` with 2): the implementation offers no recovery (found by the model, reproduced by the harness
op `hadd`). A hash func (and `String()` of stored nodes) must therefore not panic: an assumption of the property. -/
theorem hash_panic_in_insertion_breaks_property :
    (stepHashFault Pinned.W (run Pinned.W 0 [.addR Pinned.x 4]) Pinned.n 3 2).keys.Pairwise (· ≤ ·) = False ∨
    (stepHashFault Pinned.W (run Pinned.W 0 [.addR Pinned.x 4]) Pinned.n 3 2).keys
      ≠ (run Pinned.W 0 [.addR Pinned.x 4, .addR Pinned.n 2]).keys := by
  right; decide

end GoZero.C15
