/-
C15 — the behaviour of core/hash/consistenthash.go as it was pinned (before
fixes/C15-remove-owned-replicas-ordered-buckets.patch), kept for the witness theorems:
  * `Remove` looped over all `h.replicas` labels, deleted a key entry whenever the label's hash was present
    in `h.keys` (whoever owned it) and filtered the node out of the bucket;
  * `AddWithReplicas` appended to the bucket (insertion order).
Everything else (`Get`, clamps, labels) is shared with `Model.lean`.
-/
import GoZero.C15.Spec
namespace GoZero.C15.Pinned
open GoZero.C15

def removePoint (s : CH) (x : Nat) (r : String) : CH :=
  { s with keys := removeKey s.keys x,
           ring := setBucket s.ring x ((bucket s.ring x).filter (fun m => m.repr != r)) }

def remove (H : Hasher) (s : CH) (n : Node) : CH :=
  if s.nodes.contains n.repr then
    let s' := (List.range s.replicas).foldl (fun s i => removePoint s (H.point n.repr i) n.repr) s
    { s' with nodes := s'.nodes.erase n.repr }
  else s

def addWithReplicas (H : Hasher) (s : CH) (n : Node) (replicas : Int) : CH :=
  let s := remove H s n
  let pts := points H n.repr (clampReplicas s.replicas replicas)
  { s with nodes := if s.nodes.contains n.repr then s.nodes else n.repr :: s.nodes,
           keys := sortKeys (s.keys ++ pts),
           ring := pts.foldl (fun ring x => setBucket ring x (bucket ring x ++ [n])) s.ring }

def step (H : Hasher) (s : CH) : Op → CH
  | .add n => addWithReplicas H s n s.replicas
  | .addR n r => addWithReplicas H s n r
  | .addW n w => addWithReplicas H s n (weightReplicas s.replicas w)
  | .remove n => remove H s n

def run (H : Hasher) (replicas : Int) (ops : List Op) : CH := ops.foldl (step H) (CH.new replicas)

/-- a toy polynomial string hash; the witnesses below only need that equal labels hash equally
(`"n" ++ "10" = "n1" ++ "0"`), which holds for every hash function, murmur3 included. -/
def polyHash (s : String) : Nat := s.toList.foldl (fun h c => (h * 131 + c.toNat) % 1000003) 7

def W : Hasher := Hasher.ofFunc polyHash

def n : Node := ⟨"s", "n"⟩
def n1 : Node := ⟨"s", "n1"⟩
def x : Node := ⟨"s", "x"⟩

end GoZero.C15.Pinned
