/-
C15 — Tie: what the extractor read from core/hash/consistenthash.go (and hash.go) *now* equals what the
model was written against.  A failing obligation here means the code moved away from the model.
-/
import GoZero.Extracted.C15
import GoZero.C15.Proofs2
import GoZero.C15.ReprProofs
import GoZero.C15.Props4
namespace GoZero.C15.Tie
open GoZero.C15

theorem extraction_clean : GoZero.Extracted.C15.extractionErrors = [] := by decide

/-! ### constants, with the property's literal numbers -/

theorem tie_topWeight : GoZero.Extracted.C15.topWeight = 100 ∧ GoZero.C15.topWeight = 100 := by decide
theorem tie_minReplicas : GoZero.Extracted.C15.minReplicas = 100 ∧ (GoZero.C15.minReplicas : Int) = 100 := by decide
theorem tie_prime : GoZero.Extracted.C15.prime = 16777619 ∧ (GoZero.C15.prime : Int) = 16777619 := by decide

/-! ### the integer arithmetic, translated from the source, equals the model's for all arguments -/

/-- `NewCustomConsistentHash`: replicas below `minReplicas` are raised to it (model: `CH.new`). -/
theorem tie_newReplicas (replicas : Int) :
    GoZero.Extracted.C15.newReplicas replicas GoZero.Extracted.C15.minReplicas = ((CH.new replicas).replicas : Int) := by
  unfold GoZero.Extracted.C15.newReplicas CH.new GoZero.Extracted.C15.minReplicas GoZero.C15.minReplicas
  by_cases h : replicas < 100
  · simp [h]
  · simp [h]; omega

/-- `AddWithReplicas`: replicas are clamped from above only; what the loop `i < replicas` executes is the
model's `clampReplicas` (negative counts run the loop zero times). -/
theorem tie_clampReplicas (R : Nat) (replicas : Int) :
    (GoZero.Extracted.C15.clampReplicas replicas (R : Int)).toNat = GoZero.C15.clampReplicas R replicas := by
  unfold GoZero.Extracted.C15.clampReplicas GoZero.C15.clampReplicas
  by_cases h : replicas > (R : Int) <;> simp [h]

/-- a product that fits a Go `int` is not changed by the wrap-around -/
theorem wrapInt_id (x : Int) (h : -9223372036854775808 ≤ x ∧ x < 9223372036854775808) : wrapInt x = x := by
  unfold wrapInt; omega

/-- the wrap-around always lands in the range of a Go `int` and is congruent to the product mod 2^64 -/
theorem wrapInt_range (x : Int) :
    -9223372036854775808 ≤ wrapInt x ∧ wrapInt x < 9223372036854775808 ∧
      (wrapInt x - x) % 18446744073709551616 = 0 := by
  unfold wrapInt; omega

/-- `AddWithWeight`: `h.replicas * weight / TopWeight` with Go's truncating division — the translated
expression equals the model's wherever the product fits an `int` … -/
theorem tie_weightReplicas (R : Nat) (weight : Int)
    (h : -9223372036854775808 ≤ (R : Int) * weight ∧ (R : Int) * weight < 9223372036854775808) :
    GoZero.Extracted.C15.weightReplicas weight (R : Int) GoZero.Extracted.C15.topWeight = GoZero.C15.weightReplicas R weight := by
  unfold GoZero.Extracted.C15.weightReplicas GoZero.C15.weightReplicas GoZero.Extracted.C15.topWeight GoZero.C15.topWeight
  rw [wrapInt_id _ h]

/-- … and in general it is the translated division applied to the wrapped product (Go `int` is 64 bit). -/
theorem tie_weightReplicas_overflow (R : Nat) (weight : Int) :
    GoZero.Extracted.C15.weightReplicas (wrapInt ((R : Int) * weight)) 1 GoZero.Extracted.C15.topWeight
      = GoZero.C15.weightReplicas R weight := by
  unfold GoZero.Extracted.C15.weightReplicas GoZero.C15.weightReplicas GoZero.Extracted.C15.topWeight GoZero.C15.topWeight
  rw [Int.one_mul]

/-- the statement the formula was translated from (operand order, operators, the constant's name) -/
theorem tie_weightStmt : GoZero.Extracted.C15.weightStmt = ["replicas := h.replicas * weight / TopWeight"] := rfl

/-- the documented meaning of a weight: `w` percent of the ring's replicas, for 0 ≤ w ≤ 100 on the default ring -/
theorem weight_is_percent (w : Nat) (hw : w ≤ 100) :
    GoZero.C15.clampReplicas 100 (GoZero.C15.weightReplicas 100 w) = w := by
  unfold GoZero.C15.clampReplicas GoZero.C15.weightReplicas GoZero.C15.topWeight
  rw [wrapInt_id _ (by omega)]
  have : Int.tdiv ((100 : Nat) * (w : Int)) 100 = (w : Int) := by
    rw [Int.tdiv_eq_ediv_of_nonneg (by omega)]; omega
  rw [this]
  split <;> omega

/-- weights above `TopWeight` give the full replica count (clamped by `AddWithReplicas`), weights ≤ 0 none,
as long as the product does not overflow -/
theorem weight_clamped (R : Nat) (hR : 100 ≤ R) (w : Int) (hw : 100 ≤ w)
    (h : (R : Int) * w < 9223372036854775808) :
    GoZero.C15.clampReplicas R (GoZero.C15.weightReplicas R w) = R := by
  unfold GoZero.C15.clampReplicas GoZero.C15.weightReplicas GoZero.C15.topWeight
  have hpos : 0 ≤ (R : Int) * w := Int.mul_nonneg (by omega) (by omega)
  rw [wrapInt_id _ ⟨by omega, h⟩, Int.tdiv_eq_ediv_of_nonneg hpos]
  have : (R : Int) * 100 ≤ (R : Int) * w := Int.mul_le_mul_of_nonneg_left hw (by omega)
  have : (R : Int) ≤ (R : Int) * w / 100 := by omega
  split <;> omega

theorem weight_nonpositive (R : Nat) (w : Int) (hw : w ≤ 0) (h : -9223372036854775808 ≤ (R : Int) * w) :
    GoZero.C15.clampReplicas R (GoZero.C15.weightReplicas R w) = 0 := by
  unfold GoZero.C15.clampReplicas GoZero.C15.weightReplicas GoZero.C15.topWeight
  have hneg : (R : Int) * w ≤ 0 := Int.mul_nonpos_of_nonneg_of_nonpos (by omega) hw
  rw [wrapInt_id _ ⟨h, by omega⟩]
  have : Int.tdiv ((R : Int) * w) 100 ≤ 0 := by
    generalize (R : Int) * w = x at hneg
    have e : x = -(-x) := by omega
    rw [e, Int.neg_tdiv]
    have := Int.tdiv_nonneg (show 0 ≤ -x by omega) (show (0:Int) ≤ 100 by omega)
    omega
  split <;> omega

/-- overflow is real: on the default ring (100 replicas) a weight of 92233720368547759 (> 2^63/100) wraps to
a negative product and the node gets NO virtual node, although the weight is positive. -/
theorem weight_overflow_witness :
    GoZero.C15.clampReplicas 100 (GoZero.C15.weightReplicas 100 92233720368547759) = 0 ∧
    GoZero.C15.clampReplicas 128 (GoZero.C15.weightReplicas 128 144115188075855873) = 1 := by decide

/-! ### skeletons and the expressions that decide what is hashed, searched and ordered -/

theorem tie_newDefaultShape : GoZero.Extracted.C15.newDefaultShape = [
  "call NewCustomConsistentHash",
  "return"] := rfl

/-- `NewConsistentHash` is `NewCustomConsistentHash(minReplicas, Hash)`: the model's `CH.new 100` with murmur3 -/
theorem tie_newDefaultExprs : GoZero.Extracted.C15.newDefaultExprs = [
  "ret:return NewCustomConsistentHash(minReplicas, Hash)",
  "call:NewCustomConsistentHash(minReplicas, Hash)"] := rfl

/-- the lower clamp, the nil-hash default -/
theorem tie_newCustomShape : GoZero.Extracted.C15.newCustomShape = [
  "if replicas < minReplicas {",
  "}",
  "if fn == nil {",
  "}",
  "return"] := rfl

/-- a fresh ring: the clamped replicas, empty maps, no keys -/
theorem tie_newCustomExprs : GoZero.Extracted.C15.newCustomExprs = [
  "ret:return &ConsistentHash{ hashFunc: fn, replicas: replicas, ring: make(map[uint64][]any), nodes: make(map[string]lang.PlaceholderType), }"] := rfl

theorem tie_addShape : GoZero.Extracted.C15.addShape = [
  "call h.AddWithReplicas"] := rfl

/-- `Add` passes `h.replicas` -/
theorem tie_addExprs : GoZero.Extracted.C15.addExprs = [
  "call:h.AddWithReplicas(node, h.replicas)"] := rfl

/-! `AddWithReplicas` / `Remove` exist in two accepted forms:
  * TWO critical sections (the tree as it is): `AddWithReplicas` calls `Remove(node)` — lock, body, unlock — and
    then takes the lock again for the insertion; readers can run in between (`Conc.step … false`);
  * ONE critical section (after fixes/C15-add-single-critical-section.patch): the body of Remove is
    `removeLocked`, called by both under the lock (`Conc.step … true`).
In both the removal loop and the insertion are the same statements in the same order. -/

/-- the body of the removal: absent → no-op; loop `i < h.replicas` { hash label; if !removeRingNode → continue;
lower-bound search; delete one key entry }; removeNode -/
def removalBodyShape : List String := [
  "if !h.containsNode(nodeRepr) {",
  "return",
  "}",
  "for i < h.replicas {",
  "call ?",
  "call h.hashFunc",
  "if !h.removeRingNode(hash, nodeRepr) {",
  "continue",
  "}",
  "func{",
  "return",
  "}",
  "call sort.Search",
  "if index < len(h.keys) && h.keys[index] == hash {",
  "store h.keys",
  "}",
  "}",
  "call h.removeNode"]

def removalBodyExprs : List String := [
  "call:h.containsNode(nodeRepr)",
  "hash:[]byte(nodeRepr + strconv.Itoa(i))",
  "call:h.removeRingNode(hash, nodeRepr)",
  "search:len(h.keys):h.keys[i] >= hash",
  "set:h.keys = append(h.keys[:index], h.keys[index+1:]...)",
  "call:h.removeNode(nodeRepr)"]

def lockPrefix : List String := [
  "call repr",
  "call h.lock.Lock",
  "defer{",
  "call h.lock.Unlock",
  "}"]

/-- addNode, loop `i < replicas` { hash label; append key; insertRingNode }, sort keys -/
def insertionShape : List String := [
  "call h.addNode",
  "for i < replicas {",
  "call ?",
  "call h.hashFunc",
  "store h.keys",
  "call insertRingNode",
  "mapset h.ring",
  "}",
  "func{",
  "return",
  "}",
  "call sort.Slice"]

/-- label format `nodeRepr + strconv.Itoa(i)`; bucket := insertRingNode(bucket, node); keys sorted ascending -/
def insertionExprs : List String := [
  "call:h.addNode(nodeRepr)",
  "hash:[]byte(nodeRepr + strconv.Itoa(i))",
  "set:h.keys = append(h.keys, hash)",
  "set:h.ring[hash] = insertRingNode(h.ring[hash], node, nodeRepr)",
  "call:insertRingNode(h.ring[hash], node, nodeRepr)",
  "less:h.keys:h.keys[i] < h.keys[j]"]

def clampShape : List String := ["if replicas > h.replicas {", "}"]

/-- the tree as it is: Remove (own critical section) first, upper clamp, lock, insertion -/
def TwoSections : Prop :=
  GoZero.Extracted.C15.addWithReplicasShape = ["call h.Remove"] ++ clampShape ++ lockPrefix ++ insertionShape ∧
  GoZero.Extracted.C15.addWithReplicasExprs = ["call:h.Remove(node)"] ++ insertionExprs ∧
  GoZero.Extracted.C15.removeShape = lockPrefix ++ removalBodyShape ∧
  GoZero.Extracted.C15.removeExprs = removalBodyExprs ∧
  GoZero.Extracted.C15.removeLockedShape = ["ABSENT"]

/-- after the fix: upper clamp, lock, removal body, insertion — one critical section -/
def OneSection : Prop :=
  GoZero.Extracted.C15.addWithReplicasShape = clampShape ++ lockPrefix ++ ["call h.removeLocked"] ++ insertionShape ∧
  GoZero.Extracted.C15.addWithReplicasExprs = ["call:h.removeLocked(nodeRepr)"] ++ insertionExprs ∧
  GoZero.Extracted.C15.removeShape = lockPrefix ++ ["call h.removeLocked"] ∧
  GoZero.Extracted.C15.removeExprs = ["call:h.removeLocked(nodeRepr)"] ∧
  GoZero.Extracted.C15.removeLockedShape = removalBodyShape ∧
  GoZero.Extracted.C15.removeLockedExprs = removalBodyExprs

instance : Decidable TwoSections := by unfold TwoSections; exact inferInstance
instance : Decidable OneSection := by unfold OneSection; exact inferInstance

theorem tie_critical_sections : TwoSections ∨ OneSection := by decide

theorem tie_addWithWeightShape : GoZero.Extracted.C15.addWithWeightShape = [
  "call h.AddWithReplicas"] := rfl

/-- the weight formula feeds AddWithReplicas -/
theorem tie_addWithWeightExprs : GoZero.Extracted.C15.addWithWeightExprs = [
  "call:h.AddWithReplicas(node, replicas)"] := rfl

/-- first entry with that repr only; bucket deleted when it was the last; reports whether one was removed -/
theorem tie_removeRingNodeShape : GoZero.Extracted.C15.removeRingNodeShape = [
  "range nodes {",
  "if repr(x) != nodeRepr {",
  "continue",
  "}",
  "if len(nodes) > 1 {",
  "mapset h.ring",
  "}",
  "else{",
  "delete h.ring",
  "}",
  "return",
  "}",
  "return"] := rfl

/-- the entry is cut out; true / false -/
theorem tie_removeRingNodeExprs : GoZero.Extracted.C15.removeRingNodeExprs = [
  "set:h.ring[hash] = append(nodes[:i], nodes[i+1:]...)",
  "set:delete(h.ring, hash)",
  "ret:return true",
  "ret:return false"] := rfl

/-- search position, shift, store -/
theorem tie_insertRingNodeShape : GoZero.Extracted.C15.insertRingNodeShape = [
  "func{",
  "call repr",
  "return",
  "}",
  "call sort.Search",
  "call copy",
  "mapset nodes",
  "return"] := rfl

/-- insert before the first entry with a greater repr (model: `insertNode`) -/
theorem tie_insertRingNodeExprs : GoZero.Extracted.C15.insertRingNodeExprs = [
  "search:len(nodes):repr(nodes[i]) > nodeRepr",
  "ret:return nodes"] := rfl

/-- empty ring → none; hash repr; search; bucket by key; switch on bucket length; inner hash for len ≥ 2 -/
theorem tie_getShape : GoZero.Extracted.C15.getShape = [
  "call h.lock.RLock",
  "defer{",
  "call h.lock.RUnlock",
  "}",
  "if len(h.ring) == 0 {",
  "return",
  "}",
  "call repr",
  "call ?",
  "call h.hashFunc",
  "func{",
  "return",
  "}",
  "call sort.Search",
  "switch len(nodes) {",
  "case 0:",
  "return",
  "case 1:",
  "return",
  "default:",
  "call innerRepr",
  "call ?",
  "call h.hashFunc",
  "call uint64",
  "return",
  "}"] := rfl

/-- hash of `repr(v)`, `% len(h.keys)`, lower-bound search, inner hash of `innerRepr(v)`, `% len(nodes)` -/
theorem tie_getExprs : GoZero.Extracted.C15.getExprs = [
  "ret:return nil, false",
  "hash:[]byte(repr(v))",
  "mod:sort.Search(len(h.keys), func(i int) bool { return h.keys[i] >= hash }) % len(h.keys)",
  "search:len(h.keys):h.keys[i] >= hash",
  "ret:return nil, false",
  "ret:return nodes[0], true",
  "hash:[]byte(innerRepr(v))",
  "mod:innerIndex % uint64(len(nodes))",
  "ret:return nodes[pos], true"] := rfl

theorem tie_innerReprShape : GoZero.Extracted.C15.innerReprShape = [
  "return"] := rfl

/-- `"%d:%v"` of prime and the value (model: `innerRepr`) -/
theorem tie_innerReprExprs : GoZero.Extracted.C15.innerReprExprs = [
  "ret:return fmt.Sprintf(\"%d:%v\", prime, node)",
  "fmt:fmt.Sprintf(\"%d:%v\", prime, node)"] := rfl

theorem tie_reprShape : GoZero.Extracted.C15.reprShape = [
  "return"] := rfl

/-- nodes and keys are identified by `lang.Repr` -/
theorem tie_reprExprs : GoZero.Extracted.C15.reprExprs = [
  "ret:return lang.Repr(node)",
  "call:lang.Repr(node)"] := rfl

/-! ### the users named by the property's anchors: how they build the ring and dispatch a key -/

/-- cache.New: fatal without a positive total weight; ONE node → the node itself, no ring; otherwise
`NewConsistentHash()` and, in configuration order, `AddWithWeight(NewNode(…), node.Weight)` with the raw
configured weight; every method of cacheCluster dispatches its key with `cc.dispatcher.Get(key)`; the ring
is never modified afterwards (no Add / Remove call on a dispatcher anywhere in the file). -/
theorem tie_cacheUsers : GoZero.Extracted.C15.cacheUsers = [
  "New:if:len(c) == 0 || TotalWeights(c) <= 0",
  "New:if:len(c) == 1",
  "New:hash.NewConsistentHash()",
  "New:range:_,node:=c",
  "New:cn := NewNode(redis.MustNewRedis(node.RedisConf), barrier, st, errNotFound, opts...)",
  "New:dispatcher.AddWithWeight(cn, node.Weight)",
  "DelCtx:cc.dispatcher.Get(key)",
  "DelCtx:cc.dispatcher.Get(key)",
  "GetCtx:cc.dispatcher.Get(key)",
  "SetCtx:cc.dispatcher.Get(key)",
  "SetWithExpireCtx:cc.dispatcher.Get(key)",
  "TakeCtx:cc.dispatcher.Get(key)",
  "TakeWithExpireCtx:cc.dispatcher.Get(key)"] := rfl

/-- kv.NewStore: always a ring (one node too), `AddWithWeight(redis.MustNewRedis(…), node.Weight)` in
configuration order; `getRedis` dispatches with `cs.dispatcher.Get(key)`. -/
theorem tie_kvUsers : GoZero.Extracted.C15.kvUsers = [
  "NewStore:if:len(c) == 0 || cache.TotalWeights(c) <= 0",
  "NewStore:hash.NewConsistentHash()",
  "NewStore:range:_,node:=c",
  "NewStore:cn := redis.MustNewRedis(node.RedisConf)",
  "NewStore:dispatcher.AddWithWeight(cn, node.Weight)",
  "getRedis:cs.dispatcher.Get(key)"] := rfl

/-- kv glue: EVERY method of clusterStore that dispatches does so with its `key` parameter, unchanged (64 call
sites today; a new method is covered as soon as it exists), and `getRedis` hands that key to the ring and returns the
ring's answer (`ErrNoRedisNode` when the ring says none) -/
theorem tie_kvMethodsDispatchByKey :
    (GoZero.Extracted.C15.kvDispatchArgs.all fun a => a == "key") = true ∧
    GoZero.Extracted.C15.kvDispatchArgs.length ≥ 60 ∧
    GoZero.Extracted.C15.kvGetRedisBody = [
      "val, ok := cs.dispatcher.Get(key)",
      "if !ok { return nil, ErrNoRedisNode }",
      "return val.(*redis.Redis), nil"] := by decide

/-- the repr of both node types is the redis address (`lang.Repr` calls `String()`) -/
theorem tie_userReprs : GoZero.Extracted.C15.cacheNodeStringExprs = ["ret:return c.rds.Addr"] ∧
    GoZero.Extracted.C15.redisStringExprs = ["ret:return s.Addr"] := ⟨rfl, rfl⟩

/-- TotalWeights clamps negative weights in ITS copy only: AddWithWeight receives the raw weight -/
theorem tie_totalWeightsShape : GoZero.Extracted.C15.totalWeightsShape = [
  "range c {",
  "if node.Weight < 0 {",
  "store node.Weight",
  "}",
  "}",
  "return"] := rfl

/-! ### decision conditions on the property's path, LIFTED from the source into Lean functions (round 4)

The extractor takes the condition / expression as it stands in the AST, replaces the non-integer leaves
(`h.keys[i]` ↦ k, `hash` ↦ x, `len(h.keys)` ↦ n, the `sort.Search(…)` call ↦ idx, `repr(…)` ↦ an integer code of
the string) and translates it (extract/translate.go).  The theorems below state, for ALL arguments, that the
lifted function IS what the model computes: operator, operand order, constant. -/

section Conditions
open GoZero.Extracted.C15

/-- `Get`: `sort.Search(len(h.keys), h.keys[i] >= hash)` is the model's `searchGE` … -/
theorem tie_condGetSearch (keys : List Nat) (x : Nat) :
    searchGE keys x = (keys.takeWhile fun (k : Nat) => condGetSearch (k : Int) (x : Int) == 0).length := by
  have e : (fun (k : Nat) => condGetSearch (k : Int) (x : Int) == 0) = (fun k => decide (k < x)) := by
    funext k
    unfold condGetSearch
    by_cases h : k < x
    · have : ¬ ((k : Int) ≥ (x : Int)) := by omega
      simp [h, this]
    · have : ((k : Int) ≥ (x : Int)) := by omega
      simp [h, this]
  rw [e]
  rfl

/-- … `% len(h.keys)` is the model's wrap-around (`getRest`): index of the first virtual node ≥ the key's hash, the
first one again beyond the last … -/
theorem tie_exprGetWrap (keys : List Nat) (x : Nat) :
    exprGetWrap ((keys.takeWhile fun (k : Nat) => condGetSearch (k : Int) (x : Int) == 0).length : Nat) (keys.length : Nat)
      = ((searchGE keys x % keys.length : Nat) : Int) := by
  rw [← tie_condGetSearch]
  unfold exprGetWrap
  rw [Int.tmod_eq_emod_of_nonneg (by omega)]
  exact Int.ofNat_mod_ofNat _ _

/-- … the test for the empty ring is `len(h.ring) == 0` (model: `s.ring.isEmpty`) … -/
theorem tie_condGetEmpty (s : CH) : condGetEmpty (s.ring.length : Nat) = 1 ↔ s.ring.isEmpty = true := by
  unfold condGetEmpty
  cases s.ring <;> simp
  omega

/-- … and the position inside a collision bucket is `innerIndex % len(nodes)` (model: `H.inner … % b.length`). -/
theorem tie_exprGetInner (hv n : Nat) : exprGetInner (hv : Int) (n : Int) = ((hv % n : Nat) : Int) := by
  unfold exprGetInner
  rw [Int.tmod_eq_emod_of_nonneg (by omega)]
  exact Int.ofNat_mod_ofNat _ _

/-- `Get` distinguishes the bucket sizes 0 (none), 1 (that node) and the rest (inner hash): model `getRest`'s match
on `[]`, `[n]`, `_` -/
theorem tie_getSwitch : getSwitchTag = "len(nodes)" ∧ getSwitchCases = [0, 1] ∧ getSwitchHasDefault = true :=
  ⟨rfl, rfl, rfl⟩

/-- `Remove`: the same lower-bound search … -/
theorem tie_condRemoveSearch (k x : Int) : condRemoveSearch k x = condGetSearch k x := rfl

/-- … `index < len(h.keys) && h.keys[index] == hash` is the model's `keys[i]? = some x` (`removeKey`) … -/
theorem tie_condRemoveFound (keys : List Nat) (i x : Nat) :
    condRemoveFound (i : Int) (keys.length : Nat) ((keys.getD i 0 : Nat) : Int) (x : Int) = 1 ↔ keys[i]? = some x := by
  unfold condRemoveFound
  by_cases h : i < keys.length
  · have h1 : ((i : Int) < ((keys.length : Nat) : Int)) := by omega
    simp only [List.getD_eq_getElem?_getD, List.getElem?_eq_getElem h, Option.getD_some, h1, decide_true, Bool.true_and,
      Option.some.injEq]
    by_cases e : keys[i] = x
    · simp [e]
    · have : ¬ ((keys[i] : Int) = (x : Int)) := by omega
      simp [e, this]
  · have h1 : ¬ ((i : Int) < ((keys.length : Nat) : Int)) := by omega
    have h2 : keys[i]? = none := List.getElem?_eq_none (by omega)
    simp [h1, h2]

/-- … and the loops run `i = 0 … h.replicas-1` / `0 … replicas-1` (none for a non-positive count): the model's
`List.range`. -/
theorem tie_condRemoveLoop (i R : Nat) : condRemoveLoop (i : Int) (R : Int) = 1 ↔ i ∈ List.range R := by
  unfold condRemoveLoop
  by_cases h : i < R
  · have : (i : Int) < (R : Int) := by omega
    simp [h, this]
  · have : ¬ (i : Int) < (R : Int) := by omega
    simp [h, this]

theorem tie_condAddLoop (i : Nat) (replicas : Int) : condAddLoop (i : Int) replicas = 1 ↔ i ∈ List.range replicas.toNat := by
  unfold condAddLoop
  by_cases h : (i : Int) < replicas
  · have : i < replicas.toNat := by omega
    simp [h, this]
  · have : ¬ i < replicas.toNat := by omega
    simp [h, this]

/-- `removeRingNode` skips entries whose repr DIFFERS (a, b: any injective integer code of the two strings) … -/
theorem tie_condRingNodeOther (a b : Int) : condRingNodeOther a b = 1 ↔ a ≠ b := by
  unfold condRingNodeOther
  by_cases h : a = b <;> simp [h]

/-- … and keeps the bucket iff another entry remains (model: `setBucket` deletes the hash when the bucket becomes
empty). -/
theorem tie_condRingNodeKeep (b : List Node) (m : Node) :
    condRingNodeKeep (((m :: b).length : Nat) : Int) = 1 ↔ b.isEmpty = false := by
  unfold condRingNodeKeep
  cases b <;> simp
  omega

/-- keys are sorted ascending (`<`) … -/
theorem tie_condKeyLess (a b : Nat) : condKeyLess (a : Int) (b : Int) = 1 ↔ a < b := by
  unfold condKeyLess
  by_cases h : a < b
  · have : (a : Int) < (b : Int) := by omega
    simp [h, this]
  · have : ¬ (a : Int) < (b : Int) := by omega
    simp [h, this]

/-- … and a node is inserted before the first entry whose repr is GREATER (model `insertNode`: `n.repr < m.repr`). -/
theorem tie_condInsertBefore (existing new : Int) : condInsertBefore existing new = 1 ↔ new < existing := by
  unfold condInsertBefore
  by_cases h : new < existing
  · have : existing > new := h
    simp [h, this]
  · have : ¬ existing > new := h
    simp [h, this]

/-- users: fatal without nodes or without a positive total weight; cache.New with exactly one node builds no ring;
`TotalWeights` counts a negative weight as zero -/
theorem tie_condUsers (n tw w : Int) :
    (condCacheNoNode n tw = 1 ↔ n = 0 ∨ tw ≤ 0) ∧ (condKvNoNode n tw = 1 ↔ n = 0 ∨ tw ≤ 0) ∧
    (condCacheSingle n = 1 ↔ n = 1) ∧ (condNegWeight w = 1 ↔ w < 0) := by
  unfold condCacheNoNode condKvNoNode condCacheSingle condNegWeight
  refine ⟨?_, ?_, ?_, ?_⟩
  · by_cases h1 : n = 0 <;> by_cases h2 : tw ≤ 0 <;> simp [h1, h2]
  · by_cases h1 : n = 0 <;> by_cases h2 : tw ≤ 0 <;> simp [h1, h2]
  · by_cases h1 : n = 1 <;> simp [h1]
  · by_cases h1 : w < 0 <;> simp [h1]

end Conditions

/-! ### round 5: the users' constructors and entry points -/

/-- **`TotalWeights` as arithmetic**: the loop body translated from the source (negative weight counts as 0, then
`weights += …`), wrapped to a Go `int`, is the model's `totalWeightsStep`, for all arguments -/
theorem tie_totalWeightsStep (acc w : Int) :
    wrapInt (GoZero.Extracted.C15.totalWeightsStep acc w) = GoZero.C15.totalWeightsStep acc w := by
  unfold GoZero.Extracted.C15.totalWeightsStep GoZero.C15.totalWeightsStep
  by_cases h : w < 0 <;> simp [h]

/-- … started at 0, applied to every entry in order, and returned (model: `totalWeights`, a `foldl`) -/
theorem tie_totalWeightsFrame : GoZero.Extracted.C15.totalWeightsFrame = [
  "var weights int",
  "range _,node:=c",
  "return weights"] := rfl

/-- the constructors' refusal is `log.Fatal` (the process ends: model `UserInst.fatal`), cache.New's shortcut returns
the node built from entry 0 of a ONE-entry configuration -/
theorem tie_userBranches :
    GoZero.Extracted.C15.cacheFatalBranch = ["log.Fatal(\"no cache nodes\")"] ∧
    GoZero.Extracted.C15.kvFatalBranch = ["log.Fatal(\"no cache nodes\")"] ∧
    GoZero.Extracted.C15.cacheSingleBranch =
      ["return NewNode(redis.MustNewRedis(c[0].RedisConf), barrier, st, errNotFound, opts...)"] := ⟨rfl, rfl, rfl⟩

/-- **semantic tie of the constructors' decisions**: the lifted conditions of the source, applied to `len(c)` and the
model's `totalWeights`, decide exactly like the model's `userFatal` / the one-entry match of `cacheNew` -/
theorem tie_userFatal (conf : List (Node × Int)) :
    (userFatal conf = true ↔ GoZero.Extracted.C15.condCacheNoNode (conf.length : Nat) (totalWeights conf) = 1) ∧
    (userFatal conf = true ↔ GoZero.Extracted.C15.condKvNoNode (conf.length : Nat) (totalWeights conf) = 1) ∧
    ((∃ p, conf = [p]) ↔ GoZero.Extracted.C15.condCacheSingle (conf.length : Nat) = 1) := by
  have hc := tie_condUsers (conf.length : Nat) (totalWeights conf) 0
  refine ⟨?_, ?_, ?_⟩
  · rw [hc.1]; unfold userFatal; simp
  · rw [hc.2.1]; unfold userFatal; simp
  · rw [hc.2.2.1]
    constructor
    · rintro ⟨p, rfl⟩; rfl
    · intro h
      match conf, h with
      | [p], _ => exact ⟨p, rfl⟩
      | [], h => simp at h
      | _ :: _ :: _, h => simp at h; omega

/-- a delegating entry point `X(p₁,…,pₙ)` is `return <recv>.XCtx(context.Background(), p₁,…,pₙ)`: same method, every
parameter forwarded, in order (a dropped, swapped or replaced argument breaks this) -/
def wrapperOk (recv : String) (e : String × List String × List String × String × List String) : Bool :=
  e.2.2.1 == [] || e.2.2.2.1 == "" ||
    (e.2.2.2.1 == recv ++ "." ++ e.1 ++ "Ctx" && e.2.2.2.2 == "context.Background()" :: e.2.1) ||
    -- a Ctx method built on another Ctx method of the same receiver (`ZaddCtx` → `ZaddFloatCtx`): the context first,
    -- the string parameters forwarded unchanged and in order
    (e.1.toList.reverse.take 3 == ['x', 't', 'C'] && e.2.2.2.1.toList.take 3 == (recv ++ ".").toList &&
      e.2.2.2.2.head? == some "ctx" &&
      e.2.2.2.2.filter (e.2.2.1.contains ·) == e.2.2.1)

/-- the key parameter is where the model (`kvKeyIndex`, `multiKey`) looks for it among the string parameters -/
def keyParamOk (e : String × List String × List String × String × List String) : Bool :=
  e.2.2.1 == [] ||
    (if e.2.2.1 == ["keys..."] then multiKey e.1 else e.2.2.1[kvKeyIndex e.1]? == some "key" && !multiKey e.1)

set_option maxRecDepth 100000 in
/-- **kv: all 130 entry points (and getRedis)** — every non-Ctx method forwards all its parameters to its Ctx variant, and the key the
model dispatches by is the method's `key` parameter (second string of `Eval`, first of all others; every key of `Del`) -/
theorem tie_kvEntryPoints :
    (GoZero.Extracted.C15.kvMethods.all fun e => wrapperOk "cs" e && keyParamOk e) = true ∧
    GoZero.Extracted.C15.kvMethods.length ≥ 131 := by decide

set_option maxRecDepth 100000 in
/-- **cache: all entry points** of cacheCluster likewise; their only string parameter is the key (`keys...` for `Del`) -/
theorem tie_cacheEntryPoints :
    (GoZero.Extracted.C15.cacheMethods.all fun e => wrapperOk "cc" e && keyParamOk e &&
      (e.2.2.1 == [] || e.2.2.1 == ["key"] || e.2.2.1 == ["keys..."])) = true ∧
    GoZero.Extracted.C15.cacheMethods.length = 13 := by decide

/-! ### round 5e: the delegating wrappers as functions of their arguments -/

/-- **`AddWithWeight` ALWAYS delegates**, with `h.replicas * weight / TopWeight`: the whole body, translated, hands exactly
the model's `weightReplicas` to `AddWithReplicas` for every weight whose product fits an `int` — in particular it never
returns without the call (-2^62), so the `Remove` inside `AddWithReplicas` runs also for weights ≤ 0 (an early return for
`replicas <= 0`, seeded C15-10, falsifies this at weight 0) -/
theorem tie_addWithWeightCall (R : Nat) (weight : Int)
    (h : -9223372036854775808 ≤ (R : Int) * weight ∧ (R : Int) * weight < 9223372036854775808) :
    GoZero.Extracted.C15.addWithWeightCall weight (R : Int) GoZero.Extracted.C15.topWeight
      = GoZero.C15.weightReplicas R weight := by
  unfold GoZero.Extracted.C15.addWithWeightCall GoZero.C15.weightReplicas GoZero.Extracted.C15.topWeight GoZero.C15.topWeight
  rw [wrapInt_id _ h]

/-- … and for every weight it is the translated body applied to the wrapped product (never the no-call value) -/
theorem tie_addWithWeightCall_overflow (R : Nat) (weight : Int) :
    GoZero.Extracted.C15.addWithWeightCall (wrapInt ((R : Int) * weight)) 1 GoZero.Extracted.C15.topWeight
      = GoZero.C15.weightReplicas R weight := by
  unfold GoZero.Extracted.C15.addWithWeightCall GoZero.C15.weightReplicas GoZero.Extracted.C15.topWeight GoZero.C15.topWeight
  rw [Int.one_mul]

/-- **`Add` always delegates with `h.replicas`** (model `add`: `addWithReplicas … s.replicas`), whatever the state -/
theorem tie_addCall (H : Hasher) (s : CH) (n : Node) :
    add H s n = addWithReplicas H s n (GoZero.Extracted.C15.addCall (s.replicas : Int)) := rfl

/-! ### round 5c: the ORDER OF LOCK EFFECTS as a typed list, interpreted -/

/-- the statement skeleton as effects on `h.lock` (everything else is `work`, adjacent `work` merged) -/
def effsOfShape : List String → List Eff
  | "defer{" :: "call h.lock.Unlock" :: "}" :: rest => .deferUnlock :: effsOfShape rest
  | "defer{" :: "call h.lock.RUnlock" :: "}" :: rest => .deferRUnlock :: effsOfShape rest
  | "call h.lock.Lock" :: rest => .lock :: effsOfShape rest
  | "call h.lock.Unlock" :: rest => .unlock :: effsOfShape rest
  | "call h.lock.RLock" :: rest => .rlock :: effsOfShape rest
  | "call h.lock.RUnlock" :: rest => .runlock :: effsOfShape rest
  | _ :: rest => match effsOfShape rest with
    | .work :: more => .work :: more
    | more => .work :: more
  | [] => []

/-- **semantic tie of the lock discipline**: the effect lists read from the source ARE the model's (`getEffs`,
`removeEffs`, `addEffs`) — RLock/Lock immediately followed by the deferred unlock, all work after it — so by
`lock_released_however_it_ends` the lock is free however `Get` / `Remove` / `AddWithReplicas` end (an explicit unlock
instead of `defer`, or work between lock and defer, breaks this: `explicit_unlock_leaks`) -/
theorem tie_lockEffects :
    effsOfShape GoZero.Extracted.C15.getShape = getEffs ∧
    effsOfShape GoZero.Extracted.C15.removeShape = removeEffs ∧
    effsOfShape GoZero.Extracted.C15.addWithReplicasShape = addEffs := by decide

theorem tie_lock_panic_safe :
    PanicSafe (effsOfShape GoZero.Extracted.C15.getShape) ∧ PanicSafe (effsOfShape GoZero.Extracted.C15.removeShape) ∧
    PanicSafe (effsOfShape GoZero.Extracted.C15.addWithReplicasShape) := by
  rw [tie_lockEffects.1, tie_lockEffects.2.1, tie_lockEffects.2.2]
  exact lock_released_however_it_ends

/-- the `nodes` set: add / test / delete of the repr (model: `nodes` list, `contains`, `erase`) -/
theorem tie_nodeSetHelpers :
    GoZero.Extracted.C15.addNodeBody = ["h.nodes[nodeRepr] = lang.Placeholder"] ∧
    GoZero.Extracted.C15.containsNodeBody = ["_, ok := h.nodes[nodeRepr]", "return ok"] ∧
    GoZero.Extracted.C15.removeNodeBody = ["delete(h.nodes, nodeRepr)"] := ⟨rfl, rfl, rfl⟩

/-! ### core/lang/lang.go: the identity of nodes and keys (`repr(node)` is `lang.Repr(node)`, `tie_reprExprs`) -/

/-- `Repr`: nil → ""; a Stringer is asked BEFORE pointers are dereferenced; pointers are followed while non-nil;
the rest is `reprOfValue` (model: `reprOf`) -/
theorem tie_langReprFlow : GoZero.Extracted.C15.langReprFlow = [
  "if v == nil",
  "  return \"\"",
  "switch vt := v.(type)",
  "  case fmt.Stringer",
  "    return vt.String()",
  "val := reflect.ValueOf(v)",
  "for val.Kind() == reflect.Ptr && !val.IsNil()",
  "  val = val.Elem()",
  "return reprOfValue(val)"] := rfl

/-- the switch is on the dynamic type of the dereferenced value -/
theorem tie_reprSwitchHeader : GoZero.Extracted.C15.reprSwitchHeader = "vt := val.Interface().(type)" := rfl

/-- the order of the INTERFACE cases (a value can be both): `error` before `fmt.Stringer`; all other cases are
concrete types, of which a value has exactly one -/
theorem tie_reprSwitchOrder : GoZero.Extracted.C15.reprSwitch.map (·.1) = [
  "bool", "error", "float32", "float64", "fmt.Stringer", "int", "int8", "int16", "int32", "int64", "string",
  "uint", "uint8", "uint16", "uint32", "uint64", "[]byte", "default"] := rfl

/-- **SEMANTIC tie of `reprOfValue`**: the type switch as it stands in the source — for every case the function
called, the conversion applied to the value (`int(vt)`, `uint64(vt)`: two's-complement wrap-around), the base,
the float format / precision / bit size — INTERPRETED on every Go value that fits its type gives exactly the
model's `reprOfValue`.  (A `FormatInt(int64(vt), 10)` in the `uint64` case gives "-1" for MaxUint64 and this
theorem no longer holds.) -/
theorem tie_reprSwitch_sem (v : GoVal) (hv : v.valid) (hn : v ≠ .nil) :
    switchEval GoZero.Extracted.C15.reprSwitch v.deref = some (reprOfValue v.deref) := by
  cases v with
  | nil => exact absurd rfl hn
  | int w x =>
    have h64 := wrapSigned_id .w64 x (by have := inSigned_64 w x hv; simpa [inSigned, Width.half] using this)
    cases w <;> simp [switchEval, GoZero.Extracted.C15.reprSwitch, GoVal.deref, GoVal.caseName, Width.suffix, evalCase,
      evSigned, GoVal.math, convArg, reprOfValue, h64]
  | uint w x =>
    have h := inUnsigned_64 w x hv
    have h64 := wrapUnsigned_id .w64 x (by simpa [inUnsigned, Width.full] using h)
    cases w <;> simp [switchEval, GoZero.Extracted.C15.reprSwitch, GoVal.deref, GoVal.caseName, Width.suffix, evalCase,
      evUnsigned, GoVal.math, convArg, reprOfValue, h64] <;> omega
  | ptrInt x =>
    simp [switchEval, GoZero.Extracted.C15.reprSwitch, GoVal.deref, GoVal.caseName, Width.suffix, evalCase, evSigned,
      GoVal.math, convArg, reprOfValue]
  | float s t => cases s <;> simp [switchEval, GoZero.Extracted.C15.reprSwitch, GoVal.deref, GoVal.caseName, evalCase,
      evFloat, reprOfValue]
  | _ => simp [switchEval, GoZero.Extracted.C15.reprSwitch, GoVal.deref, GoVal.caseName, evalCase, evString, evBool,
      evError, evIdent, evBytes, reprOfValue, sprintDefault]

/-- `lang.Repr` end to end: flow (pinned above) + interpreted switch = the model's `reprOf` -/
theorem tie_langRepr_sem (v : GoVal) (hv : v.valid) :
    reprOf v = (if v = .nil then "" else
      match v.stringerText with
      | some s => s
      | none => (switchEval GoZero.Extracted.C15.reprSwitch v.deref).getD "?") := by
  unfold reprOf
  by_cases hn : v = .nil
  · simp [hn]
  · simp only [hn, if_false]
    cases hs : v.stringerText with
    | some s => rfl
    | none => simp [tie_reprSwitch_sem v hv hn]

/-- the default hash is murmur3 `Sum64` (Lean side: `Murmur.sum64`) -/
theorem tie_hashExprs : GoZero.Extracted.C15.hashExprs = [
  "ret:return murmur3.Sum64(data)",
  "call:murmur3.Sum64(data)"] := rfl

end GoZero.C15.Tie
