/-
C15 — Tie: what the extractor read from core/hash/consistenthash.go *now* equals what the model was
written against.
-/
import GoZero.Extracted.C15
import GoZero.C15.Spec
namespace GoZero.C15.Tie
open GoZero.C15
open GoZero.Extracted.C15

theorem extraction_clean : extractionErrors = [] := by decide

end GoZero.C15.Tie
