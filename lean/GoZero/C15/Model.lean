/-
C15 — executable model of core/hash/consistenthash.go (ConsistentHash), core Lean only.

The model follows the code *after* fixes/C15-remove-owned-replicas-ordered-buckets.patch
(Remove only drops virtual nodes the node owns; collision buckets are kept ordered by repr).
The behaviour of the code as it was pinned is kept in `Pinned.lean` for the witness theorems.

State of the Go struct:
  replicas : int                 → `replicas : Nat`   (≥ minReplicas by construction)
  keys     : []uint64 (sorted)   → `keys : List Nat`
  ring     : map[uint64][]any    → `ring : List (Nat × List Node)` (association list; no empty buckets)
  nodes    : map[string]struct{} → `nodes : List String` (set of reprs)
A Go value used as node or key is represented by `Node`: its `lang.Repr` string plus a kind tag that
stands for the identity of the Go value (an `int 1` and a `string "1"` have the same repr).
The hash function is a parameter (`Hasher`); uint64 values are naturals.
-/
namespace GoZero.C15

/-- a Go value handed to the ring (node or lookup key) -/
structure Node where
  kind : String
  repr : String
  deriving DecidableEq, Repr, Inhabited

/-- the three ways the code applies `hashFunc`:
`point r i = hashFunc([]byte(r + strconv.Itoa(i)))`, `key r = hashFunc([]byte(r))`,
`inner t = hashFunc([]byte(innerRepr(v)))` for a value whose `%v` text is `t` (see `verbV`). -/
structure Hasher where
  point : String → Nat → Nat
  key   : String → Nat
  inner : String → Nat

def minReplicas : Nat := 100
def topWeight : Int := 100
def prime : Nat := 16777619

/-- `nodeRepr + strconv.Itoa(i)` -/
def label (r : String) (i : Nat) : String := r ++ toString i

/-! ### `%v` of a Go value (what `innerRepr` formats), by kind

`lang.Repr` and `fmt`'s `%v` agree for strings, integers, bools, errors and Stringers; they differ for
  * floats: `Repr` is `strconv.FormatFloat(x, 'f', -1, bits)`, `%v` is `%g` with the shortest digits
    (`%e` form when the decimal exponent is `< -4` or `≥ 6`: strconv/ftoa.go `formatDigits`, `eprec = 6`),
  * `[]byte`: `Repr` is `string(b)`, `%v` is `[104 105]`,
  * `nil`: `Repr` is `""`, `%v` is `<nil>`,
  * an error with a pointer receiver (`errors.New(msg)`): `Repr` dereferences the pointer and prints the
    struct, `{msg}`; `%v` calls `Error()`: `msg`.
Kinds: s string, i int, j int64, u uint64, o bool, e error, t Stringer (value), p Stringer (pointer),
f float64, g float32, b []byte, z nil, x errors.New, q error+Stringer; a/h/w int8/16/32, n/c/k/m uint/8/16/32,
d named int, r *int, y nil pointer (see Repr.lean). -/

def stripLeadingZeros (l : List Char) : List Char := l.dropWhile (· == '0')

def pad2 (n : Nat) : String := if n < 10 then "0" ++ toString n else toString n

/-- `%v` of a float from its `'f', -1` rendering (same shortest digits, other layout) -/
def verbFloat (r : String) : String :=
  if r = "NaN" ∨ r = "+Inf" ∨ r = "-Inf" then r else
  let cs := r.toList
  let neg := cs.head? = some '-'
  let body := if neg then cs.drop 1 else cs
  let ip := body.takeWhile (· != '.')
  let fp := (body.dropWhile (· != '.')).drop 1
  let all := ip ++ fp
  let lead := all.length - (stripLeadingZeros all).length
  let digs := (stripLeadingZeros (stripLeadingZeros all).reverse).reverse   -- significant digits
  if digs.isEmpty then r else
  let exp : Int := (ip.length : Int) - (lead : Int) - 1                       -- digs.dp - 1
  if exp < -4 ∨ exp ≥ 6 then
    (if neg then "-" else "") ++ String.ofList (digs.take 1)
      ++ (if digs.length > 1 then "." ++ String.ofList (digs.drop 1) else "")
      ++ "e" ++ (if exp < 0 then "-" else "+") ++ pad2 exp.natAbs
  else r

/-- `%v` of a `[]byte`: decimal bytes in brackets -/
def verbBytes (r : String) : String :=
  "[" ++ " ".intercalate (r.toUTF8.toList.map fun b => toString b.toNat) ++ "]"

/-- `%v` of the value -/
def verbV (n : Node) : String :=
  if n.kind = "f" ∨ n.kind = "g" then verbFloat n.repr
  else if n.kind = "b" then verbBytes n.repr
  else if n.kind = "z" then "<nil>"
  else if n.kind = "x" then String.ofList ((n.repr.toList.drop 1).dropLast)
  else if n.kind = "q" then "E!" ++ n.repr          -- error AND Stringer: `%v` prefers Error(), `Repr` String()
  else n.repr

/-- `fmt.Sprintf("%d:%v", prime, v)` applied to the `%v` text of the value -/
def innerRepr (v : String) : String := toString prime ++ ":" ++ v

def Hasher.ofFunc (f : String → Nat) : Hasher :=
  { point := fun r i => f (label r i), key := f, inner := fun r => f (innerRepr r) }

structure CH where
  replicas : Nat
  keys : List Nat
  ring : List (Nat × List Node)
  nodes : List String
  deriving Repr

/-- `NewCustomConsistentHash(replicas, fn)` -/
def CH.new (replicas : Int) : CH :=
  { replicas := (if replicas < (minReplicas : Int) then (minReplicas : Int) else replicas).toNat,
    keys := [], ring := [], nodes := [] }

/-! ### the ring map -/

def bucket (ring : List (Nat × List Node)) (x : Nat) : List Node :=
  match ring.lookup x with
  | some b => b
  | none => []

/-- `h.ring[x] = b`, or `delete(h.ring, x)` when `b` is empty -/
def setBucket (ring : List (Nat × List Node)) (x : Nat) (b : List Node) : List (Nat × List Node) :=
  if b.isEmpty then ring.filter (fun p => p.1 != x) else (x, b) :: ring.filter (fun p => p.1 != x)

/-- `insertRingNode`: insert before the first entry whose repr is greater -/
def insertNode (n : Node) : List Node → List Node
  | [] => [n]
  | m :: ms => if n.repr < m.repr then n :: m :: ms else m :: insertNode n ms

/-! ### the sorted key slice -/

def insertSorted (x : Nat) : List Nat → List Nat
  | [] => [x]
  | y :: ys => if x ≤ y then x :: y :: ys else y :: insertSorted x ys

/-- `sort.Slice(h.keys, <)` — the result of sorting numbers does not depend on the algorithm -/
def sortKeys (l : List Nat) : List Nat := l.foldr insertSorted []

/-- `sort.Search(len(keys), func(i) bool { return keys[i] >= x })` on a sorted slice -/
def searchGE (keys : List Nat) (x : Nat) : Nat := (keys.takeWhile (· < x)).length

/-- `if index < len(keys) && keys[index] == x { delete keys[index] }` -/
def removeKey (keys : List Nat) (x : Nat) : List Nat :=
  let i := searchGE keys x
  if keys[i]? = some x then keys.eraseIdx i else keys

/-! ### operations -/

/-- one iteration of the loop in `Remove`: `removeRingNode` (first entry with that repr) and, if
there was one, the deletion of one key entry. -/
def removePoint (s : CH) (x : Nat) (r : String) : CH :=
  let b := bucket s.ring x
  if b.any (fun m => m.repr == r) then
    { s with ring := setBucket s.ring x (b.eraseP (fun m => m.repr == r)),
             keys := removeKey s.keys x }
  else s

def remove (H : Hasher) (s : CH) (n : Node) : CH :=
  if s.nodes.contains n.repr then
    let s' := (List.range s.replicas).foldl (fun s i => removePoint s (H.point n.repr i) n.repr) s
    { s' with nodes := s'.nodes.erase n.repr }
  else s

/-- the replica count `AddWithReplicas` really uses: clamped from above only -/
def clampReplicas (R : Nat) (replicas : Int) : Nat :=
  (if replicas > (R : Int) then (R : Int) else replicas).toNat

def points (H : Hasher) (r : String) (c : Nat) : List Nat := (List.range c).map (H.point r)

/-- the second critical section of `AddWithReplicas` (after `Remove` returned and released the lock):
addNode, the insertion loop, the sort. -/
def insertPhase (H : Hasher) (s : CH) (n : Node) (replicas : Int) : CH :=
  let pts := points H n.repr (clampReplicas s.replicas replicas)
  { s with nodes := if s.nodes.contains n.repr then s.nodes else n.repr :: s.nodes,
           keys := sortKeys (s.keys ++ pts),
           ring := pts.foldl (fun ring x => setBucket ring x (insertNode n (bucket ring x))) s.ring }

def addWithReplicas (H : Hasher) (s : CH) (n : Node) (replicas : Int) : CH :=
  let s := remove H s n
  let pts := points H n.repr (clampReplicas s.replicas replicas)
  { s with nodes := if s.nodes.contains n.repr then s.nodes else n.repr :: s.nodes,
           keys := sortKeys (s.keys ++ pts),
           ring := pts.foldl (fun ring x => setBucket ring x (insertNode n (bucket ring x))) s.ring }

def add (H : Hasher) (s : CH) (n : Node) : CH := addWithReplicas H s n s.replicas

/-- a Go `int` (64 bit): the product wraps around in two's complement -/
def wrapInt (x : Int) : Int := (x + 9223372036854775808) % 18446744073709551616 - 9223372036854775808

/-- `replicas := h.replicas * weight / TopWeight` (Go `int`: the product wraps, the division truncates) -/
def weightReplicas (R : Nat) (weight : Int) : Int := Int.tdiv (wrapInt ((R : Int) * weight)) topWeight

def addWithWeight (H : Hasher) (s : CH) (n : Node) (weight : Int) : CH :=
  addWithReplicas H s n (weightReplicas s.replicas weight)

inductive Outcome where
  | none                 -- `nil, false`
  | node (n : Node)      -- `n, true`
  | panic                -- integer divide by zero in `% len(h.keys)`
  deriving DecidableEq, Repr

/-- `Get` after the `len(h.ring) == 0` test -/
def getRest (H : Hasher) (s : CH) (k : Node) : Outcome :=
  if s.keys.length = 0 then .panic
  else
    let idx := searchGE s.keys (H.key k.repr) % s.keys.length
    let b := bucket s.ring (s.keys.getD idx 0)
    match b with
    | [] => .none
    | [n] => .node n
    | _ => .node (b.getD (H.inner (verbV k) % b.length) default)

def get (H : Hasher) (s : CH) (k : Node) : Outcome :=
  if s.ring.isEmpty then .none else getRest H s k

inductive Op where
  | add (n : Node)
  | addR (n : Node) (replicas : Int)
  | addW (n : Node) (weight : Int)
  | remove (n : Node)
  deriving Repr

def step (H : Hasher) (s : CH) : Op → CH
  | .add n => add H s n
  | .addR n r => addWithReplicas H s n r
  | .addW n w => addWithWeight H s n w
  | .remove n => remove H s n

def run (H : Hasher) (replicas : Int) (ops : List Op) : CH := ops.foldl (step H) (CH.new replicas)

/-- the node an operation is about -/
def Op.node : Op → Node
  | .add n => n
  | .addR n _ => n
  | .addW n _ => n
  | .remove n => n

/-! ### a user-supplied `String()` that does not return (panic with an error / another value, runtime error, Goexit)

`repr(node)` — `lang.Repr` → `String()` — is called with the lock FREE at two places: at the start of `Remove`
(first call of every operation: nothing has happened yet) and in `AddWithReplicas` after `Remove` returned (second
call of an adding operation: the node is removed, not yet re-inserted). All other `String()` calls (on stored nodes in
`removeRingNode` / `insertRingNode`, on the lookup key in `Get`) run under the lock, which is released by `defer`. -/
def faultAdd (H : Hasher) (s : CH) (n : Node) (nth : Nat) : CH := if nth ≤ 1 then s else remove H s n

def stepFault (H : Hasher) (s : CH) (op : Op) (nth : Nat) : CH :=
  match op with
  | .remove _ => s
  | .add n => faultAdd H s n nth
  | .addR n _ => faultAdd H s n nth
  | .addW n _ => faultAdd H s n nth

/-! ### the users: cache.New and kv.NewStore (constructor → AddWithWeight → ring → Get) -/

/-- the ring of a configuration `[(node, weight), …]`: `NewConsistentHash()`, then `AddWithWeight(node, weight)` per
entry, in order, with the RAW configured weight -/
def userRing (H : Hasher) (conf : List (Node × Int)) : CH :=
  conf.foldl (fun s p => addWithWeight H s p.1 p.2) (CH.new (minReplicas : Int))

/-- one iteration of `TotalWeights`: `if node.Weight < 0 { node.Weight = 0 }; weights += node.Weight` (Go int) -/
def totalWeightsStep (acc w : Int) : Int := wrapInt (acc + (if w < 0 then 0 else w))

/-- `cache.TotalWeights(c)` -/
def totalWeights (conf : List (Node × Int)) : Int := conf.foldl (fun acc p => totalWeightsStep acc p.2) 0

/-- what a constructor gives: the process is terminated (`log.Fatal`), the single node itself (cache.New with
exactly one entry: no ring), or a cluster with its ring -/
inductive UserInst where
  | fatal
  | direct (n : Node)
  | ring (s : CH)

def UserInst.isFatal : UserInst → Bool
  | .fatal => true
  | _ => false

/-- `len(c) == 0 || TotalWeights(c) <= 0` -/
def userFatal (conf : List (Node × Int)) : Bool := conf.length == 0 || decide (totalWeights conf ≤ 0)

/-- `cache.New` -/
def cacheNew (H : Hasher) (conf : List (Node × Int)) : UserInst :=
  if userFatal conf then .fatal
  else match conf with
    | [p] => .direct p.1
    | _ => .ring (userRing H conf)

/-- `kv.NewStore`: a ring also for a single node -/
def kvNew (H : Hasher) (conf : List (Node × Int)) : UserInst :=
  if userFatal conf then .fatal else .ring (userRing H conf)

def userNew (user : String) (H : Hasher) (conf : List (Node × Int)) : UserInst :=
  if user = "cache" then cacheNew H conf else kvNew H conf

/-- the node a key is sent to by the methods of the instance -/
def UserInst.dispatch (H : Hasher) : UserInst → Node → Outcome
  | .fatal, _ => .none
  | .direct n, _ => .node n
  | .ring s, k => get H s k

/-- a Go `string` used as lookup key -/
def strKey (k : String) : Node := { kind := "s", repr := k }

/-- kv: which of the string parameters of a method (in declaration order) is the key it dispatches by:
`Eval(script, key string, …)` has the script first, every other method the key -/
def kvKeyIndex (method : String) : Nat := if method = "Eval" ∨ method = "EvalCtx" then 1 else 0

/-- `Del(keys ...string)` of both users dispatches EVERY key on its own -/
def multiKey (method : String) : Bool := method == "Del" || method == "DelCtx"

/-- the strings of a call that are dispatched: all for `Del`, else the key parameter (cache: always the first) -/
def callKeys (user method : String) (strs : List String) : List String :=
  if multiKey method then strs
  else if user = "cache" then strs.take 1
  else (strs[kvKeyIndex method]?).toList

/-- where the commands of one public-method call go: entry point → (Ctx variant) → dispatcher.Get(key) → node -/
def callTargets (H : Hasher) (inst : UserInst) (user method : String) (strs : List String) : List Outcome :=
  (callKeys user method strs).map fun k => inst.dispatch H (strKey k)

/-! ### a panic INSIDE a critical section (round 5c): the hash func, or `String()` of a STORED node (`removeRingNode`'s
`repr(x)`, `insertRingNode`'s `repr(nodes[i])`), fails in iteration `i` of a loop. The lock is released by `defer`; the
state is what the completed iterations left. -/

/-- `Remove(n)` interrupted at the start of iteration `i` (nothing of iteration `i` has happened; `removeNode` not reached) -/
def partialRemove (H : Hasher) (s : CH) (n : Node) (i : Nat) : CH :=
  if s.nodes.contains n.repr then
    (List.range (min i s.replicas)).foldl (fun s j => removePoint s (H.point n.repr j) n.repr) s
  else s

/-- the insertion of `AddWithReplicas(n, replicas)` (on the state `Remove` left) interrupted in iteration `i`:
`addNode` done, `i` complete iterations; `keyAppended`: the failure came from `insertRingNode` (a stored node's
`String()`), after `h.keys = append(h.keys, hash)` of iteration `i`. The final `sort.Slice` is NOT reached. -/
def partialInsert (H : Hasher) (s : CH) (n : Node) (replicas : Int) (i : Nat) (keyAppended : Bool) : CH :=
  let c := clampReplicas s.replicas replicas
  let pts := points H n.repr (min i c)
  { s with nodes := if s.nodes.contains n.repr then s.nodes else n.repr :: s.nodes,
           keys := s.keys ++ pts ++ (if keyAppended && decide (i < c) then [H.point n.repr i] else []),
           ring := pts.foldl (fun ring x => setBucket ring x (insertNode n (bucket ring x))) s.ring }

/-- an adding operation whose `k`-th hash func call (0-based, counted over the whole operation) panics -/
def stepHashFault (H : Hasher) (s : CH) (n : Node) (replicas : Int) (k : Nat) : CH :=
  let rcalls := if s.nodes.contains n.repr then s.replicas else 0
  if k < rcalls then partialRemove H s n k
  else partialInsert H (remove H s n) n replicas (k - rcalls) false

/-! ### multi-key `Del`: split per node (round 5c)

`cacheCluster.DelCtx(keys…)` with several keys asks the ring for every key, collects the keys per node
(`nodes[c] = append(nodes[c], key)`) and sends ONE `DelCtx(ks…)` to every node; a key the ring has no node for is reported
as an error and sent nowhere. `clusterStore.DelCtx` sends one `Del(key)` per key. -/

def Outcome.addr : Outcome → Option String
  | .node n => some n.repr
  | .none => Option.none
  | .panic => Option.none

/-- every element once, in order of first appearance -/
def dedupKeep : List String → List String
  | [] => []
  | a :: l => a :: (dedupKeep l).filter (· != a)

/-- the nodes of the keys, each once, in order of first appearance -/
def delNodes (disp : String → Outcome) (keys : List String) : List String :=
  dedupKeep (keys.filterMap fun k => (disp k).addr)

/-- cache: (node, the keys sent to it in ONE command, in the order of the call) -/
def delGrouped (disp : String → Outcome) (keys : List String) : List (String × List String) :=
  (delNodes disp keys).map fun a => (a, keys.filter fun k => (disp k).addr == some a)

/-- kv: one command per key -/
def delPerKey (disp : String → Outcome) (keys : List String) : List (String × List String) :=
  keys.filterMap fun k => (disp k).addr.map fun a => (a, [k])

/-- the commands (node, keys of the call among the arguments) a public-method call issues, as far as the keys go -/
def callCommands (H : Hasher) (inst : UserInst) (user method : String) (strs : List String) : List (String × List String) :=
  let disp := fun k => inst.dispatch H (strKey k)
  if multiKey method then
    (if user = "cache" ∧ strs.length > 1 then delGrouped disp strs else delPerKey disp strs)
  else delPerKey disp (callKeys user method strs)

/-! ### the order of lock effects (round 5c)

A function body as the list of its effects on `h.lock`; everything else is `work` (and may panic). A panic (or a
return) after the first `p` effects runs the deferred unlocks. `lockAfter effs p` = (write holds, read holds) left. -/

inductive Eff where
  | lock | unlock | rlock | runlock | deferUnlock | deferRUnlock | work
  deriving DecidableEq, Repr

def Eff.apply (st : Int × Int) : Eff → Int × Int
  | .lock => (st.1 + 1, st.2)
  | .unlock => (st.1 - 1, st.2)
  | .rlock => (st.1, st.2 + 1)
  | .runlock => (st.1, st.2 - 1)
  | .deferUnlock => (st.1 - 1, st.2)      -- when it RUNS
  | .deferRUnlock => (st.1, st.2 - 1)
  | .work => st

def Eff.isDefer : Eff → Bool
  | .deferUnlock => true
  | .deferRUnlock => true
  | _ => false

/-- execute the first `p` effects (a `defer` only registers), then the registered defers -/
def lockAfter (effs : List Eff) (p : Nat) : Int × Int :=
  let pre := effs.take p
  let st := (pre.filter (!·.isDefer)).foldl Eff.apply (0, 0)
  (pre.filter (·.isDefer)).foldl Eff.apply st

/-- `Get`: RLock, defer RUnlock, then the lookup (hash func, `String()` of the key, `String()` of nothing else) -/
def getEffs : List Eff := [.rlock, .deferRUnlock, .work]
/-- `Remove`: repr(node) lock free, Lock, defer Unlock, the loop -/
def removeEffs : List Eff := [.work, .lock, .deferUnlock, .work]
/-- `AddWithReplicas` (both accepted forms): lock-free prologue (Remove / clamp / repr), Lock, defer Unlock, the loop -/
def addEffs : List Eff := [.work, .lock, .deferUnlock, .work]

end GoZero.C15
