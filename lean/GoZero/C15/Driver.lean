/-
C15 — driver: replays an implementation trace through the model (correspondence) and the monitor.

cfg:  ctor=default|custom hash=murmur|fnv|coll mod=<m> replicas=<int> probes=<key,...>
ops:  add <node> | addr <node> <replicas> | addw <node> <weight> | remove <node> | get <key>
      gadd | gaddr | gaddw …   the same through a gated Stringer: the harness stops the writer at every
                               `String()` call made while the lock is free and lets reader goroutines look
      storm <readers> <gets> <key,…> <op;op;…>   free-running readers against a writer program
      build <addr>/<weight>,…  (cfg user=cache|kv) the ring as cache.New / kv.NewStore build it
obs:  mutating: nk= nr= nn= ck= rk= g=<Get per probe> f=<Get per probe on a freshly built instance>
      gated:    sig=<n> | <snapshot at signal 1> | … | <final observation as for a mutating op>
      storm:    <final observation> r=<keyidx/lo/hi/answer,…>   (distinct reader observations)
      build:    g=<addr of the node each probe is dispatched to | ->
      get:      <node> | - | PANIC
-/
import GoZero.Base.Trace
import GoZero.C15.Hash
import GoZero.C15.Spec
import GoZero.C15.Repr
namespace GoZero.C15

open GoZero

/-- a value token `<kind>:<text of the value>`; the repr is computed by the MODEL of lang.Repr -/
def parseTyped (tok : String) : Option GoVal :=
  match tok.splitOn ":" with
  | kind :: rest@(_ :: _) => parseGoVal kind (":".intercalate rest)
  | _ => none

def parseValue (tok : String) : Option Node := (parseTyped tok).map GoVal.toNode

def hexOf (s : String) : String :=
  if s = "" then "-" else
  String.ofList (s.toUTF8.toList.flatMap fun b =>
    [Nat.digitChar (b.toNat / 16), Nat.digitChar (b.toNat % 16)])

/-- the `repr` operation: lang.Repr of a list of values. Correspondence: the model's `reprOf`. Monitor: two values
that are different nodes for the specification (different numbers, different texts: the model's `reprOf` differs,
`reprOf_numeric_eq_iff`) must not get the same Repr, or one would evict / remove the other in the ring. -/
def checkReprs (r : Report) (sec line : Nat) (toks : List String) (vals : List GoVal) (impl : List String) : Report := Id.run do
  let mut r := r
  let mine := vals.map fun v => hexOf (reprOf v)
  if mine ≠ impl then r := r.mismatch sec line (",".intercalate mine) (",".intercalate impl)
  let rows := toks.zip (vals.zip impl)
  let mut i := 0
  for (ta, va, ia) in rows do
    i := i + 1
    for (tb, vb, ib) in rows.drop i do
      if ia == ib && !sameSlot va vb then
        r := r.violation sec line s!"repr-alias: lang.Repr gives the same text (hex {ia}) for {ta} and {tb}: two different nodes would share one ring slot (one evicts / removes the other)"
      if sameSlot va vb && ta ≠ tb then r := r.addCover "repr-same-slot-by-design"
  for v in vals do
    r := r.addCover s!"repr-case-{v.deref.caseName}"
    if v.stringerText.isSome then r := r.addCover "repr-stringer-first"
    match v.math with
    | some x =>
      if x < 0 then r := r.addCover "repr-negative"
      if x ≥ 9223372036854775808 then r := r.addCover "repr-above-maxint64"
      if x = 18446744073709551615 then r := r.addCover "repr-maxuint64"
      if x = -9223372036854775808 then r := r.addCover "repr-minint64"
    | none => pure ()
  return r

def parseOp : List String → Option Op
  | ["add", n] => do pure (.add (← parseValue n))
  | ["addr", n, r] => do pure (.addR (← parseValue n) (← r.toInt?))
  | ["addw", n, w] => do pure (.addW (← parseValue n) (← w.toInt?))
  | ["remove", n] => do pure (.remove (← parseValue n))
  | _ => none

def parseOutcome (tok : String) : Option Outcome :=
  if tok = "-" then some .none
  else if tok = "PANIC" then some .panic
  else (parseValue tok).map .node

def showOutcome : Outcome → String
  | .none => "-"
  | .panic => "PANIC"
  | .node n => nodeToken n

def hasherOf (hash : String) (mod : Nat) : Hasher :=
  let f : String → Nat :=
    if hash = "murmur" then fun s => (Murmur.sum64 (bytesOf s)).toNat
    else if hash = "coll" then fun s => (fnv1a64 (bytesOf s)).toNat % mod
    else fun s => (fnv1a64 (bytesOf s)).toNat
  Hasher.ofFunc f

def mix (d : UInt64) (v : UInt64) : UInt64 := d * 1099511628211 + v

def digestKeys (keys : List Nat) : UInt64 :=
  keys.foldl (fun d k => mix d k.toUInt64) 14695981039346656037

def digestRing (ring : List (Nat × List Node)) : UInt64 :=
  let sorted := ring.mergeSort (fun a b => a.1 ≤ b.1)
  sorted.foldl (fun d p =>
    let d := mix d p.1.toUInt64
    let d := p.2.foldl (fun d n =>
      mix ((bytesOf (nodeToken n)).foldl (fun d b => mix d b.toUInt64) d) 255) d
    mix d 254) 14695981039346656037

/-- model-side rendering of a mutating operation's observation (without `f=`) -/
def observe (H : Hasher) (s : CH) (probes : List Node) : String :=
  s!"nk={s.keys.length} nr={s.ring.length} nn={s.nodes.length} ck={digestKeys s.keys} rk={digestRing s.ring} g="
    ++ ",".intercalate (probes.map fun p => showOutcome (get H s p))

def branchOf (s : CH) (m : SMap) (op : Op) : String :=
  let isM := (m.find op.repr).isSome
  match op with
  | .add _ => if isM then "add-existing" else "add-new"
  | .addR _ r =>
    (if isM then "addr-existing" else "addr-new") ++
      (if r ≤ 0 then "-nonpositive" else if r > (s.replicas : Int) then "-clamped" else "")
  | .addW _ w =>
    (if isM then "addw-existing" else "addw-new") ++
      (if w ≤ 0 then "-nonpositive" else if w > 100 then "-clamped" else "")
  | .remove _ => if isM then (if m.cnt op.repr < s.replicas then "remove-fewer-replicas" else "remove") else "remove-absent"


/-- split observation tokens at `|` -/
def splitBar (toks : List String) : List (List String) :=
  toks.foldr (fun t acc => if t = "|" then [] :: acc else
    match acc with
    | [] => [[t]]
    | a :: rest => (t :: a) :: rest) [[]]

/-- membership of an answer in the map before or after an operation (what a concurrent Get may return) -/
def memberEither (m m' : SMap) (o : Outcome) : Bool :=
  match o with
  | .node _ => memberOk m o || memberOk m' o
  | .none => true
  | .panic => false

def isAdd : Op → Bool
  | .remove _ => false
  | _ => true

def opNode (op : Op) : Node := op.node

/-- what the caller of an operation recovers when a `String()` ended with fault `kind` -/
def faultToken (kind : String) : String :=
  if kind = "err" then "err:boom" else if kind = "str" then "str:boom" else kind

/-- states a reader may see while the writer runs `prog` from `s`: after j operations (`.1`) and, for an
adding operation j, the intermediate state without the node (`.2`) -/
def stormStates (H : Hasher) (s : CH) (prog : List Op) : List (CH × Option CH) :=
  match prog with
  | [] => [(s, none)]
  | op :: rest =>
    (s, if isAdd op then some (remove H s (opNode op)) else none) :: stormStates H (step H s op) rest

/-- the implementation's own sequential answers, `S<j>/a;a;…` and `M<j>/a;a;…` -/
def parseRef (t : String) : Option (List (Bool × Nat × List String)) :=
  (t.splitOn ",").mapM fun e =>
    match e.splitOn "/" with
    | tag :: rest@(_ :: _) =>
      let isMid := tag.startsWith "M"
      if !(isMid || tag.startsWith "S") then none else
      ((tag.drop 1).toString.toNat?).map fun j => (isMid, j, ("/".intercalate rest).splitOn ";")
    | _ => none

def refLookup (ref : List (Bool × Nat × List String)) (mid : Bool) (j ki : Nat) : Option String :=
  (ref.find? fun e => e.1 == mid && e.2.1 == j).bind fun e => e.2.2[ki]?

/-- is the concurrent answer for key index `ki` in window [lo, hi] one of the implementation's sequential
answers in that window (after j operations, lo ≤ j ≤ hi; or inside adding operation j, lo ≤ j < hi)? -/
def explainedByRef (ref : List (Bool × Nat × List String)) (ki lo hi : Nat) (ans : String) (withMid : Bool := true) : Bool :=
  (List.range (hi + 1)).any fun j =>
    lo ≤ j && (refLookup ref false j ki == some ans || (withMid && j < hi && refLookup ref true j ki == some ans))

def parseProg (t : String) : Option (List Op) :=
  if t = "-" then some [] else
  (t.splitOn ";").mapM fun o => parseOp ((o.splitOn "_").filter (· ≠ ""))

def parseOutcomes (s : String) : Option (List Outcome) :=
  if s = "" then some [] else (s.splitOn ",").mapM parseOutcome

/-- the monitor on the answers after a mutating operation (shared by plain, gated and storm lines) -/
def checkAnswers (r : Report) (sec line : Nat) (hash opS : String) (op : Op) (probes : List Node)
    (m : SMap) (wasMember isMember collBefore collAfter : Bool) (prev g f : List Outcome)
    (alone : List Bool := []) : Report := Id.run do
  let mut r := r
  for (k, o) in probes.zip g do
    if o == .panic then
      r := r.violation sec line s!"panic: Get {showOutcome (.node k)} panics after [{opS}]"
    else if !memberOk m o then
      r := r.violation sec line s!"member-only: Get {showOutcome (.node k)} returned {showOutcome o} after [{opS}]"
  for (k, o, o') in probes.zip (g.zip f) do
    if o != o' then
      r := r.violation sec line s!"history-dependent: Get {showOutcome (.node k)} is {showOutcome o} but {showOutcome o'} on an instance built from the same members, after [{opS}]"
  if collBefore && collAfter then
    r := r.addCover "disruption-checked"
    for (k, o, o') in probes.zip (prev.zip g) do
      if o != o' then r := r.addCover "probe-moved"
      if !disruptOk op.repr wasMember isMember o o' then
        r := r.violation sec line s!"disruption: Get {showOutcome (.node k)} moved {showOutcome o} -> {showOutcome o'} by [{opS}]"
  else
    -- a ring with colliding virtual nodes: minimal disruption still holds for every probe served by an unshared
    -- virtual node before or after the operation (`monitor_sound_disruption_local`)
    r := r.addCover s!"disruption-local-collision-{hash}"
    for (k, o, o', a) in probes.zip (prev.zip (g.zip alone)) do
      if a then
        r := r.addCover "disruption-checked-local"
        if o != o' then r := r.addCover "probe-moved-local"
        if !disruptOk op.repr wasMember isMember o o' then
          r := r.violation sec line s!"disruption: Get {showOutcome (.node k)} moved {showOutcome o} -> {showOutcome o'} by [{opS}] (ring with collisions; this key is served by an unshared virtual node)"
      else
        r := r.addCover "disruption-skipped-probe-on-shared-virtual-node"
  if g.any (fun o => match o with | .node _ => true | _ => false) then pure () else r := r.addCover "all-none"
  return r

def kindCover (r : Report) (pre : String) (n : Node) : Report :=
  let r := if n.kind ∈ ["f", "g", "b", "z", "u", "o", "e", "x", "a", "h", "w", "n", "c", "k", "m", "d", "r", "y", "q"] then r.addCover s!"{pre}-kind-{n.kind}" else r
  let r := if n.kind ∈ ["i", "j", "a", "h", "w", "d", "r"] && n.repr.startsWith "-" then r.addCover s!"{pre}-negative-integer" else r
  let r := if n.repr ∈ ["18446744073709551615", "9223372036854775808", "-9223372036854775808", "NaN", "+Inf", "-Inf", "<nil>", ""] then
    r.addCover s!"{pre}-extreme-{n.repr}" else r
  r

/-- two members with virtual nodes whose numbers differ by exactly 2^8, 2^16, 2^32 or 2^64: what a `Repr` that
confuses signedness or width would put into one slot -/
def hasTwins (m : SMap) : Bool :=
  let nums := m.filterMap fun p => if p.2 > 0 && p.1.kind ∈ ["i", "j", "a", "h", "w", "n", "c", "k", "m", "u", "d", "r"] then p.1.repr.toInt? else none
  nums.any fun x => nums.any fun y => x - y ∈ [(256 : Int), 65536, 4294967296, 18446744073709551616]

/-- `<addr>/<weight>,…` (or `-` for the empty configuration) as the configuration the constructors get -/
def parseUserConf (kind : String) (t : String) : Option (List (Node × Int)) :=
  if t = "-" then some [] else
  (t.splitOn ",").mapM fun e =>
    match e.splitOn "/" with
    | [a, w] => do pure ({ kind := kind, repr := a }, (← w.toInt?))
    | _ => none

def showAddr : Outcome → String
  | .node n => n.repr | .none => "-" | .panic => "PANIC"

/-- `<addr>/<cmd>/<key|key…>` -/
def parseRec (t : String) : Option (String × String × List String) :=
  match t.splitOn "/" with
  | [a, c, ks] => some (a, c, if ks = "" then [] else ks.splitOn "|")
  | _ => none

def dedupSorted (l : List String) : List String :=
  (l.mergeSort (· ≤ ·)).foldr (fun a acc => if acc.head? = some a then acc else a :: acc) []

def runUserSection (r : Report) (sec : Section) (user : String) (probes : List Node) : Report := Id.run do
  let H := hasherOf "murmur" 1
  let kind := if user = "cache" then "t" else "p"
  let mut r := r.addCover s!"user-{user}"
  -- the previous instance of this section: (membership as sorted (address, virtual nodes), conf, dispatch addresses)
  let mut prevBuild : Option (List (String × Nat) × String × List String) := none
  -- the instance the `call` operations work on
  let mut inst : UserInst := .fatal
  let mut mInst : SMap := []
  let mut confInst : String := "-"
  -- the implementation's OWN dispatcher.Get answer per probe key on that instance (the `g=` of its `build` line)
  let mut implMap : List (String × String) := []
  for l in sec.lines do
    r := { r with ops := r.ops + 1 }
    match l.op with
    | [b, conf] =>
      if b ≠ "build" ∧ b ≠ "buildx" then r := r.mismatch sec.idx l.idx "bad-op" (joinSp l.op) else
      match parseUserConf kind conf with
      | none => r := r.mismatch sec.idx l.idx "bad-op" (joinSp l.op)
      | some cf =>
        let ops : List Op := cf.map fun p => .addW p.1 p.2
        -- NewConsistentHash() = NewCustomConsistentHash(minReplicas, Hash)
        let ui := userNew user H cf
        let m := ops.foldl (specStep (CH.new (minReplicas : Int)).replicas) []
        if b = "buildx" then r := r.addCover "build-in-child-process"
        let impl := joinSp l.obs
        r := r.addCover s!"build-{ops.length}-nodes"
        if ops.any (fun o => match o with | .addW _ w => w > 100 | _ => false) then r := r.addCover "build-weight-above-100"
        if ops.any (fun o => match o with | .addW _ w => w ≤ 0 | _ => false) then r := r.addCover "build-weight-nonpositive"
        let weighted := cf.filter fun p => p.2 > 0
        if cf.length ≥ 2 && weighted.length == 1 then
          r := r.addCover "build-one-weighted-node"
          if (cf.head?.map fun p => decide (p.2 > 0)) == some false then r := r.addCover "build-one-weighted-node-not-first"
        if !(noCollision H m) then r := r.addCover "build-colliding-addresses"
        if m.length < ops.length then r := r.addCover "build-duplicate-address"
        match ui with
        | .fatal =>
          -- the constructor terminates the process: no instance, no dispatch
          r := r.addCover (if cf.isEmpty then "build-fatal-empty-conf" else "build-fatal-no-positive-weight")
          if impl ≠ "FATAL" then r := r.mismatch sec.idx l.idx "FATAL" impl
          -- the property on what the implementation did instead: an instance built from nodes none of which owns a
          -- virtual node must not send any key anywhere
          match (kv? l.obs "g").map (fun g => g.splitOn ",") with
          | some addrs =>
            for (k, a) in probes.zip addrs do
              if a ≠ "-" then
                r := r.violation sec.idx l.idx s!"member-only: {user} dispatch of {showOutcome (.node k)} goes to {a} although no configured node has a positive weight, conf=[{conf}]"
          | none => pure ()
          if b = "build" then
            inst := .fatal
            mInst := m
            confInst := conf
            implMap := []
        | _ =>
        -- cache.New with a single configured node returns that node itself (no ring)
        let direct := match ui with | .direct _ => true | _ => false
        if direct then r := r.addCover "build-single-node-no-ring"
        let outs := probes.map fun p => ui.dispatch H p
        let mine := "g=" ++ ",".intercalate (outs.map showAddr)
        if mine ≠ impl then r := r.mismatch sec.idx l.idx mine impl
        if outs.all (· == .none) then r := r.addCover "build-ring-without-virtual-nodes"
        if b = "build" then
          inst := ui
          mInst := m
          confInst := conf
        -- monitor on the implementation's answers: dispatch goes to a configured node with virtual nodes
        match (kv? l.obs "g").map (fun g => g.splitOn ",") with
        | none =>
          if impl = "FATAL" then r := r.addCover "build-fatal-unexpected" else r := r.mismatch sec.idx l.idx "bad-obs" impl
        | some addrs =>
          -- multi-instance: two instances built from the same membership (other order of the entries) dispatch alike
          let norm := ((m.map fun p => (p.1.repr, p.2)).mergeSort fun a b => a.1 ≤ b.1)
          match prevBuild with
          | some (pm, pconf, paddrs) =>
            if pm == norm && pconf ≠ conf && ops.length > 1 && (pconf.splitOn ",").length > 1 then
              r := r.addCover "build-same-members-other-order"
              for (k, a, b) in probes.zip (paddrs.zip addrs) do
                if a ≠ b then
                  r := r.violation sec.idx l.idx s!"history-dependent: {user} dispatch of {showOutcome (.node k)} goes to {b} but to {a} on an instance built from the same nodes and weights in another order, conf=[{conf}] other=[{pconf}]"
          | none => pure ()
          prevBuild := some (norm, conf, addrs)
          if b = "build" then implMap := (probes.map (·.repr)).zip addrs
          for (k, a) in probes.zip addrs do
            let o : Outcome := if a = "-" then .none else if a = "PANIC" then .panic else .node { kind := kind, repr := a }
            -- also for the single node that cache.New returns directly: it is the one configured node, and its weight
            -- is positive (the constructor would have refused the configuration otherwise)
            if direct then
              if (match cf with | [p] => p.1.repr != a || decide (p.2 ≤ 0) | _ => true) then
                r := r.violation sec.idx l.idx s!"member-only: {user} dispatch of {showOutcome (.node k)} goes to {a}, not the configured node with a positive weight, conf=[{conf}]"
            else if !memberOk m o then
              r := r.violation sec.idx l.idx s!"member-only: {user} dispatch of {showOutcome (.node k)} goes to {a}, conf=[{conf}]"
    | ["call", method, strsT] =>
      -- a public method of the instance built last: entry point → Ctx variant → dispatcher.Get(key) → node → redis command
      let strs := strsT.splitOn ","
      let base := (method.splitOn "+").headD method
      let keys := callKeys user base strs
      let targets := callTargets H inst user base strs
      r := r.addCover s!"call-{user}-{base}"
      match (method.splitOn "+")[1]? with
      | some v => r := r.addCover s!"call-outcome-{v}"
      | none => pure ()
      if keys.length > 1 then r := r.addCover "call-several-keys"
      if (dedupSorted (targets.map showAddr)).length > 1 then r := r.addCover "call-keys-on-several-nodes"
      if strs.length > keys.length then r := r.addCover "call-with-other-strings"
      match inst with
      | .direct _ => r := r.addCover "call-on-direct-node"
      | _ => pure ()
      if targets.any (· == .none) then r := r.addCover "call-key-without-node"
      match (kvStr l.obs "c" "?") with
      | "?" => r := r.mismatch sec.idx l.idx "bad-obs" (joinSp l.obs)
      | c =>
        let recsT := if c = "-" then [] else c.splitOn ";"
        match recsT.mapM parseRec with
        | none => r := r.mismatch sec.idx l.idx "bad-obs" c
        | some recs =>
          -- correspondence: the set of nodes that received a command
          let mine := dedupSorted ((targets.filter (· != .none)).map showAddr)
          let seen := dedupSorted (recs.map (·.1))
          if mine ≠ seen then r := r.mismatch sec.idx l.idx (",".intercalate mine) (",".intercalate seen)
          -- the monitor compares with the implementation's own ring (what its dispatcher answered for that key when the
          -- instance was built): a method that forwards another string than its key, drops a key or mixes keys up sends
          -- the command to another node than the ring's. (Keys of calls are probe keys; the model is the fallback.)
          let expectedOf : String → String := fun k => match implMap.find? (·.1 == k) with
            | some p => p.2
            | none => showAddr (inst.dispatch H (strKey k))
          -- multi-key Del: the model produces the commands themselves (which keys travel together to which node)
          if multiKey base then
            let render (cs : List (String × List String)) : List String :=
              (cs.map fun c => c.1 ++ "/" ++ "|".intercalate c.2).mergeSort (· ≤ ·)
            let mineC := render (callCommands H inst user base strs)
            let seenC := render (recs.map fun x => (x.1, x.2.2))
            if mineC ≠ seenC then r := r.mismatch sec.idx l.idx (";".intercalate mineC) (";".intercalate seenC)
            if mineC.length > 1 then r := r.addCover "call-del-split-over-several-nodes"
          for (addr, cmd, shown) in recs do
            r := r.addCover "call-command"
            -- the node must be one the property allows at all
            let o : Outcome := .node { kind := kind, repr := addr }
            let isDirect := match inst with | .direct n => n.repr == addr | _ => false
            if !isDirect && !memberOk mInst o then
              r := r.violation sec.idx l.idx s!"member-only: {user}.{method} sent {cmd} to {addr}, which owns no virtual node, conf=[{confInst}]"
            else if !cmdOk expectedOf (multiKey base) keys (addr, shown) then
              -- `cmdOk` (Spec.lean) is proven sound for the model: `monitor_sound_dispatch`
              let bad := if multiKey base then dedupSorted (shown.filter fun k => keys.contains k && expectedOf k != addr) else keys
              r := r.violation sec.idx l.idx s!"dispatch: {user}.{method} sent {cmd} to {addr} but the ring maps its key {",".intercalate bad} to {",".intercalate (bad.map expectedOf)}, conf=[{confInst}] args=[{strsT}]"
    | _ => r := r.mismatch sec.idx l.idx "bad-op" (joinSp l.op)
  return r

def runSection (r : Report) (sec : Section) : Report := Id.run do
  let hash := kvStr sec.cfg "hash" "murmur"
  let H := hasherOf hash (kvNat sec.cfg "mod" 1)
  let mut r := r
  let probesStr := kvStr sec.cfg "probes" ""
  let probes ← match (if probesStr = "" then some [] else (probesStr.splitOn ",").mapM parseValue) with
    | some p => pure p
    | none => return r.mismatch sec.idx 0 "bad-cfg" probesStr
  match kv? sec.cfg "user" with
  | some user => return runUserSection r sec user probes
  | none => pure ()
  let replicas ← match (kv? sec.cfg "replicas").bind String.toInt? with
    | some v => pure v
    | none => return r.mismatch sec.idx 0 "bad-cfg" "replicas"
  let mut s := CH.new replicas
  let mut m : SMap := []
  let mut prev : List Outcome := probes.map fun _ => .none
  r := r.addCover s!"hash-{hash}"
  for p in probes do r := kindCover r "probe" p
  if probes.any (fun p => p.kind = "r") then return r.mismatch sec.idx 0 "bad-cfg" "pointer probe"
  for l in sec.lines do
    r := { r with ops := r.ops + 1 }
    match (if l.op.head? ∈ [some "hadd", some "haddr", some "haddw"] then "hashfault" :: l.op else l.op) with
    | ["repr", vs] =>
      let toks := vs.splitOn ","
      match toks.mapM parseTyped with
      | none => r := r.mismatch sec.idx l.idx "bad-op" (joinSp l.op)
      | some vals =>
        r := r.addCover "repr-op"
        r := checkReprs r sec.idx l.idx toks vals ((joinSp l.obs).splitOn ",")
    | ["get", k] =>
      match (parseValue k).bind (fun n => if n.kind = "r" then none else some n) with   -- `%v` of a pointer is an address
      | none => r := r.mismatch sec.idx l.idx "bad-op" (joinSp l.op)
      | some key =>
        let out := get H s key
        let impl := joinSp l.obs
        r := r.addCover (match out with | .none => "get-none" | .node _ => "get-node" | .panic => "get-panic")
        if showOutcome out ≠ impl then r := r.mismatch sec.idx l.idx (showOutcome out) impl
        match parseOutcome impl with
        | none => r := r.mismatch sec.idx l.idx "bad-obs" impl
        | some o =>
          if !memberOk m o then
            r := r.violation sec.idx l.idx s!"member-only: Get {k} returned {impl}, members=[{joinSp (m.map fun p => s!"{showOutcome (.node p.1)}*{p.2}")}]"
    | ["pget", _, kind] =>
      -- Get with a Stringer key whose String() does not return: it is called under the read lock, after the test for
      -- the empty ring. The ring is unchanged, and the lock must have been released.
      r := r.addCover s!"fault-get-{kind}"
      let expectP := if s.ring.isEmpty then "ok" else faultToken kind
      if s.ring.isEmpty then r := r.addCover "fault-get-empty-ring-string-not-called"
      -- the model's own observation of the lock: `Get`'s effects interrupted at the lookup (position 2)
      let lockedM := if lockFree (lockAfter getEffs 2) then "0" else "1"
      let mine := s!"P={expectP} locked={lockedM} g=-"
      let impl := joinSp l.obs
      if mine ≠ impl then r := r.mismatch sec.idx l.idx mine impl
      if kvStr l.obs "locked" "?" ≠ "0" then
        r := r.violation sec.idx l.idx s!"lock-leak: Get left the ring locked when String() of the key ended with {kind}: every later Add / Remove blocks for ever and no key is served any more"
    | "hashfault" :: hop :: node :: restH =>
      -- the k-th hash func call of the operation does not return: a panic under the write lock, inside a loop
      let plainToks := (hop.drop 1).toString :: node :: restH.take (restH.length - 2)
      let kM := (restH[restH.length - 2]?).bind String.toNat?
      let fkind := restH.getLast?.getD ""
      match parseOp plainToks, kM with
      | some op, some k =>
        let replicas : Int := match op with
          | .add _ => (s.replicas : Int)
          | .addR _ c => c
          | .addW _ w => weightReplicas s.replicas w
          | .remove _ => 0
        let rcalls := if s.nodes.contains op.repr then s.replicas else 0
        let total := rcalls + clampReplicas s.replicas replicas
        let implP := kvStr l.obs "P" "?"
        let lockedM := if lockFree (lockAfter addEffs 3) then "0" else "1"
        if kvStr l.obs "locked" "?" ≠ lockedM then r := r.mismatch sec.idx l.idx s!"locked={lockedM}" s!"locked={kvStr l.obs "locked" "?"}"
        if kvStr l.obs "locked" "?" ≠ "0" then
          r := r.violation sec.idx l.idx s!"lock-leak: [{joinSp l.op}] left the ring locked after the hash func ended with {fkind}: every later operation blocks for ever"
        if k < total then
          r := r.addCover s!"hash-fault-{fkind}"
          r := r.addCover (if k < rcalls then "hash-fault-in-removal-loop" else if k == rcalls then "hash-fault-first-insertion" else "hash-fault-in-insertion-loop")
          if implP ≠ faultToken fkind then r := r.mismatch sec.idx l.idx s!"P={faultToken fkind}" s!"P={implP}"
          s := stepHashFault H s op.node replicas k
          -- compared: key slice (order included), ring, node set. NOT the lookups: on the unsorted key slice a failure
          -- inside the insertion loop leaves, Go's sort.Search bisects while the model's `searchGE` scans — they agree on
          -- sorted slices only (every reachable state), so lookups in this broken state are outside the model
          let noG := fun (t : String) => !(t.startsWith "P=") && !(t.startsWith "locked=") && !(t.startsWith "g=")
          let implState := joinSp (l.obs.filter noG)
          let mine := joinSp (((observe H s probes).splitOn " ").filter noG)
          if mine ≠ implState then r := r.mismatch sec.idx l.idx mine implState
          -- the code has no rollback: the ring is not in a reachable state any more (`hash_panic_in_insertion_breaks_property`);
          -- nothing further in this section is judged
          break
        else
          r := r.addCover "hash-fault-not-reached"
          if implP ≠ "ok" then r := r.mismatch sec.idx l.idx "P=ok" s!"P={implP}"
          s := step H s op
          m := specStep s.replicas m op
          let implState := joinSp (l.obs.filter fun t => !(t.startsWith "P=") && !(t.startsWith "locked=") && !(t.startsWith "f="))
          let mine := observe H s probes
          if mine ≠ implState then r := r.mismatch sec.idx l.idx mine implState
          match (kv? l.obs "g").bind parseOutcomes with
          | some g => prev := g
          | none => pure ()
      | _, _ => r := r.mismatch sec.idx l.idx "bad-op" (joinSp l.op)
    | ["storm", _, _, keysT, progT] =>
      match (keysT.splitOn ",").mapM parseValue, parseProg progT with
      | some keys, some prog =>
        r := r.addCover "storm"
        let states := stormStates H s prog
        let opS := joinSp l.op
        -- the writer's program, operation by operation, with the sequential monitor on the final answers
        let s0 := s
        let m0 := m
        for op in prog do
          r := r.addCover ("storm-" ++ branchOf s m op)
          s := step H s op
          m := specStep s.replicas m op
        let implState := joinSp (l.obs.filter fun t => !(t.startsWith "f=") && !(t.startsWith "r=") && !(t.startsWith "q=") && t ≠ "DATARACE")
        let mine := observe H s probes
        if mine ≠ implState then r := r.mismatch sec.idx l.idx mine implState
        if l.obs.head? = some "PANIC" then
          r := r.violation sec.idx l.idx s!"panic: [{opS}] panics: {joinSp l.obs}"
        else
        match (kv? l.obs "g").bind parseOutcomes, (kv? l.obs "f").bind parseOutcomes with
        | some g, some f =>
          for (k, o) in probes.zip g do
            if !memberOk m o then
              r := r.violation sec.idx l.idx s!"member-only: Get {showOutcome (.node k)} returned {showOutcome o} after [{opS}]"
          for (k, o, o') in probes.zip (g.zip f) do
            if o != o' then
              r := r.violation sec.idx l.idx s!"history-dependent: Get {showOutcome (.node k)} is {showOutcome o} but {showOutcome o'} on an instance built from the same members, after [{opS}]"
          prev := g
        | _, _ => r := r.mismatch sec.idx l.idx "bad-obs" (joinSp l.obs)
        -- the implementation's sequential answers (twin instance) must be the model's
        let memberships : List SMap := (prog.foldl (fun (acc : List SMap × SMap × CH) op =>
            let s' := step H acc.2.2 op
            let m' := specStep s'.replicas acc.2.1 op
            (acc.1 ++ [m'], m', s')) ([m0], m0, s0)).1
        match parseRef (kvStr l.obs "q" "") with
        | none => r := r.mismatch sec.idx l.idx "bad-obs" "q="
        | some ref =>
          let mut j := 0
          for (sj, mid) in states do
            let mineS := keys.map fun k => showOutcome (get H sj k)
            if (ref.find? fun e => e.1 == false && e.2.1 == j).map (·.2.2) ≠ some mineS then
              r := r.mismatch sec.idx l.idx s!"S{j}/{";".intercalate mineS}" "sequential reference differs"
            match mid with
            | some sm =>
              let mineM := keys.map fun k => showOutcome (get H sm k)
              if (ref.find? fun e => e.1 == true && e.2.1 == j).map (·.2.2) ≠ some mineM then
                r := r.mismatch sec.idx l.idx s!"M{j}/{";".intercalate mineM}" "sequential reference differs"
            | none => pure ()
            j := j + 1
          if l.obs.contains "DATARACE" then
            r := r.violation sec.idx l.idx s!"concurrent: the Go race detector reports a data race between Get and [{progT}]"
          -- the readers' observations, against the implementation's own sequential answers
          let tuples := (kvStr l.obs "r" "").splitOn ","
          for t in tuples do
            if t = "" then continue
            match t.splitOn "/" with
            | kiS :: lo :: hi :: rest@(_ :: _) =>
              let ans := "/".intercalate rest
              match kiS.toNat?, kiS.toNat?.bind (fun i => keys[i]?), lo.toNat?, hi.toNat?, parseOutcome ans with
              | some ki, some k, some lo, some hi, some o =>
                r := r.addCover "storm-get"
                if lo < hi then r := r.addCover "storm-get-overlapping-writer"
                if o == .panic then
                  r := r.violation sec.idx l.idx s!"concurrent: Get {showOutcome (.node k)} panics during [{progT}]"
                else if !explainedByRef ref ki lo hi ans then
                  r := r.violation sec.idx l.idx s!"concurrent: Get {showOutcome (.node k)} returned {ans} in window [{lo},{hi}] of [{progT}]: not the sequential answer of any state of the writer in that window"
                else
                  -- a member of some membership in the window
                  let ok := match o with
                    | .node _ => (List.range (hi + 1)).any fun j => lo ≤ j && (match memberships[j]? with
                        | some mj => memberOk mj o | none => false)
                    | _ => true
                  if !ok then
                    r := r.violation sec.idx l.idx s!"concurrent: Get {showOutcome (.node k)} returned {ans}, not a member at any point of window [{lo},{hi}] of [{progT}]"
                  if refLookup ref false lo ki != some ans then r := r.addCover "storm-get-saw-later-state"
                  if !explainedByRef ref ki lo hi ans false then r := r.addCover "storm-get-saw-gap-between-remove-and-insert"
              | _, _, _, _, _ => r := r.mismatch sec.idx l.idx "bad-obs" t
            | _ => r := r.mismatch sec.idx l.idx "bad-obs" t
      | _, _ => r := r.mismatch sec.idx l.idx "bad-op" (joinSp l.op)
    | _ =>
      let gated := match l.op with
        | "gadd" :: _ => true | "gaddr" :: _ => true | "gaddw" :: _ => true | _ => false
      -- the operation with a Stringer node whose nth lock-free String() call does not return
      let faulty := match l.op with
        | "padd" :: _ => true | "paddr" :: _ => true | "paddw" :: _ => true | "premove" :: _ => true | _ => false
      let opToks := if gated then (l.op.head!.drop 1).toString :: l.op.drop 1
        else if faulty then (l.op.head!.drop 1).toString :: (l.op.drop 1).take (l.op.length - 3) else l.op
      let nth := if faulty then ((l.op[l.op.length - 2]?).bind String.toNat?).getD 0 else 0
      let fkind := if faulty then l.op.getLast?.getD "" else ""
      let implP := kvStr l.obs "P" "ok"
      match (if faulty && (nth < 1 || nth > 2) then none else parseOp opToks) with
      | none => r := r.mismatch sec.idx l.idx "bad-op" (joinSp l.op)
      | some op =>
        -- did the fault fire? (the second lock-free String() exists only in the two-critical-section form of
        -- AddWithReplicas and never in Remove: `ok` is accepted there, the operation then ran to its end)
        let fired := faulty && implP ≠ "ok"
        if faulty then
          r := r.addCover s!"fault-{fkind}-at-string-call-{nth}"
          r := r.addCover (if fired then s!"fault-fired-{(opToks.headD "")}" else "fault-not-reached")
          let okAllowed := nth == 2
          if !(implP = faultToken fkind || (implP = "ok" && okAllowed)) then
            r := r.mismatch sec.idx l.idx s!"P={faultToken fkind}" s!"P={implP}"
          -- nth = 1: `Remove` stopped at its lock-free prologue; nth = 2: `AddWithReplicas` at its prologue (position 0)
          let lockedM := if lockFree (lockAfter (if nth == 1 then removeEffs else addEffs) 0) then "0" else "1"
          if kvStr l.obs "locked" "?" ≠ lockedM then r := r.mismatch sec.idx l.idx s!"locked={lockedM}" s!"locked={kvStr l.obs "locked" "?"}"
          if kvStr l.obs "locked" "?" ≠ "0" then
            r := r.violation sec.idx l.idx s!"lock-leak: [{joinSp l.op}] left the ring locked after String() ended with {fkind}: every later operation blocks for ever"
          if fired && nth == 2 && m.cnt op.repr > 0 then r := r.addCover "fault-after-remove-node-gone"
        r := r.addCover (branchOf s m op)
        r := kindCover r "node" (opNode op)
        let overflows := match op with
          | .addW _ w => wrapInt ((s.replicas : Int) * w) != (s.replicas : Int) * w
          | _ => false
        if overflows then r := r.addCover "addw-product-overflows"
        match op with
        | .addW _ w => if weightReplicas s.replicas w > 1000000 then r := r.addCover "addw-only-the-clamp-keeps-it-finite"
        | .addR _ c => if c > 1000000 then r := r.addCover "addr-only-the-clamp-keeps-it-finite"
        | _ => pure ()
        let wasMember := m.cnt op.repr > 0
        let collBefore := noCollision H m
        let sPre := s
        let mPre := m
        s := if fired then stepFault H s op nth else step H s op
        m := if fired then specStepFault m op nth else specStep s.replicas m op
        let isMember := m.cnt op.repr > 0
        let collAfter := noCollision H m
        if hasTwins m then r := r.addCover "ring-has-twos-complement-twins"
        -- one node's virtual nodes on the same hash (the class of seeded C15-9)
        if m.any (fun p => let pts := points H p.1.repr p.2; pts.eraseDups.length < pts.length) then
          r := r.addCover "ring-node-collides-with-itself"
          match op with
          | .remove _ => if wasMember then r := r.addCover "remove-from-ring-with-self-collisions"
          | _ => pure ()
        if (mPre.find op.repr).any (fun p => p.1 != opNode op) then r := r.addCover "op-on-slot-held-by-other-value"
        let segs := if gated then splitBar l.obs else [l.obs]
        let finalObs := (segs.getLast?.getD []).filter fun t => t ≠ "DATARACE" && !(t.startsWith "P=") && !(t.startsWith "locked=")
        if l.obs.contains "DATARACE" then
          r := r.violation sec.idx l.idx s!"concurrent: the Go race detector reports a data race during [{joinSp l.op}]"
        let opS := joinSp l.op
        if gated then
          -- snapshots taken by reader goroutines while the writer stood at a `String()` call with the lock free:
          -- the code calls repr(node) before Remove's lock (state before) and between Remove and the insertion
          r := r.addCover "gated"
          let snaps := (segs.drop 1).dropLast
          let sMid := remove H sPre (opNode op)
          -- two signals (state before, then the state between Remove and the insertion): the tree as it is;
          -- one signal (state before only): AddWithReplicas as one critical section (fixes/C15-add-single-critical-section.patch)
          let nsig := kv? (segs.headD []) "sig"
          let expect := if nsig = some "1" then [observe H sPre probes] else [observe H sPre probes, observe H sMid probes]
          if nsig = some "1" then r := r.addCover "gated-one-critical-section" else r := r.addCover "gated-two-critical-sections"
          if (nsig ≠ some "2" ∧ nsig ≠ some "1") ∨ snaps.length ≠ expect.length then
            r := r.mismatch sec.idx l.idx "sig=2 (or sig=1)" (joinSp (segs.headD []))
          for (e, sn) in expect.zip snaps do
            if e ≠ joinSp sn then r := r.mismatch sec.idx l.idx e (joinSp sn)
          if get H sMid (probes.headD default) != get H sPre (probes.headD default) ||
              probes.any (fun p => get H sMid p != get H sPre p) then r := r.addCover "gated-gap-visible"
          if mPre.cnt op.repr > 0 && (mPre.del op.repr).all (fun p => p.2 == 0) then r := r.addCover "gated-gap-empties-ring"
          -- monitor on what the readers saw in the gap
          for sn in snaps do
            match (kv? sn "g").bind parseOutcomes with
            | none => r := r.mismatch sec.idx l.idx "bad-obs" (joinSp sn)
            | some g =>
              for (k, o) in probes.zip g do
                if o == .panic then
                  r := r.violation sec.idx l.idx s!"concurrent: Get {showOutcome (.node k)} panics while [{opS}] is in progress"
                else if !memberEither mPre m o then
                  r := r.violation sec.idx l.idx s!"concurrent: Get {showOutcome (.node k)} returned {showOutcome o} while [{opS}] is in progress: a member neither before nor after"
                else if o == .none && (mPre.del op.repr).any (fun p => p.2 > 0) then
                  r := r.violation sec.idx l.idx s!"concurrent: Get {showOutcome (.node k)} returned none while [{opS}] is in progress although other nodes own virtual nodes"
        -- correspondence
        let implState := joinSp (finalObs.filter fun t => !(t.startsWith "f="))
        let mine := observe H s probes
        if mine ≠ implState then r := r.mismatch sec.idx l.idx mine implState
        -- monitor, on the implementation's own answers
        if l.obs.head? = some "PANIC" then
          r := r.violation sec.idx l.idx s!"panic: [{opS}] panics: {joinSp l.obs}"
        else
        match (kv? finalObs "g").bind parseOutcomes, (kv? finalObs "f").bind parseOutcomes with
        | some g, some f =>
          if g.length ≠ probes.length ∨ f.length ≠ probes.length then
            r := r.mismatch sec.idx l.idx "bad-obs" "probe count"
          else
            let alone := if collBefore && collAfter then [] else probes.map fun p => landsAlone H sPre s p
            r := checkAnswers r sec.idx l.idx hash opS op probes m wasMember isMember collBefore collAfter prev g f alone
            prev := g
        | _, _ => r := r.mismatch sec.idx l.idx "bad-obs" (joinSp l.obs)
  return r

def driver (secs : List Section) : Report := secs.foldl runSection {}

end GoZero.C15
