/-
C15 — driver: replays an implementation trace through the model (correspondence) and the monitor.

cfg:  ctor=default|custom hash=murmur|fnv|coll mod=<m> replicas=<int> probes=<key,...>
ops:  add <node> | addr <node> <replicas> | addw <node> <weight> | remove <node> | get <key>
obs:  mutating: nk= nr= nn= ck= rk= g=<Get per probe> f=<Get per probe on a freshly built instance>
      get:      <node> | - | PANIC
-/
import GoZero.Base.Trace
import GoZero.C15.Hash
import GoZero.C15.Spec
namespace GoZero.C15

open GoZero

def parseValue (tok : String) : Option Node :=
  match tok.splitOn ":" with
  | kind :: rest@(_ :: _) =>
    if kind ∈ ["s", "i", "j", "t", "p"] then some { kind := kind, repr := ":".intercalate rest } else none
  | _ => none

def parseOp : List String → Option Op
  | ["add", n] => do pure (.add (← parseValue n))
  | ["addr", n, r] => do pure (.addR (← parseValue n) (← r.toInt?))
  | ["addw", n, w] => do pure (.addW (← parseValue n) (← w.toInt?))
  | ["remove", n] => do pure (.remove (← parseValue n))
  | _ => none

def parseOutcome (tok : String) : Option Outcome :=
  if tok = "-" then some .none
  else if tok = "PANIC" then some .panic
  else (parseValue tok).map .node

def showOutcome : Outcome → String
  | .none => "-"
  | .panic => "PANIC"
  | .node n => n.kind ++ ":" ++ n.repr

def hasherOf (hash : String) (mod : Nat) : Hasher :=
  let f : String → Nat :=
    if hash = "murmur" then fun s => (Murmur.sum64 (bytesOf s)).toNat
    else if hash = "coll" then fun s => (fnv1a64 (bytesOf s)).toNat % mod
    else fun s => (fnv1a64 (bytesOf s)).toNat
  Hasher.ofFunc f

def mix (d : UInt64) (v : UInt64) : UInt64 := d * 1099511628211 + v

def digestKeys (keys : List Nat) : UInt64 :=
  keys.foldl (fun d k => mix d k.toUInt64) 14695981039346656037

def digestRing (ring : List (Nat × List Node)) : UInt64 :=
  let sorted := ring.mergeSort (fun a b => a.1 ≤ b.1)
  sorted.foldl (fun d p =>
    let d := mix d p.1.toUInt64
    let d := p.2.foldl (fun d n =>
      mix ((bytesOf (n.kind ++ ":" ++ n.repr)).foldl (fun d b => mix d b.toUInt64) d) 255) d
    mix d 254) 14695981039346656037

/-- model-side rendering of a mutating operation's observation (without `f=`) -/
def observe (H : Hasher) (s : CH) (probes : List Node) : String :=
  s!"nk={s.keys.length} nr={s.ring.length} nn={s.nodes.length} ck={digestKeys s.keys} rk={digestRing s.ring} g="
    ++ ",".intercalate (probes.map fun p => showOutcome (get H s p))

def branchOf (s : CH) (m : SMap) (op : Op) : String :=
  let isM := (m.find op.repr).isSome
  match op with
  | .add _ => if isM then "add-existing" else "add-new"
  | .addR _ r =>
    (if isM then "addr-existing" else "addr-new") ++
      (if r ≤ 0 then "-nonpositive" else if r > (s.replicas : Int) then "-clamped" else "")
  | .addW _ w =>
    (if isM then "addw-existing" else "addw-new") ++
      (if w ≤ 0 then "-nonpositive" else if w > 100 then "-clamped" else "")
  | .remove _ => if isM then (if m.cnt op.repr < s.replicas then "remove-fewer-replicas" else "remove") else "remove-absent"

def parseOutcomes (s : String) : Option (List Outcome) :=
  if s = "" then some [] else (s.splitOn ",").mapM parseOutcome

def runSection (r : Report) (sec : Section) : Report := Id.run do
  let hash := kvStr sec.cfg "hash" "murmur"
  let H := hasherOf hash (kvNat sec.cfg "mod" 1)
  let mut r := r
  let probesStr := kvStr sec.cfg "probes" ""
  let probes ← match (if probesStr = "" then some [] else (probesStr.splitOn ",").mapM parseValue) with
    | some p => pure p
    | none => return r.mismatch sec.idx 0 "bad-cfg" probesStr
  let replicas ← match (kv? sec.cfg "replicas").bind String.toInt? with
    | some v => pure v
    | none => return r.mismatch sec.idx 0 "bad-cfg" "replicas"
  let mut s := CH.new replicas
  let mut m : SMap := []
  let mut prev : List Outcome := probes.map fun _ => .none
  r := r.addCover s!"hash-{hash}"
  for l in sec.lines do
    r := { r with ops := r.ops + 1 }
    match l.op with
    | ["get", k] =>
      match parseValue k with
      | none => r := r.mismatch sec.idx l.idx "bad-op" (joinSp l.op)
      | some key =>
        let out := get H s key
        let impl := joinSp l.obs
        r := r.addCover (match out with | .none => "get-none" | .node _ => "get-node" | .panic => "get-panic")
        if showOutcome out ≠ impl then r := r.mismatch sec.idx l.idx (showOutcome out) impl
        match parseOutcome impl with
        | none => r := r.mismatch sec.idx l.idx "bad-obs" impl
        | some o =>
          if !memberOk m o then
            r := r.violation sec.idx l.idx s!"member-only: Get {k} returned {impl}, members=[{joinSp (m.map fun p => s!"{showOutcome (.node p.1)}*{p.2}")}]"
    | _ =>
      match parseOp l.op with
      | none => r := r.mismatch sec.idx l.idx "bad-op" (joinSp l.op)
      | some op =>
        r := r.addCover (branchOf s m op)
        let wasMember := m.cnt op.repr > 0
        let collBefore := noCollision H m
        s := step H s op
        m := specStep s.replicas m op
        let isMember := m.cnt op.repr > 0
        let collAfter := noCollision H m
        -- correspondence
        let implState := joinSp (l.obs.filter fun t => !(t.startsWith "f="))
        let mine := observe H s probes
        if mine ≠ implState then r := r.mismatch sec.idx l.idx mine implState
        -- monitor, on the implementation's own answers
        if l.obs.head? = some "PANIC" then
          r := r.violation sec.idx l.idx s!"panic: [{joinSp l.op}] panics: {joinSp l.obs}"
        else
        match (kv? l.obs "g").bind parseOutcomes, (kv? l.obs "f").bind parseOutcomes with
        | some g, some f =>
          if g.length ≠ probes.length ∨ f.length ≠ probes.length then
            r := r.mismatch sec.idx l.idx "bad-obs" "probe count"
          else
            let opS := joinSp l.op
            for (k, o) in probes.zip g do
              if o == .panic then
                r := r.violation sec.idx l.idx s!"panic: Get {showOutcome (.node k)} panics after [{opS}]"
              else if !memberOk m o then
                r := r.violation sec.idx l.idx s!"member-only: Get {showOutcome (.node k)} returned {showOutcome o} after [{opS}]"
            for (k, o, o') in probes.zip (g.zip f) do
              if o != o' then
                r := r.violation sec.idx l.idx s!"history-dependent: Get {showOutcome (.node k)} is {showOutcome o} but {showOutcome o'} on an instance built from the same members, after [{opS}]"
            if collBefore && collAfter then
              r := r.addCover "disruption-checked"
              for (k, o, o') in probes.zip (prev.zip g) do
                if o != o' then r := r.addCover "probe-moved"
                if !disruptOk op.repr wasMember isMember o o' then
                  r := r.violation sec.idx l.idx s!"disruption: Get {showOutcome (.node k)} moved {showOutcome o} -> {showOutcome o'} by [{opS}]"
            else
              r := r.addCover s!"disruption-skipped-collision-{hash}"
            if g.any (fun o => match o with | .node _ => true | _ => false) then pure () else r := r.addCover "all-none"
            prev := g
        | _, _ => r := r.mismatch sec.idx l.idx "bad-obs" (joinSp l.obs)
  return r

def driver (secs : List Section) : Report := secs.foldl runSection {}

end GoZero.C15
