/-
C15 — facts about the model of `lang.Repr` (Repr.lean): injectivity on the numeric kinds, no aliasing between
signed and unsigned values, identity of Go's conversions on values that fit.
-/
import Std.Data.String.ToInt
import GoZero.C15.Repr
namespace GoZero.C15

theorem fmtInt_injective {a b : Int} (h : fmtInt a = fmtInt b) : a = b := Int.repr_injective h

theorem fmtInt_inj {a b : Int} : fmtInt a = fmtInt b ↔ a = b := ⟨fmtInt_injective, fun h => h ▸ rfl⟩

theorem inSigned_64 (w : Width) (x : Int) (h : inSigned w x) :
    -9223372036854775808 ≤ x ∧ x < 9223372036854775808 := by
  cases w <;> simp only [Width.half, inSigned] at h <;> omega

theorem inUnsigned_64 (w : Width) (x : Int) (h : inUnsigned w x) : 0 ≤ x ∧ x < 18446744073709551616 := by
  cases w <;> simp only [Width.full, inUnsigned] at h <;> omega

/-- a conversion to a type the value fits is the identity -/
theorem wrapSigned_id (w : Width) (x : Int) (h : inSigned w x) : wrapSigned w x = x := by
  cases w <;> simp only [wrapSigned, Width.half, Width.full, inSigned] at h ⊢ <;> omega

theorem wrapUnsigned_id (w : Width) (x : Int) (h : inUnsigned w x) : wrapUnsigned w x = x := by
  cases w <;> simp only [wrapUnsigned, Width.full, inUnsigned] at h ⊢ <;> omega

/-- a conversion always lands in the target type -/
theorem wrapSigned_range (w : Width) (x : Int) : inSigned w (wrapSigned w x) := by
  cases w <;> simp only [wrapSigned, Width.half, Width.full, inSigned] <;> omega

theorem wrapUnsigned_range (w : Width) (x : Int) : inUnsigned w (wrapUnsigned w x) := by
  cases w <;> simp only [wrapUnsigned, Width.full, inUnsigned] <;> omega

/-- `Repr` of a numeric value is the decimal rendering of its mathematical value -/
theorem reprOf_numeric (v : GoVal) (x : Int) (h : v.math = some x) : reprOf v = fmtInt x := by
  cases v <;> simp [GoVal.math] at h <;> subst h <;> rfl

/-- **numeric values share a `Repr` exactly when they are the same number** — whatever their Go types
(int8 … int64, uint8 … uint64, named ints, pointers to ints). -/
theorem reprOf_numeric_eq_iff (a b : GoVal) (x y : Int) (ha : a.math = some x) (hb : b.math = some y) :
    reprOf a = reprOf b ↔ x = y := by
  rw [reprOf_numeric a x ha, reprOf_numeric b y hb]
  exact fmtInt_inj

end GoZero.C15
