/-
C15 — minimal disruption under a LOCAL hypothesis (round 4): instead of "no two virtual nodes in play share a
hash value" (NoCollision, global), only "the virtual node that serves THIS lookup key is not shared by several
nodes, before or after the operation".  Strictly weaker (`landsAlone_of_noCollision`), and still necessary
(`Props.disruption_needs_no_collision`: there both buckets hold two or three nodes).
-/
import GoZero.C15.Proofs5
namespace GoZero.C15

theorem landing_eq (H : Hasher) (s : CH) (k : Node) :
    landing H s k = bucket s.ring (target s.keys (H.key k.repr)) := rfl

/-- core: two represented states whose maps agree except on repr `r`; the key lands, in one of them, on a
bucket with at most one node: different answers involve the member `r`. -/
theorem moved_only_local {H : Hasher} {s s' : CH} {m m' : SMap} (hi : Inv H s m) (hi' : Inv H s' m')
    (r : String) (hagree : ∀ r', r' ≠ r → m.find r' = m'.find r') (k a b : Node)
    (hloc : (landing H s k).length ≤ 1 ∨ (landing H s' k).length ≤ 1)
    (hg : get H s k = .node a) (hg' : get H s' k = .node b) (hab : a ≠ b) :
    a.repr = r ∨ b.repr = r := by
  apply Classical.byContradiction
  intro hcon
  have har : a.repr ≠ r := fun e => hcon (Or.inl e)
  have hbr : b.repr ≠ r := fun e => hcon (Or.inr e)
  rw [landing_eq, landing_eq] at hloc
  -- where the answers sit
  have hA : s.keys ≠ [] ∧ a ∈ bucket s.ring (target s.keys (H.key k.repr)) := by
    rcases get_cases hi k with ⟨_, h⟩ | ⟨hk, n', hn', h⟩
    · rw [h] at hg; cases hg
    · rw [h] at hg
      have : n' = a := by injection hg
      subst this
      exact ⟨hk, hn'⟩
  have hB : s'.keys ≠ [] ∧ b ∈ bucket s'.ring (target s'.keys (H.key k.repr)) := by
    rcases get_cases hi' k with ⟨_, h⟩ | ⟨hk, n', hn', h⟩
    · rw [h] at hg'; cases hg'
    · rw [h] at hg'
      have : n' = b := by injection hg'
      subst this
      exact ⟨hk, hn'⟩
  obtain ⟨hk, ha⟩ := hA
  obtain ⟨hk', hbm⟩ := hB
  have hs := target_isSucc s.keys (H.key k.repr) hi.keys.sorted hk
  have hs' := target_isSucc s'.keys (H.key k.repr) hi'.keys.sorted hk'
  generalize target s.keys (H.key k.repr) = t at ha hs hloc
  generalize target s'.keys (H.key k.repr) = t' at hbm hs' hloc
  have ha' : a ∈ bucket s'.ring t := by
    obtain ⟨c, hf, hx⟩ := (mem_bucket_iff hi t a).mp ha
    exact (mem_bucket_iff hi' t a).mpr ⟨c, by rw [← hagree _ har]; exact hf, hx⟩
  have hb2 : b ∈ bucket s.ring t' := by
    obtain ⟨c, hf, hx⟩ := (mem_bucket_iff hi' t' b).mp hbm
    exact (mem_bucket_iff hi t' b).mpr ⟨c, by rw [hagree _ hbr]; exact hf, hx⟩
  have ht' : t ∈ s'.keys := (mem_keys_iff hi' t).mpr (List.ne_nil_of_mem ha')
  have ht2 : t' ∈ s.keys := (mem_keys_iff hi t').mpr (List.ne_nil_of_mem hb2)
  have := isSucc_cross hs hs' ht' ht2
  subst this
  -- two members of a list of length ≤ 1 are equal
  have two : ∀ (l : List Node), l.length ≤ 1 → a ∈ l → b ∈ l → a = b := by
    intro l hl h1 h2
    match l, hl, h1, h2 with
    | [x], _, h1, h2 =>
      simp at h1 h2
      rw [h1, h2]
  rcases hloc with h | h
  · exact hab (two _ h ha hb2)
  · exact hab (two _ h ha' hbm)

/-- one operation on repr `r`, local hypothesis -/
theorem step_moves_only_local {H : Hasher} {s s' : CH} {m m' : SMap} (hi : Inv H s m) (hi' : Inv H s' m')
    (r : String) (hagree : ∀ r', r' ≠ r → m.find r' = m'.find r') (k : Node)
    (hloc : (landing H s k).length ≤ 1 ∨ (landing H s' k).length ≤ 1) :
    get H s' k = get H s k ∨ (∃ v, get H s k = .node v ∧ v.repr = r) ∨ (∃ v, get H s' k = .node v ∧ v.repr = r) := by
  cases hg : get H s k with
  | panic => exact absurd hg (get_never_panics hi k)
  | none =>
    cases hg' : get H s' k with
    | panic => exact absurd hg' (get_never_panics hi' k)
    | none => exact Or.inl rfl
    | node b =>
      right; right
      refine ⟨b, rfl, ?_⟩
      apply Classical.byContradiction
      intro hbr
      obtain ⟨c, hf, hc⟩ := get_member hi' k b hg'
      have h0 := (get_none_iff hi k).mp hg b.repr
      rw [cnt_of_find (by rw [hagree _ hbr]; exact hf)] at h0
      omega
  | node a =>
    cases hg' : get H s' k with
    | panic => exact absurd hg' (get_never_panics hi' k)
    | none =>
      right; left
      refine ⟨a, rfl, ?_⟩
      apply Classical.byContradiction
      intro har
      obtain ⟨c, hf, hc⟩ := get_member hi k a hg
      have h0 := (get_none_iff hi' k).mp hg' a.repr
      rw [cnt_of_find (by rw [← hagree _ har]; exact hf)] at h0
      omega
    | node b =>
      by_cases hab : a = b
      · left; rw [hab]
      · rcases moved_only_local hi hi' r hagree k a b hloc hg hg' hab with h | h
        · exact Or.inr (Or.inl ⟨a, rfl, h⟩)
        · exact Or.inr (Or.inr ⟨b, rfl, h⟩)

/-- the global hypothesis implies the local one for every key -/
theorem landing_le_one_of_noCollision {H : Hasher} {s : CH} {m : SMap} (hi : Inv H s m) (hnc : NoCollision H m) (k : Node) :
    (landing H s k).length ≤ 1 := bucket_le_one hi hnc _

/-- the monitor's disruption test, local precondition -/
theorem disruptOk_sound_local {H : Hasher} {s s' : CH} {m m' : SMap} (hi : Inv H s m) (hi' : Inv H s' m')
    (r : String) (hagree : ∀ r', r' ≠ r → m.find r' = m'.find r') (k : Node)
    (hloc : landsAlone H s s' k = true) :
    disruptOk r (decide (m.cnt r > 0)) (decide (m'.cnt r > 0)) (get H s k) (get H s' k) = true := by
  have hloc' : (landing H s k).length ≤ 1 ∨ (landing H s' k).length ≤ 1 := by
    unfold landsAlone at hloc
    simpa using hloc
  have hwas : ∀ v, get H s k = .node v → v.repr = r → decide (m.cnt r > 0) = true := by
    intro v hv hr
    obtain ⟨c, hf, hc⟩ := get_member hi k v hv
    rw [hr] at hf
    simp [cnt_of_find hf, hc]
  have his : ∀ v, get H s' k = .node v → v.repr = r → decide (m'.cnt r > 0) = true := by
    intro v hv hr
    obtain ⟨c, hf, hc⟩ := get_member hi' k v hv
    rw [hr] at hf
    simp [cnt_of_find hf, hc]
  rcases step_moves_only_local hi hi' r hagree k hloc' with h | ⟨v, hv, hr⟩ | ⟨v, hv, hr⟩
  · unfold disruptOk; rw [h]; simp
  · have hw := hwas v hv hr
    rw [hv]
    cases hg' : get H s' k with
    | panic => exact absurd hg' (get_never_panics hi' k)
    | none => simp [disruptOk, hw, hr]
    | node b => simp [disruptOk, hw, hr]
  · have hw := his v hv hr
    rw [hv]
    cases hg : get H s k with
    | panic => exact absurd hg (get_never_panics hi k)
    | none => simp [disruptOk, hw, hr]
    | node a => simp [disruptOk, hw, hr]

end GoZero.C15
