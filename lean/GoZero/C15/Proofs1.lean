/-
C15 — basic lemmas about the pieces of the model: the ring map, ordered buckets, the sorted key slice.
-/
import GoZero.C15.Spec
namespace GoZero.C15

/-! ### ring map -/

theorem lookup_filter_ne (ring : List (Nat × List Node)) (x y : Nat) :
    (ring.filter (fun p => p.1 != x)).lookup y = if y = x then none else ring.lookup y := by
  induction ring with
  | nil => simp
  | cons p rest ih =>
    obtain ⟨k, b⟩ := p
    by_cases hk : k = x
    · subst hk
      simp only [List.filter_cons, bne_self_eq_false, Bool.false_eq_true, if_false, ih, List.lookup_cons]
      by_cases hy : y = k
      · simp [hy]
      · have : (y == k) = false := by simp [hy]
        simp [hy, this]
    · have h1 : (k != x) = true := by simp [hk]
      simp only [List.filter_cons, h1, if_true, List.lookup_cons, ih]
      by_cases hy : y = x
      · subst hy
        have : (y == k) = false := by simp; exact fun h => hk h.symm
        simp [this]
      · simp [hy]

theorem bucket_setBucket (ring : List (Nat × List Node)) (x y : Nat) (b : List Node) :
    bucket (setBucket ring x b) y = if y = x then b else bucket ring y := by
  unfold setBucket bucket
  by_cases hb : b.isEmpty
  · simp only [hb, if_true, lookup_filter_ne]
    by_cases hy : y = x
    · simp only [hy, if_true]; exact (List.isEmpty_iff.mp hb).symm
    · simp [hy]
  · simp only [hb, Bool.false_eq_true, if_false, List.lookup_cons, lookup_filter_ne]
    by_cases hy : y = x
    · simp [hy]
    · have : (y == x) = false := by simp [hy]
      simp [hy, this]

def WFRing (ring : List (Nat × List Node)) : Prop := ∀ p ∈ ring, p.2 ≠ []

theorem wf_setBucket (ring : List (Nat × List Node)) (x : Nat) (b : List Node) (h : WFRing ring) :
    WFRing (setBucket ring x b) := by
  unfold setBucket
  by_cases hb : b.isEmpty
  · simp only [hb, if_true]
    intro p hp
    exact h p (List.mem_filter.mp hp).1
  · simp only [hb, Bool.false_eq_true, if_false]
    intro p hp
    rcases List.mem_cons.mp hp with rfl | hp
    · intro hnil; simp at hb; exact hb hnil
    · exact h p (List.mem_filter.mp hp).1

theorem ring_isEmpty_iff (ring : List (Nat × List Node)) (h : WFRing ring) :
    ring.isEmpty = true ↔ ∀ x, bucket ring x = [] := by
  constructor
  · intro he x
    have : ring = [] := List.isEmpty_iff.mp he
    subst this; rfl
  · intro hall
    cases ring with
    | nil => rfl
    | cons p rest =>
      exfalso
      obtain ⟨k, b⟩ := p
      have := hall k
      simp only [bucket, List.lookup_cons, beq_self_eq_true] at this
      exact h (k, b) (List.mem_cons_self) this

/-! ### ordered buckets -/

theorem insertNode_perm (n : Node) (b : List Node) : (insertNode n b).Perm (n :: b) := by
  induction b with
  | nil => exact List.Perm.refl _
  | cons m ms ih =>
    unfold insertNode
    split
    · exact List.Perm.refl _
    · exact (List.Perm.cons m ih).trans (List.Perm.swap n m ms)

theorem length_insertNode (n : Node) (b : List Node) : (insertNode n b).length = b.length + 1 := by
  simpa using (insertNode_perm n b).length_eq

theorem mem_insertNode (n a : Node) (b : List Node) : a ∈ insertNode n b ↔ a = n ∨ a ∈ b := by
  simpa using (insertNode_perm n b).mem_iff (a := a)

theorem countP_insertNode (p : Node → Bool) (n : Node) (b : List Node) :
    (insertNode n b).countP p = b.countP p + if p n then 1 else 0 := by
  rw [(insertNode_perm n b).countP_eq, List.countP_cons]

def ReprLe (a b : Node) : Prop := a.repr ≤ b.repr

theorem pairwise_insertNode (n : Node) (b : List Node) (h : b.Pairwise ReprLe) :
    (insertNode n b).Pairwise ReprLe := by
  induction b with
  | nil => simp [insertNode]
  | cons m ms ih =>
    unfold insertNode
    have hm := List.pairwise_cons.mp h
    split
    · rename_i hlt
      refine List.pairwise_cons.mpr ⟨?_, h⟩
      intro a ha
      have hnm : n.repr ≤ m.repr := Std.le_of_lt hlt
      rcases List.mem_cons.mp ha with rfl | ha
      · exact hnm
      · exact String.le_trans hnm (hm.1 a ha)
    · rename_i hnlt
      refine List.pairwise_cons.mpr ⟨?_, ih hm.2⟩
      intro a ha
      rcases (mem_insertNode n a ms).mp ha with rfl | ha
      · exact String.not_lt.mp hnlt
      · exact hm.1 a ha

/-! ### sorted keys -/

theorem insertSorted_perm (x : Nat) (l : List Nat) : (insertSorted x l).Perm (x :: l) := by
  induction l with
  | nil => exact List.Perm.refl _
  | cons y ys ih =>
    unfold insertSorted
    split
    · exact List.Perm.refl _
    · exact (List.Perm.cons y ih).trans (List.Perm.swap x y ys)

theorem insertSorted_sorted (x : Nat) (l : List Nat) (h : l.Pairwise (· ≤ ·)) :
    (insertSorted x l).Pairwise (· ≤ ·) := by
  induction l with
  | nil => simp [insertSorted]
  | cons y ys ih =>
    unfold insertSorted
    have hy := List.pairwise_cons.mp h
    split
    · rename_i hle
      refine List.pairwise_cons.mpr ⟨?_, h⟩
      intro a ha
      rcases List.mem_cons.mp ha with rfl | ha
      · exact hle
      · exact Nat.le_trans hle (hy.1 a ha)
    · rename_i hnle
      refine List.pairwise_cons.mpr ⟨?_, ih hy.2⟩
      intro a ha
      rcases List.mem_cons.mp ((insertSorted_perm x ys).mem_iff.mp ha) with rfl | ha
      · omega
      · exact hy.1 a ha

theorem sortKeys_perm (l : List Nat) : (sortKeys l).Perm l := by
  induction l with
  | nil => exact List.Perm.refl _
  | cons x xs ih =>
    show (insertSorted x (sortKeys xs)).Perm (x :: xs)
    exact (insertSorted_perm x _).trans (List.Perm.cons x ih)

theorem sortKeys_sorted (l : List Nat) : (sortKeys l).Pairwise (· ≤ ·) := by
  induction l with
  | nil => simp [sortKeys]
  | cons x xs ih => exact insertSorted_sorted x _ ih

theorem count_sortKeys (x : Nat) (l : List Nat) : (sortKeys l).count x = l.count x :=
  (sortKeys_perm l).count_eq x

theorem searchGE_cons (y : Nat) (ys : List Nat) (x : Nat) :
    searchGE (y :: ys) x = if y < x then searchGE ys x + 1 else 0 := by
  unfold searchGE
  by_cases h : y < x <;> simp [h]

theorem removeKey_eq_erase (keys : List Nat) (x : Nat) (h : keys.Pairwise (· ≤ ·)) :
    removeKey keys x = keys.erase x := by
  induction keys with
  | nil => simp [removeKey, searchGE]
  | cons y ys ih =>
    have hy := List.pairwise_cons.mp h
    have ih := ih hy.2
    unfold removeKey at ih ⊢
    simp only [searchGE_cons]
    by_cases hlt : y < x
    · have hne : y ≠ x := by omega
      simp only [hlt, if_true, List.getElem?_cons_succ, List.eraseIdx_cons_succ]
      rw [List.erase_cons_tail (by simpa using hne)]
      simp only [] at ih
      split
      · rename_i hs; rw [if_pos hs] at ih; rw [ih]
      · rename_i hs; rw [if_neg hs] at ih; rw [← ih]
    · simp only [hlt, if_false, List.getElem?_cons_zero, Option.some.injEq]
      by_cases he : y = x
      · subst he; simp
      · simp only [he, if_false]
        have : x ∉ (y :: ys) := by
          intro hmem
          rcases List.mem_cons.mp hmem with rfl | hmem
          · exact he rfl
          · have := hy.1 x hmem; omega
        exact (List.erase_of_not_mem this).symm

theorem removeKey_sorted (keys : List Nat) (x : Nat) (h : keys.Pairwise (· ≤ ·)) :
    (removeKey keys x).Pairwise (· ≤ ·) := by
  rw [removeKey_eq_erase keys x h]
  exact List.Pairwise.sublist List.erase_sublist h

theorem count_removeKey (keys : List Nat) (x y : Nat) (h : keys.Pairwise (· ≤ ·)) :
    (removeKey keys x).count y = keys.count y - if x = y then 1 else 0 := by
  rw [removeKey_eq_erase keys x h, List.count_erase]
  simp

end GoZero.C15
