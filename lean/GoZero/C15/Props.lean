/-
C15 — property theorems (statements, short proofs from the lemmas, witnesses, non-vacuity examples).

Setting.  `H : Hasher` is an arbitrary hash function (the three ways the code applies it), `R0` the
argument of `NewCustomConsistentHash`, `ops` an arbitrary sequence of Add / AddWithReplicas /
AddWithWeight / Remove over arbitrary values, replica counts and weights (negative ones included).
  `run H R0 ops`                       the state of the (patched) code after `ops`
  `members R0 ops`                     the abstract map  repr ↦ (value, virtual nodes)  after `ops`
Nodes are identified by their `lang.Repr` string, as in the code.
-/
import GoZero.C15.Proofs5
import GoZero.C15.Pinned
import GoZero.C15.Conc
namespace GoZero.C15

/-- the abstract membership after `ops`: repr ↦ (value, number of virtual nodes) -/
def members (R0 : Int) (ops : List Op) : SMap := specRun (CH.new R0).replicas ops

/-- every reachable state represents `members` (sorted keys, ordered buckets, exact multiplicities). -/
theorem reachable_represents (H : Hasher) (R0 : Int) (ops : List Op) :
    Inv H (run H R0 ops) (members R0 ops) := inv_run H R0 ops

/-! ### member-only, none-iff-empty, removed never returned -/

/-- **Get returns only current members**: a returned node is the value stored for its repr and owns at
least one virtual node. -/
theorem get_member_only (H : Hasher) (R0 : Int) (ops : List Op) (k n : Node)
    (h : get H (run H R0 ops) k = .node n) :
    ∃ c, (members R0 ops).find n.repr = some (n, c) ∧ 0 < c :=
  get_member (inv_run H R0 ops) k n h

/-- **none exactly when the ring has no virtual node** (no member, or only members added with a
non-positive replica count / weight), and Get never panics. -/
theorem get_none_iff_no_virtual_nodes (H : Hasher) (R0 : Int) (ops : List Op) (k : Node) :
    get H (run H R0 ops) k = .none ↔ ∀ r, (members R0 ops).cnt r = 0 :=
  get_none_iff (inv_run H R0 ops) k

theorem get_never_panics_reachable (H : Hasher) (R0 : Int) (ops : List Op) (k : Node) :
    get H (run H R0 ops) k ≠ .panic :=
  get_never_panics (inv_run H R0 ops) k

/-- an empty ring answers `none` (`nil, false`), whatever the key. -/
theorem empty_none (H : Hasher) (R0 : Int) (k : Node) : get H (run H R0 []) k = .none := by
  simp [get, run, CH.new]

/-- **a removed node is never returned**, whatever values share its repr. -/
theorem removed_never_returned (H : Hasher) (R0 : Int) (ops : List Op) (n k v : Node)
    (h : get H (run H R0 (ops ++ [.remove n])) k = .node v) : v.repr ≠ n.repr := by
  obtain ⟨c, hf, _⟩ := get_member_only H R0 _ k v h
  intro e
  unfold members at hf
  rw [specRun_snoc, e] at hf
  simp only [specStep] at hf
  rw [find_del] at hf
  simp at hf

/-! ### history independence — with or without hash collisions -/

/-- **the state is a function of the membership**: two histories (same constructor argument, same
hash) that end in the same map  repr ↦ (value, virtual nodes)  end with the same key slice and the same
bucket, in the same order, at every hash value. -/
theorem state_history_independent (H : Hasher) (R0 : Int) (ops₁ ops₂ : List Op)
    (h : ∀ r, (members R0 ops₁).find r = (members R0 ops₂).find r) :
    (run H R0 ops₁).keys = (run H R0 ops₂).keys ∧
      ∀ x, bucket (run H R0 ops₁).ring x = bucket (run H R0 ops₂).ring x :=
  inv_unique ((inv_run H R0 ops₁).congr h) (inv_run H R0 ops₂)

/-- **history independence of lookups**: the assignment of keys to nodes depends only on the current
set of nodes and their replica counts, not on the order of adds and removes. No hypothesis on the
hash function: it holds in the presence of collisions too. -/
theorem history_independent (H : Hasher) (R0 : Int) (ops₁ ops₂ : List Op)
    (h : ∀ r, (members R0 ops₁).find r = (members R0 ops₂).find r) (k : Node) :
    get H (run H R0 ops₁) k = get H (run H R0 ops₂) k :=
  get_unique ((inv_run H R0 ops₁).congr h) (inv_run H R0 ops₂) k

/-- instance: operations on different nodes commute. -/
theorem ops_on_different_nodes_commute (H : Hasher) (R0 : Int) (ops : List Op) (op₁ op₂ : Op)
    (hne : op₁.repr ≠ op₂.repr) (k : Node) :
    get H (run H R0 (ops ++ [op₁, op₂])) k = get H (run H R0 (ops ++ [op₂, op₁])) k := by
  apply history_independent
  intro r
  have e1 : ops ++ [op₁, op₂] = (ops ++ [op₁]) ++ [op₂] := by simp
  have e2 : ops ++ [op₂, op₁] = (ops ++ [op₂]) ++ [op₁] := by simp
  unfold members
  rw [e1, e2, specRun_snoc, specRun_snoc, specRun_snoc, specRun_snoc]
  generalize specRun (CH.new R0).replicas ops = m
  generalize (CH.new R0).replicas = R
  by_cases h1 : r = op₁.repr
  · have h2 : r ≠ op₂.repr := fun e => hne (h1.symm.trans e)
    rw [specStep_find _ _ op₂ r h2]
    subst h1
    cases op₁ <;> simp only [specStep, Op.repr] at h2 ⊢ <;>
      first
        | (rw [find_set, find_set]; simp)
        | (rw [find_del, find_del]; simp)
  · rw [specStep_find _ _ op₁ r h1]
    by_cases h2 : r = op₂.repr
    · subst h2
      cases op₂ <;> simp only [specStep, Op.repr] at h1 ⊢ <;>
        first
          | (rw [find_set, find_set]; simp)
          | (rw [find_del, find_del]; simp)
    · rw [specStep_find _ _ op₂ r h2, specStep_find _ _ op₂ r h2, specStep_find _ _ op₁ r h1]

/-! ### minimal disruption, where no two virtual nodes in play share a hash value -/

/-- one operation, all three cases at once -/
theorem op_moves_only_to_or_from (H : Hasher) (R0 : Int) (ops : List Op) (op : Op)
    (hnc : NoCollision H (members R0 ops)) (hnc' : NoCollision H (members R0 (ops ++ [op]))) (k : Node) :
    get H (run H R0 (ops ++ [op])) k = get H (run H R0 ops) k
    ∨ (∃ v, get H (run H R0 ops) k = .node v ∧ v.repr = op.repr)
    ∨ (∃ v, get H (run H R0 (ops ++ [op])) k = .node v ∧ v.repr = op.repr) := by
  apply step_moves_only (inv_run H R0 ops) (inv_run H R0 (ops ++ [op])) hnc hnc' op.repr
  intro r' hr'
  show (members R0 ops).find r' = (members R0 (ops ++ [op])).find r'
  unfold members
  rw [specRun_snoc, specStep_find _ _ _ _ hr']

/-- **adding a new node changes the assignment only of keys that move to it.** -/
theorem add_moves_only_to_new (H : Hasher) (R0 : Int) (ops : List Op) (op : Op) (n : Node) (hop : op.adds n)
    (hnew : (members R0 ops).find n.repr = none)
    (hnc : NoCollision H (members R0 (ops ++ [op]))) (k : Node) :
    get H (run H R0 (ops ++ [op])) k = get H (run H R0 ops) k ∨ get H (run H R0 (ops ++ [op])) k = .node n := by
  have hfind : ∀ r, (members R0 ops).find r = (members R0 (ops ++ [op])).find r ∨ (members R0 ops).find r = none := by
    intro r
    by_cases hr : r = n.repr
    · right; rw [hr]; exact hnew
    · left; unfold members; rw [specRun_snoc, specStep_find _ _ _ _ (by rw [adds_repr hop]; exact hr)]
  rcases op_moves_only_to_or_from H R0 ops op (noCollision_mono hnc hfind) hnc k with h | ⟨v, hv, hr⟩ | ⟨v, hv, hr⟩
  · exact Or.inl h
  · exfalso
    obtain ⟨c, hf, _⟩ := get_member_only H R0 ops k v hv
    rw [hr, adds_repr hop, hnew] at hf
    cases hf
  · right
    obtain ⟨c, hf, _⟩ := get_member_only H R0 _ k v hv
    obtain ⟨c', hf'⟩ := adds_find (R := (CH.new R0).replicas) (m := specRun (CH.new R0).replicas ops) hop
    unfold members at hf
    rw [specRun_snoc, hr, adds_repr hop, hf'] at hf
    have : n = v := by injection hf with h; injection h
    rw [hv, this]

/-- **removing a node changes the assignment only of keys that were assigned to it.** -/
theorem remove_moves_only_from_removed (H : Hasher) (R0 : Int) (ops : List Op) (n : Node)
    (hnc : NoCollision H (members R0 ops)) (k : Node) :
    get H (run H R0 (ops ++ [.remove n])) k = get H (run H R0 ops) k
    ∨ ∃ v, get H (run H R0 ops) k = .node v ∧ v.repr = n.repr := by
  have hfind : ∀ r, (members R0 (ops ++ [.remove n])).find r = (members R0 ops).find r
      ∨ (members R0 (ops ++ [.remove n])).find r = none := by
    intro r
    unfold members
    rw [specRun_snoc]
    simp only [specStep]
    rw [find_del]
    by_cases hr : r = n.repr <;> simp [hr]
  rcases op_moves_only_to_or_from H R0 ops (.remove n) hnc (noCollision_mono hnc hfind) k with h | h | ⟨v, hv, hr⟩
  · exact Or.inl h
  · exact Or.inr h
  · exact absurd hr (removed_never_returned H R0 ops n k v hv)

/-- **re-adding a node with a different replica count or weight only moves keys to or from that
node** (old value and new value may differ as Go values; they share the repr). -/
theorem reweight_moves_only_to_or_from (H : Hasher) (R0 : Int) (ops : List Op) (op : Op) (n : Node) (hop : op.adds n)
    (hnc : NoCollision H (members R0 ops)) (hnc' : NoCollision H (members R0 (ops ++ [op]))) (k : Node) :
    get H (run H R0 (ops ++ [op])) k = get H (run H R0 ops) k
    ∨ (∃ v, get H (run H R0 ops) k = .node v ∧ v.repr = n.repr)
    ∨ get H (run H R0 (ops ++ [op])) k = .node n := by
  rcases op_moves_only_to_or_from H R0 ops op hnc hnc' k with h | ⟨v, hv, hr⟩ | ⟨v, hv, hr⟩
  · exact Or.inl h
  · exact Or.inr (Or.inl ⟨v, hv, by rw [hr, adds_repr hop]⟩)
  · right; right
    obtain ⟨c, hf, _⟩ := get_member_only H R0 _ k v hv
    obtain ⟨c', hf'⟩ := adds_find (R := (CH.new R0).replicas) (m := specRun (CH.new R0).replicas ops) hop
    unfold members at hf
    rw [specRun_snoc, hr, adds_repr hop, hf'] at hf
    have : n = v := by injection hf with h; injection h
    rw [hv, this]

/-! ### concurrency: one writer (any program), any number of readers, the RWMutex as in the code

`Conc.exec H atomic ops (Conc.init R0) sched` is the state after the schedule `sched` (any list of "writer steps",
"reader t calls Get(k)", "reader t steps"; disabled steps are skipped).  `log` holds every Get that returned,
with its window `[lo, hi]` = [writer operations completed when it took the read lock, operations begun when it
returned].  AddWithReplicas is TWO critical sections (Remove, then the insertion), so a Get may see the ring
without the node in between; that — and nothing else — is what a concurrent Get can observe. -/

/-- **every concurrent Get is a sequential Get** on the state after a prefix of the writer's program inside its
window, or on the intermediate state (node removed, not yet re-inserted) of an adding operation in its window. -/
theorem conc_get_explained (H : Hasher) (atomic : Bool) (R0 : Int) (ops : List Op) (sched : List Conc.Act) :
    ∀ e ∈ (Conc.exec H atomic ops (Conc.init R0) sched).log, Conc.Explained H R0 ops e :=
  (Conc.good_exec H atomic R0 ops sched _ (Conc.good_init H R0 ops)).log

/-- **mutual exclusion**: while the writer is inside a critical section no reader is inside Get (so the two
reads of Get see one state), in every reachable state. -/
theorem conc_mutual_exclusion (H : Hasher) (atomic : Bool) (R0 : Int) (ops : List Op) (sched : List Conc.Act) (t : Conc.Tid)
    (h : Conc.holding (Conc.exec H atomic ops (Conc.init R0) sched).wpc = true) :
    (Conc.exec H atomic ops (Conc.init R0) sched).rpc t = .idle :=
  Conc.all_idle (Conc.good_exec H atomic R0 ops sched _ (Conc.good_init H R0 ops)) h t

/-- the intermediate state of an adding operation represents the membership without the node -/
theorem conc_mid_represents (H : Hasher) (R0 : Int) (ops : List Op) (n : Node) :
    Inv H (remove H (run H R0 ops) n) ((members R0 ops).del n.repr) :=
  inv_remove H _ _ n (inv_run H R0 ops)

/-- **a concurrent Get never panics** (no division by zero on the intermediate state either). -/
theorem conc_get_never_panics (H : Hasher) (atomic : Bool) (R0 : Int) (ops : List Op) (sched : List Conc.Act)
    (e : Conc.Obs) (he : e ∈ (Conc.exec H atomic ops (Conc.init R0) sched).log) : e.o ≠ .panic := by
  obtain ⟨j, _, _, _, h | ⟨_, op, n, r, _, _, h⟩⟩ := conc_get_explained H atomic R0 ops sched e he
  · rw [h]; exact get_never_panics_reachable H R0 _ _
  · rw [h]; exact get_never_panics (conc_mid_represents H R0 _ n) _

/-- **a concurrent Get returns only members**: the returned node is, with at least one virtual node, in the
membership after some prefix of the program inside the Get's window. -/
theorem conc_get_member_only (H : Hasher) (atomic : Bool) (R0 : Int) (ops : List Op) (sched : List Conc.Act)
    (e : Conc.Obs) (he : e ∈ (Conc.exec H atomic ops (Conc.init R0) sched).log) (v : Node) (hv : e.o = .node v) :
    ∃ j, e.lo ≤ j ∧ j ≤ e.hi ∧ ∃ c, (members R0 (ops.take j)).find v.repr = some (v, c) ∧ 0 < c := by
  obtain ⟨j, h1, h2, _, h | ⟨_, op, n, r, _, _, h⟩⟩ := conc_get_explained H atomic R0 ops sched e he
  · exact ⟨j, h1, h2, get_member_only H R0 _ e.k v (by rw [← h, hv])⟩
  · obtain ⟨c, hf, hc⟩ := get_member (conc_mid_represents H R0 (ops.take j) n) e.k v (by rw [← h, hv])
    rw [find_del] at hf
    split at hf
    · cases hf
    · exact ⟨j, h1, h2, c, hf, hc⟩

/-- on the intermediate state of an operation that (re-)adds `n`, the node returned is a member BEFORE and
AFTER the operation, and it is not `n`. -/
theorem conc_mid_member_before_and_after (H : Hasher) (R0 : Int) (ops : List Op) (op : Op) (n k v : Node) (r : Int)
    (hop : Conc.opSplit (CH.new R0).replicas op = (n, some r))
    (hv : get H (remove H (run H R0 ops) n) k = .node v) :
    v.repr ≠ n.repr ∧ ∃ c, 0 < c ∧ (members R0 ops).find v.repr = some (v, c)
      ∧ (members R0 (ops ++ [op])).find v.repr = some (v, c) := by
  obtain ⟨c, hf, hc⟩ := get_member (conc_mid_represents H R0 ops n) k v hv
  rw [find_del] at hf
  split at hf
  · cases hf
  · rename_i hne
    refine ⟨hne, c, hc, hf, ?_⟩
    have hrepr : op.repr = n.repr := by
      cases op <;> simp only [Conc.opSplit, Prod.mk.injEq] at hop <;> simp only [Op.repr] <;>
        first | (rw [hop.1]) | (cases hop.2)
    unfold members
    rw [specRun_snoc, specStep_find _ _ _ _ (by rw [hrepr]; exact hne)]
    exact hf

/-- **a removed node is never returned, concurrently**: a repr that is no member after any prefix inside the
Get's window (removed before the Get began, not re-added before it returned) is not the repr of the answer. -/
theorem conc_removed_never_returned (H : Hasher) (atomic : Bool) (R0 : Int) (ops : List Op) (sched : List Conc.Act)
    (e : Conc.Obs) (he : e ∈ (Conc.exec H atomic ops (Conc.init R0) sched).log) (rr : String)
    (hgone : ∀ j, e.lo ≤ j → j ≤ e.hi → (members R0 (ops.take j)).find rr = none)
    (v : Node) (hv : e.o = .node v) : v.repr ≠ rr := by
  obtain ⟨j, h1, h2, c, hf, _⟩ := conc_get_member_only H atomic R0 ops sched e he v hv
  intro heq
  rw [heq, hgone j h1 h2] at hf
  cases hf

/-- a Get that overlaps no writer operation (`lo = hi`) is the sequential Get after `lo` operations. -/
theorem conc_quiescent_get (H : Hasher) (atomic : Bool) (R0 : Int) (ops : List Op) (sched : List Conc.Act)
    (e : Conc.Obs) (he : e ∈ (Conc.exec H atomic ops (Conc.init R0) sched).log) (hq : e.lo = e.hi) :
    e.o = get H (run H R0 (ops.take e.lo)) e.k := by
  obtain ⟨j, h1, h2, _, h | ⟨hlt, _⟩⟩ := conc_get_explained H atomic R0 ops sched e he
  · have : j = e.lo := by omega
    rw [h, this]
  · omega

/-- **with AddWithReplicas as ONE critical section** (fixes/C15-add-single-critical-section.patch) every
concurrent Get is linearizable: it is the sequential Get after some prefix of the program inside its window —
the intermediate state does not exist. -/
theorem conc_atomic_get_linearizable (H : Hasher) (R0 : Int) (ops : List Op) (sched : List Conc.Act) :
    ∀ e ∈ (Conc.exec H true ops (Conc.init R0) sched).log, Conc.Linear H R0 ops e :=
  (Conc.goodAtomic_exec H R0 ops sched _ ⟨Conc.good_init H R0 ops, rfl, by simp [Conc.init]⟩).lin

set_option maxRecDepth 100000 in
/-- non-vacuity: a schedule in which reader 7 runs Get between the two critical sections of a re-add and
really sees the ring without the node (the only member: the answer is `none` although the ring holds `n`
before and after), and reader 8 sees it again afterwards. -/
example :
    let sched : List Conc.Act :=
      [.w, .w, .w, .w, .w,            -- addR n 3 complete
       .w, .w, .w,                    -- addW n 50: Remove done, insertion not begun
       .rget 7 ⟨"i", "1"⟩, .r 7, .r 7, .r 7,
       .w, .w,                        -- insertion
       .rget 8 ⟨"i", "1"⟩, .r 8, .r 8, .r 8]
    ((Conc.exec Pinned.W false [.addR Pinned.n 3, .addW Pinned.n 50] (Conc.init 0) sched).log.map
      fun e => (e.t, e.o, e.lo, e.hi)) = [(8, .node Pinned.n, 2, 2), (7, .none, 1, 2)] := by
  decide

set_option maxRecDepth 100000 in
/-- the single-writer hypothesis is needed: AddWithReplicas is not atomic, so two goroutines adding the same
node interleave as Remove, Remove, insert, insert — the node then owns every virtual node twice, one Remove
drops one copy only, and Get returns a node that `Remove` has removed (the `nodes` set no longer lists it,
so a further Remove is a no-op). At the granularity of the critical sections: -/
theorem two_writers_resurrect_removed :
    let H := Pinned.W
    let n := Pinned.n
    let s0 := CH.new 0
    let s1 := insertPhase H (insertPhase H (remove H (remove H s0 n) n) n 2) n 2   -- Add ∥ Add
    let s2 := remove H (remove H s1 n) n                                              -- Remove; Remove
    s2.nodes = [] ∧ get H s2 ⟨"i", "1"⟩ = .node n := by
  decide

/-! ### the users (cache cluster, kv store): the ring they build and how a key is dispatched

`Tie.tie_cacheUsers` / `tie_kvUsers`: both call `NewConsistentHash()` and then `AddWithWeight(node, conf.Weight)`
per configured node, in order, and dispatch with `dispatcher.Get(key)`; nothing else touches the ring. -/

/-- it is a reachable state of the model, so every theorem above applies to the users' dispatch -/
theorem userRing_is_run (H : Hasher) (conf : List (Node × Int)) :
    userRing H conf = run H (minReplicas : Int) (conf.map fun p => Op.addW p.1 p.2) := by
  unfold userRing run
  rw [List.foldl_map]
  rfl

/-- **dispatch goes to a configured node**: with its configured address, the LAST entry for that address,
and a weight that gives it at least one virtual node (for 0 ≤ w ≤ 100: exactly w, `Tie.weight_is_percent`). -/
theorem user_dispatch_member (H : Hasher) (conf : List (Node × Int)) (k n : Node)
    (h : get H (userRing H conf) k = .node n) :
    ∃ c, (members (minReplicas : Int) (conf.map fun p => Op.addW p.1 p.2)).find n.repr = some (n, c) ∧ 0 < c := by
  rw [userRing_is_run] at h
  exact get_member_only H _ _ k n h

/-- dispatch never panics and is `none` only if no configured node got a virtual node -/
theorem user_dispatch_total (H : Hasher) (conf : List (Node × Int)) (k : Node) :
    get H (userRing H conf) k ≠ .panic ∧
    (get H (userRing H conf) k = .none ↔
      ∀ r, (members (minReplicas : Int) (conf.map fun p => Op.addW p.1 p.2)).cnt r = 0) := by
  rw [userRing_is_run]
  exact ⟨get_never_panics_reachable H _ _ k, get_none_iff_no_virtual_nodes H _ _ k⟩

/-- the order of two configuration entries with different addresses does not matter -/
theorem user_conf_order_irrelevant (H : Hasher) (conf : List (Node × Int)) (a b : Node × Int)
    (hne : a.1.repr ≠ b.1.repr) (k : Node) :
    get H (userRing H (conf ++ [a, b])) k = get H (userRing H (conf ++ [b, a])) k := by
  rw [userRing_is_run, userRing_is_run]
  simp only [List.map_append, List.map_cons, List.map_nil]
  exact ops_on_different_nodes_commute H _ _ (.addW a.1 a.2) (.addW b.1 b.2) hne k

/-! ### the monitor used on the implementation's trace is sound for the model -/

/-- `memberOk` (member-only, none-iff-empty, no panic) accepts every answer of every reachable state. -/
theorem monitor_sound_member (H : Hasher) (R0 : Int) (ops : List Op) (k : Node) :
    memberOk (members R0 ops) (get H (run H R0 ops) k) = true :=
  memberOk_sound (inv_run H R0 ops) k

/-- whenever the executable collision test passes before and after an operation, `disruptOk` accepts the
pair of answers (this is exactly what the driver evaluates on the implementation's answers). -/
theorem monitor_sound_disruption (H : Hasher) (R0 : Int) (ops : List Op) (op : Op) (k : Node)
    (h : noCollision H (members R0 ops) = true) (h' : noCollision H (members R0 (ops ++ [op])) = true) :
    disruptOk op.repr (decide ((members R0 ops).cnt op.repr > 0)) (decide ((members R0 (ops ++ [op])).cnt op.repr > 0))
      (get H (run H R0 ops) k) (get H (run H R0 (ops ++ [op])) k) = true := by
  apply disruptOk_sound (inv_run H R0 ops) (inv_run H R0 (ops ++ [op])) (noCollision_sound H _ h)
    (noCollision_sound H _ h') op.repr
  intro r' hr'
  show (members R0 ops).find r' = (members R0 (ops ++ [op])).find r'
  unfold members
  rw [specRun_snoc, specStep_find _ _ _ _ hr']

/-! ### non-vacuity: the hypotheses hold on concrete, non-trivial histories

`Pinned.W` hashes the real labels; `n`, `n1`, `x` are the string nodes "n", "n1", "x"
(`"n" ++ "10" = "n1" ++ "0"`, so eleven replicas of "n" collide with one of "n1"). -/

section Examples
open Pinned (W n n1 x)
set_option maxRecDepth 100000

/-- member-only on a ring with a collision bucket -/
example : get W (run W 0 [.addR n 11, .addR n1 1]) ⟨"i", "100"⟩ = .node n := by decide
example : ∃ c, (members 0 [.addR n 11, .addR n1 1]).find n.repr = some (n, c) ∧ 0 < c :=
  get_member_only W 0 _ ⟨"i", "100"⟩ n (by decide)

/-- none-iff-empty: members without virtual nodes (replicas ≤ 0, weight 0) leave the ring empty -/
example : get W (run W 0 [.addR n 0, .addW n1 0, .addR x (-3)]) ⟨"i", "1"⟩ = .none := by decide

/-- history independence on the very history on which the pinned code depended on the order
(`pinned_history_dependent`): there is a collision, no hypothesis needed -/
example : noCollision W (members 0 [.addR n 11, .addR n1 1]) = false := by decide
example : get W (run W 0 [.addR n 11, .addR n1 1]) ⟨"i", "100"⟩
    = get W (run W 0 [.addR n1 1, .addR n 11]) ⟨"i", "100"⟩ :=
  ops_on_different_nodes_commute W 0 [] (.addR n 11) (.addR n1 1) (by decide) _

/-- `add_moves_only_to_new`: hypotheses hold (new node, no collision), and a key really moves -/
example : (members 0 [.addR n 3, .addR n1 2]).find x.repr = none := by decide
example : NoCollision W (members 0 ([.addR n 3, .addR n1 2] ++ [.addR x 4])) :=
  noCollision_sound _ _ (by decide)
example : get W (run W 0 [.addR n 3, .addR n1 2]) ⟨"s", "gyaq"⟩ = .node n1 ∧
    get W (run W 0 ([.addR n 3, .addR n1 2] ++ [.addR x 4])) ⟨"s", "gyaq"⟩ = .node x := by decide

/-- `remove_moves_only_from_removed`: hypothesis holds and a key really moves off the removed node -/
example : NoCollision W (members 0 [.addR n 3, .addR n1 2, .addR x 4]) := noCollision_sound _ _ (by decide)
example : get W (run W 0 [.addR n 3, .addR n1 2, .addR x 4]) ⟨"s", "key0"⟩ = .node n ∧
    get W (run W 0 ([.addR n 3, .addR n1 2, .addR x 4] ++ [.remove n])) ⟨"s", "key0"⟩ = .node x := by decide

/-- `reweight_moves_only_to_or_from`: both collision hypotheses hold for a weight change -/
example : NoCollision W (members 0 ([.addR n 3, .addR n1 2, .addR x 4] ++ [.addW n1 1])) :=
  noCollision_sound _ _ (by decide)
example : (members 0 ([.addR n 3, .addR n1 2, .addR x 4] ++ [.addW n1 1])).cnt n1.repr = 1 := by decide

end Examples

/-- the hypothesis is needed: with three nodes on one hash value the choice `inner % len` reshuffles
between the two old nodes when the third one joins (patched and pinned code alike). -/
theorem disruption_needs_no_collision :
    let H : Hasher := { point := fun _ _ => 5, key := fun _ => 0, inner := fun _ => 4 }
    let a : Node := ⟨"s", "a"⟩; let b : Node := ⟨"s", "b"⟩; let c : Node := ⟨"s", "c"⟩
    get H (run H 0 [.addR a 1, .addR b 1]) ⟨"i", "1"⟩ = .node a ∧
    get H (run H 0 [.addR a 1, .addR b 1, .addR c 1]) ⟨"i", "1"⟩ = .node b := by
  decide

/-! ### witnesses: the code as it was pinned violated the property (default hash, public API)

`Pinned.W` hashes the *real* labels `repr ++ itoa(i)`; the collisions used are label coincidences
(`"n" ++ "10" = "n1" ++ "0"`), which every hash function maps to equal values. The same operation lists
were replayed on the real code with murmur3 (see the harness / final report). -/

set_option maxRecDepth 100000 in
open Pinned in
/-- Remove of a node added with fewer replicas deletes another node's keys: `Get` then divides by zero. -/
theorem pinned_get_panics :
    get W (Pinned.run W 0 [.addR n1 10, .addR n 5, .remove n]) ⟨"i", "7"⟩ = .panic := by decide

set_option maxRecDepth 100000 in
open Pinned in
/-- the patched model on the same history answers with the remaining node. -/
theorem patched_same_history_no_panic :
    get W (run W 0 [.addR n1 10, .addR n 5, .remove n]) ⟨"i", "7"⟩ = .node n1 := by decide

set_option maxRecDepth 100000 in
open Pinned in
/-- history dependence: same members, different order, different answer. -/
theorem pinned_history_dependent :
    get W (Pinned.run W 0 [.addR n 11, .addR n1 1]) ⟨"i", "100"⟩
      ≠ get W (Pinned.run W 0 [.addR n1 1, .addR n 11]) ⟨"i", "100"⟩ := by decide

set_option maxRecDepth 100000 in
open Pinned in
/-- removing `n` moves a key from `n1` to `x`. -/
theorem pinned_remove_moves_foreign_key :
    get W (Pinned.run W 0 [.addR n 5, .addR n1 3, .addR x 3]) ⟨"i", "100"⟩ = .node n1 ∧
    get W (Pinned.run W 0 [.addR n 5, .addR n1 3, .addR x 3, .remove n]) ⟨"i", "100"⟩ = .node x := by decide

end GoZero.C15
