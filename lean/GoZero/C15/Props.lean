/-
C15 — property theorems (statements, short proofs from the lemmas, non-vacuity examples).
-/
import GoZero.C15.Spec
namespace GoZero.C15

/-- an empty ring answers `none` (`nil, false`), whatever the key. -/
theorem empty_none (H : Hasher) (replicas : Int) (k : Node) : get H (CH.new replicas) k = .none := by
  simp [get, CH.new]

end GoZero.C15
