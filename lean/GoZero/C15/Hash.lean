/-
C15 — the hash functions the harness installs, implemented on the Lean side as well (core only):
FNV-1a 64 (custom hash of the harness) and murmur3 x64-128 `Sum64` (go-zero's default `hash.Hash`,
github.com/spaolacci/murmur3, seed 0). Both are validated against the Go side by the correspondence run.
-/
namespace GoZero.C15

def fnv1a64 (bs : List UInt8) : UInt64 :=
  bs.foldl (fun h b => (h ^^^ b.toUInt64) * 1099511628211) 14695981039346656037

namespace Murmur

def c1 : UInt64 := 0x87c37b91114253d5
def c2 : UInt64 := 0x4cf5ad432745937f

def rotl (x : UInt64) (r : UInt64) : UInt64 := (x <<< r) ||| (x >>> (64 - r))

def fmix (k : UInt64) : UInt64 :=
  let k := k ^^^ (k >>> 33)
  let k := k * 0xff51afd7ed558ccd
  let k := k ^^^ (k >>> 33)
  let k := k * 0xc4ceb9fe1a85ec53
  k ^^^ (k >>> 33)

/-- little-endian value of at most 8 bytes -/
def le (bs : List UInt8) : UInt64 :=
  bs.foldr (fun b acc => (acc <<< 8) ||| b.toUInt64) 0

def mixK1 (k1 : UInt64) : UInt64 := rotl (k1 * c1) 31 * c2
def mixK2 (k2 : UInt64) : UInt64 := rotl (k2 * c2) 33 * c1

/-- consume 16-byte blocks; `fuel` bounds the recursion (≥ number of blocks) -/
def blocks : Nat → List UInt8 → UInt64 → UInt64 → UInt64 × UInt64 × List UInt8
  | 0, bs, h1, h2 => (h1, h2, bs)
  | fuel + 1, bs, h1, h2 =>
    if bs.length < 16 then (h1, h2, bs) else
    let k1 := le (bs.take 8)
    let k2 := le ((bs.drop 8).take 8)
    let h1 := h1 ^^^ mixK1 k1
    let h1 := (rotl h1 27 + h2) * 5 + 0x52dce729
    let h2 := h2 ^^^ mixK2 k2
    let h2 := (rotl h2 31 + h1) * 5 + 0x38495ab5
    blocks fuel (bs.drop 16) h1 h2

def sum64 (bs : List UInt8) : UInt64 :=
  let n := bs.length
  let (h1, h2, tail) := blocks (n / 16 + 1) bs 0 0
  let h2 := if tail.length > 8 then h2 ^^^ mixK2 (le (tail.drop 8)) else h2
  let h1 := if tail.length > 0 then h1 ^^^ mixK1 (le (tail.take 8)) else h1
  let h1 := h1 ^^^ n.toUInt64
  let h2 := h2 ^^^ n.toUInt64
  let h1 := h1 + h2
  let h2 := h2 + h1
  let h1 := fmix h1
  let h2 := fmix h2
  h1 + h2

end Murmur

def bytesOf (s : String) : List UInt8 := s.toUTF8.toList

end GoZero.C15
