/-
C15 — one operation: which lookups it can change (all outcome combinations), and bookkeeping lemmas
about `run` / `specRun`.
-/
import GoZero.C15.Proofs3
namespace GoZero.C15

theorem specStep_find (R : Nat) (m : SMap) (op : Op) (r : String) (h : r ≠ op.repr) :
    (specStep R m op).find r = m.find r := by
  cases op <;> simp only [specStep, Op.repr] at h ⊢ <;> first
    | (rw [find_set]; simp [h])
    | (rw [find_del]; simp [h])

theorem run_snoc (H : Hasher) (R0 : Int) (ops : List Op) (op : Op) :
    run H R0 (ops ++ [op]) = step H (run H R0 ops) op := by
  simp [run, List.foldl_append]

theorem specRun_snoc (R : Nat) (ops : List Op) (op : Op) :
    specRun R (ops ++ [op]) = specStep R (specRun R ops) op := by
  simp [specRun, List.foldl_append]

theorem run_replicas (H : Hasher) (R0 : Int) (ops : List Op) : (run H R0 ops).replicas = (CH.new R0).replicas := by
  unfold run
  generalize CH.new R0 = s
  induction ops generalizing s with
  | nil => rfl
  | cons op rest ih => simp only [List.foldl_cons]; rw [ih, step_replicas]

theorem cnt_of_find {m : SMap} {r : String} {n : Node} {c : Nat} (h : m.find r = some (n, c)) : m.cnt r = c := by
  unfold SMap.cnt; rw [h]

/-- **one operation on repr `r`** (between two represented states whose maps agree off `r`, without
colliding virtual nodes): a lookup keeps its answer, or the old answer was the member `r`, or the new
answer is the member `r`. -/
theorem step_moves_only {H : Hasher} {s s' : CH} {m m' : SMap} (hi : Inv H s m) (hi' : Inv H s' m')
    (hnc : NoCollision H m) (hnc' : NoCollision H m') (r : String)
    (hagree : ∀ r', r' ≠ r → m.find r' = m'.find r') (k : Node) :
    get H s' k = get H s k ∨ (∃ v, get H s k = .node v ∧ v.repr = r) ∨ (∃ v, get H s' k = .node v ∧ v.repr = r) := by
  cases hg : get H s k with
  | panic => exact absurd hg (get_never_panics hi k)
  | none =>
    cases hg' : get H s' k with
    | panic => exact absurd hg' (get_never_panics hi' k)
    | none => exact Or.inl rfl
    | node b =>
      right; right
      refine ⟨b, rfl, ?_⟩
      apply Classical.byContradiction
      intro hbr
      obtain ⟨c, hf, hc⟩ := get_member hi' k b hg'
      have h0 := (get_none_iff hi k).mp hg b.repr
      rw [cnt_of_find (by rw [hagree _ hbr]; exact hf)] at h0
      omega
  | node a =>
    cases hg' : get H s' k with
    | panic => exact absurd hg' (get_never_panics hi' k)
    | none =>
      right; left
      refine ⟨a, rfl, ?_⟩
      apply Classical.byContradiction
      intro har
      obtain ⟨c, hf, hc⟩ := get_member hi k a hg
      have h0 := (get_none_iff hi' k).mp hg' a.repr
      rw [cnt_of_find (by rw [← hagree _ har]; exact hf)] at h0
      omega
    | node b =>
      by_cases hab : a = b
      · left; rw [hab]
      · rcases moved_only hi hi' hnc hnc' r hagree k a b hg hg' hab with h | h
        · exact Or.inr (Or.inl ⟨a, rfl, h⟩)
        · exact Or.inr (Or.inr ⟨b, rfl, h⟩)

theorem noCollision_mono {H : Hasher} {m m' : SMap} (hnc : NoCollision H m')
    (h : ∀ r, m.find r = m'.find r ∨ m.find r = none) : NoCollision H m := by
  intro r1 r2 n1 c1 n2 c2 i1 i2 h1 h2 hi1 hi2 he
  have g1 : m'.find r1 = some (n1, c1) := by
    rcases h r1 with e | e
    · rw [← e]; exact h1
    · rw [e] at h1; cases h1
  have g2 : m'.find r2 = some (n2, c2) := by
    rcases h r2 with e | e
    · rw [← e]; exact h2
    · rw [e] at h2; cases h2
  exact hnc r1 r2 n1 c1 n2 c2 i1 i2 g1 g2 hi1 hi2 he

/-- `op` (re-)adds node `n`: Add, AddWithReplicas or AddWithWeight -/
def Op.adds (op : Op) (n : Node) : Prop :=
  op = .add n ∨ (∃ r, op = .addR n r) ∨ (∃ w, op = .addW n w)

theorem adds_repr {op : Op} {n : Node} (h : op.adds n) : op.repr = n.repr := by
  rcases h with rfl | ⟨_, rfl⟩ | ⟨_, rfl⟩ <;> rfl

theorem adds_find {R : Nat} {m : SMap} {op : Op} {n : Node} (h : op.adds n) :
    ∃ c, (specStep R m op).find n.repr = some (n, c) := by
  have key : ∀ c, (m.set n c).find n.repr = some (n, c) := fun c => by rw [find_set]; simp
  rcases h with rfl | ⟨_, rfl⟩ | ⟨_, rfl⟩ <;> exact ⟨_, key _⟩

end GoZero.C15
