/-
C15 — round 5 property theorems: the users' constructors over the WHOLE configuration space (every list of
(address, weight) entries: empty, single, duplicates, weights ≤ 0 and > 100), the public-method call path
(entry point → key parameter → dispatcher.Get → node), user-supplied `String()` that does not return.
-/
import GoZero.C15.Props2
namespace GoZero.C15

/-! ### a `String()` that panics / exits leaves a reachable state -/

/-- **fault atomicity**: an operation that ends in one of its lock-free `String()` calls (panic with an error, with
another value, runtime error, `runtime.Goexit`) leaves the ring either as it was or as after `Remove(node)` — in both
cases a state the operations themselves can reach, so EVERY theorem about reachable states applies afterwards. -/
theorem fault_leaves_reachable_state (H : Hasher) (R0 : Int) (ops : List Op) (op : Op) (nth : Nat) :
    stepFault H (run H R0 ops) op nth = run H R0 ops ∨
    stepFault H (run H R0 ops) op nth = run H R0 (ops ++ [.remove op.node]) := by
  have hr : run H R0 (ops ++ [.remove op.node]) = remove H (run H R0 ops) op.node := by rw [run_snoc]; rfl
  cases op <;> simp only [stepFault, faultAdd, Op.node] at hr ⊢ <;> first
    | exact Or.inl trivial
    | exact Or.inl rfl
    | (by_cases h : nth ≤ 1
       · rw [if_pos h]; exact Or.inl rfl
       · rw [if_neg h]; exact Or.inr hr.symm)

/-- the abstract membership follows (`specStepFault`, what the driver's monitor uses) -/
theorem fault_state_represents (H : Hasher) (R0 : Int) (ops : List Op) (op : Op) (nth : Nat) :
    Inv H (stepFault H (run H R0 ops) op nth) (specStepFault (members R0 ops) op nth) := by
  have base := inv_run H R0 ops
  have hrem : Inv H (remove H (run H R0 ops) op.node) ((members R0 ops).del op.node.repr) :=
    inv_remove H _ _ op.node base
  cases op <;> simp only [stepFault, specStepFault, faultAdd, faultDel, Op.node] at hrem ⊢ <;> first
    | exact base
    | (by_cases h : nth ≤ 1
       · rw [if_pos h, if_pos h]; exact base
       · rw [if_neg h, if_neg h]; exact hrem)

/-- member-only after a fault: what `Get` returns is a member of the membership the fault left -/
theorem fault_get_member_only (H : Hasher) (R0 : Int) (ops : List Op) (op : Op) (nth : Nat) (k n : Node)
    (h : get H (stepFault H (run H R0 ops) op nth) k = .node n) :
    ∃ c, (specStepFault (members R0 ops) op nth).find n.repr = some (n, c) ∧ 0 < c :=
  get_member (fault_state_represents H R0 ops op nth) k n h

/-- … and never panics -/
theorem fault_get_never_panics (H : Hasher) (R0 : Int) (ops : List Op) (op : Op) (nth : Nat) (k : Node) :
    get H (stepFault H (run H R0 ops) op nth) k ≠ .panic :=
  get_never_panics (fault_state_represents H R0 ops op nth) k

/-- the node of an adding operation that failed AFTER its `Remove` (second `String()` call) is not served any more -/
theorem fault_after_remove_not_returned (H : Hasher) (R0 : Int) (ops : List Op) (n k v : Node) (w : Int)
    (h : get H (stepFault H (run H R0 ops) (.addW n w) 2) k = .node v) : v.repr ≠ n.repr := by
  obtain ⟨c, hf, _⟩ := fault_get_member_only H R0 ops _ 2 k v h
  intro e
  simp only [specStepFault, faultDel, show ¬ (2 : Nat) ≤ 1 by omega, if_false] at hf
  rw [find_del, e] at hf
  simp at hf

/-- a history in which any operation may end in a fault -/
inductive Ev where
  | op (o : Op)
  | fault (o : Op) (nth : Nat)

def stepEv (H : Hasher) (s : CH) : Ev → CH
  | .op o => step H s o
  | .fault o nth => stepFault H s o nth

def runEv (H : Hasher) (R0 : Int) (evs : List Ev) : CH := evs.foldl (stepEv H) (CH.new R0)

/-- **every history with faults is a fault-free history**: whatever operations end in a panicking / exiting
`String()`, at whichever call site, the ring is in a state that Add / AddWithReplicas / AddWithWeight / Remove alone can
reach — all theorems about `run` (member-only, history independence, minimal disruption, …) hold after it. -/
theorem faulty_history_is_reachable (H : Hasher) (R0 : Int) (evs : List Ev) :
    ∃ ops, runEv H R0 evs = run H R0 ops := by
  unfold runEv
  suffices ∀ (evs : List Ev) (s : CH), (∃ ops, s = run H R0 ops) → ∃ ops, evs.foldl (stepEv H) s = run H R0 ops from
    this evs _ ⟨[], rfl⟩
  intro evs
  induction evs with
  | nil => intro s h; simpa using h
  | cons e rest ih =>
    intro s ⟨ops, hs⟩
    simp only [List.foldl_cons]
    apply ih
    subst hs
    cases e with
    | op o => exact ⟨ops ++ [o], (run_snoc H R0 ops o).symm⟩
    | fault o nth =>
      rcases fault_leaves_reachable_state H R0 ops o nth with h | h
      · exact ⟨ops, h⟩
      · exact ⟨_, h⟩

/-- … in particular `Get` never panics after such a history -/
theorem faulty_history_get_never_panics (H : Hasher) (R0 : Int) (evs : List Ev) (k : Node) :
    get H (runEv H R0 evs) k ≠ .panic := by
  obtain ⟨ops, h⟩ := faulty_history_is_reachable H R0 evs
  rw [h]; exact get_never_panics_reachable H R0 ops k

set_option maxRecDepth 100000 in
/-- non-vacuity: a re-weighting of `n` that fails after `Remove` leaves the other node serving the key -/
example : get Pinned.W (stepFault Pinned.W (run Pinned.W 0 [.addR Pinned.n 3, .addR Pinned.x 4]) (.addW Pinned.n 50) 2)
    ⟨"s", "key0"⟩ = .node Pinned.x := by decide

/-! ### the users over the whole configuration space -/

/-- the LAST entry configured for an address (a later entry replaces an earlier one) -/
def lastEntry (conf : List (Node × Int)) (r : String) : Option (Node × Int) :=
  conf.reverse.find? (fun p => p.1.repr == r)

/-- virtual nodes a weight gives on the users' ring (`NewConsistentHash()`: 100 replicas) -/
def userCount (w : Int) : Nat := clampReplicas 100 (weightReplicas 100 w)

/-- the membership the users' ring represents -/
def userMembers (conf : List (Node × Int)) : SMap := members (minReplicas : Int) (conf.map fun p => Op.addW p.1 p.2)

theorem newDefault_replicas : (CH.new (minReplicas : Int)).replicas = 100 := by decide

theorem foldl_addW_find (conf : List (Node × Int)) (m0 : SMap) (r : String) :
    ((conf.map fun p => Op.addW p.1 p.2).foldl (specStep 100) m0).find r =
      match lastEntry conf r with
      | some p => some (p.1, userCount p.2)
      | none => m0.find r := by
  induction conf generalizing m0 with
  | nil => simp [lastEntry]
  | cons p rest ih =>
    simp only [List.map_cons, List.foldl_cons]
    rw [ih]
    have hl : lastEntry (p :: rest) r = (lastEntry rest r).or (if p.1.repr == r then some p else none) := by
      unfold lastEntry
      rw [List.reverse_cons, List.find?_append]
      by_cases e : p.1.repr = r <;> simp [e]
    rw [hl]
    cases hrest : lastEntry rest r with
    | some q => simp
    | none =>
      simp only [Option.none_or, specStep]
      rw [find_set]
      by_cases e : p.1.repr = r
      · subst e; simp [userCount]
      · have e' : ¬ r = p.1.repr := fun h => e h.symm
        simp [e, e']

/-- **the membership of a configuration**: per address the LAST entry counts, with `h.replicas * w / 100` virtual nodes
(clamped to 0 … 100) -/
theorem userMembers_find (conf : List (Node × Int)) (r : String) :
    (userMembers conf).find r = (lastEntry conf r).map fun p => (p.1, userCount p.2) := by
  unfold userMembers members specRun
  rw [newDefault_replicas, foldl_addW_find]
  cases lastEntry conf r <;> simp [SMap.find]

/-- a weight whose product with the 100 replicas fits a Go `int` -/
def FitsInt (w : Int) : Prop := -92233720368547758 ≤ w ∧ w ≤ 92233720368547758

theorem userCount_pos_iff (w : Int) (hw : FitsInt w) : 0 < userCount w ↔ 0 < w := by
  unfold userCount clampReplicas weightReplicas topWeight wrapInt FitsInt at *
  have h1 : ((100 : Nat) : Int) * w + 9223372036854775808 ≥ 0 := by omega
  have h2 : ((100 : Nat) : Int) * w + 9223372036854775808 < 18446744073709551616 := by omega
  rw [Int.emod_eq_of_lt h1 h2]
  have e : ((100 : Nat) : Int) * w + 9223372036854775808 - 9223372036854775808 = 100 * w := by omega
  rw [e]
  by_cases hp : 0 < w
  · have : Int.tdiv (100 * w) 100 = w := by rw [Int.tdiv_eq_ediv_of_nonneg (by omega)]; omega
    rw [this]; simp only [hp, iff_true]; split <;> omega
  · have hle : Int.tdiv (100 * w) 100 ≤ 0 := by
      have e2 : 100 * w = -(100 * (-w)) := by omega
      rw [e2, Int.neg_tdiv, Int.tdiv_eq_ediv_of_nonneg (by omega)]; omega
    simp only [hp, iff_false]; split <;> omega

/-- `TotalWeights` of a configuration without a positive weight is 0: both constructors refuse it -/
theorem totalWeights_eq_zero (conf : List (Node × Int)) (h : ∀ p ∈ conf, p.2 ≤ 0) : totalWeights conf = 0 := by
  unfold totalWeights
  suffices ∀ acc, acc = 0 → conf.foldl (fun acc p => totalWeightsStep acc p.2) acc = 0 from this 0 rfl
  induction conf with
  | nil => intro acc h0; simpa using h0
  | cons p rest ih =>
    intro acc h0
    simp only [List.foldl_cons]
    apply ih (fun q hq => h q (List.mem_cons_of_mem _ hq))
    have hp := h p (List.mem_cons_self ..)
    subst h0
    unfold totalWeightsStep wrapInt
    by_cases hn : p.2 < 0
    · simp [hn]
    · have : p.2 = 0 := by omega
      simp [this]

/-- **no instance without a weighted node**: cache.New and kv.NewStore terminate the process (`log.Fatal`) for the empty
configuration and for every configuration in which no entry has a positive weight -/
theorem user_fatal_without_weight (user : String) (H : Hasher) (conf : List (Node × Int)) (h : ∀ p ∈ conf, p.2 ≤ 0) :
    userNew user H conf = .fatal := by
  have : userFatal conf = true := by simp [userFatal, totalWeights_eq_zero conf h]
  unfold userNew cacheNew kvNew
  simp [this]

/-- … so an instance exists only if some entry has a positive weight -/
theorem user_instance_has_weighted_node (user : String) (H : Hasher) (conf : List (Node × Int))
    (h : userNew user H conf ≠ .fatal) : ∃ p ∈ conf, 0 < p.2 := by
  refine Classical.byContradiction fun hn => h (user_fatal_without_weight user H conf fun p hp => ?_)
  exact Int.not_lt.mp fun hpos => hn ⟨p, hp, hpos⟩

/-- cache.New returns the node itself only for a one-entry configuration, and that entry's weight is positive -/
theorem cacheNew_direct (H : Hasher) (conf : List (Node × Int)) (n : Node) (h : cacheNew H conf = .direct n) :
    ∃ w, conf = [(n, w)] ∧ 0 < w := by
  unfold cacheNew at h
  by_cases hf : userFatal conf = true
  · simp [hf] at h
  · simp only [hf, Bool.false_eq_true, if_false] at h
    match conf, h with
    | [p], h =>
      simp only [UserInst.direct.injEq] at h
      refine ⟨p.2, by rw [← h], ?_⟩
      obtain ⟨q, hq, hpos⟩ := user_instance_has_weighted_node "cache" H [p] (by
        unfold userNew cacheNew; simp [hf])
      simp only [List.mem_singleton] at hq
      subst hq; exact hpos
    | [], h => simp at h
    | _ :: _ :: _, h => simp at h

/-- kv.NewStore never returns a node directly -/
theorem kvNew_not_direct (H : Hasher) (conf : List (Node × Int)) (n : Node) : kvNew H conf ≠ .direct n := by
  unfold kvNew; split <;> simp

/-- every ring the users build is `userRing` of their configuration -/
theorem userNew_ring (user : String) (H : Hasher) (conf : List (Node × Int)) (s : CH)
    (h : userNew user H conf = .ring s) : s = userRing H conf := by
  unfold userNew cacheNew kvNew at h
  by_cases hu : user = "cache" <;> by_cases hf : userFatal conf = true <;> simp [hu, hf] at h
  · match conf, h with
    | [_], h => simp at h
    | [], h => simp only [UserInst.ring.injEq] at h; exact h.symm
    | _ :: _ :: _, h => simp only [UserInst.ring.injEq] at h; exact h.symm
  · exact h.symm

/-- **dispatch of the users, every configuration**: a key is sent to a CONFIGURED node — the LAST entry for its address —
which owns at least one virtual node (ring) or is the single configured node with a positive weight (cache.New's
shortcut). -/
theorem user_dispatch_configured (user : String) (H : Hasher) (conf : List (Node × Int)) (k n : Node)
    (h : (userNew user H conf).dispatch H k = .node n) :
    ∃ w, lastEntry conf n.repr = some (n, w) ∧ (0 < userCount w ∨ (conf = [(n, w)] ∧ 0 < w)) := by
  cases hi : userNew user H conf with
  | fatal => rw [hi] at h; simp [UserInst.dispatch] at h
  | direct m =>
    rw [hi] at h
    simp only [UserInst.dispatch, Outcome.node.injEq] at h
    subst h
    have hc : cacheNew H conf = .direct m := by
      unfold userNew at hi
      by_cases hu : user = "cache"
      · simpa [hu] using hi
      · simp only [hu, if_false] at hi; exact absurd hi (kvNew_not_direct H conf m)
    obtain ⟨w, hconf, hw⟩ := cacheNew_direct H conf m hc
    refine ⟨w, ?_, Or.inr ⟨hconf, hw⟩⟩
    subst hconf; simp [lastEntry]
  | ring s =>
    rw [hi] at h
    have hs := userNew_ring user H conf s hi
    subst hs
    simp only [UserInst.dispatch] at h
    obtain ⟨c, hf, hc⟩ := user_dispatch_member H conf k n h
    have hm := userMembers_find conf n.repr
    unfold userMembers at hm
    rw [hf] at hm
    cases hl : lastEntry conf n.repr with
    | none => rw [hl] at hm; simp at hm
    | some p =>
      rw [hl] at hm
      simp only [Option.map_some, Option.some.injEq, Prod.mk.injEq] at hm
      refine ⟨p.2, ?_, Or.inl (by rw [← hm.2]; exact hc)⟩
      rw [hm.1]

/-- **a node without weight is never chosen** (whole configuration space, both users, weights in the range where
`h.replicas * weight` fits an `int`): the node a key is sent to has, in its last configuration entry, a POSITIVE weight. -/
theorem user_dispatch_positive_weight (user : String) (H : Hasher) (conf : List (Node × Int))
    (hw : ∀ p ∈ conf, FitsInt p.2) (k n : Node) (h : (userNew user H conf).dispatch H k = .node n) :
    ∃ w, lastEntry conf n.repr = some (n, w) ∧ 0 < w := by
  obtain ⟨w, hl, hc⟩ := user_dispatch_configured user H conf k n h
  refine ⟨w, hl, ?_⟩
  rcases hc with hc | ⟨_, hc⟩
  · have hmem : (n, w) ∈ conf := by
      have := List.mem_of_find?_eq_some hl
      simpa using this
    exact (userCount_pos_iff w (hw _ hmem)).mp hc
  · exact hc

/-- **every key is served** when the addresses are distinct: a configuration the constructor accepts, with weights that
fit, sends every key to some node (`none` never happens) -/
theorem user_dispatch_never_none (user : String) (H : Hasher) (conf : List (Node × Int))
    (hw : ∀ p ∈ conf, FitsInt p.2)
    (hd : ∀ a ∈ conf, ∀ b ∈ conf, a.1.repr = b.1.repr → a = b)
    (hf : userNew user H conf ≠ .fatal) (k : Node) :
    (userNew user H conf).dispatch H k ≠ .none := by
  obtain ⟨p, hp, hpos⟩ := user_instance_has_weighted_node user H conf hf
  cases hi : userNew user H conf with
  | fatal => exact absurd hi hf
  | direct m => simp [UserInst.dispatch]
  | ring s =>
    have hs := userNew_ring user H conf s hi
    subst hs
    simp only [UserInst.dispatch]
    intro hnone
    have hall := (user_dispatch_total H conf k).2.mp hnone p.1.repr
    have hl : lastEntry conf p.1.repr = some p := by
      unfold lastEntry
      cases hfind : conf.reverse.find? (fun q => q.1.repr == p.1.repr) with
      | none =>
        have := List.find?_eq_none.mp hfind p (by simpa using hp)
        simp at this
      | some q =>
        have hq := List.mem_of_find?_eq_some hfind
        have he := List.find?_some hfind
        simp only [beq_iff_eq] at he
        rw [hd q (by simpa using hq) p hp he]
    have hm := userMembers_find conf p.1.repr
    rw [hl] at hm
    unfold userMembers at hm
    simp only [Option.map_some] at hm
    rw [cnt_of_find hm] at hall
    have := (userCount_pos_iff p.2 (hw p hp)).mpr hpos
    omega

/-- the dispatch of both users depends only on the configured membership (any reordering that keeps, per address, the
last weight) — also through `cache.New`'s shortcut when both configurations have at least two entries -/
theorem userNew_depends_on_membership_only (user : String) (H : Hasher) (conf₁ conf₂ : List (Node × Int))
    (h : ∀ r, (userMembers conf₁).find r = (userMembers conf₂).find r)
    (s₁ s₂ : CH) (h₁ : userNew user H conf₁ = .ring s₁) (h₂ : userNew user H conf₂ = .ring s₂) (k : Node) :
    (userNew user H conf₁).dispatch H k = (userNew user H conf₂).dispatch H k := by
  rw [h₁, h₂]
  have e₁ := userNew_ring user H conf₁ s₁ h₁
  have e₂ := userNew_ring user H conf₂ s₂ h₂
  subst e₁; subst e₂
  simp only [UserInst.dispatch]
  exact user_dispatch_depends_on_membership_only H conf₁ conf₂ h k

/-! ### the public-method call path -/

/-- **entry point → key → node**: wherever a public method of the cache cluster / kv store sends a command, it is a
configured node with a positive weight; for the one-key methods there is exactly one target, the ring's answer for the
method's KEY parameter (`kvKeyIndex`: second string of `Eval`, first of every other method); `Del` dispatches every
key on its own. -/
theorem call_targets_positive_weight (user : String) (H : Hasher) (conf : List (Node × Int))
    (hw : ∀ p ∈ conf, FitsInt p.2) (method : String) (strs : List String) (n : Node)
    (h : Outcome.node n ∈ callTargets H (userNew user H conf) user method strs) :
    ∃ w, lastEntry conf n.repr = some (n, w) ∧ 0 < w := by
  unfold callTargets at h
  obtain ⟨k, _, hk⟩ := List.mem_map.mp h
  exact user_dispatch_positive_weight user H conf hw (strKey k) n hk

theorem call_targets_one_key (user : String) (H : Hasher) (inst : UserInst) (method : String) (strs : List String)
    (hm : multiKey method = false) : (callTargets H inst user method strs).length ≤ 1 := by
  unfold callTargets callKeys
  simp only [hm, Bool.false_eq_true, if_false, List.length_map]
  split
  · simp [List.length_take]; omega
  · cases strs[kvKeyIndex method]? <;> simp

theorem call_targets_del (user : String) (H : Hasher) (inst : UserInst) (method : String) (strs : List String)
    (hm : multiKey method = true) :
    callTargets H inst user method strs = strs.map fun k => inst.dispatch H (strKey k) := by
  unfold callTargets callKeys; simp [hm]

set_option maxRecDepth 100000 in
/-- non-vacuity (the configuration class of seeded C15-7): two drained nodes and one weighted node that is NOT first —
`cache.New` builds a ring and the key goes to the weighted node -/
example : (userNew "cache" Pinned.W [(Pinned.n, 0), (Pinned.x, 3), (Pinned.n1, -5)]).dispatch Pinned.W ⟨"s", "key0"⟩
    = .node Pinned.x := by decide

set_option maxRecDepth 100000 in
example : (userNew "kv" Pinned.W [(Pinned.n, 0), (Pinned.n1, -5)]).isFatal = true ∧
    (userNew "cache" Pinned.W []).isFatal = true := by decide

end GoZero.C15
