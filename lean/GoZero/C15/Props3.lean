/-
C15 — round 5 property theorems: the users' constructors over the WHOLE configuration space, the public-method
call path, user-supplied `String()` that does not return.
-/
import GoZero.C15.Props2
namespace GoZero.C15

end GoZero.C15
