/-
C09 — property theorems, round 2: custom notFound / notAllowed handlers, the monitor of the driver is sound,
rest.Server / engine binding (WithPrefix, bindRoutes), path.Clean characterised, trailing slash and letter case.
-/
import GoZero.C09.Props
import GoZero.C09.ProofsMonitor
import GoZero.C09.ProofsCleanPath
namespace GoZero.C09

open Spec

/-! ### custom notFound / notAllowed handlers (`SetNotFoundHandler`, `SetNotAllowedHandler`) -/

/-- custom handlers never change *whether* and *where* a request is dispatched. -/
theorem serveHTTP_route_iff (pr : PatRouter) (m p : String) (h : H) (ps : Params) :
    pr.serveHTTP m p = .route h ps ↔ serve pr.core m p = .handler h ps := by
  unfold PatRouter.serveHTTP
  cases hs : serve pr.core m p with
  | handler h' ps' => simp
  | notAllowed a => cases pr.notAllowed <;> simp
  | notFound => cases pr.notFound <;> simp

theorem rooted_of_not_notFound {r : Router} {tbl : Table} (hrep : Rep r tbl) (hok : TblOK tbl) {m p : String}
    (h : serve r m p ≠ .notFound) : rooted p = true := by
  cases hr : rooted p with
  | true => rfl
  | false => exact absurd ((status_404 hrep hok m p).mpr (fun h' => by rw [hr] at h'; cases h')) h

/-- **the custom not-allowed handler runs exactly in the 405 situation**: no route of the request's method
matches the cleaned path, a route of another method does.  (The router then sets no Allow header itself.) -/
theorem custom_notAllowed_runs_iff {pr : PatRouter} {tbl : Table} (hrep : Rep pr.core tbl) (hok : TblOK tbl)
    (m p : String) (h : H) :
    pr.serveHTTP m p = .customNotAllowed h ↔
      (pr.notAllowed = some h ∧ rooted p = true ∧ candidates tbl m (cleanToks p) = [] ∧
        ∃ route ∈ tbl, route.method ≠ m ∧ matchesP route.pats (cleanToks p) = true) := by
  constructor
  · intro hresp
    unfold PatRouter.serveHTTP at hresp
    cases hs : serve pr.core m p with
    | handler h' ps' => rw [hs] at hresp; cases hresp
    | notFound => rw [hs] at hresp; cases hnf : pr.notFound <;> rw [hnf] at hresp <;> cases hresp
    | notAllowed a =>
      rw [hs] at hresp
      cases hna : pr.notAllowed with
      | none => rw [hna] at hresp; cases hresp
      | some h' =>
        rw [hna] at hresp
        simp only [Response.customNotAllowed.injEq] at hresp
        subst hresp
        obtain ⟨hc, hne, _, hmem⟩ := status_405_allow_exact hrep hok hs
        obtain ⟨x, hx⟩ := List.exists_mem_of_ne_nil _ hne
        obtain ⟨hxm, route, hr, hrm, hmatch⟩ := (hmem x).mp hx
        exact ⟨rfl, rooted_of_not_notFound hrep hok (by rw [hs]; intro e; cases e), hc, route, hr,
          by rw [hrm]; exact hxm, hmatch⟩
  · rintro ⟨hna, hr, hc, route, hmem, hrm, hmatch⟩
    unfold PatRouter.serveHTTP
    cases hs : serve pr.core m p with
    | handler h' ps' =>
      obtain ⟨_, route', hmem', hm', hmatch'⟩ := (dispatch_iff_match hrep hok m p).mp ⟨h', ps', hs⟩
      have : route' ∈ candidates tbl m (cleanToks p) := mem_candidates.mpr ⟨hmem', hm', hmatch'⟩
      rw [hc] at this; cases this
    | notFound =>
      have := (status_404 hrep hok m p).mp hs hr route hmem
      rw [hmatch] at this; cases this
    | notAllowed a => simp [hna]

/-- **the custom not-found handler runs exactly in the 404 situation**: no route of any method matches. -/
theorem custom_notFound_runs_iff {pr : PatRouter} {tbl : Table} (hrep : Rep pr.core tbl) (hok : TblOK tbl)
    (m p : String) (nf : NFHandler) :
    pr.serveHTTP m p = .customNotFound nf ↔
      (pr.notFound = some nf ∧ (rooted p = true → ∀ route ∈ tbl, matchesP route.pats (cleanToks p) = false)) := by
  rw [← status_404 hrep hok m p]
  unfold PatRouter.serveHTTP
  cases hs : serve pr.core m p with
  | handler h' ps' => simp
  | notAllowed a => cases pr.notAllowed <;> simp
  | notFound => cases pr.notFound <;> simp

/-! ### the driver's monitor is sound -/

/-- **Monitor soundness.**  On any router that stores the table (any iteration order of the maps), with any
custom handlers, the canonical observation of what the model does for a request is accepted by the monitor
`Spec.monitorObs` — the monitor can only fire on behaviour the model cannot exhibit. -/
theorem monitor_sound {pr : PatRouter} {tbl : Table} (hrep : Rep pr.core tbl) (hok : TblOK tbl) (m p : String) :
    monitorObs tbl (oneVarPerPosition tbl) (customOf pr) m
      (if rooted p then some (cleanToks p) else none) (obsOf (pr.serveHTTP m p)) = .ok := by
  cases hs : serve pr.core m p with
  | handler h ps =>
    have hresp : pr.serveHTTP m p = .route h ps := (serveHTTP_route_iff pr m p h ps).mpr hs
    obtain ⟨hr, _⟩ := (dispatch_iff_match hrep hok m p).mp ⟨h, ps, hs⟩
    obtain ⟨route, hadm, hh, hps⟩ := chosen_is_admissible hrep hok hs
    rw [hresp]
    simp only [obsOf, hr, if_true]
    have hhit : hitOk tbl m (cleanToks p) h (paramMap ps) = true := by
      unfold hitOk
      rw [List.any_eq_true]
      refine ⟨route, hadm, ?_⟩
      simp only [hh, beq_self_eq_true, Bool.true_and]
      split
      · rename_i hd
        rw [sameSet_iff]
        have : paramMap ps = (binds route.pats (cleanToks p)).reverse := by
          rw [hps]
          apply paramMap_of_nodup
          rw [List.map_reverse]
          exact nodup_reverse' _ (binds_keys_nodup hd _)
        intro x
        rw [this]
        exact List.mem_reverse
      · rw [List.all_eq_true]
        intro x hx
        have := mem_paramMap hx
        rw [hps] at this
        simpa using List.mem_reverse.mp this
    unfold monitorObs
    simp only [hhit, Option.getD_some, Option.isSome_some, Bool.and_self, if_true]
    cases hyp : oneVarPerPosition tbl
    · simp
    · have : ((admissible tbl m (cleanToks p)).all fun a =>
          (admissible tbl m (cleanToks p)).all fun b => a == b) = true := by
        rw [List.all_eq_true]
        intro a ha
        rw [List.all_eq_true]
        intro b hb
        simp [admissible_unique hok hyp ha hb]
      simp [this]
  | notAllowed a =>
    have hr : rooted p = true := rooted_of_not_notFound hrep hok (by rw [hs]; intro e; cases e)
    obtain ⟨hc, hne, _, _⟩ := status_405_allow_exact hrep hok hs
    have hal := allow_is_spec_allowed hrep hok hs
    have hexp : ∃ a', expect tbl m (some (cleanToks p)) = .notAllowed a' ∧ ∀ x, x ∈ a ↔ x ∈ a' := by
      cases hall : allowed tbl m (cleanToks p) with
      | nil =>
        exfalso
        obtain ⟨x, hx⟩ := List.exists_mem_of_ne_nil _ hne
        have := (hal x).mp hx
        rw [hall] at this; cases this
      | cons y ys =>
        exact ⟨y :: ys, by simp [expect, candidates_nil_preferred hc, hall], fun x => by rw [hal x, hall]⟩
    obtain ⟨a', he, hmem⟩ := hexp
    unfold PatRouter.serveHTTP
    simp only [hs, hr, if_true]
    cases hna : pr.notAllowed with
    | none =>
      simp only [obsOf, monitorObs, he, customOf, hna]
      have : sameSet a a' = true := (sameSet_iff a a').mpr hmem
      simp [this]
    | some h' =>
      simp [obsOf, monitorObs, he, customOf, hna]
  | notFound =>
    have h404 := (status_404 hrep hok m p).mp hs
    have hexp : expect tbl m (if rooted p then some (cleanToks p) else none) = .notFound := by
      cases hr : rooted p with
      | false => simp [expect]
      | true =>
        have hnone : ∀ x, candidates tbl x (cleanToks p) = [] := by
          intro x
          rw [List.eq_nil_iff_forall_not_mem]
          intro route hroute
          obtain ⟨hm1, _, hm3⟩ := mem_candidates.mp hroute
          rw [h404 hr route hm1] at hm3; cases hm3
        have hall : allowed tbl m (cleanToks p) = [] := by
          rw [List.eq_nil_iff_forall_not_mem]
          intro x hx
          exact (mem_allowed.mp hx).2 (hnone x)
        simp [expect, candidates_nil_preferred (hnone m), hall]
    unfold PatRouter.serveHTTP
    simp only [hs]
    cases hnf : pr.notFound with
    | none => simp [obsOf, monitorObs, hexp, customOf, hnf]
    | some nf =>
      cases hu : nf.user with
      | none => simp [obsOf, monitorObs, hexp, customOf, hnf, hu]
      | some h' => simp [obsOf, monitorObs, hexp, customOf, hnf, hu]

/-- the second monitor rule ("under the hypothesis the outcomes of repeated runs do not differ") is sound too:
two routers storing the same table (any iteration orders), with the same custom handlers, answer every request
identically — up to the order of the methods in the Allow header, which the harness sorts. -/
theorem monitor_determinism_sound {r r' : Router} {tbl : Table} (hrep : Rep r tbl) (hrep' : Rep r' tbl)
    (hok : TblOK tbl) (hyp : oneVarPerPosition tbl = true) (nf : Option NFHandler) (na : Option H) (m p : String) :
    PatRouter.serveHTTP ⟨r, nf, na⟩ m p = PatRouter.serveHTTP ⟨r', nf, na⟩ m p ∨
    ∃ a a', PatRouter.serveHTTP ⟨r, nf, na⟩ m p = .defaultNotAllowed a ∧
      PatRouter.serveHTTP ⟨r', nf, na⟩ m p = .defaultNotAllowed a' ∧ ∀ z, z ∈ a ↔ z ∈ a' := by
  unfold PatRouter.serveHTTP
  cases hs : serve r m p with
  | handler h ps =>
    rw [(dispatch_order_irrelevant hrep hrep' hok hyp m p h ps).mp hs]
    exact Or.inl rfl
  | notFound =>
    rw [(status_404 hrep' hok m p).mpr ((status_404 hrep hok m p).mp hs)]
    exact Or.inl rfl
  | notAllowed a =>
    cases hs' : serve r' m p with
    | handler h ps =>
      rw [(dispatch_order_irrelevant hrep hrep' hok hyp m p h ps).mpr hs'] at hs; cases hs
    | notFound =>
      rw [(status_404 hrep hok m p).mpr ((status_404 hrep' hok m p).mp hs')] at hs; cases hs
    | notAllowed a' =>
      cases na with
      | some h => exact Or.inl rfl
      | none =>
        refine Or.inr ⟨a, a', rfl, rfl, fun z => ?_⟩
        rw [(status_405_allow_exact hrep hok hs).2.2.2 z, (status_405_allow_exact hrep' hok hs').2.2.2 z]

/-- the registration monitor is sound as well: what the model's `Handle` answers is what the rule demands. -/
theorem monitor_registration_sound {r : Router} {tbl : Table} (hrep : Rep r tbl) (hok : TblOK tbl)
    (m p : String) (item : Option H) :
    fmtSpecReg (register tbl m p item).1 = fmtReg (handle r m p item) := by
  obtain ⟨hv, _, herr⟩ := handle_register r tbl hrep hok m p item
  rw [← hv]
  symm
  apply fmtReg_eq_fmtSpecReg
  · intro e; exact (herr _ e).2.1 rfl
  · intro e; exact (herr _ e).2.2 rfl

/-! ### `path.Clean` (the model's) characterised — so that "the cleaned path" of the theorems is pinned down -/

/-- **The cleaned path**: it is rooted; split at '/', the cleaned *string* is exactly the cleaned token list
the theorems speak about; that list is the root `[""]` or a non-empty list of elements none of which is
empty (no double slash, no trailing slash), "." or "..", or contains a '/'. -/
theorem clean_characterised (p : String) :
    rooted (cleanPath p) = true ∧ toksOf (cleanPath p) = cleanToks p ∧
    (cleanToks p = [""] ∨
      (cleanToks p ≠ [] ∧ ∀ t ∈ cleanToks p, t ≠ "" ∧ t ≠ "." ∧ t ≠ ".." ∧ '/' ∉ t.toList)) := by
  refine ⟨rooted_cleanPath p, toksOf_cleanPath p, ?_⟩
  obtain ⟨h1, h2, h3⟩ := cleanGo_toksOf p
  unfold cleanToks
  cases h : cleanGo (toksOf p) [] with
  | nil => exact Or.inl rfl
  | cons a l =>
    rw [h] at h1 h2 h3
    exact Or.inr ⟨by simp, fun t ht => ⟨h1 t ht, (h2 t ht).1, (h2 t ht).2, h3 t ht⟩⟩

/-- **Cleaning is idempotent** (string level and token level). -/
theorem clean_idempotent (p : String) :
    cleanPath (cleanPath p) = cleanPath p ∧ cleanToks (cleanPath p) = cleanToks p :=
  ⟨cleanPath_cleanPath p, cleanToks_cleanPath p⟩

example : cleanPath "/a//b/./c/../d/" = "/a/b/d" := by decide
example : cleanPath "/../.." = "/" ∧ cleanToks "/../.." = [""] := by decide

/-- requests and registrations depend on the path only through `rooted` and the cleaned tokens. -/
theorem serve_congr (r : Router) (m : String) {p q : String} (h1 : rooted p = rooted q)
    (h2 : cleanToks p = cleanToks q) : serve r m p = serve r m q := by
  unfold serve methodsAllowed searchClean
  rw [h1, h2]

theorem handle_congr (r : Router) (m : String) (item : Option H) {p q : String} (h1 : rooted p = rooted q)
    (h2 : cleanToks p = cleanToks q) : handle r m p item = handle r m q item := by
  unfold handle
  rw [h1, h2]

/-- registering / requesting an already cleaned path is the same as the original (so `WithPrefix`'s
`path.Join`, which cleans, followed by `Handle`, which cleans again, registers the route once cleaned). -/
theorem clean_twice_irrelevant (r : Router) (m p : String) (item : Option H) (hr : rooted p = true) :
    handle r m (cleanPath p) item = handle r m p item ∧ serve r m (cleanPath p) = serve r m p :=
  ⟨handle_congr r m item (by rw [rooted_cleanPath, hr]) (cleanToks_cleanPath p),
   serve_congr r m (by rw [rooted_cleanPath, hr]) (cleanToks_cleanPath p)⟩

theorem rooted_append_slash (p : String) (hp : p ≠ "") : rooted (p ++ "/") = rooted p := by
  unfold rooted
  rw [String.toList_append]
  cases h : p.toList with
  | nil =>
    exfalso; apply hp
    rw [← String.ofList_toList (s := p), h]
  | cons c cs => rfl

/-- **Trailing slash**: `/a/b/` and `/a/b` are the same pattern and the same request path. -/
theorem trailing_slash_irrelevant (r : Router) (m p : String) (item : Option H) (hp : p ≠ "") :
    handle r m (p ++ "/") item = handle r m p item ∧ serve r m (p ++ "/") = serve r m p :=
  ⟨handle_congr r m item (rooted_append_slash p hp) (cleanToks_trailing_slash p hp),
   serve_congr r m (rooted_append_slash p hp) (cleanToks_trailing_slash p hp)⟩

/-- **Letter case**: segments and methods are compared byte-wise — `/A` is not `/a`, `get` is not `GET`. -/
theorem case_sensitive :
    serve (runHandle {} [("GET", "/user/:id", some 1)]) "GET" "/user/7" = .handler 1 [("id", "7")] ∧
    serve (runHandle {} [("GET", "/user/:id", some 1)]) "GET" "/User/7" = .notFound ∧
    serve (runHandle {} [("GET", "/user/:id", some 1)]) "get" "/user/7" = .notAllowed ["GET"] ∧
    verdictOf (handle {} "get" "/user/:id" (some 1)) = .badMethod := by decide

/-! ### rest.Server / engine: WithPrefix, bindRoutes -/

theorem splitSlash_append_slash (a b cur : List Char) :
    splitSlash (a ++ '/' :: b) cur = splitSlash a cur ++ splitSlash b [] := by
  induction a generalizing cur with
  | nil => simp [splitSlash]
  | cons c cs ih =>
    rw [List.cons_append, splitSlash_cons, splitSlash_cons]
    split
    · rw [ih]; rfl
    · rw [ih]

/-- **`WithPrefix(group)`**: the route registered for `path` under a (non-empty) group is the one whose
tokens are the group's tokens followed by the path's '/'-separated elements, cleaned in one pass — so a
leading slash of `path` is optional, a trailing slash of the group is harmless, and a ".." element of `path`
removes the last group segment (the route then lies *outside* the group: as implemented by `path.Join`). -/
theorem withPrefix_tokens (group p : String) (hg : group ≠ "") :
    toksOf (joinRaw group p) = toksOf group ++ splitSlash p.toList [] ∧
    rooted (joinRaw group p) = rooted group ∧
    cleanGo (toksOf (joinRaw group p)) [] =
      cleanGo (splitSlash p.toList []) (cleanGo (toksOf group) []).reverse := by
  have hl : ∃ c cs, group.toList = c :: cs := by
    cases h : group.toList with
    | nil => exfalso; apply hg; rw [← String.ofList_toList (s := group), h]
    | cons c cs => exact ⟨c, cs, rfl⟩
  obtain ⟨c, cs, hcs⟩ := hl
  have hj : joinRaw group p = group ++ "/" ++ p := by simp [joinRaw, hg]
  have ht : toksOf (joinRaw group p) = toksOf group ++ splitSlash p.toList [] := by
    unfold toksOf
    rw [hj, String.toList_append, String.toList_append, hcs]
    have : ("/" : String).toList = ['/'] := rfl
    rw [this]
    simp only [List.cons_append, List.drop_succ_cons, List.drop_zero, List.append_assoc, List.nil_append]
    exact splitSlash_append_slash cs p.toList []
  refine ⟨ht, ?_, ?_⟩
  · unfold rooted
    rw [hj, String.toList_append, String.toList_append, hcs]
    rfl
  · rw [ht, cleanGo_append]

example : cleanToks (joinRaw "/api/" "users/:id/") = ["api", "users", ":id"] := by decide
example : cleanToks (joinRaw "/api/v1" "/../health") = ["api", "health"] := by decide
example : rooted (joinRaw "api" "/a") = false ∧ rooted (joinRaw "" "") = false := by decide

/-- verdict of `engine.bindRoutes`' error (none = start-up succeeds). -/
def bindVerdict : Option HandleErr → RegVerdict
  | none => .ok
  | some e => verdictOf (.error e)

theorem verdictOf_error_ne_ok (e : HandleErr) : verdictOf (.error e) ≠ .ok := by
  cases e with
  | invalidMethod => intro h; cases h
  | invalidPath => intro h; cases h
  | tree e => cases e <;> intro h <;> cases h

/-- **`engine.bindRoutes` registers in order and stops at the first rejected route.**  The router then stores
exactly the routes before it (all of them when none is rejected), and the error `Start` fails with is the
verdict of the registration rule for that route. -/
theorem bindAll_represents (regs : List Reg) : ∀ (r : Router) (tbl : Table), Rep r tbl → TblOK tbl →
    Rep (bindAll r regs).1 (bindTable tbl regs).1 ∧ TblOK (bindTable tbl regs).1 ∧
    bindVerdict (bindAll r regs).2 = (bindTable tbl regs).2 := by
  induction regs with
  | nil => intro r tbl h1 h2; exact ⟨h1, h2, rfl⟩
  | cons a rest ih =>
    obtain ⟨m, p, item⟩ := a
    intro r tbl h1 h2
    obtain ⟨hv, hok, herr⟩ := handle_register r tbl h1 h2 m p item
    cases hreg : register tbl m p item with
    | mk v tbl' =>
      rw [hreg] at hv hok herr
      cases hh : handle r m p item with
      | ok r' =>
        rw [hh] at hv
        simp only [verdictOf] at hv
        subst hv
        obtain ⟨h1', h2'⟩ := hok r' hh
        simp only [bindAll, hh, bindTable, hreg]
        exact ih r' tbl' h1' h2'
      | error e =>
        rw [hh] at hv
        have hv' : verdictOf (.error e) = v := hv
        have hne : v ≠ .ok := by rw [← hv']; exact verdictOf_error_ne_ok e
        simp only [bindAll, hh, bindTable, hreg]
        cases v with
        | ok => exact absurd rfl hne
        | dup => exact ⟨h1, h2, hv'⟩
        | badMethod => exact ⟨h1, h2, hv'⟩
        | badPath => exact ⟨h1, h2, hv'⟩
        | emptyHandler => exact ⟨h1, h2, hv'⟩

theorem register_ok_length {tbl tbl' : Table} {m p : String} {item : Option H}
    (h : register tbl m p item = (.ok, tbl')) : tbl'.length = tbl.length + 1 := by
  unfold register at h
  cases hvm : validMethod m
  · simp [hvm] at h
  cases hr : rooted p
  · simp [hvm, hr] at h
  cases item with
  | none => simp [hvm, hr] at h
  | some x =>
    cases ha : tbl.any fun r => r.method == m && r.pats == cleanToks p
    · simp [hvm, hr, ha] at h
      rw [← h]; simp
    · simp [hvm, hr, ha] at h

/-- when nothing is rejected every route is in the table, in order … -/
theorem bindTable_ok (regs : List Reg) : ∀ (tbl : Table), (bindTable tbl regs).2 = .ok →
    (bindTable tbl regs).1 = runRegister tbl regs ∧ (runRegister tbl regs).length = tbl.length + regs.length := by
  induction regs with
  | nil => intro tbl _; exact ⟨rfl, rfl⟩
  | cons a rest ih =>
    obtain ⟨m, p, item⟩ := a
    intro tbl h
    cases hreg : register tbl m p item with
    | mk v tbl' =>
      cases v with
      | ok =>
        simp only [bindTable, hreg] at h ⊢
        obtain ⟨e1, e2⟩ := ih tbl' h
        have hl : tbl'.length = tbl.length + 1 := register_ok_length hreg
        simp only [runRegister, hreg]
        exact ⟨e1, by rw [e2, hl]; simp +arith⟩
      | dup => simp [bindTable, hreg] at h
      | badMethod => simp [bindTable, hreg] at h
      | badPath => simp [bindTable, hreg] at h
      | emptyHandler => simp [bindTable, hreg] at h

/-- … and a rejection is the verdict of the first route the registration rule rejects, given the routes
before it. -/
theorem bindTable_first_rejection (regs : List Reg) : ∀ (tbl : Table) (v : RegVerdict),
    (bindTable tbl regs).2 = v → v ≠ .ok →
    ∃ pre reg post, regs = pre ++ reg :: post ∧ (bindTable tbl pre).2 = .ok ∧
      (bindTable tbl regs).1 = (bindTable tbl pre).1 ∧
      (register (bindTable tbl pre).1 reg.1 reg.2.1 reg.2.2).1 = v := by
  induction regs with
  | nil => intro tbl v h hne; exact absurd h.symm hne
  | cons a rest ih =>
    obtain ⟨m, p, item⟩ := a
    intro tbl v h hne
    cases hreg : register tbl m p item with
    | mk v' tbl' =>
      by_cases hv' : v' = .ok
      · subst hv'
        simp only [bindTable, hreg] at h
        obtain ⟨pre, reg, post, e, h1, h2, h3⟩ := ih tbl' v h hne
        refine ⟨(m, p, item) :: pre, reg, post, by rw [e]; rfl, ?_, ?_, ?_⟩
        · simpa only [bindTable, hreg] using h1
        · simpa only [bindTable, hreg] using h2
        · simpa only [bindTable, hreg] using h3
      · have hb : bindTable tbl ((m, p, item) :: rest) = (tbl, v') := by
          simp only [bindTable, hreg]
        rw [hb] at h
        simp only at h
        subst h
        exact ⟨[], (m, p, item), rest, rfl, rfl, by rw [hb]; rfl, by simp [bindTable, hreg]⟩

/-- `NewServer` starts from an empty router; options only touch the custom handlers; `AddRoutes` only the groups. -/
theorem newServer_core (opts : List RunOpt) : (newServer opts).router.core = ({} : Router) ∧ (newServer opts).groups = [] := by
  unfold newServer
  suffices h : ∀ (l : List RunOpt) (s : Server), s.router.core = ({} : Router) → s.groups = [] →
      (l.foldl Server.apply s).router.core = ({} : Router) ∧ (l.foldl Server.apply s).groups = [] from
    h _ {} rfl rfl
  intro l
  induction l with
  | nil => intro s h1 h2; exact ⟨h1, h2⟩
  | cons o l ih =>
    intro s h1 h2
    simp only [List.foldl_cons]
    apply ih
    · cases o <;> first | exact h1 | rfl
    · cases o <;> exact h2

/-- the user's custom handlers of a server: the last `WithNotFoundHandler` / `WithNotAllowedHandler` wins. -/
example : customOf (newServer [.notFound (some 7), .notAllowed (some 8), .notFound none]).router = { nf := none, na := some 8 } := by
  decide
example : customOf (newServer []).router = {} ∧ (newServer []).router.notFound = some (.engine none) := by decide

/-- **rest.Server, end to end.**  Build a server with any options, add any groups (with or without
`WithPrefix`), run `engine.bindRoutes`: the router stores exactly the routes the registration rule accepted
before the first rejection (`bindTable`), the start-up error is that rejection's verdict, and every request
afterwards is answered as the monitor (hence the declarative matcher) demands — by the route handler, the
custom / built-in 405 or the custom / built-in 404. -/
theorem server_is_declarative_matcher (opts : List RunOpt) (groups : List Group) (m p : String) :
    let s := groups.foldl Server.addRoutes (newServer opts)
    let tbl := (bindTable [] s.regs).1
    Rep s.bindRoutes.1.router.core tbl ∧ TblOK tbl ∧
    bindVerdict s.bindRoutes.2 = (bindTable [] s.regs).2 ∧
    monitorObs tbl (oneVarPerPosition tbl) (customOf s.bindRoutes.1.router) m
      (if rooted p then some (cleanToks p) else none) (obsOf (s.bindRoutes.1.router.serveHTTP m p)) = .ok := by
  intro s tbl
  have hcore : s.router.core = ({} : Router) := by
    suffices h : ∀ (l : List Group) (s0 : Server), (l.foldl Server.addRoutes s0).router = s0.router by
      show (groups.foldl Server.addRoutes (newServer opts)).router.core = _
      rw [h groups (newServer opts)]
      exact (newServer_core opts).1
    intro l
    induction l with
    | nil => intro s0; rfl
    | cons g l ih => intro s0; simp only [List.foldl_cons]; rw [ih]; rfl
  obtain ⟨h1, h2, h3⟩ := bindAll_represents s.regs {} [] rep_empty.1 rep_empty.2
  have hb : s.bindRoutes.1.router.core = (bindAll {} s.regs).1 := by
    simp only [Server.bindRoutes, hcore]
  have hb2 : s.bindRoutes.2 = (bindAll {} s.regs).2 := by
    simp only [Server.bindRoutes, hcore]
  have hrep : Rep s.bindRoutes.1.router.core tbl := by rw [hb]; exact h1
  exact ⟨hrep, h2, by rw [hb2]; exact h3, monitor_sound hrep h2 m p⟩

/-! non-vacuity: two groups, a prefix with a trailing slash, a relative route path, a custom 404 handler -/

def exServer : Server :=
  [({ opts := [.pfx "/api/"], routes := [("GET", "users/:id", some 1), ("POST", "/users", some 2)] } : Group),
   ({ routes := [("GET", "/health/", some 3)] } : Group)].foldl Server.addRoutes (newServer [.notFound (some 9)])

example : exServer.bindRoutes.2 = none := by decide
example : (bindTable [] exServer.regs).1.map (fun r => (r.method, r.pats, r.h)) =
    [("GET", ["api", "users", ":id"], 1), ("POST", ["api", "users"], 2), ("GET", ["health"], 3)] := by decide
example : exServer.bindRoutes.1.router.serveHTTP "GET" "/api/users/42/" = .route 1 [("id", "42")] := by decide
example : exServer.bindRoutes.1.router.serveHTTP "GET" "/API/users/42" = .customNotFound (.engine (some 9)) := by decide
example : exServer.bindRoutes.1.router.serveHTTP "PUT" "/api/users" = .defaultNotAllowed ["POST"] := by decide
-- a duplicate across groups (same cleaned path through another prefix split) aborts the start-up
def exDupServer : Server :=
  [({ opts := [.pfx "/api"], routes := [("GET", "/v1/a", some 1)] } : Group),
   ({ opts := [.pfx "/api/v1"], routes := [("GET", "a/", some 2)] } : Group)].foldl Server.addRoutes (newServer [])
example : exDupServer.bindRoutes.2 = some (.tree .dupItem) := by decide +kernel

end GoZero.C09
