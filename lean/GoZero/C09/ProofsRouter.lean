/-
C09 — helper lemmas, part 4: route tables.  A method tree *represents* the routes of its method
(`TreeRep`, an order-free relation); on a represented table `next` over a cleaned path returns an
admissible route of the declarative matcher (`search_table`); `handle` keeps the representation and
agrees with the registration rule (`handle_register`); `serve` decides 405/404 exactly.
-/
import GoZero.C09.ProofsClean
namespace GoZero.C09

open Spec

/-- table invariant: cleaned patterns, and (method, pattern) identifies the route. -/
def TblOK (tbl : Table) : Prop :=
  (∀ r ∈ tbl, Clean r.pats) ∧
  (∀ a ∈ tbl, ∀ b ∈ tbl, a.method = b.method → a.pats = b.pats → a = b)

/-- the tree `root` stores exactly the routes of method `m` (no statement about the order of any map). -/
def TreeRep (root : Node) (tbl : Table) (m : String) : Prop :=
  WF root ∧ ∀ ks h, lookupW ks root = some h ↔ ∃ r ∈ tbl, r.method = m ∧ wkey r.pats = ks ∧ r.h = h

def treeOf (r : Router) (m : String) : Node := (r.trees.lookup m).getD (newNode none)

/-- the router stores exactly the table. -/
def Rep (r : Router) (tbl : Table) : Prop :=
  (r.trees.map (·.1)).Nodup ∧ ∀ m, TreeRep (treeOf r m) tbl m

theorem mem_candidates {tbl : Table} {m : String} {toks : List String} {r : Route} :
    r ∈ candidates tbl m toks ↔ r ∈ tbl ∧ r.method = m ∧ matchesP r.pats toks = true := by
  simp [candidates, List.mem_filter]

theorem mem_admissible {tbl : Table} {m : String} {toks : List String} {r : Route} :
    r ∈ admissible tbl m toks ↔
      r ∈ candidates tbl m toks ∧ ∀ r' ∈ candidates tbl m toks, prefers r.pats r'.pats = true := by
  simp [admissible, List.mem_filter, List.all_eq_true]

theorem isVar_empty : isVar "" = false := by decide

theorem prefers_root (x : List String) : prefers [""] x = true := by
  cases x with
  | nil => simp [prefers]
  | cons k rest =>
    by_cases e : "" = k
    · subst e; cases rest <;> simp [prefers]
    · simp [prefers, e, isVar_empty]

theorem not_matches_root_of_NE {toks : List String} (hne : NE toks) : matchesP [""] toks = false := by
  cases toks with
  | nil => simp [matchesP]
  | cons t ts =>
    have ht : t ≠ "" := hne t (by simp)
    have : matchTok "" t = false := by
      simp [matchTok, isVar_empty]; exact fun e => ht e
    simp [matchesP, this]

theorem wkey_ne_root {pats : List String} (h : pats ≠ [""]) : wkey pats = pats := by
  simp [wkey, h]

theorem pats_root_of_wkey_nil {pats : List String} (hc : Clean pats) (h : wkey pats = []) : pats = [""] := by
  rcases hc with rfl | ⟨h0, _⟩
  · rfl
  · by_cases e : pats = [""]
    · exact e
    · rw [wkey_ne_root e] at h; exact absurd h h0

/-- the uniform search on a represented table, when no matching route is the root pattern. -/
theorem nextW_table {tbl : Table} {root : Node} {m : String} (hrep : TreeRep root tbl m)
    (toks : List String) (htoks : toks ≠ [])
    (hroot : ∀ r' ∈ candidates tbl m toks, r'.pats ≠ [""]) :
    (∀ h ps, nextW toks root = some (h, ps) →
      ∃ r ∈ admissible tbl m toks, r.h = h ∧ ps = (binds r.pats toks).reverse) ∧
    (nextW toks root = none → candidates tbl m toks = []) := by
  obtain ⟨hwf, hlk⟩ := hrep
  have stored : ∀ r' ∈ candidates tbl m toks, lookupW r'.pats root = some r'.h := by
    intro r' hr'
    have hne := hroot r' hr'
    obtain ⟨hmem, hm, _⟩ := mem_candidates.mp hr'
    exact (hlk _ _).mpr ⟨r', hmem, hm, wkey_ne_root hne, rfl⟩
  obtain ⟨hsome, hnone⟩ := nextW_spec toks root hwf
  constructor
  · intro h ps hs
    obtain ⟨ks, ⟨hl, hm, hpref⟩, hps⟩ := hsome h ps hs
    obtain ⟨r, hmem, hrm, hk, hrh⟩ := (hlk _ _).mp hl
    have hks : ks ≠ [] := by
      intro e; subst e
      cases toks with
      | nil => exact htoks rfl
      | cons t ts => simp [matchesP] at hm
    have hpr : r.pats ≠ [""] := by
      intro e; rw [e] at hk; simp [wkey] at hk; exact hks hk
    have hkp : ks = r.pats := by rw [← hk, wkey_ne_root hpr]
    subst hkp
    refine ⟨r, mem_admissible.mpr ⟨mem_candidates.mpr ⟨hmem, hrm, hm⟩, ?_⟩, hrh, hps⟩
    intro r' hr'
    exact hpref _ _ (stored r' hr') (mem_candidates.mp hr').2.2
  · intro hn
    rw [List.eq_nil_iff_forall_not_mem]
    intro r' hr'
    have := hnone hn _ _ (stored r' hr')
    rw [(mem_candidates.mp hr').2.2] at this
    cases this

/-- **`next` on a represented table and a cleaned path.** -/
theorem search_table {tbl : Table} (hok : TblOK tbl) {root : Node} {m : String}
    (hrep : TreeRep root tbl m) (toks : List String) (hc : Clean toks) :
    (∀ h ps, next toks root = some (h, ps) →
      ∃ r ∈ admissible tbl m toks, r.h = h ∧ ps = (binds r.pats toks).reverse) ∧
    (next toks root = none → candidates tbl m toks = []) := by
  rcases hc with rfl | ⟨h0, hne⟩
  · -- the root path
    rw [next_root]
    cases hi : root.item with
    | some h0 =>
      have hl : lookupW [] root = some h0 := by simpa [lookupW] using hi
      obtain ⟨r0, hmem, hrm, hk, hrh⟩ := (hrep.2 _ _).mp hl
      have hp0 : r0.pats = [""] := pats_root_of_wkey_nil (hok.1 r0 hmem) hk
      constructor
      · intro h ps hs
        simp only [Option.some.injEq, Prod.mk.injEq] at hs
        obtain ⟨rfl, rfl⟩ := hs
        refine ⟨r0, mem_admissible.mpr ⟨mem_candidates.mpr ⟨hmem, hrm, ?_⟩, ?_⟩, hrh, ?_⟩
        · rw [hp0]; decide
        · intro r' _; rw [hp0]; exact prefers_root _
        · rw [hp0]; simp [binds, isVar_empty]
      · intro hn; cases hn
    | none =>
      have hroot : ∀ r' ∈ candidates tbl m [""], r'.pats ≠ [""] := by
        intro r' hr' e
        obtain ⟨hmem, hm, _⟩ := mem_candidates.mp hr'
        have : lookupW [] root = some r'.h := (hrep.2 _ _).mpr ⟨r', hmem, hm, by simp [e, wkey], rfl⟩
        simp [lookupW, hi] at this
      exact nextW_table hrep [""] (by simp) hroot
  · rw [next_eq_nextW toks h0 hne]
    apply nextW_table hrep toks h0
    intro r' hr' e
    have := (mem_candidates.mp hr').2.2
    rw [e, not_matches_root_of_NE hne] at this
    cases this

theorem next_newNode (toks : List String) : next toks (newNode none) = none := by
  cases toks with
  | nil => rfl
  | cons t rest =>
    cases rest with
    | nil => simp [next, newNode, forEach]
    | cons r rs => simp [next_cons_cons, newNode, forEach]

theorem treeRep_empty_iff {tbl : Table} {m : String} (h : TreeRep (newNode none) tbl m) :
    ∀ r ∈ tbl, r.method ≠ m := by
  intro r hr hm
  have := (h.2 (wkey r.pats) r.h).mpr ⟨r, hr, hm, rfl, rfl⟩
  rw [lookupW_newNode] at this
  cases this

/-! ### `Handle` -/

theorem setTree_eq_setKid (m : String) (t : Node) (l : List (String × Node)) : setTree m t l = setKid m t l := by
  induction l with
  | nil => rfl
  | cons a tl ih => obtain ⟨k, c⟩ := a; simp [setTree, setKid, ih]

theorem treeOf_setTree (r : Router) (m : String) (t : Node) (m' : String) :
    treeOf { trees := setTree m t r.trees } m' = if m' = m then t else treeOf r m' := by
  simp only [treeOf, setTree_eq_setKid, lookup_setKid]
  split <;> simp

/-- the verdict the property speaks about, read off `Handle`'s error. -/
def verdictOf : Except HandleErr Router → RegVerdict
  | .ok _ => .ok
  | .error .invalidMethod => .badMethod
  | .error .invalidPath => .badPath
  | .error (.tree .dupItem) => .dup
  | .error (.tree .emptyItem) => .emptyHandler
  | .error (.tree .dupSlash) => .badPath
  | .error (.tree .notFromRoot) => .badPath

theorem handle_register (r : Router) (tbl : Table) (hrep : Rep r tbl) (hok : TblOK tbl)
    (m p : String) (item : Option H) :
    verdictOf (handle r m p item) = (register tbl m p item).1 ∧
    (∀ r', handle r m p item = .ok r' → Rep r' (register tbl m p item).2 ∧ TblOK (register tbl m p item).2) ∧
    (∀ e, handle r m p item = .error e →
      (register tbl m p item).2 = tbl ∧ e ≠ .tree .dupSlash ∧ e ≠ .tree .notFromRoot) := by
  unfold handle register
  cases hvm : validMethod m
  · simp [verdictOf]
  cases hrt : rooted p
  · simp [verdictOf]
  cases item with
  | none => simp [verdictOf]
  | some h =>
    simp only [Bool.not_true, Bool.false_eq_true, if_false]
    have hclean := clean_cleanToks p
    have htree := hrep.2 m
    change TreeRep ((r.trees.lookup m).getD (newNode none)) tbl m at htree
    rw [add_clean hclean]
    obtain ⟨hokc, herrc⟩ := addW_spec (wkey (cleanToks p)) ((r.trees.lookup m).getD (newNode none)) h htree.1
    cases hadd : addW (wkey (cleanToks p)) ((r.trees.lookup m).getD (newNode none)) h with
    | error e =>
      obtain ⟨he, hs⟩ := herrc e hadd
      subst he
      obtain ⟨h1, hl1⟩ := Option.isSome_iff_exists.mp hs
      obtain ⟨r1, hmem, hrm, hk, _⟩ := (htree.2 _ _).mp hl1
      have hp : r1.pats = cleanToks p := wkey_inj (hok.1 r1 hmem) hclean hk
      have hany : (tbl.any fun r => r.method == m && r.pats == cleanToks p) = true := by
        rw [List.any_eq_true]; exact ⟨r1, hmem, by simp [hrm, hp]⟩
      simp [hany, verdictOf]
    | ok root' =>
      obtain ⟨hwf', hnone, hlk'⟩ := hokc root' hadd
      have hany : (tbl.any fun r => r.method == m && r.pats == cleanToks p) = false := by
        rw [Bool.eq_false_iff]
        intro ht
        rw [List.any_eq_true] at ht
        obtain ⟨r1, hmem, hc⟩ := ht
        simp only [Bool.and_eq_true, beq_iff_eq] at hc
        have := (htree.2 (wkey (cleanToks p)) r1.h).mpr ⟨r1, hmem, hc.1, by rw [hc.2], rfl⟩
        rw [hnone] at this; cases this
      simp only [hany, Bool.false_eq_true, if_false, verdictOf, true_and]
      refine ⟨?_, by intro e he; cases he⟩
      intro r' hr'
      simp only [Except.ok.injEq] at hr'
      subst hr'
      refine ⟨⟨?_, ?_⟩, ?_, ?_⟩
      · simp only [setTree_eq_setKid]
        exact nodup_setKid _ _ _ hrep.1
      · intro m'
        rw [treeOf_setTree]
        by_cases hm : m' = m
        · subst hm
          simp only [if_true]
          refine ⟨hwf', ?_⟩
          intro ks h'
          rw [hlk']
          constructor
          · intro hl
            split at hl
            · rename_i e
              simp only [Option.some.injEq] at hl
              exact ⟨⟨m', cleanToks p, h⟩, by simp, rfl, e.symm, hl⟩
            · obtain ⟨r1, hmem, hh⟩ := (htree.2 _ _).mp hl
              exact ⟨r1, by simp [hmem], hh⟩
          · rintro ⟨r1, hmem, hrm, hk, hrh⟩
            simp only [List.mem_append, List.mem_singleton] at hmem
            rcases hmem with hmem | rfl
            · have hl := (htree.2 ks h').mpr ⟨r1, hmem, hrm, hk, hrh⟩
              split
              · rename_i e
                rw [e, hnone] at hl; cases hl
              · exact hl
            · simp only at hk hrh
              simp [hk, hrh]
        · simp only [hm, if_false]
          have ht' := hrep.2 m'
          refine ⟨ht'.1, ?_⟩
          intro ks h'
          rw [ht'.2]
          constructor
          · rintro ⟨r1, hmem, hh⟩; exact ⟨r1, by simp [hmem], hh⟩
          · rintro ⟨r1, hmem, hrm, hh⟩
            simp only [List.mem_append, List.mem_singleton] at hmem
            rcases hmem with hmem | rfl
            · exact ⟨r1, hmem, hrm, hh⟩
            · exact absurd hrm.symm hm
      · intro r1 hmem
        simp only [List.mem_append, List.mem_singleton] at hmem
        rcases hmem with hmem | rfl
        · exact hok.1 r1 hmem
        · exact hclean
      · intro a ha b hb hm hp
        simp only [List.mem_append, List.mem_singleton] at ha hb
        have clash : ∀ x ∈ tbl, x.method = m → x.pats = cleanToks p → False := by
          intro x hx hxm hxp
          have := (htree.2 (wkey (cleanToks p)) x.h).mpr ⟨x, hx, hxm, by rw [hxp], rfl⟩
          rw [hnone] at this; cases this
        rcases ha with ha | rfl <;> rcases hb with hb | rfl
        · exact hok.2 a ha b hb hm hp
        · exact (clash a ha hm hp).elim
        · exact (clash b hb hm.symm hp.symm).elim
        · rfl

end GoZero.C09
