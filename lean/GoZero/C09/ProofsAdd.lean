/-
C09 — helper lemmas, part 2: insertion.  `addW` stores exactly one new key, changes nothing else, keeps
the node well formed, and fails (with `dupItem`) exactly when the key is already stored.
-/
import GoZero.C09.Proofs
namespace GoZero.C09

open Spec

def setKid (k : String) (c : Node) : List (String × Node) → List (String × Node)
  | [] => [(k, c)]
  | (k', c') :: tl => if k' = k then (k', c) :: tl else (k', c') :: setKid k c tl

theorem updKid_eq (k : String) (f : Option Node → Except AddErr Node) (l : List (String × Node)) :
    updKid k f l = (f (l.lookup k)).map (fun c => setKid k c l) := by
  induction l with
  | nil => simp [updKid, List.lookup, setKid]
  | cons a tl ih =>
    obtain ⟨k', c'⟩ := a
    by_cases hk : k' = k
    · subst hk
      simp only [updKid, if_true, List.lookup, beq_self_eq_true, setKid]
    · have hb : (k == k') = false := by simpa using fun e => hk e.symm
      simp only [updKid, hk, if_false, List.lookup, hb, setKid, ih]
      cases f (List.lookup k tl) <;> rfl

theorem lookup_setKid (k : String) (c : Node) (l : List (String × Node)) (k' : String) :
    (setKid k c l).lookup k' = if k' = k then some c else l.lookup k' := by
  induction l with
  | nil =>
    by_cases h : k' = k
    · subst h; simp [setKid, List.lookup]
    · have : (k' == k) = false := by simpa using h
      simp [setKid, List.lookup, this, h]
  | cons a tl ih =>
    obtain ⟨k1, c1⟩ := a
    by_cases hk : k1 = k
    · subst hk
      by_cases h : k' = k1
      · subst h; simp [setKid, List.lookup]
      · have : (k' == k1) = false := by simpa using h
        simp [setKid, List.lookup, this, h]
    · simp only [setKid, hk, if_false, List.lookup, ih]
      by_cases h1 : k' = k1
      · subst h1
        simp [hk]
      · have : (k' == k1) = false := by simpa using h1
        simp [this]

theorem mem_setKid {k : String} {c : Node} {l : List (String × Node)} {x : String × Node}
    (h : x ∈ setKid k c l) : x = (k, c) ∨ x ∈ l := by
  induction l with
  | nil => simp [setKid] at h; exact Or.inl h
  | cons a tl ih =>
    obtain ⟨k1, c1⟩ := a
    by_cases hk : k1 = k
    · subst hk
      simp only [setKid, if_true, List.mem_cons] at h
      rcases h with h | h
      · exact Or.inl h
      · exact Or.inr (List.mem_cons_of_mem _ h)
    · simp only [setKid, hk, if_false, List.mem_cons] at h
      rcases h with h | h
      · exact Or.inr (by simp [h])
      · rcases ih h with h | h
        · exact Or.inl h
        · exact Or.inr (List.mem_cons_of_mem _ h)

theorem keys_setKid (k : String) (c : Node) (l : List (String × Node)) :
    ∀ x, x ∈ (setKid k c l).map (·.1) ↔ (x = k ∨ x ∈ l.map (·.1)) := by
  induction l with
  | nil => intro x; simp [setKid]
  | cons a tl ih =>
    obtain ⟨k1, c1⟩ := a
    intro x
    by_cases hk : k1 = k
    · subst hk
      simp only [setKid, if_true, List.map_cons, List.mem_cons]
      constructor
      · rintro (h | h)
        · exact Or.inl h
        · exact Or.inr (Or.inr h)
      · rintro (h | h | h)
        · exact Or.inl h
        · exact Or.inl h
        · exact Or.inr h
    · simp only [setKid, hk, if_false, List.map_cons, List.mem_cons, ih]
      constructor
      · rintro (h | h | h)
        · exact Or.inr (Or.inl h)
        · exact Or.inl h
        · exact Or.inr (Or.inr h)
      · rintro (h | h | h)
        · exact Or.inr (Or.inl h)
        · exact Or.inl h
        · exact Or.inr (Or.inr h)

theorem nodup_setKid (k : String) (c : Node) (l : List (String × Node)) (h : (l.map (·.1)).Nodup) :
    ((setKid k c l).map (·.1)).Nodup := by
  induction l with
  | nil => simp [setKid]
  | cons a tl ih =>
    obtain ⟨k1, c1⟩ := a
    simp only [List.map_cons, List.nodup_cons] at h
    by_cases hk : k1 = k
    · subst hk
      simpa [setKid] using h
    · simp only [setKid, hk, if_false, List.map_cons, List.nodup_cons]
      refine ⟨?_, ih h.2⟩
      intro hm
      rcases (keys_setKid k c tl k1).mp hm with e | hm
      · exact hk e
      · exact h.1 hm

/-! ### the two children maps, uniformly -/

def kids (n : Node) (b : Bool) : List (String × Node) := if b then n.vars else n.lits
def setKids (n : Node) (b : Bool) (l : List (String × Node)) : Node := if b then n.setVars l else n.setLits l

theorem child_eq (n : Node) (k : String) : child n k = (kids n (isVar k)).lookup k := by
  unfold child kids; split <;> simp_all

theorem updChild_eq (n : Node) (k : String) (f : Option Node → Except AddErr Node) :
    updChild n k f = (f (child n k)).map (fun c => setKids n (isVar k) (setKid k c (kids n (isVar k)))) := by
  unfold updChild
  rw [child_eq]
  cases hv : isVar k
  · simp only [kids, setKids, Bool.false_eq_true, if_false, updKid_eq]
    cases f (List.lookup k n.lits) <;> rfl
  · simp only [kids, setKids, if_true, updKid_eq]
    cases f (List.lookup k n.vars) <;> rfl

theorem WF.kids_nodup {n : Node} (h : WF n) (b : Bool) : ((kids n b).map (·.1)).Nodup := by
  cases b
  · simpa [kids] using h.lits_nodup
  · simpa [kids] using h.vars_nodup

theorem WF.kids_kind {n : Node} (h : WF n) (b : Bool) : ∀ kc ∈ kids n b, isVar kc.1 = b := by
  cases b
  · simpa [kids] using h.lits_lit
  · simpa [kids] using h.vars_var

theorem WF.kids_wf {n : Node} (h : WF n) (b : Bool) : ∀ kc ∈ kids n b, WF kc.2 := by
  cases b
  · simpa [kids] using h.lits_wf
  · simpa [kids] using h.vars_wf

theorem wf_setKids {n : Node} (h : WF n) (b : Bool) (l : List (String × Node))
    (hn : (l.map (·.1)).Nodup) (hk : ∀ kc ∈ l, isVar kc.1 = b) (hw : ∀ kc ∈ l, WF kc.2) :
    WF (setKids n b l) := by
  cases h with
  | mk i l0 v0 h1 h2 h3 h4 h5 h6 =>
    cases b
    · exact WF.mk i l v0 hn h2 hk h4 hw h6
    · exact WF.mk i l0 l h1 hn h3 hk h5 hw

theorem item_setKids (n : Node) (b : Bool) (l : List (String × Node)) : (setKids n b l).item = n.item := by
  cases n; cases b <;> rfl

theorem child_setKids (n : Node) (b : Bool) (l : List (String × Node)) (k : String) :
    child (setKids n b l) k = if isVar k = b then l.lookup k else child n k := by
  cases n with
  | mk i l0 v0 =>
    cases b <;> cases hv : isVar k <;> simp [child, setKids, Node.setVars, Node.setLits, hv]

theorem lookupW_newNode (ks : List String) : lookupW ks (newNode none) = none := by
  cases ks with
  | nil => rfl
  | cons k ks => simp [lookupW, child, newNode, List.lookup]

theorem wf_setItem {n : Node} (h : WF n) (x : H) : WF (n.setItem x) := by
  cases h with
  | mk i l v h1 h2 h3 h4 h5 h6 => exact WF.mk (some x) l v h1 h2 h3 h4 h5 h6

/-- **Insertion theorem.** -/
theorem addW_spec (ks : List String) : ∀ (n : Node) (h : H), WF n →
    (∀ n', addW ks n h = .ok n' →
      WF n' ∧ lookupW ks n = none ∧ ∀ ks', lookupW ks' n' = if ks' = ks then some h else lookupW ks' n) ∧
    (∀ e, addW ks n h = .error e → e = .dupItem ∧ (lookupW ks n).isSome = true) := by
  induction ks with
  | nil =>
    intro n h hwf
    cases hi : n.item with
    | some x =>
      constructor
      · intro n' hn'; simp [addW, hi] at hn'
      · intro e he
        simp only [addW, hi, Option.isSome_some, if_true] at he
        cases he
        simp [lookupW, hi]
    | none =>
      constructor
      · intro n' hn'
        simp only [addW, hi, Option.isSome_none, Bool.false_eq_true, if_false, Except.ok.injEq] at hn'
        subst hn'
        refine ⟨wf_setItem hwf h, by simp [lookupW, hi], ?_⟩
        intro ks'
        cases ks' with
        | nil => cases n; simp [lookupW, Node.setItem]
        | cons k r => cases n; simp [lookupW, Node.setItem, child]
      · intro e he; simp [addW, hi] at he
  | cons t rest ih =>
    intro n h hwf
    let c0 := (child n t).getD (newNode none)
    have hc0 : WF c0 := by
      show WF ((child n t).getD (newNode none))
      cases hc : child n t with
      | none => exact wf_newNode none
      | some c => exact child_wf hwf hc
    have hl0 : ∀ r, lookupW (t :: r) n = lookupW r c0 := by
      intro r
      show _ = lookupW r ((child n t).getD (newNode none))
      cases hc : child n t with
      | none => simp [lookupW, hc, lookupW_newNode]
      | some c => simp [lookupW, hc]
    have hadd : addW (t :: rest) n h
        = (addW rest c0 h).map (fun c => setKids n (isVar t) (setKid t c (kids n (isVar t)))) := by
      simp only [addW, updChild_eq]; rfl
    obtain ⟨ihok, iherr⟩ := ih c0 h hc0
    constructor
    · intro n' hn'
      rw [hadd] at hn'
      cases hr : addW rest c0 h with
      | error e => rw [hr] at hn'; cases hn'
      | ok c1 =>
        rw [hr] at hn'
        simp only [Except.map, Except.ok.injEq] at hn'
        subst hn'
        obtain ⟨hwf1, hnone, hlk⟩ := ihok c1 hr
        refine ⟨?_, by rw [hl0]; exact hnone, ?_⟩
        · apply wf_setKids hwf
          · exact nodup_setKid _ _ _ (hwf.kids_nodup _)
          · intro kc hm
            rcases mem_setKid hm with rfl | hm
            · rfl
            · exact hwf.kids_kind _ _ hm
          · intro kc hm
            rcases mem_setKid hm with rfl | hm
            · exact hwf1
            · exact hwf.kids_wf _ _ hm
        · intro ks'
          cases ks' with
          | nil => simp [lookupW, item_setKids]
          | cons k' r' =>
            simp only [lookupW, child_setKids, lookup_setKid]
            by_cases hk : k' = t
            · subst hk
              simp only [if_true, Option.bind_some, hlk r', List.cons.injEq, true_and]
              split
              · rfl
              · exact (hl0 r').symm
            · simp only [hk, if_false, List.cons.injEq, false_and]
              split
              · rename_i hv; rw [child_eq, hv]
              · rfl
    · intro e he
      rw [hadd] at he
      cases hr : addW rest c0 h with
      | ok c1 => rw [hr] at he; cases he
      | error e' =>
        rw [hr] at he
        simp only [Except.map, Except.error.injEq] at he
        subst he
        obtain ⟨he', hs⟩ := iherr e' hr
        exact ⟨he', by rw [hl0]; exact hs⟩

end GoZero.C09
