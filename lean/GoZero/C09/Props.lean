/-
C09 — property theorems (statements, short proofs from the lemmas in Proofs*.lean, non-vacuity examples).

Vocabulary
* `Router`, `handle`, `serve`      the model of `patRouter.Handle` / `ServeHTTP` over `search.Tree` (Model.lean)
* `Spec.Table`, `Spec.register`, `Spec.matchesP`, `Spec.preferredMatch`, `Spec.binds`, `Spec.allowed`
                                   the declarative matcher: a plain list of routes, no tree (Spec.lean)
* `Rep r tbl`                      the router's trees store exactly the routes of `tbl`.  `Rep` speaks only about
                                   *which* keys are stored, never about the order of a children map, so a theorem
                                   `∀ r, Rep r tbl → …` holds for every order in which Go may iterate its maps.
* `Spec.oneVarPerPosition tbl`     the property's hypothesis: one variable name per position under a prefix.
-/
import GoZero.C09.ProofsServe
import GoZero.C09.ProofsOrder
namespace GoZero.C09

open Spec




/-- the router after a sequence of `Handle` calls (rejected calls leave it unchanged). -/
def runHandle (r : Router) : List Reg → Router
  | [] => r
  | (m, p, item) :: rest =>
    match handle r m p item with
    | .ok r' => runHandle r' rest
    | .error _ => runHandle r rest

/-- the declarative table after the same attempts. -/
def runRegister (tbl : Table) : List Reg → Table
  | [] => tbl
  | (m, p, item) :: rest => runRegister (register tbl m p item).2 rest

theorem rep_empty : Rep {} [] ∧ TblOK [] := by
  refine ⟨⟨by simp, ?_⟩, by simp [TblOK]⟩
  intro m
  refine ⟨wf_newNode none, ?_⟩
  intro ks h
  show lookupW ks (newNode none) = some h ↔ _
  simp [lookupW_newNode]

/-- **Registration builds a representation.**  After any sequence of `Handle` calls the router stores
exactly the routes the registration rule of the property accepted. -/
theorem router_represents_table (regs : List Reg) :
    Rep (runHandle {} regs) (runRegister [] regs) ∧ TblOK (runRegister [] regs) := by
  suffices h : ∀ r tbl, Rep r tbl → TblOK tbl →
      Rep (runHandle r regs) (runRegister tbl regs) ∧ TblOK (runRegister tbl regs) from
    h {} [] rep_empty.1 rep_empty.2
  induction regs with
  | nil => intro r tbl h1 h2; exact ⟨h1, h2⟩
  | cons a rest ih =>
    obtain ⟨m, p, item⟩ := a
    intro r tbl h1 h2
    obtain ⟨_, hok, herr⟩ := handle_register r tbl h1 h2 m p item
    simp only [runHandle, runRegister]
    cases hh : handle r m p item with
    | ok r' =>
      obtain ⟨h1', h2'⟩ := hok r' hh
      exact ih r' _ h1' h2'
    | error e =>
      rw [(herr e hh).1]
      exact ih r tbl h1 h2

/-- **Registration rejections.**  On a router that stores `tbl`, `Handle` answers exactly as the rule of
the property: unsupported method ⇒ `ErrInvalidMethod`; pattern not starting with '/' ⇒ `ErrInvalidPath`;
same method and same cleaned pattern already registered ⇒ duplicated item; nil handler ⇒ empty item;
otherwise accepted.  `duplicated slash` / `not from root` never come out of `Handle`. -/
theorem registration_rejections (regs : List Reg) (m p : String) (item : Option H) :
    verdictOf (handle (runHandle {} regs) m p item) = (register (runRegister [] regs) m p item).1 ∧
    ∀ e, handle (runHandle {} regs) m p item = .error e → e ≠ .tree .dupSlash ∧ e ≠ .tree .notFromRoot := by
  obtain ⟨h1, h2⟩ := router_represents_table regs
  obtain ⟨hv, _, herr⟩ := handle_register _ _ h1 h2 m p item
  exact ⟨hv, fun e he => (herr e he).2⟩

/-- the registration rule spelled out. -/
theorem register_accepts_iff (tbl : Table) (m p : String) (h : H) :
    (register tbl m p (some h)).1 = .ok ↔
      (m ∈ validMethods ∧ rooted p = true ∧ ¬ ∃ r ∈ tbl, r.method = m ∧ r.pats = cleanToks p) := by
  unfold register
  cases hv : validMethod m
  · have : m ∉ validMethods := by
      intro hm; simp [validMethod, List.contains_iff_mem, hm] at hv
    simp [this]
  · have hm : m ∈ validMethods := by simpa [validMethod, List.contains_iff_mem] using hv
    cases hr : rooted p
    · simp
    · cases ha : tbl.any fun r => r.method == m && r.pats == cleanToks p
      · have : ¬ ∃ r ∈ tbl, r.method = m ∧ r.pats = cleanToks p := by
          rintro ⟨r, hr, h1, h2⟩
          have : (tbl.any fun r => r.method == m && r.pats == cleanToks p) = true :=
            List.any_eq_true.mpr ⟨r, hr, by simp [h1, h2]⟩
          rw [ha] at this; cases this
        simp [hm, this]
      · obtain ⟨r, hr, hc⟩ := List.any_eq_true.mp ha
        simp only [Bool.and_eq_true, beq_iff_eq] at hc
        have : ∃ r ∈ tbl, r.method = m ∧ r.pats = cleanToks p := ⟨r, hr, hc.1, hc.2⟩
        simp [this]

example : (register [] "GET" "/a//b/../:x/" (some 1)).1 = .ok := by decide
example : (register [⟨"GET", ["a", ":x"], 1⟩] "GET" "/a/:x" (some 2)).1 = .dup := by decide
example : (register [] "TRACE" "/a" (some 1)).1 = .badMethod := by decide
example : (register [] "GET" "a/b" (some 1)).1 = .badPath := by decide

/-! ### dispatch, for every iteration order of the children maps (no hypothesis on the table) -/

/-- **Dispatch iff match.**  A request is handed to a handler iff some route registered for its method
matches the cleaned path segment by segment. -/
theorem dispatch_iff_match {r : Router} {tbl : Table} (hrep : Rep r tbl) (hok : TblOK tbl) (m p : String) :
    (∃ h ps, serve r m p = .handler h ps) ↔
      (rooted p = true ∧ ∃ route ∈ tbl, route.method = m ∧ matchesP route.pats (cleanToks p) = true) := by
  have hiff := searchClean_isSome_iff hrep hok m p
  constructor
  · rintro ⟨h, ps, hs⟩
    cases hsc : searchClean (treeOf r m) p with
    | none =>
      by_cases ha : methodsAllowed r m p = []
      · rw [serve_of_none_nil hsc ha] at hs; cases hs
      · rw [serve_of_none_cons hsc ha] at hs; cases hs
    | some x =>
      obtain ⟨hr, hc⟩ := hiff.mp (by simp [hsc])
      obtain ⟨route, hroute⟩ := List.exists_mem_of_ne_nil _ hc
      exact ⟨hr, route, mem_candidates.mp hroute⟩
  · rintro ⟨hr, route, hmem, hm, hmatch⟩
    have : (searchClean (treeOf r m) p).isSome = true :=
      hiff.mpr ⟨hr, fun e => by
        have : route ∈ candidates tbl m (cleanToks p) := mem_candidates.mpr ⟨hmem, hm, hmatch⟩
        rw [e] at this; cases this⟩
    obtain ⟨⟨h, ps⟩, hs⟩ := Option.isSome_iff_exists.mp this
    exact ⟨h, ps, serve_of_some hs⟩

/-- **The chosen route is a preferred match, its variables are its bound segments** (any iteration order):
the handler that runs belongs to a matching route that no other matching route beats (a literal beats a
variable at the first segment where two candidates differ), and the `addParam` calls are exactly that
route's bound segments (innermost first). -/
theorem chosen_is_admissible {r : Router} {tbl : Table} (hrep : Rep r tbl) (hok : TblOK tbl)
    {m p : String} {h : H} {ps : Params} (hs : serve r m p = .handler h ps) :
    ∃ route ∈ admissible tbl m (cleanToks p),
      route.h = h ∧ ps = (binds route.pats (cleanToks p)).reverse := by
  cases hsc : searchClean (treeOf r m) p with
  | none =>
    by_cases ha : methodsAllowed r m p = []
    · rw [serve_of_none_nil hsc ha] at hs; cases hs
    · rw [serve_of_none_cons hsc ha] at hs; cases hs
  | some x =>
    obtain ⟨h', ps'⟩ := x
    rw [serve_of_some hsc] at hs
    cases hs
    exact (searchClean_some hrep hok hsc).2

/-! ### under the hypothesis: dispatch is a function of the table -/

/-- **The chosen route is *the* preferred match.**  With one variable name per position under a prefix the
admissible route is unique, so — whatever order Go iterates its maps in — the request runs the handler of
`preferredMatch tbl m path` with exactly its bindings. -/
theorem chosen_is_preferred_match {r : Router} {tbl : Table} (hrep : Rep r tbl) (hok : TblOK tbl)
    (hyp : oneVarPerPosition tbl = true) {m p : String} {h : H} {ps : Params}
    (hs : serve r m p = .handler h ps) :
    ∃ route, preferredMatch tbl m (cleanToks p) = some route ∧ route.h = h ∧
      ps = (binds route.pats (cleanToks p)).reverse := by
  obtain ⟨route, hadm, hh, hps⟩ := chosen_is_admissible hrep hok hs
  exact ⟨route, preferredMatch_of_admissible hok hyp hadm, hh, hps⟩

/-- conversely, a preferred match is dispatched to. -/
theorem preferred_match_is_chosen {r : Router} {tbl : Table} (hrep : Rep r tbl) (hok : TblOK tbl)
    (hyp : oneVarPerPosition tbl = true) {m p : String} (hr : rooted p = true) {route : Route}
    (hpm : preferredMatch tbl m (cleanToks p) = some route) :
    serve r m p = .handler route.h (binds route.pats (cleanToks p)).reverse := by
  have hadm : route ∈ admissible tbl m (cleanToks p) := List.mem_of_mem_head? (by simpa [preferredMatch] using hpm)
  obtain ⟨hmem, hm, hmatch⟩ := mem_candidates.mp (mem_admissible.mp hadm).1
  obtain ⟨h, ps, hs⟩ := (dispatch_iff_match hrep hok m p).mpr ⟨hr, route, hmem, hm, hmatch⟩
  obtain ⟨route', hpm', hh, hps⟩ := chosen_is_preferred_match hrep hok hyp hs
  rw [hpm] at hpm'
  cases hpm'
  rw [hs, hh, hps]

/-- **Map iteration order is irrelevant under the hypothesis**: two routers that store the same table
(their children maps possibly ordered differently) dispatch every request identically. -/
theorem dispatch_order_irrelevant {r r' : Router} {tbl : Table} (hrep : Rep r tbl) (hrep' : Rep r' tbl)
    (hok : TblOK tbl) (hyp : oneVarPerPosition tbl = true) (m p : String) (h : H) (ps : Params) :
    serve r m p = .handler h ps ↔ serve r' m p = .handler h ps := by
  have key : ∀ {a b : Router}, Rep a tbl → Rep b tbl → serve a m p = .handler h ps → serve b m p = .handler h ps := by
    intro a b ha hb hs
    obtain ⟨route, hpm, hh, hps⟩ := chosen_is_preferred_match ha hok hyp hs
    have hr : rooted p = true := ((dispatch_iff_match ha hok m p).mp ⟨h, ps, hs⟩).1
    rw [preferred_match_is_chosen hb hok hyp hr hpm, hh, hps]
  exact ⟨key hrep hrep', key hrep' hrep⟩

/-- **Reordering the children maps of any nodes** (`Shuffled`: what another Go map iteration order amounts
to) keeps a tree a representation of the same routes — so the theorems above, stated for all representing
routers, cover every iteration order — and under the hypothesis the search result is literally the same. -/
theorem search_same_after_shuffle {tbl : Table} (hok : TblOK tbl) (hyp : oneVarPerPosition tbl = true)
    {root root' : Node} {m : String} (hs : Shuffled root root') (hrep : TreeRep root tbl m)
    (toks : List String) (hc : toks = [""] ∨ (toks ≠ [] ∧ ∀ t ∈ toks, t ≠ "")) :
    TreeRep root' tbl m ∧ next toks root' = next toks root := by
  have hrep' := treeRep_shuffled hs hrep
  refine ⟨hrep', ?_⟩
  obtain ⟨hsome, hnone⟩ := search_table hok hrep toks hc
  obtain ⟨hsome', hnone'⟩ := search_table hok hrep' toks hc
  cases h : next toks root with
  | none =>
    cases h' : next toks root' with
    | none => rfl
    | some x =>
      obtain ⟨route, hadm, _⟩ := hsome' x.1 x.2 h'
      have := (mem_admissible.mp hadm).1
      rw [hnone h] at this; cases this
  | some x =>
    obtain ⟨route, hadm, hh, hps⟩ := hsome x.1 x.2 h
    cases h' : next toks root' with
    | none =>
      have := (mem_admissible.mp hadm).1
      rw [hnone' h'] at this; cases this
    | some y =>
      obtain ⟨route', hadm', hh', hps'⟩ := hsome' y.1 y.2 h'
      have e := admissible_unique hok hyp hadm hadm'
      subst e
      congr 1
      exact Prod.ext (hh'.symm.trans hh) (hps'.trans hps.symm)

example (a b : Node) : Shuffled (.mk none [] [(":x", a), (":y", b)]) (.mk none [] [(":y", b), (":x", a)]) :=
  .top _ _ _ _ _ (List.Perm.refl _) (List.Perm.swap _ _ _)

/-- **The path variables delivered are exactly the bound segments.**  When the names inside the chosen
pattern are pairwise distinct, `pathvar.Vars` (the map built by the `addParam` calls) contains exactly the
pairs (name, segment) bound by the route — nothing overwritten, nothing else. -/
theorem vars_are_bound_segments {r : Router} {tbl : Table} (hrep : Rep r tbl) (hok : TblOK tbl)
    {m p : String} {h : H} {ps : Params} (hs : serve r m p = .handler h ps) :
    ∃ route ∈ admissible tbl m (cleanToks p), route.h = h ∧
      (distinctNames route.pats = true →
        paramMap ps = (binds route.pats (cleanToks p)).reverse) := by
  obtain ⟨route, hadm, hh, hps⟩ := chosen_is_admissible hrep hok hs
  refine ⟨route, hadm, hh, ?_⟩
  intro hd
  rw [hps]
  apply paramMap_of_nodup
  rw [List.map_reverse]
  exact nodup_reverse' _ (binds_keys_nodup hd _)

/-- without the distinctness assumption: `pathvar.Vars` holds, for every name, the *first* segment the
chosen pattern binds to that name (a later `addParam` — an earlier segment — overwrites).  So a pattern
that repeats a name (`/:x/:x`) silently loses the later segments. -/
theorem vars_first_binding_wins {r : Router} {tbl : Table} (hrep : Rep r tbl) (hok : TblOK tbl)
    {m p : String} {h : H} {ps : Params} (hs : serve r m p = .handler h ps) :
    ∃ route ∈ admissible tbl m (cleanToks p), route.h = h ∧
      ∀ name, (paramMap ps).lookup name = (binds route.pats (cleanToks p)).lookup name := by
  obtain ⟨route, hadm, hh, hps⟩ := chosen_is_admissible hrep hok hs
  refine ⟨route, hadm, hh, fun name => ?_⟩
  rw [paramMap_lookup, hps, List.reverse_reverse]

example : paramMap ((binds [":x", "a", ":x"] ["p", "a", "q"]).reverse) = [("x", "p")] := by decide

/-! ### 405 / 404 (any iteration order) -/

/-- **405 with exactly the other methods that match.** -/
theorem status_405_allow_exact {r : Router} {tbl : Table} (hrep : Rep r tbl) (hok : TblOK tbl)
    {m p : String} {a : List String} (hs : serve r m p = .notAllowed a) :
    candidates tbl m (cleanToks p) = [] ∧ a ≠ [] ∧ a.Nodup ∧
    ∀ x, x ∈ a ↔ (x ≠ m ∧ ∃ route ∈ tbl, route.method = x ∧ matchesP route.pats (cleanToks p) = true) := by
  cases hsc : searchClean (treeOf r m) p with
  | some x => obtain ⟨h', ps'⟩ := x; rw [serve_of_some hsc] at hs; cases hs
  | none =>
    by_cases ha : methodsAllowed r m p = []
    · rw [serve_of_none_nil hsc ha] at hs; cases hs
    · rw [serve_of_none_cons hsc ha] at hs
      cases hs
      have hrooted : rooted p = true := by
        obtain ⟨x, hx⟩ := List.exists_mem_of_ne_nil _ ha
        exact ((mem_methodsAllowed hrep hok m p x).mp hx).2.1
      refine ⟨?_, ha, methodsAllowed_nodup hrep.1 m p, ?_⟩
      · cases hc : candidates tbl m (cleanToks p) with
        | nil => rfl
        | cons c cs =>
          have := (searchClean_isSome_iff hrep hok m p).mpr ⟨hrooted, by simp [hc]⟩
          rw [hsc] at this; cases this
      · intro x
        rw [mem_methodsAllowed hrep hok m p x]
        constructor
        · rintro ⟨hne, _, hc⟩
          obtain ⟨route, hroute⟩ := List.exists_mem_of_ne_nil _ hc
          exact ⟨hne, route, mem_candidates.mp hroute⟩
        · rintro ⟨hne, route, hmem, hm, hmatch⟩
          refine ⟨hne, hrooted, fun e => ?_⟩
          have : route ∈ candidates tbl x (cleanToks p) := mem_candidates.mpr ⟨hmem, hm, hmatch⟩
          rw [e] at this; cases this

/-- the Allow list is the spec's `allowed` set. -/
theorem allow_is_spec_allowed {r : Router} {tbl : Table} (hrep : Rep r tbl) (hok : TblOK tbl)
    {m p : String} {a : List String} (hs : serve r m p = .notAllowed a) :
    ∀ x, x ∈ a ↔ x ∈ allowed tbl m (cleanToks p) := by
  intro x
  rw [(status_405_allow_exact hrep hok hs).2.2.2 x, mem_allowed]
  constructor
  · rintro ⟨hne, route, hmem, hm, hmatch⟩
    refine ⟨hne, fun e => ?_⟩
    have : route ∈ candidates tbl x (cleanToks p) := mem_candidates.mpr ⟨hmem, hm, hmatch⟩
    rw [e] at this; cases this
  · rintro ⟨hne, hc⟩
    obtain ⟨route, hroute⟩ := List.exists_mem_of_ne_nil _ hc
    exact ⟨hne, route, mem_candidates.mp hroute⟩

/-- **404 exactly when no route of any method matches** (or the path is not rooted). -/
theorem status_404 {r : Router} {tbl : Table} (hrep : Rep r tbl) (hok : TblOK tbl) (m p : String) :
    serve r m p = .notFound ↔
      (rooted p = true → ∀ route ∈ tbl, matchesP route.pats (cleanToks p) = false) := by
  constructor
  · intro hs hr route hmem
    cases hmatch : matchesP route.pats (cleanToks p) with
    | false => rfl
    | true =>
      exfalso
      by_cases hm : route.method = m
      · obtain ⟨h, ps, hd⟩ := (dispatch_iff_match hrep hok m p).mpr ⟨hr, route, hmem, hm, hmatch⟩
        rw [hs] at hd; cases hd
      · have hx : route.method ∈ methodsAllowed r m p :=
          (mem_methodsAllowed hrep hok m p _).mpr ⟨hm, hr, fun e => by
            have : route ∈ candidates tbl route.method (cleanToks p) := mem_candidates.mpr ⟨hmem, rfl, hmatch⟩
            rw [e] at this; cases this⟩
        cases hsc : searchClean (treeOf r m) p with
        | some x => obtain ⟨h', ps'⟩ := x; rw [serve_of_some hsc] at hs; cases hs
        | none =>
          have ha : methodsAllowed r m p ≠ [] := fun e => by rw [e] at hx; cases hx
          rw [serve_of_none_cons hsc ha] at hs; cases hs
  · intro hno
    have hsc : searchClean (treeOf r m) p = none := by
      cases hsc : searchClean (treeOf r m) p with
      | none => rfl
      | some x =>
        obtain ⟨hr, hc⟩ := (searchClean_isSome_iff hrep hok m p).mp (by simp [hsc])
        obtain ⟨route, hroute⟩ := List.exists_mem_of_ne_nil _ hc
        obtain ⟨hmem, _, hmatch⟩ := mem_candidates.mp hroute
        rw [hno hr route hmem] at hmatch; cases hmatch
    have ha : methodsAllowed r m p = [] := by
      rw [List.eq_nil_iff_forall_not_mem]
      intro x hx
      obtain ⟨_, hr, hc⟩ := (mem_methodsAllowed hrep hok m p x).mp hx
      obtain ⟨route, hroute⟩ := List.exists_mem_of_ne_nil _ hc
      obtain ⟨hmem, _, hmatch⟩ := mem_candidates.mp hroute
      rw [hno hr route hmem] at hmatch; cases hmatch
    exact serve_of_none_nil hsc ha

/-! ### the whole of `ServeHTTP` against the declarative `expect`, end to end from the registrations -/

/-- what it means for an outcome of the router to be the one the property demands. -/
def Agrees (toks : List String) : Outcome → Expect → Prop
  | .handler h ps, .handler route => route.h = h ∧ ps = (binds route.pats toks).reverse
  | .notAllowed a, .notAllowed a' => a.Nodup ∧ ∀ x, x ∈ a ↔ x ∈ a'
  | .notFound, .notFound => True
  | _, _ => False

/-- **C09, main theorem.**  For every sequence of registrations whose accepted table has one variable name
per position under a prefix, and every request method and (rooted) path: what the router does is what the
declarative matcher demands — handler of the preferred match with its bound segments, else 405 with exactly
the other matching methods, else 404. -/
theorem serve_is_declarative_matcher (regs : List Reg)
    (hyp : oneVarPerPosition (runRegister [] regs) = true) (m p : String) (hr : rooted p = true) :
    Agrees (cleanToks p) (serve (runHandle {} regs) m p)
      (expect (runRegister [] regs) m (some (cleanToks p))) := by
  obtain ⟨hrep, hok⟩ := router_represents_table regs
  generalize runHandle {} regs = r at *
  generalize runRegister [] regs = tbl at *
  cases hpm : preferredMatch tbl m (cleanToks p) with
  | some route =>
    rw [preferred_match_is_chosen hrep hok hyp hr hpm]
    simp [expect, hpm, Agrees]
  | none =>
    have hcand : candidates tbl m (cleanToks p) = [] := by
      cases hc : candidates tbl m (cleanToks p) with
      | nil => rfl
      | cons c cs =>
        exfalso
        obtain ⟨h, ps, hs⟩ := (dispatch_iff_match hrep hok m p).mpr
          ⟨hr, c, mem_candidates.mp (by rw [hc]; simp)⟩
        obtain ⟨route, hpm', _⟩ := chosen_is_preferred_match hrep hok hyp hs
        rw [hpm] at hpm'; cases hpm'
    cases hs : serve r m p with
    | handler h ps =>
      exfalso
      obtain ⟨route, hpm', _⟩ := chosen_is_preferred_match hrep hok hyp hs
      rw [hpm] at hpm'; cases hpm'
    | notAllowed a =>
      have h405 := status_405_allow_exact hrep hok hs
      have hal := allow_is_spec_allowed hrep hok hs
      cases hall : allowed tbl m (cleanToks p) with
      | nil =>
        exfalso
        obtain ⟨x, hx⟩ := List.exists_mem_of_ne_nil _ h405.2.1
        have := (hal x).mp hx
        rw [hall] at this; cases this
      | cons y ys =>
        simp only [expect, hpm, hall, Agrees]
        exact ⟨h405.2.2.1, fun x => by rw [hal x, hall]⟩
    | notFound =>
      have h404 := (status_404 hrep hok m p).mp hs hr
      have hall : allowed tbl m (cleanToks p) = [] := by
        rw [List.eq_nil_iff_forall_not_mem]
        intro x hx
        obtain ⟨_, hc⟩ := mem_allowed.mp hx
        obtain ⟨route, hroute⟩ := List.exists_mem_of_ne_nil _ hc
        obtain ⟨hmem, _, hmatch⟩ := mem_candidates.mp hroute
        rw [h404 route hmem] at hmatch; cases hmatch
      simp [expect, hpm, hall, Agrees]

/-- a path that does not start with '/' is never dispatched and never 405. -/
theorem not_rooted_is_404 (regs : List Reg) (m p : String) (hr : rooted p = false) :
    serve (runHandle {} regs) m p = .notFound := by
  obtain ⟨hrep, hok⟩ := router_represents_table regs
  exact (status_404 hrep hok m p).mpr (fun h => by rw [hr] at h; cases h)

/-! ### path.Clean, empty trees -/

/-- cleaned paths are the root `[""]` or non-empty lists of non-empty segments. -/
theorem cleaned_is_clean (p : String) :
    cleanToks p = [""] ∨ (cleanToks p ≠ [] ∧ ∀ t ∈ cleanToks p, t ≠ "") := clean_cleanToks p

/-- the empty tree `Handle` leaves behind when `Add` fails matches nothing. -/
theorem empty_tree_never_matches (toks : List String) : next toks (newNode none) = none := next_newNode toks

/-! ### the hypothesis is needed: outside it the iteration order decides -/

/-- two trees storing the same two routes `/:x/a` (handler 1) and `/:y/:z` (handler 2) — they differ only
in the order of one children map — answer `/q/a` differently.  (Observed on the real router, see the
`req-order-dependent-observed` counter of the correspondence run.) -/
theorem excluded_region_order_decides :
    let leafA : Node := .mk none [("a", .mk (some 1) [] [])] []
    let leafZ : Node := .mk none [] [(":z", .mk (some 2) [] [])]
    let t1 : Node := .mk none [] [(":x", leafA), (":y", leafZ)]
    let t2 : Node := .mk none [] [(":y", leafZ), (":x", leafA)]
    next ["q", "a"] t1 = some (1, [("x", "q")]) ∧
    next ["q", "a"] t2 = some (2, [("z", "a"), ("y", "q")]) ∧
    (∀ ks, lookupW ks t1 = lookupW ks t2) := by
  refine ⟨by decide, by decide, ?_⟩
  intro ks
  match ks with
  | [] => rfl
  | k :: rest =>
    simp only [lookupW, child]
    by_cases h1 : k = ":x"
    · subst h1; rfl
    · by_cases h2 : k = ":y"
      · subst h2; rfl
      · have e1 : (k == ":x") = false := by simpa using h1
        have e2 : (k == ":y") = false := by simpa using h2
        split <;> simp [List.lookup, e1, e2]

/-! ### non-vacuity: a table mixing `/a/:x/c` and `/a/b/:y`, a root route, another method -/

def exRegs : List Reg :=
  [("GET", "/a/:x/c", some 1), ("GET", "/a/b/:y", some 2), ("GET", "/", some 3),
   ("POST", "/a/b/c", some 4), ("GET", "/a//b/./:y/", some 5), ("FETCH", "/a", some 6), ("GET", "a", some 7)]

example : oneVarPerPosition (runRegister [] exRegs) = true := by decide
example : (runRegister [] exRegs).map (·.h) = [1, 2, 3, 4] := by decide
-- literal preferred over variable at the first differing segment; backtracking when the literal branch fails
example : serve (runHandle {} exRegs) "GET" "/a/b/c" = .handler 2 [("y", "c")] := by decide
example : serve (runHandle {} exRegs) "GET" "/a/b/../q//c/" = .handler 1 [("x", "q")] := by decide
example : serve (runHandle {} exRegs) "GET" "/a/b/d" = .handler 2 [("y", "d")] := by decide
example : serve (runHandle {} exRegs) "GET" "/" = .handler 3 [] := by decide
example : serve (runHandle {} exRegs) "PUT" "/a/b/c" = .notAllowed ["GET", "POST"] := by decide
example : serve (runHandle {} exRegs) "POST" "/a/q/c" = .notAllowed ["GET"] := by decide
example : serve (runHandle {} exRegs) "GET" "/a/b" = .notFound := by decide
-- the hypotheses of the theorems above are met by this table …
example : Rep (runHandle {} exRegs) (runRegister [] exRegs) ∧ TblOK (runRegister [] exRegs) :=
  router_represents_table exRegs
example : Agrees (cleanToks "/a/b/../q//c/") (serve (runHandle {} exRegs) "GET" "/a/b/../q//c/")
    (expect (runRegister [] exRegs) "GET" (some (cleanToks "/a/b/../q//c/"))) :=
  serve_is_declarative_matcher exRegs (by decide) "GET" "/a/b/../q//c/" (by decide)
example : (candidates (runRegister [] exRegs) "GET" (cleanToks "/a/b/c")).map (·.h) = [1, 2] := by decide
example : (admissible (runRegister [] exRegs) "GET" (cleanToks "/a/b/c")).map (·.h) = [2] := by decide
-- … and the table of `excluded_region_order_decides` is outside the hypothesis, with two admissible routes
example : oneVarPerPosition [⟨"GET", [":x", "a"], 1⟩, ⟨"GET", [":y", ":z"], 2⟩] = false := by decide
example : (admissible [⟨"GET", [":x", "a"], 1⟩, ⟨"GET", [":y", ":z"], 2⟩] "GET" ["q", "a"]).map (·.h) = [1, 2] := by
  decide
example : expect (runRegister [] exRegs) "GET" (some (cleanToks "/a/b/c")) = .handler ⟨"GET", ["a", "b", ":y"], 2⟩ := by
  decide

end GoZero.C09
