/-
C09 — property theorems.
-/
import GoZero.C09.Spec
namespace GoZero.C09

theorem placeholder_root : next [""] (newNode (some 1)) = some (1, []) := by decide

end GoZero.C09
