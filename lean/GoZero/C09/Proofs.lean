/-
C09 — helper lemmas, part 1: the uniform trie view (`nextW`, `addW`, `lookupW`) and the search theorem
`nextW_spec`: for every well-formed node — whatever the order of its children lists — the depth-first
search returns a matching route that no other matching route beats, with its bindings; and returns
nothing only when nothing matches.
-/
import GoZero.C09.Spec
namespace GoZero.C09

open Spec

/-! ### well-formed nodes (what Go maps guarantee: distinct keys; `getChildren` puts ':' keys in children[1]) -/

inductive WF : Node → Prop
  | mk (i : Option H) (l v : List (String × Node)) :
      (l.map (·.1)).Nodup → (v.map (·.1)).Nodup →
      (∀ kc ∈ l, isVar kc.1 = false) → (∀ kc ∈ v, isVar kc.1 = true) →
      (∀ kc ∈ l, WF kc.2) → (∀ kc ∈ v, WF kc.2) → WF (.mk i l v)

theorem WF.lits_nodup {n : Node} (h : WF n) : (n.lits.map (·.1)).Nodup := by cases h; assumption
theorem WF.vars_nodup {n : Node} (h : WF n) : (n.vars.map (·.1)).Nodup := by cases h; assumption
theorem WF.lits_lit {n : Node} (h : WF n) : ∀ kc ∈ n.lits, isVar kc.1 = false := by cases h; assumption
theorem WF.vars_var {n : Node} (h : WF n) : ∀ kc ∈ n.vars, isVar kc.1 = true := by cases h; assumption
theorem WF.lits_wf {n : Node} (h : WF n) : ∀ kc ∈ n.lits, WF kc.2 := by cases h; assumption
theorem WF.vars_wf {n : Node} (h : WF n) : ∀ kc ∈ n.vars, WF kc.2 := by cases h; assumption

theorem wf_newNode (i : Option H) : WF (newNode i) := by
  refine WF.mk i [] [] ?_ ?_ ?_ ?_ ?_ ?_ <;> simp

/-- the child stored under exactly the key `k` (`getChildren(k)[k]`). -/
def child (n : Node) (k : String) : Option Node :=
  if isVar k then n.vars.lookup k else n.lits.lookup k

/-- the item stored under exactly the key list `ks` (uniform trie view: the node's own item is key `[]`). -/
def lookupW : List String → Node → Option H
  | [], n => n.item
  | k :: ks, n => (child n k).bind (lookupW ks)

/-- uniform search: `next` without the special treatment of the empty route. -/
def nextW : List String → Node → Option (H × Params)
  | [], n => n.item.map fun h => (h, [])
  | t :: rest, n => forEach n fun k c => if matchTok k t then (nextW rest c).map (hit k t) else none

/-- uniform insertion. -/
def addW : List String → Node → H → Except AddErr Node
  | [], n, h => if n.item.isSome then .error .dupItem else .ok (n.setItem h)
  | t :: rest, n, h => updChild n t fun oc => addW rest (oc.getD (newNode none)) h

/-! ### association-list facts -/

theorem lookup_of_mem {l : List (String × Node)} (hn : (l.map (·.1)).Nodup) {k : String} {c : Node}
    (hm : (k, c) ∈ l) : l.lookup k = some c := by
  induction l with
  | nil => cases hm
  | cons a tl ih =>
    obtain ⟨k', c'⟩ := a
    simp only [List.map_cons, List.nodup_cons] at hn
    simp only [List.mem_cons, Prod.mk.injEq] at hm
    rcases hm with ⟨rfl, rfl⟩ | hm
    · simp [List.lookup]
    · have hne : k ≠ k' := by
        intro e; subst e
        exact hn.1 (List.mem_map.mpr ⟨(k, c), hm, rfl⟩)
      have : (k == k') = false := by simp [hne]
      simp [List.lookup, this, ih hn.2 hm]

theorem mem_of_lookup {l : List (String × Node)} {k : String} {c : Node}
    (h : l.lookup k = some c) : (k, c) ∈ l := by
  induction l with
  | nil => simp [List.lookup] at h
  | cons a tl ih =>
    obtain ⟨k', c'⟩ := a
    simp only [List.lookup] at h
    split at h
    · rename_i heq
      have : k = k' := by simpa using heq
      subst this
      simp only [Option.some.injEq] at h
      subst h
      simp
    · exact List.mem_cons_of_mem _ (ih h)

theorem child_of_mem_lits {n : Node} (h : WF n) {k : String} {c : Node} (hm : (k, c) ∈ n.lits) :
    child n k = some c := by
  have := h.lits_lit _ hm
  simp only at this
  simp [child, this, lookup_of_mem h.lits_nodup hm]

theorem child_of_mem_vars {n : Node} (h : WF n) {k : String} {c : Node} (hm : (k, c) ∈ n.vars) :
    child n k = some c := by
  have := h.vars_var _ hm
  simp only at this
  simp [child, this, lookup_of_mem h.vars_nodup hm]

theorem child_mem {n : Node} {k : String} {c : Node} (h : child n k = some c) :
    (isVar k = false ∧ (k, c) ∈ n.lits) ∨ (isVar k = true ∧ (k, c) ∈ n.vars) := by
  unfold child at h
  split at h
  · rename_i hv; exact Or.inr ⟨hv, mem_of_lookup h⟩
  · rename_i hv; exact Or.inl ⟨by simpa using hv, mem_of_lookup h⟩

theorem child_wf {n : Node} (h : WF n) {k : String} {c : Node} (hc : child n k = some c) : WF c := by
  rcases child_mem hc with ⟨_, hm⟩ | ⟨_, hm⟩
  · exact h.lits_wf _ hm
  · exact h.vars_wf _ hm

/-! ### pattern facts -/

theorem matchesP_cons_iff (ks toks : List String) (t : String) :
    matchesP ks (t :: toks) = true ↔ ∃ k ks', ks = k :: ks' ∧ matchTok k t = true ∧ matchesP ks' toks = true := by
  cases ks with
  | nil => simp [matchesP]
  | cons k ks' =>
    simp only [matchesP, Bool.and_eq_true]
    constructor
    · intro h; exact ⟨k, ks', rfl, h⟩
    · rintro ⟨k1, ks1, he, h⟩
      cases he; exact h

theorem matchesP_nil_iff (ks : List String) : matchesP ks [] = true ↔ ks = [] := by
  cases ks <;> simp [matchesP]

theorem matchTok_lit {k t : String} (hv : isVar k = false) : matchTok k t = true ↔ k = t := by
  simp [matchTok, hv]

theorem matchTok_var {k : String} (t : String) (hv : isVar k = true) : matchTok k t = true := by
  simp [matchTok, hv]

/-- `ks` with handler `h` is an admissible answer for `toks` among the routes stored below `n`:
it is stored, it matches, and no stored matching route beats it. -/
def Adm (n : Node) (toks ks : List String) (h : H) : Prop :=
  lookupW ks n = some h ∧ matchesP ks toks = true ∧
    ∀ ks' h', lookupW ks' n = some h' → matchesP ks' toks = true → prefers ks ks' = true

/-! ### the search theorem -/

theorem forEach_some {n : Node} {p : String → Node → Option (H × Params)} {r : H × Params}
    (h : forEach n p = some r) :
    (∃ kc ∈ n.lits, p kc.1 kc.2 = some r) ∨
    ((∀ kc ∈ n.lits, p kc.1 kc.2 = none) ∧ ∃ kc ∈ n.vars, p kc.1 kc.2 = some r) := by
  unfold forEach at h
  split at h
  · rename_i r' hl
    simp only [Option.some.injEq] at h; subst h
    obtain ⟨kc, hm, hp⟩ := List.exists_of_findSome?_eq_some hl
    exact Or.inl ⟨kc, hm, hp⟩
  · rename_i hl
    obtain ⟨kc, hm, hp⟩ := List.exists_of_findSome?_eq_some h
    exact Or.inr ⟨by simpa [List.findSome?_eq_none_iff] using hl, kc, hm, hp⟩

theorem forEach_none {n : Node} {p : String → Node → Option (H × Params)}
    (h : forEach n p = none) :
    (∀ kc ∈ n.lits, p kc.1 kc.2 = none) ∧ (∀ kc ∈ n.vars, p kc.1 kc.2 = none) := by
  unfold forEach at h
  split at h
  · cases h
  · rename_i hl
    exact ⟨by simpa [List.findSome?_eq_none_iff] using hl, by simpa [List.findSome?_eq_none_iff] using h⟩

/-- **Search theorem (any iteration order).**  For a well-formed node: a successful search returns an
admissible stored route together with exactly its bindings (in `addParam` order, i.e. reversed route
order); a failed search means that no stored route matches. -/
theorem nextW_spec (toks : List String) : ∀ (n : Node), WF n →
    (∀ h ps, nextW toks n = some (h, ps) →
      ∃ ks, Adm n toks ks h ∧ ps = (binds ks toks).reverse) ∧
    (nextW toks n = none → ∀ ks h, lookupW ks n = some h → matchesP ks toks = false) := by
  induction toks with
  | nil =>
    intro n _
    constructor
    · intro h ps hs
      simp only [nextW, Option.map_eq_some_iff] at hs
      obtain ⟨h0, hi, he⟩ := hs
      simp only [Prod.mk.injEq] at he
      obtain ⟨rfl, rfl⟩ := he
      refine ⟨[], ⟨by simpa [lookupW] using hi, by simp [matchesP], ?_⟩, by simp [binds]⟩
      intro ks' h' _ _
      simp [prefers]
    · intro hn ks h hl
      simp only [nextW, Option.map_eq_none_iff] at hn
      cases ks with
      | nil => simp [lookupW, hn] at hl
      | cons k ks => simp [matchesP]
  | cons t rest ih =>
    intro n hwf
    -- what a matching stored route looks like from `n`
    have decomp : ∀ ks' h', lookupW ks' n = some h' → matchesP ks' (t :: rest) = true →
        ∃ k' ks0' c', ks' = k' :: ks0' ∧ child n k' = some c' ∧ lookupW ks0' c' = some h' ∧
          matchTok k' t = true ∧ matchesP ks0' rest = true := by
      intro ks' h' hl hm
      obtain ⟨k', ks0', rfl, hmt, hmr⟩ := (matchesP_cons_iff _ _ _).mp hm
      simp only [lookupW, Option.bind_eq_some_iff] at hl
      obtain ⟨c', hc', hl'⟩ := hl
      exact ⟨k', ks0', c', rfl, hc', hl', hmt, hmr⟩
    -- a child whose callback failed has no matching stored route
    have dead : ∀ k' c', child n k' = some c' →
        (if matchTok k' t then (nextW rest c').map (hit k' t) else none) = none →
        matchTok k' t = true → ∀ ks0' h', lookupW ks0' c' = some h' → matchesP ks0' rest = false := by
      intro k' c' hc' hp hmt ks0' h' hl'
      simp only [hmt, if_true, Option.map_eq_none_iff] at hp
      exact (ih c' (child_wf hwf hc')).2 hp ks0' h' hl'
    constructor
    · intro h ps hs
      simp only [nextW] at hs
      rcases forEach_some hs with ⟨⟨k, c⟩, hm, hp⟩ | ⟨hlits, ⟨k, c⟩, hm, hp⟩
      · -- found below a literal child
        simp only at hp
        have hlit := hwf.lits_lit _ hm
        simp only at hlit
        split at hp
        · rename_i hmt
          simp only [Option.map_eq_some_iff] at hp
          obtain ⟨⟨h0, ps0⟩, hn0, he⟩ := hp
          have hcw := hwf.lits_wf _ hm
          obtain ⟨ks0, ⟨hl0, hm0, hpref0⟩, hps0⟩ := (ih c hcw).1 h0 ps0 hn0
          have hchild := child_of_mem_lits hwf hm
          simp only [hit, hlit, Bool.false_eq_true, if_false, Prod.mk.injEq] at he
          obtain ⟨rfl, rfl⟩ := he
          refine ⟨k :: ks0, ⟨by simp [lookupW, hchild, hl0], by simp [matchesP, hmt, hm0], ?_⟩, ?_⟩
          · intro ks' h' hl' hm'
            obtain ⟨k', ks0', c', rfl, hc', hl0', hmt', hmr'⟩ := decomp ks' h' hl' hm'
            by_cases hk : k = k'
            · subst hk
              rw [hchild] at hc'
              cases hc'
              simp [prefers, hpref0 ks0' h' hl0' hmr']
            · simp [prefers, hk, hlit]
          · simp [binds, hlit, hps0]
        · cases hp
      · -- every literal child failed; found below a variable child
        simp only at hp
        have hvar := hwf.vars_var _ hm
        simp only at hvar
        split at hp
        · rename_i hmt
          simp only [Option.map_eq_some_iff] at hp
          obtain ⟨⟨h0, ps0⟩, hn0, he⟩ := hp
          have hcw := hwf.vars_wf _ hm
          obtain ⟨ks0, ⟨hl0, hm0, hpref0⟩, hps0⟩ := (ih c hcw).1 h0 ps0 hn0
          have hchild := child_of_mem_vars hwf hm
          simp only [hit, hvar, if_true, Prod.mk.injEq] at he
          obtain ⟨rfl, rfl⟩ := he
          refine ⟨k :: ks0, ⟨by simp [lookupW, hchild, hl0], by simp [matchesP, hmt, hm0], ?_⟩, ?_⟩
          · intro ks' h' hl' hm'
            obtain ⟨k', ks0', c', rfl, hc', hl0', hmt', hmr'⟩ := decomp ks' h' hl' hm'
            by_cases hk : k = k'
            · subst hk
              rw [hchild] at hc'
              cases hc'
              simp [prefers, hpref0 ks0' h' hl0' hmr']
            · -- a different first token: it cannot be a literal, all literal children failed
              rcases child_mem hc' with ⟨hl, hmem⟩ | ⟨hv', _⟩
              · have := dead k' c' hc' (hlits (k', c') hmem) hmt' ks0' h' hl0'
                rw [this] at hmr'; cases hmr'
              · simp [prefers, hk, hvar, hv']
          · simp [binds, hvar, hps0]
        · cases hp
    · intro hn ks h hl
      simp only [nextW] at hn
      obtain ⟨hlits, hvars⟩ := forEach_none hn
      cases hmm : matchesP ks (t :: rest) with
      | false => rfl
      | true =>
        obtain ⟨k', ks0', c', rfl, hc', hl0', hmt', hmr'⟩ := decomp ks h hl hmm
        have hp : (if matchTok k' t then (nextW rest c').map (hit k' t) else none) = none := by
          rcases child_mem hc' with ⟨_, hmem⟩ | ⟨_, hmem⟩
          · exact hlits (k', c') hmem
          · exact hvars (k', c') hmem
        have := dead k' c' hc' hp hmt' ks0' h hl0'
        rw [this] at hmr'; cases hmr'

end GoZero.C09
