/-
C09 — the declarative matcher (abstract spec) and the executable monitor built from it.

A route table is a list of `(method, pattern tokens, handler)`; no tree anywhere in this file.
Patterns and request paths are *cleaned* token lists: the root is the single empty token `[""]`,
every other path is a non-empty list of non-empty tokens.

Core Lean only (linked into gzdriver).
-/
import GoZero.C09.Model
namespace GoZero.C09
namespace Spec

structure Route where
  method : String
  pats : List String
  h : H
  deriving Repr, DecidableEq

abbrev Table := List Route

/-- segment by segment: literal segments equal, `:name` segments match any single segment, same length. -/
def matchesP : List String → List String → Bool
  | [], [] => true
  | k :: ks, t :: ts => matchTok k t && matchesP ks ts
  | _, _ => false

/-- the segments bound by a route, in route order. -/
def binds : List String → List String → Params
  | k :: ks, t :: ts => (if isVar k then [(varName k, t)] else []) ++ binds ks ts
  | _, _ => []

/-- `c` is not beaten by `r`: at the first segment where the two patterns differ it is not the case that
`c` has a variable and `r` a literal. -/
def prefers : List String → List String → Bool
  | k :: ks, k' :: ks' => if k = k' then prefers ks ks' else !(isVar k && !isVar k')
  | _, _ => true

/-- the hypothesis of the property on two patterns: wherever they agree on a prefix and both continue
with a variable, it is the same variable token. -/
def sameVarAfterCommonPrefix : List String → List String → Bool
  | k :: ks, k' :: ks' =>
    if k = k' then sameVarAfterCommonPrefix ks ks' else !(isVar k && isVar k')
  | _, _ => true

/-- **one variable name per position under a given prefix** (per method). -/
def oneVarPerPosition (tbl : Table) : Bool :=
  tbl.all fun a => tbl.all fun b => a.method != b.method || sameVarAfterCommonPrefix a.pats b.pats

/-- the variable names of one pattern are pairwise distinct. -/
def distinctNames (pats : List String) : Bool :=
  decide ((pats.filter isVar).map varName).Nodup

def candidates (tbl : Table) (m : String) (toks : List String) : List Route :=
  tbl.filter fun r => r.method == m && matchesP r.pats toks

/-- a matching route that no other matching route beats. -/
def admissible (tbl : Table) (m : String) (toks : List String) : List Route :=
  let cs := candidates tbl m toks
  cs.filter fun c => cs.all fun r => prefers c.pats r.pats

/-- the preferred match (unique under `oneVarPerPosition`). -/
def preferredMatch (tbl : Table) (m : String) (toks : List String) : Option Route :=
  (admissible tbl m toks).head?

/-- methods other than `m` that have a matching route, in table order, without repetition. -/
def allowed (tbl : Table) (m : String) (toks : List String) : List String :=
  ((tbl.filter fun r => r.method != m && matchesP r.pats toks).map (·.method)).eraseDups

inductive Expect where
  | handler (r : Route)
  | notAllowed (allow : List String)
  | notFound
  deriving Repr, DecidableEq

/-- what the property demands for a request (cleaned tokens; `none` = path not rooted ⇒ nothing matches). -/
def expect (tbl : Table) (m : String) (toks : Option (List String)) : Expect :=
  match toks with
  | none => .notFound
  | some toks =>
    match preferredMatch tbl m toks with
    | some r => .handler r
    | none =>
      match allowed tbl m toks with
      | [] => .notFound
      | a => .notAllowed a

inductive RegVerdict where
  | ok | dup | badMethod | badPath | emptyHandler
  deriving DecidableEq, Repr

/-- registration rule of the property: unsupported method, pattern not starting with '/', same method and
(cleaned) pattern twice are rejected. -/
def register (tbl : Table) (m path : String) (item : Option H) : RegVerdict × Table :=
  if !validMethod m then (.badMethod, tbl)
  else if !rooted path then (.badPath, tbl)
  else match item with
    | none => (.emptyHandler, tbl)
    | some h =>
      let pats := cleanToks path
      if tbl.any fun r => r.method == m && r.pats == pats then (.dup, tbl)
      else (.ok, tbl ++ [{ method := m, pats := pats, h := h }])

end Spec
end GoZero.C09
