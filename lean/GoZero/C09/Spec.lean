/-
C09 — the declarative matcher (abstract spec) and the executable monitor built from it.

A route table is a list of `(method, pattern tokens, handler)`; no tree anywhere in this file.
Patterns and request paths are *cleaned* token lists: the root is the single empty token `[""]`,
every other path is a non-empty list of non-empty tokens.

Core Lean only (linked into gzdriver).
-/
import GoZero.C09.Model
namespace GoZero.C09
namespace Spec

structure Route where
  method : String
  pats : List String
  h : H
  deriving Repr, DecidableEq

abbrev Table := List Route

/-- segment by segment: literal segments equal, `:name` segments match any single segment, same length. -/
def matchesP : List String → List String → Bool
  | [], [] => true
  | k :: ks, t :: ts => matchTok k t && matchesP ks ts
  | _, _ => false

/-- the segments bound by a route, in route order. -/
def binds : List String → List String → Params
  | k :: ks, t :: ts => (if isVar k then [(varName k, t)] else []) ++ binds ks ts
  | _, _ => []

/-- `c` is not beaten by `r`: at the first segment where the two patterns differ it is not the case that
`c` has a variable and `r` a literal. -/
def prefers : List String → List String → Bool
  | k :: ks, k' :: ks' => if k = k' then prefers ks ks' else !(isVar k && !isVar k')
  | _, _ => true

/-- the hypothesis of the property on two patterns: wherever they agree on a prefix and both continue
with a variable, it is the same variable token. -/
def sameVarAfterCommonPrefix : List String → List String → Bool
  | k :: ks, k' :: ks' =>
    if k = k' then sameVarAfterCommonPrefix ks ks' else !(isVar k && isVar k')
  | _, _ => true

/-- **one variable name per position under a given prefix** (per method). -/
def oneVarPerPosition (tbl : Table) : Bool :=
  tbl.all fun a => tbl.all fun b => a.method != b.method || sameVarAfterCommonPrefix a.pats b.pats

/-- the variable names of one pattern are pairwise distinct. -/
def distinctNames (pats : List String) : Bool :=
  decide ((pats.filter isVar).map varName).Nodup

def candidates (tbl : Table) (m : String) (toks : List String) : List Route :=
  tbl.filter fun r => r.method == m && matchesP r.pats toks

/-- a matching route that no other matching route beats. -/
def admissible (tbl : Table) (m : String) (toks : List String) : List Route :=
  let cs := candidates tbl m toks
  cs.filter fun c => cs.all fun r => prefers c.pats r.pats

/-- the preferred match (unique under `oneVarPerPosition`). -/
def preferredMatch (tbl : Table) (m : String) (toks : List String) : Option Route :=
  (admissible tbl m toks).head?

/-- methods other than `m` that have a matching route, in table order, without repetition. -/
def allowed (tbl : Table) (m : String) (toks : List String) : List String :=
  ((tbl.filter fun r => r.method != m && matchesP r.pats toks).map (·.method)).eraseDups

inductive Expect where
  | handler (r : Route)
  | notAllowed (allow : List String)
  | notFound
  deriving Repr, DecidableEq

/-- what the property demands for a request (cleaned tokens; `none` = path not rooted ⇒ nothing matches). -/
def expect (tbl : Table) (m : String) (toks : Option (List String)) : Expect :=
  match toks with
  | none => .notFound
  | some toks =>
    match preferredMatch tbl m toks with
    | some r => .handler r
    | none =>
      match allowed tbl m toks with
      | [] => .notFound
      | a => .notAllowed a

inductive RegVerdict where
  | ok | dup | badMethod | badPath | emptyHandler
  deriving DecidableEq, Repr

/-- registration rule of the property: unsupported method, pattern not starting with '/', same method and
(cleaned) pattern twice are rejected. -/
def register (tbl : Table) (m path : String) (item : Option H) : RegVerdict × Table :=
  if !validMethod m then (.badMethod, tbl)
  else if !rooted path then (.badPath, tbl)
  else match item with
    | none => (.emptyHandler, tbl)
    | some h =>
      let pats := cleanToks path
      if tbl.any fun r => r.method == m && r.pats == pats then (.dup, tbl)
      else (.ok, tbl ++ [{ method := m, pats := pats, h := h }])

/-- registration through `engine.bindRoutes`: the routes are registered in order and the first rejected one
aborts the start-up (its verdict is reported); the routes before it are in the table. -/
def bindTable (tbl : Table) : List Reg → Table × RegVerdict
  | [] => (tbl, .ok)
  | (m, p, item) :: rest =>
    match register tbl m p item with
    | (.ok, tbl') => bindTable tbl' rest
    | (v, _) => (tbl, v)

/-! ### the monitor, on canonical (parsed) observations -/

/-- one served request as the harness saw it. -/
inductive Obs where
  | hit (h : H) (vars : List (String × String))   -- a route handler ran; `pathvar.Vars` (any order)
  | notAllowed (allow : List String)                -- 405 written by the router, the Allow header's methods
  | notFound                                        -- 404 written by the built-in not-found handler
  | customNA (h : H)                                -- the custom not-allowed handler `h` ran
  | customNF (h : H)                                -- the custom not-found handler `h` ran
  | other (s : String)                              -- anything else (several handlers, another status, …)
  deriving Repr, DecidableEq

/-- the custom handlers configured by the user (`none` = built-in behaviour). -/
structure Custom where
  nf : Option H := none
  na : Option H := none
  deriving Repr, DecidableEq

def sameSet {α} [BEq α] (a b : List α) : Bool := a.all b.contains && b.all a.contains

/-- the property's verdict on a dispatch to handler `h` with variables `vars`: some admissible route has this
handler, and the variables are exactly its bound segments (for a pattern that repeats a name: every
delivered pair is one of the bound ones). -/
def hitOk (tbl : Table) (m : String) (toks : List String) (h : H) (vars : List (String × String)) : Bool :=
  (admissible tbl m toks).any fun r =>
    r.h == h &&
      (if distinctNames r.pats then sameSet vars (binds r.pats toks)
       else vars.all (binds r.pats toks).contains)

inductive Verdict where
  | ok
  | notUnique                         -- the hypothesis holds but two different routes are admissible
  | noRouteMatches                    -- dispatched although no route of the method matches
  | wrongRoute (adm : List Route)     -- dispatched, but not to an admissible route with its bound segments
  | notDispatched (r : Route)         -- not dispatched although `r` matches
  | expected (e : Expect)             -- 405/404 expected (as `e` says), something else observed
  deriving Repr, DecidableEq

/-- **the monitor**: the property's verdict on one observation of one request
(`toks` = cleaned request path, `none` when the path is not rooted). -/
def monitorObs (tbl : Table) (hyp : Bool) (c : Custom) (m : String) (toks : Option (List String)) (o : Obs) :
    Verdict :=
  let cs := match toks with | some t => candidates tbl m t | none => []
  let adm := match toks with | some t => admissible tbl m t | none => []
  match o with
  | .hit h vars =>
    if hitOk tbl m (toks.getD []) h vars && toks.isSome then
      if hyp && !(adm.all fun a => adm.all fun b => a == b) then .notUnique else .ok
    else if cs.isEmpty then .noRouteMatches
    else .wrongRoute adm
  | o =>
    match expect tbl m toks with
    | .handler r => .notDispatched r
    | .notAllowed a =>
      let good := match c.na, o with
        | none, .notAllowed a' => sameSet a' a
        | some h, .customNA h' => h == h'
        | _, _ => false
      if good then .ok else .expected (.notAllowed a)
    | .notFound =>
      let good := match c.nf, o with
        | none, .notFound => true
        | some h, .customNF h' => h == h'
        | _, _ => false
      if good then .ok else .expected .notFound

/-- the monitor for a request that ARRIVES with path variables of an outer router in its context (`outer`, non-empty):
`ServeHTTP` installs the route's variables only when it bound some, so a route without variables leaves the context
alone.  A hit is accepted when the plain monitor accepts it, or when the handler saw exactly the outer variables and
the plain monitor accepts the same handler with no variables (the chosen route binds nothing). -/
def monitorObsCtx (tbl : Table) (hyp : Bool) (c : Custom) (m : String) (toks : Option (List String))
    (outer : List (String × String)) (o : Obs) : Verdict :=
  match o with
  | .hit h vars =>
    if monitorObs tbl hyp c m toks (.hit h vars) = .ok then .ok
    else if !outer.isEmpty && sameSet vars outer then monitorObs tbl hyp c m toks (.hit h [])
    else monitorObs tbl hyp c m toks (.hit h vars)
  | o => monitorObs tbl hyp c m toks o

/-! ### `search.Tree` used directly with raw (uncleaned) strings -/

/-- the route a raw token list denotes: a single trailing empty element (trailing slash) is dropped. -/
def normToks : List String → List String
  | t :: r :: rs => if r = "" ∧ rs = [] then [t] else t :: normToks (r :: rs)
  | l => l

/-- the key of a raw route string: its elements without one trailing slash; the root is the empty key. -/
def rawKey (route : String) : List String :=
  if normToks (toksOf route) = [""] then [] else normToks (toksOf route)

/-- a stored key matches a raw token list: segment by segment, or — when the raw list ends with an empty
element (trailing slash) — segment by segment without it. -/
def matchesRawB (ks toks : List String) : Bool :=
  matchesP ks toks || (toks.getLast? == some "" && matchesP ks toks.dropLast)

/-- what the registration rule says for a raw `Tree.Add(route, item)` on a tree holding the keys `keys`. -/
def rawAddVerdict (keys : List (List String)) (route : String) (item : Option H) : String :=
  if !rooted route then "notfromroot"
  else if item.isNone then "empty"
  else if (toksOf route).dropLast.contains "" then "dupslash"
  else if keys.contains (rawKey route) then "dup" else "ok"

end Spec
end GoZero.C09
