/-
C09 — round 5c: a REJECTED registration leaves the router observably unchanged.

`handleM` / `addM` (Model.lean) are `Handle` / `add` with the in-place mutation visible: what the Go structures hold after
the call, also when it returns an error.  Theorems: they agree with the `Except` model used everywhere else
(`addM_agrees`, `handleM_agrees`); a duplicate is detected before anything is written (`addM_dup_unchanged`); after ANY
rejection every method's tree is what it was (`handleM_rejected_same_trees`), hence every later request is served as
before (`rejected_registration_observably_unchanged`) — also through `engine.bindRoutes` and the aliasing API model
(`bindAllM_same_trees`, `public_api_rejected_start_unchanged`).
-/
import GoZero.C09.PropsEntry
import GoZero.C09.PropsRaw
namespace GoZero.C09
open Spec

/-- the `Except` result and the (state, error) result say the same. -/
def Agree {α : Type} (x : Except AddErr α) (y : α × Option AddErr) : Prop :=
  match y.2 with
  | none => x = .ok y.1
  | some e => x = .error e

theorem agree_updKid (k : String) (F : Option Node → Except AddErr Node) (fM : Option Node → Node × Option AddErr)
    (h : ∀ oc, Agree (F oc) (fM oc)) : ∀ l, Agree (updKid k F l) (updKidM k fM l) := by
  intro l
  induction l with
  | nil =>
    have := h none
    unfold Agree at this ⊢
    simp only [updKid, updKidM]
    cases he : (fM none).2 with
    | none => rw [he] at this; simp [this, Except.map]
    | some e => rw [he] at this; simp [this, Except.map]
  | cons a tl ih =>
    obtain ⟨k', c⟩ := a
    simp only [updKid, updKidM]
    by_cases hk : k' = k
    · simp only [hk, if_true]
      have := h (some c)
      unfold Agree at this ⊢
      cases he : (fM (some c)).2 with
      | none => rw [he] at this; simp [this, Except.map]
      | some e => rw [he] at this; simp [this, Except.map]
    · simp only [hk, if_false]
      unfold Agree at ih ⊢
      cases he : (updKidM k fM tl).2 with
      | none => rw [he] at ih; simp [ih, Except.map]
      | some e => rw [he] at ih; simp [ih, Except.map]

theorem agree_updChild (n : Node) (k : String) (F : Option Node → Except AddErr Node)
    (fM : Option Node → Node × Option AddErr) (h : ∀ oc, Agree (F oc) (fM oc)) :
    Agree (updChild n k F) (updChildM n k fM) := by
  unfold updChild updChildM
  by_cases hv : isVar k = true
  · simp only [hv, if_true]
    have := agree_updKid k F fM h n.vars
    unfold Agree at this ⊢
    cases he : (updKidM k fM n.vars).2 with
    | none => rw [he] at this; simp [this, Except.map]
    | some e => rw [he] at this; simp [this, Except.map]
  · simp only [hv]
    have := agree_updKid k F fM h n.lits
    unfold Agree at this ⊢
    cases he : (updKidM k fM n.lits).2 with
    | none => rw [he] at this; simp [this, Except.map]
    | some e => rw [he] at this; simp [this, Except.map]

/-- **`addM` is `add`**: same verdict, and on success the same tree. -/
theorem addM_agrees (toks : List String) : ∀ (n : Node) (h : H), Agree (add toks n h) (addM toks n h) := by
  induction toks with
  | nil => intro n h; simp [Agree, add, addM]
  | cons t rest ih =>
    intro n h
    cases rest with
    | nil =>
      simp only [add, addM]
      by_cases ht : t = ""
      · simp only [ht, if_true]
        cases hi : n.item.isSome <;> simp [Agree]
      · simp only [ht, if_false]
        apply agree_updChild
        intro oc
        cases oc with
        | none => simp [Agree]
        | some c => cases hi : c.item.isSome <;> simp [Agree, hi]
    | cons r rs =>
      simp only [add, addM]
      by_cases ht : t = ""
      · simp [ht, Agree]
      · simp only [ht, if_false]
        apply agree_updChild
        intro oc
        exact ih _ _

theorem updKidM_unchanged (k : String) (fM : Option Node → Node × Option AddErr) (e : AddErr)
    (h : ∀ oc, (fM oc).2 = some e → ∃ c, oc = some c ∧ (fM oc).1 = c) :
    ∀ l, (updKidM k fM l).2 = some e → (updKidM k fM l).1 = l := by
  intro l
  induction l with
  | nil =>
    intro he
    simp only [updKidM] at he
    obtain ⟨c, hc, _⟩ := h none he
    cases hc
  | cons a tl ih =>
    obtain ⟨k', c⟩ := a
    intro he
    simp only [updKidM] at he ⊢
    by_cases hk : k' = k
    · simp only [hk, if_true] at he ⊢
      obtain ⟨c', hc', hcc⟩ := h (some c) he
      simp only [Option.some.injEq] at hc'
      rw [hcc, ← hc']
    · simp only [hk, if_false] at he ⊢
      rw [ih he]

theorem updChildM_unchanged (n : Node) (k : String) (fM : Option Node → Node × Option AddErr) (e : AddErr)
    (h : ∀ oc, (fM oc).2 = some e → ∃ c, oc = some c ∧ (fM oc).1 = c)
    (he : (updChildM n k fM).2 = some e) : (updChildM n k fM).1 = n := by
  unfold updChildM at he ⊢
  by_cases hv : isVar k = true
  · simp only [hv, if_true] at he ⊢
    rw [updKidM_unchanged k fM e h _ he]; cases n; rfl
  · simp only [hv] at he ⊢
    rw [updKidM_unchanged k fM e h _ he]; cases n; rfl

theorem updKidM_err (k : String) (fM : Option Node → Node × Option AddErr) (e : AddErr) :
    ∀ l, (updKidM k fM l).2 = some e → ∃ oc, (fM oc).2 = some e := by
  intro l
  induction l with
  | nil => intro he; exact ⟨none, he⟩
  | cons a tl ih =>
    obtain ⟨k', c⟩ := a
    intro he
    simp only [updKidM] at he
    by_cases hk : k' = k
    · simp only [hk, if_true] at he; exact ⟨some c, he⟩
    · simp only [hk, if_false] at he; exact ih he

theorem updChildM_err (n : Node) (k : String) (fM : Option Node → Node × Option AddErr) (e : AddErr)
    (he : (updChildM n k fM).2 = some e) : ∃ oc, (fM oc).2 = some e := by
  unfold updChildM at he
  by_cases hv : isVar k = true
  · simp only [hv, if_true] at he; exact updKidM_err k fM e _ he
  · simp only [hv] at he; exact updKidM_err k fM e _ he

/-- an empty node holds no duplicate. -/
theorem addM_newNode_no_dup (toks : List String) (h : H) : (addM toks (newNode none) h).2 ≠ some .dupItem := by
  induction toks with
  | nil => simp [addM]
  | cons t rest ih =>
    cases rest with
    | nil =>
      simp only [addM]
      by_cases ht : t = ""
      · simp [ht, newNode]
      · simp only [ht, if_false]
        intro he
        obtain ⟨oc, hoc⟩ := updChildM_err _ _ _ _ he
        revert hoc
        simp only [updChildM, newNode, Node.vars_mk, Node.lits_mk, updKidM] at he
        split at he <;> simp at he
    | cons r rs =>
      simp only [addM]
      by_cases ht : t = ""
      · simp [ht]
      · simp only [ht, if_false]
        intro he
        simp only [updChildM, newNode, Node.vars_mk, Node.lits_mk, updKidM, Option.getD_none] at he
        split at he <;> exact ih he

/-- **A duplicate is detected before anything is written**: when `add` returns `errDupItem` the tree is, node for
node, what it was. -/
theorem addM_dup_unchanged (toks : List String) : ∀ (n : Node) (h : H),
    (addM toks n h).2 = some .dupItem → (addM toks n h).1 = n := by
  induction toks with
  | nil => intro n h he; simp [addM] at he
  | cons t rest ih =>
    intro n h he
    cases rest with
    | nil =>
      simp only [addM] at he ⊢
      by_cases ht : t = ""
      · simp only [ht, if_true] at he ⊢
        cases hi : n.item.isSome <;> simp [hi] at he ⊢
      · simp only [ht, if_false] at he ⊢
        apply updChildM_unchanged _ _ _ _ _ he
        intro oc hoc
        cases oc with
        | none => simp at hoc
        | some c =>
          refine ⟨c, rfl, ?_⟩
          cases hi : c.item.isSome <;> simp [hi] at hoc ⊢
    | cons r rs =>
      simp only [addM] at he ⊢
      by_cases ht : t = ""
      · simp [ht] at he
      · simp only [ht, if_false] at he ⊢
        apply updChildM_unchanged _ _ _ _ _ he
        intro oc hoc
        cases oc with
        | none =>
          simp only [Option.getD_none] at hoc
          exact absurd (show (addM (r :: rs) (newNode none) h).2 = some .dupItem from hoc) (addM_newNode_no_dup _ _)
        | some c =>
          refine ⟨c, rfl, ?_⟩
          simp only [Option.getD_some] at hoc ⊢
          exact ih c h hoc

/-- the only errors `add` produces. -/
theorem addM_err_cases (toks : List String) : ∀ (n : Node) (h : H) (e : AddErr),
    (addM toks n h).2 = some e → e = .dupItem ∨ e = .dupSlash := by
  induction toks with
  | nil => intro n h e he; simp [addM] at he
  | cons t rest ih =>
    intro n h e he
    cases rest with
    | nil =>
      simp only [addM] at he
      by_cases ht : t = ""
      · simp only [ht, if_true] at he
        cases hi : n.item.isSome <;> simp [hi] at he
        exact Or.inl he.symm
      · simp only [ht, if_false] at he
        obtain ⟨oc, hoc⟩ := updChildM_err _ _ _ _ he
        cases oc with
        | none => simp at hoc
        | some c =>
          cases hi : c.item.isSome <;> simp [hi] at hoc
          exact Or.inl hoc.symm
    | cons r rs =>
      simp only [addM] at he
      by_cases ht : t = ""
      · simp [ht] at he; exact Or.inr he.symm
      · simp only [ht, if_false] at he
        obtain ⟨oc, hoc⟩ := updChildM_err _ _ _ _ he
        exact ih _ _ _ hoc

/-- cleaned tokens never run into `errDupSlash`. -/
theorem addM_clean_no_dupSlash (p : String) (n : Node) (h : H) : (addM (cleanToks p) n h).2 ≠ some .dupSlash := by
  intro he
  have ha := addM_agrees (cleanToks p) n h
  unfold Agree at ha
  rw [he] at ha
  have hc := clean_cleanToks p
  have hne : cleanToks p ≠ [] := by
    rcases hc with hc | ⟨hc, _⟩
    · rw [hc]; simp
    · exact hc
  have := (add_dupSlash_iff (cleanToks p) hne n h).mp ha
  rcases hc with hc | ⟨_, hc⟩
  · rw [hc] at this; simp at this
  · exact hc "" ((List.dropLast_sublist _).subset this) rfl

/-! ### `Handle` -/

/-- **`handleM` is `handle`**: same verdict, and on success the same router. -/
theorem handleM_agrees (r : Router) (m p : String) (item : Option H) :
    match (handleM r m p item).2 with
    | none => handle r m p item = .ok (handleM r m p item).1
    | some e => handle r m p item = .error e := by
  unfold handleM handle
  cases hvm : validMethod m
  · simp
  cases hrt : rooted p
  · simp
  cases item with
  | none => simp
  | some h =>
    simp only [Bool.not_true, Bool.false_eq_true, if_false]
    have ha := addM_agrees (cleanToks p) ((r.trees.lookup m).getD (newNode none)) h
    unfold Agree at ha
    cases he : (addM (cleanToks p) ((r.trees.lookup m).getD (newNode none)) h).2 with
    | some e => rw [he] at ha; simp [ha]
    | none =>
      rw [he] at ha
      simp only [ha, Option.map_none]
      congr 2
      cases hl : r.trees.lookup m with
      | some root => simp
      | none =>
        simp only [Option.isSome_none, Bool.false_eq_true, if_false]
        -- setTree on the list with the fresh empty tree appended = setTree on the list without it
        have hnot : ∀ (l : List (String × Node)), l.lookup m = none → ∀ t,
            setTree m t (l ++ [(m, newNode none)]) = setTree m t l := by
          intro l
          induction l with
          | nil => intro _ t; simp [setTree]
          | cons a tl ih =>
            obtain ⟨k, c⟩ := a
            intro hlk t
            simp only [List.lookup] at hlk
            by_cases hk : m = k
            · subst hk; simp at hlk
            · have hkb : (m == k) = false := by simpa using hk
              rw [hkb] at hlk
              have hk' : ¬ k = m := fun e => hk e.symm
              simp only [List.cons_append, setTree, hk', if_false, ih hlk t]
        exact (hnot _ hl _).symm

theorem treeOf_append_empty (r : Router) (m m' : String) (hl : r.trees.lookup m = none) :
    treeOf { trees := r.trees ++ [(m, newNode none)] } m' = treeOf r m' := by
  unfold treeOf
  have : ∀ (l : List (String × Node)), l.lookup m = none →
      ((l ++ [(m, newNode none)]).lookup m').getD (newNode none) = (l.lookup m').getD (newNode none) := by
    intro l
    induction l with
    | nil =>
      intro _
      simp only [List.nil_append, List.lookup]
      cases (m' == m) <;> rfl
    | cons a tl ih =>
      obtain ⟨k, c⟩ := a
      intro hlk
      simp only [List.lookup] at hlk
      cases hk : (m == k) with
      | true => rw [hk] at hlk; cases hlk
      | false =>
        rw [hk] at hlk
        simp only [List.cons_append, List.lookup]
        cases (m' == k) with
        | true => rfl
        | false => exact ih hlk
  exact this _ hl

/-- **After a rejected `Handle` every method's tree is what it was**, for every rejection reason (unsupported method,
no leading '/', nil handler, same method and cleaned pattern twice): the only thing a failing call may leave behind
is an EMPTY tree for a method that had none. -/
theorem handleM_rejected_same_trees (r : Router) (m p : String) (item : Option H) (e : HandleErr)
    (he : (handleM r m p item).2 = some e) : ∀ m', treeOf (handleM r m p item).1 m' = treeOf r m' := by
  intro m'
  unfold handleM at he ⊢
  cases hvm : validMethod m
  · simp
  cases hrt : rooted p
  · simp
  have hr1 : treeOf (if (r.trees.lookup m).isSome = true then r else { trees := r.trees ++ [(m, newNode none)] }) m' =
      treeOf r m' := by
    cases hl : r.trees.lookup m with
    | some root => simp
    | none => simp only [Option.isSome_none, Bool.false_eq_true, if_false]; exact treeOf_append_empty r m m' hl
  cases item with
  | none => simpa using hr1
  | some h =>
    simp only [hvm, hrt, Bool.not_true, Bool.false_eq_true, if_false, Option.map_eq_some_iff] at he ⊢
    obtain ⟨ae, hae, _⟩ := he
    have hdup : ae = .dupItem := by
      rcases addM_err_cases _ _ _ _ hae with h1 | h1
      · exact h1
      · rw [h1] at hae; exact absurd hae (addM_clean_no_dupSlash p _ h)
    rw [hdup] at hae
    rw [addM_dup_unchanged _ _ _ hae, treeOf_setTree]
    by_cases hm : m' = m
    · subst hm
      simp only [if_true]
      rfl
    · simp only [hm, if_false]; exact hr1

theorem nodup_handleM (r : Router) (m p : String) (item : Option H) (hn : (r.trees.map (·.1)).Nodup) :
    ((handleM r m p item).1.trees.map (·.1)).Nodup := by
  have hr1 : ((if (r.trees.lookup m).isSome = true then r else { trees := r.trees ++ [(m, newNode none)] } : Router).trees.map
      (·.1)).Nodup := by
    cases hl : r.trees.lookup m with
    | some root => simpa using hn
    | none =>
      simp only [Option.isSome_none, Bool.false_eq_true, if_false, List.map_append, List.map_cons, List.map_nil]
      rw [List.nodup_append]
      refine ⟨hn, by simp, ?_⟩
      intro a ha b hb
      simp only [List.mem_singleton] at hb
      subst hb
      intro hab; subst hab
      obtain ⟨⟨k, c⟩, hmem, hk⟩ := List.mem_map.mp ha
      simp only at hk; subst hk
      have := lookup_of_mem hn hmem
      rw [hl] at this; cases this
  unfold handleM
  cases hvm : validMethod m
  · simpa using hn
  cases hrt : rooted p
  · simpa using hn
  cases item with
  | none => simpa using hr1
  | some h =>
    simp only [Bool.not_true, Bool.false_eq_true, if_false, setTree_eq_setKid]
    exact nodup_setKid _ _ _ hr1

/-! ### requests -/

theorem mem_methodsAllowed_trees {r : Router} (hn : (r.trees.map (·.1)).Nodup) (m p x : String) :
    x ∈ methodsAllowed r m p ↔ (x ≠ m ∧ (searchClean (treeOf r x) p).isSome = true) := by
  unfold methodsAllowed
  simp only [List.mem_map, List.mem_filter, Bool.and_eq_true, bne_iff_ne, ne_eq]
  constructor
  · rintro ⟨⟨k, root⟩, ⟨hmem, hne, hs⟩, rfl⟩
    exact ⟨hne, by rw [treeOf_of_mem hn hmem]; exact hs⟩
  · rintro ⟨hne, hs⟩
    cases hl : r.trees.lookup x with
    | none =>
      have : treeOf r x = newNode none := by simp [treeOf, hl]
      rw [this] at hs
      simp only [searchClean] at hs
      split at hs
      · cases hs
      · rw [next_newNode] at hs; cases hs
    | some root =>
      have hmem := mem_of_lookup hl
      refine ⟨(x, root), ⟨hmem, hne, ?_⟩, rfl⟩
      have : treeOf r x = root := by simp [treeOf, hl]
      rw [← this]; exact hs

/-- two routers whose trees agree method by method answer every request alike: the same handler with the same
parameters, 404 alike, 405 with the same set of allowed methods (their order is Go's map order in both). -/
theorem serve_same_trees {r r' : Router} (hn : (r.trees.map (·.1)).Nodup) (hn' : (r'.trees.map (·.1)).Nodup)
    (hs : ∀ m, treeOf r' m = treeOf r m) (m p : String) :
    (∀ h ps, serve r' m p = .handler h ps ↔ serve r m p = .handler h ps) ∧
    (serve r' m p = .notFound ↔ serve r m p = .notFound) ∧
    (∀ al', serve r' m p = .notAllowed al' → ∃ al, serve r m p = .notAllowed al ∧ ∀ x, x ∈ al' ↔ x ∈ al) := by
  have hmem : ∀ x, x ∈ methodsAllowed r' m p ↔ x ∈ methodsAllowed r m p := by
    intro x; rw [mem_methodsAllowed_trees hn', mem_methodsAllowed_trees hn, hs]
  have hnil : methodsAllowed r' m p = [] ↔ methodsAllowed r m p = [] := by
    constructor <;> intro h <;> apply List.eq_nil_iff_forall_not_mem.mpr <;> intro x hx
    · have := (hmem x).mpr hx; rw [h] at this; cases this
    · have := (hmem x).mp hx; rw [h] at this; cases this
  cases hsc : searchClean (treeOf r m) p with
  | some hp =>
    obtain ⟨h0, ps0⟩ := hp
    have e1 : serve r m p = .handler h0 ps0 := serve_of_some hsc
    have e2 : serve r' m p = .handler h0 ps0 := serve_of_some (by rw [hs]; exact hsc)
    rw [e1, e2]
    exact ⟨fun _ _ => Iff.rfl, by simp, by intro al' h; cases h⟩
  | none =>
    have hsc' : searchClean (treeOf r' m) p = none := by rw [hs]; exact hsc
    by_cases ha : methodsAllowed r m p = []
    · have ha' := hnil.mpr ha
      rw [serve_of_none_nil hsc ha, serve_of_none_nil hsc' ha']
      exact ⟨by intro h ps; simp, by simp, by intro al' h; cases h⟩
    · have ha' : methodsAllowed r' m p ≠ [] := fun h => ha (hnil.mp h)
      rw [serve_of_none_cons hsc ha, serve_of_none_cons hsc' ha']
      refine ⟨by intro h ps; simp, by simp, ?_⟩
      intro al' h
      simp only [Outcome.notAllowed.injEq] at h
      subst h
      exact ⟨_, rfl, hmem⟩

/-- **A rejected registration leaves the router observably unchanged.**  Whatever the reason of the rejection
(unsupported method, pattern without leading '/', nil handler, same method + cleaned pattern registered before — also
with ANOTHER handler, also for variable patterns and for "/"), every later request — any method, any path — is served
exactly as before the call: the same handler with the same parameters, 404 alike, 405 with the same allowed methods;
the custom not-found / not-allowed handlers are not touched (`Handle` never writes them); and the router still
represents the same route table, so every theorem about the table keeps applying. -/
theorem rejected_registration_observably_unchanged (pr : PatRouter) (hn : (pr.core.trees.map (·.1)).Nodup)
    (m p : String) (item : Option H) (e : HandleErr) (he : (handleM pr.core m p item).2 = some e) (m' p' : String) :
    let pr' : PatRouter := { pr with core := (handleM pr.core m p item).1 }
    (∀ h ps, pr'.serveHTTP m' p' = .route h ps ↔ pr.serveHTTP m' p' = .route h ps) ∧
    (∀ h ps, serve pr'.core m' p' = .handler h ps ↔ serve pr.core m' p' = .handler h ps) ∧
    (serve pr'.core m' p' = .notFound ↔ serve pr.core m' p' = .notFound) ∧
    (∀ al', serve pr'.core m' p' = .notAllowed al' →
      ∃ al, serve pr.core m' p' = .notAllowed al ∧ ∀ x, x ∈ al' ↔ x ∈ al) ∧
    pr'.notFound = pr.notFound ∧ pr'.notAllowed = pr.notAllowed ∧
    (∀ tbl, Rep pr.core tbl → Rep pr'.core tbl) := by
  intro pr'
  have hs := handleM_rejected_same_trees pr.core m p item e he
  have hn' := nodup_handleM pr.core m p item hn
  obtain ⟨h1, h2, h3⟩ := serve_same_trees hn hn' hs m' p'
  refine ⟨?_, h1, h2, h3, rfl, rfl, ?_⟩
  · intro h ps
    rw [serveHTTP_route_iff, serveHTTP_route_iff]
    exact h1 h ps
  · intro tbl hrep
    exact ⟨hn', fun x => by show TreeRep (treeOf (handleM pr.core m p item).1 x) tbl x; rw [hs x]; exact hrep.2 x⟩

/-! ### through `engine.bindRoutes` and the API -/

/-- `bindAllM` (mutation visible) and `bindAll` report the same error and hold, method by method, the same trees. -/
theorem bindAllM_same_trees (regs : List Reg) : ∀ (r : Router), (r.trees.map (·.1)).Nodup →
    (bindAllM r regs).2 = (bindAll r regs).2 ∧
    ((bindAllM r regs).1.trees.map (·.1)).Nodup ∧ ((bindAll r regs).1.trees.map (·.1)).Nodup ∧
    ∀ m, treeOf (bindAllM r regs).1 m = treeOf (bindAll r regs).1 m := by
  induction regs with
  | nil => intro r hn; exact ⟨rfl, hn, hn, fun _ => rfl⟩
  | cons a rest ih =>
    obtain ⟨m, p, item⟩ := a
    intro r hn
    have hag := handleM_agrees r m p item
    cases he : (handleM r m p item).2 with
    | none =>
      rw [he] at hag
      have e1 : bindAllM r ((m, p, item) :: rest) = bindAllM (handleM r m p item).1 rest := by
        simp only [bindAllM, he]
      have e2 : bindAll r ((m, p, item) :: rest) = bindAll (handleM r m p item).1 rest := by
        simp only [bindAll, hag]
      rw [e1, e2]
      exact ih _ (nodup_handleM r m p item hn)
    | some e =>
      rw [he] at hag
      have e1 : bindAllM r ((m, p, item) :: rest) = ((handleM r m p item).1, some e) := by
        simp only [bindAllM, he]
      have e2 : bindAll r ((m, p, item) :: rest) = (r, some e) := by
        simp only [bindAll, hag]
      rw [e1, e2]
      exact ⟨rfl, nodup_handleM r m p item hn, hn, handleM_rejected_same_trees r m p item e he⟩

/-- **Start-up through the public API with the mutation visible.**  Any history of caller slices and `AddRoutes` /
`AddRoute` calls (aliasing model), `engine.bindRoutes` reading the groups through their references and running the
REAL in-place `Handle`: the error is the one of the `Except` model, and every request afterwards — also after a
rejected registration aborted the start-up — is served exactly as the `Except` model's router serves it (to which
`public_api_is_declarative_matcher` / `public_api_clauses` apply): a rejected registration replaced no dispatch
target. -/
theorem public_api_rejected_start_unchanged (ops : List ApiOp) (m p : String) :
    let a := ops.foldl Api.step {}
    let rM := (bindAllM {} a.regs).1
    let r := (bindAll {} a.regs).1
    (bindAllM {} a.regs).2 = (bindAll {} a.regs).2 ∧
    (∀ h ps, serve rM m p = .handler h ps ↔ serve r m p = .handler h ps) ∧
    (serve rM m p = .notFound ↔ serve r m p = .notFound) ∧
    (∀ al', serve rM m p = .notAllowed al' → ∃ al, serve r m p = .notAllowed al ∧ ∀ x, x ∈ al' ↔ x ∈ al) := by
  intro a rM r
  obtain ⟨h1, hnM, hn, hs⟩ := bindAllM_same_trees a.regs {} (by simp)
  obtain ⟨s1, s2, s3⟩ := serve_same_trees hn hnM hs m p
  exact ⟨h1, s1, s2, s3⟩

/-! non-vacuity: the class of seeded change C09-9 — a literal route, the root and a variable route re-registered with
another handler: rejected, the dispatch target stays -/
example : (handleM (runHandle {} [("GET", "/users/list", some 1)]) "GET" "/users/list/" (some 2)).2 = some (.tree .dupItem) ∧
    serve (handleM (runHandle {} [("GET", "/users/list", some 1)]) "GET" "/users/list/" (some 2)).1 "GET" "/users/list"
      = .handler 1 [] := by decide +kernel
example : (handleM (runHandle {} [("GET", "/", some 1)]) "GET" "//" (some 2)).2 = some (.tree .dupItem) ∧
    serve (handleM (runHandle {} [("GET", "/", some 1)]) "GET" "//" (some 2)).1 "GET" "/" = .handler 1 [] := by decide +kernel
example : (handleM (runHandle {} [("GET", "/u/:id", some 1)]) "GET" "/u/:id/" (some 2)).2 = some (.tree .dupItem) ∧
    serve (handleM (runHandle {} [("GET", "/u/:id", some 1)]) "GET" "/u/:id/" (some 2)).1 "GET" "/u/7"
      = .handler 1 [("id", "7")] := by decide +kernel
-- a rejected nil handler for a method that had no tree leaves an EMPTY tree behind: invisible
example : (handleM {} "PUT" "/a" none).1.trees.length = 1 ∧ serve (handleM {} "PUT" "/a" none).1 "GET" "/a" = .notFound := by
  decide +kernel

/-! ### a failing raw `Tree.Add` -/

theorem updKidM_eq (k : String) (f : Option Node → Node × Option AddErr) (l : List (String × Node)) :
    updKidM k f l = (setKid k (f (l.lookup k)).1 l, (f (l.lookup k)).2) := by
  induction l with
  | nil => rfl
  | cons a tl ih =>
    obtain ⟨k', c⟩ := a
    simp only [updKidM, setKid, List.lookup]
    by_cases hk : k' = k
    · subst hk; simp
    · have : (k == k') = false := by simpa using fun e : k = k' => hk e.symm
      simp only [hk, if_false, this, ih]

theorem updChildM_eq (n : Node) (k : String) (f : Option Node → Node × Option AddErr) :
    updChildM n k f = (setKids n (isVar k) (setKid k (f (child n k)).1 (kids n (isVar k))), (f (child n k)).2) := by
  unfold updChildM
  rw [child_eq]
  cases hv : isVar k <;> simp [kids, setKids, updKidM_eq]

/-- **A failing `add` leaves nothing visible behind** (also `errDupSlash`, which may leave item-less nodes in the real
tree): the tree after the failing call is well-formed and stores, key for key, what it stored before — so every theorem
that is stated through `WF` and `lookupW` (`tree_search_raw`, `tree_search_raw_admissible`, `tree_add_accepts`, …)
speaks about the REAL tree after any history of successful and failing raw `Add` calls. -/
theorem addM_error_invisible (toks : List String) : ∀ (n : Node) (h : H) (e : AddErr), WF n →
    (addM toks n h).2 = some e →
    WF (addM toks n h).1 ∧ ∀ ks, lookupW ks (addM toks n h).1 = lookupW ks n := by
  induction toks with
  | nil => intro n h e _ he; simp [addM] at he
  | cons t rest ih =>
    intro n h e hwf he
    rcases addM_err_cases _ _ _ _ he with rfl | rfl
    · rw [addM_dup_unchanged _ _ _ he]; exact ⟨hwf, fun _ => rfl⟩
    · cases rest with
      | nil =>
        -- a single element never gives errDupSlash
        exfalso
        have ha := addM_agrees [t] n h
        unfold Agree at ha; rw [he] at ha
        exact add_single_ne_dupSlash t n h ha
      | cons r rs =>
        have hdef : addM (t :: r :: rs) n h =
            (if t = "" then (n, some .dupSlash) else updChildM n t fun oc => addM (r :: rs) (oc.getD (newNode none)) h) := by
          rw [addM]
        rw [hdef] at he ⊢
        by_cases ht : t = ""
        · simp only [ht, if_true]; exact ⟨hwf, fun _ => trivial⟩
        · simp only [ht, if_false] at he ⊢
          rw [updChildM_eq] at he ⊢
          simp only at he ⊢
          -- the child the recursion ran on
          have hcw : WF ((child n t).getD (newNode none)) := by
            cases hc : child n t with
            | none => exact wf_newNode none
            | some c => exact child_wf hwf hc
          obtain ⟨hw', hl'⟩ := ih _ h _ hcw he
          constructor
          · apply wf_setKids hwf
            · exact nodup_setKid _ _ _ (hwf.kids_nodup _)
            · intro kc hkc
              rcases mem_setKid hkc with e1 | e1
              · rw [e1]
              · exact hwf.kids_kind _ kc e1
            · intro kc hkc
              rcases mem_setKid hkc with e1 | e1
              · rw [e1]; exact hw'
              · exact hwf.kids_wf _ kc e1
          · intro ks
            cases ks with
            | nil => simp only [lookupW, item_setKids]
            | cons k ks' =>
              simp only [lookupW, child_setKids, lookup_setKid]
              by_cases hkv : isVar k = isVar t
              · simp only [hkv, if_true]
                by_cases hkt : k = t
                · subst hkt
                  simp only [if_true, Option.bind_some]
                  rw [hl' ks']
                  cases hc : child n k with
                  | none => simp [lookupW_newNode]
                  | some c => simp
                · simp only [hkt, if_false]
                  rw [child_eq, hkv]
              · simp only [hkv, if_false]

/-- **`Tree.Add` with the mutation visible**: the verdict of `treeAdd`, on success its tree, and after ANY failure
(`errNotFromRoot`, `errEmptyItem`, `errDupItem`, `errDupSlash`) a well-formed tree that stores exactly what it stored. -/
theorem treeAddM_spec (root : Node) (hwf : WF root) (route : String) (item : Option H) :
    (match (treeAddM root route item).2 with
     | none => treeAdd root route item = .ok (treeAddM root route item).1
     | some e => treeAdd root route item = .error e) ∧
    (∀ e, (treeAddM root route item).2 = some e →
      WF (treeAddM root route item).1 ∧ ∀ ks, lookupW ks (treeAddM root route item).1 = lookupW ks root) := by
  unfold treeAddM treeAdd
  cases hr : rooted route
  · simp [hwf]
  · cases item with
    | none => simp [hwf]
    | some h =>
      simp only [Bool.not_true, Bool.false_eq_true, if_false]
      refine ⟨?_, fun e he => addM_error_invisible _ _ _ _ hwf he⟩
      have := addM_agrees (toksOf route) root h
      unfold Agree at this
      exact this

example : (treeAddM (newNode none) "/a//b" (some 1)).2 = some .dupSlash ∧
    (treeAddM (newNode none) "/a//b" (some 1)).1.lits.length = 1 ∧
    treeSearch (treeAddM (newNode none) "/a//b" (some 1)).1 "/a" = none := by decide +kernel

/-! ### nested loops and mutation together -/

theorem bindAllM_append (a b : List Reg) : ∀ (r : Router),
    bindAllM r (a ++ b) = match (bindAllM r a).2 with
      | none => bindAllM (bindAllM r a).1 b
      | some e => ((bindAllM r a).1, some e) := by
  induction a with
  | nil => intro r; rfl
  | cons x a ih =>
    intro r
    obtain ⟨m, p, item⟩ := x
    simp only [List.cons_append, bindAllM]
    cases h : (handleM r m p item).2 with
    | none => simp only [ih]
    | some e => rfl

/-- the executable model the driver runs for `bind` / `start` lines — nested loops, in-place `Handle` — is the flat
mutation-visible one, which serves every request as the `Except` model does (`bindAllM_same_trees`). -/
theorem bindGroupsM_flat (gs : List (List Reg)) : ∀ (r : Router), bindGroupsM r gs = bindAllM r gs.flatten := by
  induction gs with
  | nil => intro r; rfl
  | cons g gs ih =>
    intro r
    simp only [bindGroupsM, List.flatten_cons, bindAllM_append]
    cases h : (bindAllM r g).2 with
    | none => simp only [ih]
    | some e => rfl

end GoZero.C09
