/-
C09 — executable model of the code that exists:

* `core/search/tree.go`   : `node{item, children[0] literal, children[1] variable}`, `add`, `Tree.next`
                            (depth-first, literal children first, params added on the way back),
                            `Tree.Add` / `Tree.Search` (leading-slash checks).
* `rest/router/patrouter.go` : `Handle` (method / leading-slash validation, `path.Clean`, one tree per method),
                            `ServeHTTP` (Clean, own tree, else `methodsAllowed` ⇒ 405 + Allow, else 404).
* `path.Clean` for rooted paths (drop "" and ".", ".." pops; never above the root).
* `patRouter.notFound` / `notAllowed` (`SetNotFoundHandler`, `SetNotAllowedHandler`): `PatRouter`, `Response`.
* `rest/server.go`, `rest/engine.go` on the path of the property: `NewServer` (options in order, after the
  built-in `WithNotFoundHandler(nil)`), `WithNotFoundHandler` (engine wrapper), `WithNotAllowedHandler`,
  `AddRoutes` + `WithPrefix` (`path.Join`), `engine.bindRoutes` (`router.Handle` in order, first error aborts).

A Go route string `r` (what follows the leading '/') is modelled by its token list `r.splitOn "/"`
(never empty; `""` ↦ `[""]`).  Go's `for i := range route { if route[i] == slash … }` finds the first slash,
i.e. splits the head token off; "no slash" is the one-token case.  A Go `map[string]*node` is modelled by
an association list in insertion order; Go iterates maps in an arbitrary order, which is why every theorem
about `next` is stated for *all* well-formed trees with the same contents (any order of the lists).

Core Lean only (linked into gzdriver).
-/
namespace GoZero.C09

/-- handler identity (the harness registers handler number `h`). -/
abbrev H := Nat

/-- `search.node`: `item` (nil = none), `children[0]` (literal keys), `children[1]` (keys starting with ':'). -/
inductive Node where
  | mk (item : Option H) (lits : List (String × Node)) (vars : List (String × Node))

namespace Node
def item : Node → Option H | mk i _ _ => i
def lits : Node → List (String × Node) | mk _ l _ => l
def vars : Node → List (String × Node) | mk _ _ v => v
def setItem : Node → H → Node | mk _ l v, h => mk (some h) l v
def setLits : Node → List (String × Node) → Node | mk i _ v, l => mk i l v
def setVars : Node → List (String × Node) → Node | mk i l _, v => mk i l v
@[simp] theorem item_mk (i l v) : (mk i l v).item = i := rfl
@[simp] theorem lits_mk (i l v) : (mk i l v).lits = l := rfl
@[simp] theorem vars_mk (i l v) : (mk i l v).vars = v := rfl
end Node

/-- `newNode(item)` -/
def newNode (item : Option H) : Node := .mk item [] []

/-- Go: `len(route) > 0 && route[0] == colon` (`getChildren`), `pat[0] == colon` (`match`). -/
def isVar (k : String) : Bool := k.toList.head? == some ':'

/-- Go: `pat[1:]` — the parameter name of a variable token. -/
def varName (k : String) : String := String.ofList (k.toList.drop 1)

/-- Go `match(pat, token).found`: a variable pattern matches any token, a literal one only itself. -/
def matchTok (k t : String) : Bool := isVar k || k == t

/-- parameters in the order of the `addParam` calls (innermost segment first). -/
abbrev Params := List (String × String)

/-- the `if r.named { addParam(result, r.key, r.value) }` after a successful descent. -/
def hit (k t : String) (r : H × Params) : H × Params :=
  if isVar k then (r.1, r.2 ++ [(varName k, t)]) else r

/-- `node.forEach`: literal children, then variable children; first callback that succeeds wins. -/
def forEach (n : Node) (p : String → Node → Option (H × Params)) : Option (H × Params) :=
  match n.lits.findSome? (fun kc => p kc.1 kc.2) with
  | some r => some r
  | none => n.vars.findSome? (fun kc => p kc.1 kc.2)

/-- `Tree.next(n, route, result)` on the token list of `route`. -/
def next : List String → Node → Option (H × Params)
  | [], _ => none
  | t :: rest, n =>
    match rest with
    | [] =>
      -- no slash left.  `len(route) == 0 && n.item != nil` first, then the final forEach.
      if t = "" ∧ n.item.isSome then n.item.map (fun h => (h, []))
      else forEach n fun k c =>
        if matchTok k t then c.item.map (fun h => hit k t (h, [])) else none
    | _ :: _ =>
      forEach n fun k c =>
        if matchTok k t then (next rest c).map (hit k t) else none

inductive AddErr where
  | dupItem | dupSlash | emptyItem | notFromRoot
  deriving DecidableEq, Repr

/-- get-or-create on one children map: apply `f` to the child under key `k` (or to `none`). -/
def updKid (k : String) (f : Option Node → Except AddErr Node) :
    List (String × Node) → Except AddErr (List (String × Node))
  | [] => (f none).map fun c => [(k, c)]
  | (k', c) :: tl =>
    if k' = k then (f (some c)).map fun c' => (k', c') :: tl
    else (updKid k f tl).map fun tl' => (k', c) :: tl'

/-- `nd.getChildren(token)` + update of the selected map. -/
def updChild (n : Node) (k : String) (f : Option Node → Except AddErr Node) : Except AddErr Node :=
  if isVar k then (updKid k f n.vars).map n.setVars else (updKid k f n.lits).map n.setLits

/-- `add(nd, route, item)` on the token list of `route`. -/
def add : List String → Node → H → Except AddErr Node
  | [], n, _ => .ok n
  | t :: rest, n, h =>
    match rest with
    | [] =>
      if t = "" then (if n.item.isSome then .error .dupItem else .ok (n.setItem h))
      else updChild n t fun
        | some c => if c.item.isSome then .error .dupItem else .ok (c.setItem h)
        | none => .ok (newNode (some h))
    | _ :: _ =>
      if t = "" then .error .dupSlash
      else updChild n t fun oc => add rest (oc.getD (newNode none)) h

/-- split at every '/' (`cur` = reversed characters of the token being read). Never returns `[]`. -/
def splitSlash : List Char → List Char → List String
  | [], cur => [String.ofList cur.reverse]
  | c :: cs, cur => if c = '/' then String.ofList cur.reverse :: splitSlash cs [] else splitSlash cs (c :: cur)

/-- tokens of a Go string that starts with '/': everything after the first byte, split at '/'. -/
def toksOf (route : String) : List String := splitSlash (route.toList.drop 1) []

def rooted (route : String) : Bool := route.toList.head? == some '/'

/-- `Tree.Add(route, item)`; `item = none` models a nil item. -/
def treeAdd (root : Node) (route : String) (item : Option H) : Except AddErr Node :=
  if !rooted route then .error .notFromRoot else
  match item with
  | none => .error .emptyItem
  | some h => add (toksOf route) root h

/-- `Tree.Search(route)` -/
def treeSearch (root : Node) (route : String) : Option (H × Params) :=
  if !rooted route then none else next (toksOf route) root

/-! ### path.Clean on rooted paths -/

/-- one pass over the '/'-separated elements: "" and "." are dropped, ".." removes the last kept element
(nothing above the root).  `acc` is the reversed list of kept elements. -/
def cleanGo : List String → List String → List String
  | [], acc => acc.reverse
  | s :: rest, acc =>
    if s = "" ∨ s = "." then cleanGo rest acc
    else if s = ".." then cleanGo rest acc.tail
    else cleanGo rest (s :: acc)

/-- the cleaned token list of a rooted path (`[""]` for the root). -/
def cleanToks (path : String) : List String :=
  match cleanGo (toksOf path) [] with
  | [] => [""]
  | l => l

/-- `path.Clean` of a rooted path, as a string. -/
def cleanPath (path : String) : String := "/" ++ "/".intercalate (cleanGo (toksOf path) [])

/-! ### patRouter -/

/-- `patRouter.trees` in insertion order. -/
structure Router where
  trees : List (String × Node) := []

inductive HandleErr where
  | invalidMethod | invalidPath | tree (e : AddErr)
  deriving DecidableEq, Repr

/-- `validMethod` -/
def validMethods : List String := ["DELETE", "GET", "HEAD", "OPTIONS", "PATCH", "POST", "PUT"]
def validMethod (m : String) : Bool := validMethods.contains m

def setTree (m : String) (t : Node) : List (String × Node) → List (String × Node)
  | [] => [(m, t)]
  | (m', t') :: tl => if m' = m then (m', t) :: tl else (m', t') :: setTree m t tl

/-- `patRouter.Handle(method, reqPath, handler)`: the tree of `method` after a successful registration.
(The Go code creates the method's empty tree even when `Add` then fails; an empty tree is
indistinguishable from no tree for `ServeHTTP`, see `Props.empty_tree_never_matches`.) -/
def handle (r : Router) (method path : String) (item : Option H) : Except HandleErr Router :=
  if !validMethod method then .error .invalidMethod
  else if !rooted path then .error .invalidPath
  else
    let root := (r.trees.lookup method).getD (newNode none)
    match item with
    | none => .error (.tree .emptyItem)
    | some h =>
      match add (cleanToks path) root h with
      | .error e => .error (.tree e)
      | .ok root' => .ok { trees := setTree method root' r.trees }

inductive Outcome where
  | handler (h : H) (params : Params)
  | notAllowed (allow : List String)     -- in `range pr.trees` order (arbitrary in Go)
  | notFound
  deriving Repr, DecidableEq

/-- search of one method tree with the (cleaned) request path. A non-rooted path matches nothing. -/
def searchClean (root : Node) (path : String) : Option (H × Params) :=
  if !rooted path then none else next (cleanToks path) root

/-- `methodsAllowed` -/
def methodsAllowed (r : Router) (method path : String) : List String :=
  (r.trees.filter fun mt => mt.1 != method && (searchClean mt.2 path).isSome).map (·.1)

/-- `patRouter.ServeHTTP` with default notFound / notAllowed handlers. -/
def serve (r : Router) (method path : String) : Outcome :=
  match (r.trees.lookup method).bind (searchClean · path) with
  | some (h, ps) => .handler h ps
  | none =>
    match methodsAllowed r method path with
    | [] => .notFound
    | allows => .notAllowed allows

/-- what `pathvar.Vars` shows: the map built by the `addParam` calls (a later call overwrites). -/
def paramMap (ps : Params) : List (String × String) :=
  ps.foldl (fun m kv => (m.filter (·.1 != kv.1)) ++ [kv]) []

/-! ### patRouter with custom notFound / notAllowed handlers (`SetNotFoundHandler`, `SetNotAllowedHandler`) -/

/-- what sits in `patRouter.notFound`: a handler set directly (`SetNotFoundHandler(h)`), or the wrapper
`engine.notFoundHandler(next)` that `rest.NewServer` / `rest.WithNotFoundHandler` install (`next = none`
is `WithNotFoundHandler(nil)`: `http.NotFoundHandler()` inside the wrapper). -/
inductive NFHandler where
  | plain (h : H)
  | engine (next : Option H)
  deriving Repr, DecidableEq

/-- the user handler that runs inside a not-found handler (none: only the built-in 404). -/
def NFHandler.user : NFHandler → Option H
  | .plain h => some h
  | .engine next => next

/-- `patRouter{trees, notFound, notAllowed}` -/
structure PatRouter where
  core : Router := {}
  notFound : Option NFHandler := none
  notAllowed : Option H := none

/-- who answers a request. -/
inductive Response where
  | route (h : H) (params : Params)          -- `result.Item.(http.Handler).ServeHTTP`, vars through `pathvar.WithVars`
  | customNotAllowed (h : H)                 -- `pr.notAllowed.ServeHTTP`; the router sets NO Allow header then
  | defaultNotAllowed (allow : List String)  -- Allow header + 405
  | customNotFound (h : NFHandler)           -- `pr.notFound.ServeHTTP`
  | defaultNotFound                          -- `http.NotFound`
  deriving Repr, DecidableEq

/-- `patRouter.ServeHTTP` + `handleNotFound`: the decision is `serve`'s; only *who writes the reply* for
405 / 404 depends on the custom handlers. -/
def PatRouter.serveHTTP (pr : PatRouter) (method path : String) : Response :=
  match serve pr.core method path with
  | .handler h ps => .route h ps
  | .notAllowed a =>
    match pr.notAllowed with
    | some h => .customNotAllowed h
    | none => .defaultNotAllowed a
  | .notFound =>
    match pr.notFound with
    | some h => .customNotFound h
    | none => .defaultNotFound

/-- `Handle` on the patRouter (handlers untouched). -/
def PatRouter.handle (pr : PatRouter) (method path : String) (item : Option H) : Except HandleErr PatRouter :=
  (GoZero.C09.handle pr.core method path item).map fun c => { pr with core := c }

/-! ### rest.Server / engine wiring: NewServer options, AddRoutes + WithPrefix, engine.bindRoutes -/

/-- `path.Join(group, p)` *before* its final `path.Clean`: the non-empty elements joined by '/'
(`Join` returns "" when both are empty, else `Clean` of this string; `Handle` cleans again). -/
def joinRaw (group p : String) : String := if group = "" then p else group ++ "/" ++ p

/-- a registration attempt: method, path as written, handler (`none` = nil). -/
abbrev Reg := String × String × Option H

/-- `path.Join(group, p)`: "" when both are empty, else `path.Clean` of the non-empty elements joined by '/'.
A rooted result is cleaned (the model's `cleanPath`); a result that is not rooted is kept uncleaned — the model
has no `Clean` for relative paths: such a path is rejected by `Handle` whatever it looks like, and below an
outer rooted group cleaning it first or later gives the same path (`..` elements that underflow are kept by
Go's Clean of a relative path). -/
def joinGo (group p : String) : String :=
  if rooted (joinRaw group p) then cleanPath (joinRaw group p) else joinRaw group p

/-- the `RouteOption`s of rest/server.go. -/
inductive RouteOpt where
  | pfx (g : String)                       -- WithPrefix(g)
  | jwt (secret : String)                  -- WithJwt(secret): enabled + secret; an earlier `prevSecret` STAYS
  | jwtTransition (secret prev : String)   -- WithJwtTransition(secret, prev)
  | timeout (ms : Nat)                     -- WithTimeout
  | maxBytes (n : Nat)                     -- WithMaxBytes
  | priority                               -- WithPriority
  | sse                                    -- WithSSE (also resets the timeout)
  deriving Repr, DecidableEq

/-- the fields of `featuredRoutes` other than `routes`. -/
structure Settings where
  jwt : Option (String × String) := none   -- `jwt.enabled`, (`secret`, `prevSecret`)
  timeout : Nat := 0
  maxBytes : Nat := 0
  priority : Bool := false
  sse : Bool := false
  deriving Repr, DecidableEq

def Settings.apply (s : Settings) : RouteOpt → Settings
  | .pfx _ => s
  | .jwt a => { s with jwt := some (a, (s.jwt.map (·.2)).getD "") }
  | .jwtTransition a b => { s with jwt := some (a, b) }
  | .timeout ms => { s with timeout := ms }
  | .maxBytes n => { s with maxBytes := n }
  | .priority => { s with priority := true }
  | .sse => { s with sse := true, timeout := 0 }

/-- `validateSecret`: `WithJwt(secret)` / `WithJwtTransition(secret, prev)` panic when `len(secret) < 8` (bytes; the
previous secret is not validated).  The panic leaves `AddRoutes` before `engine.addRoutes`: nothing is registered. -/
def RouteOpt.panics : RouteOpt → Bool
  | .jwt s => s.utf8ByteSize < 8
  | .jwtTransition s _ => s.utf8ByteSize < 8
  | _ => false

/-- what `WithPrefix(g)` makes of one route: `Route{Method: rt.Method, Path: path.Join(g, rt.Path), Handler: rt.Handler}`. -/
def prefixReg (g : String) (r : Reg) : Reg := (r.1, joinGo g r.2.1, r.2.2)

/-- `featuredRoutes` as a value. -/
structure Featured where
  routes : List Reg := []
  set : Settings := {}
  deriving Repr

/-- a `RouteOption` applied to a `featuredRoutes` VALUE: `WithPrefix` builds a new route list, every other
option only writes its own setting. -/
def Featured.apply (f : Featured) (o : RouteOpt) : Featured :=
  { routes := match o with
      | .pfx g => f.routes.map (prefixReg g)
      | _ => f.routes,
    set := f.set.apply o }

/-- one `AddRoutes(routes, opts...)` call, as the caller wrote it. -/
structure Group where
  opts : List RouteOpt := []
  routes : List Reg := []
  deriving Repr

/-- `r := featuredRoutes{routes: rs}; for _, opt := range opts { opt(&r) }` -/
def Group.featured (g : Group) : Featured := g.opts.foldl Featured.apply { routes := g.routes }

/-- the routes of a group as stored in `engine.routes` (after the options). -/
def Group.regs (g : Group) : List Reg := g.featured.routes

/-! #### the same with the aliasing the Go code has

`featuredRoutes{routes: rs}` does not copy: until a `WithPrefix` replaces `r.routes` by a freshly made slice the
group stored in `engine.routes` points at the CALLER's backing array, and one caller slice may be passed to
`AddRoutes` any number of times.  `Api` keeps the caller's slices in a heap and lets groups refer to them. -/

/-- where `featuredRoutes.routes` points. -/
inductive RoutesRef where
  | caller (k : Nat)        -- the caller's slice number `k` (as passed to `AddRoutes`)
  | own (l : List Reg)      -- a slice made by the server (`WithPrefix`: make + append; `AddRoute`: `[]Route{r}`)
  deriving Repr

structure Api where
  heap : List (List Reg) := []                  -- the caller's `[]Route` values, in the order they were made
  frs : List (RoutesRef × Settings) := []       -- `engine.routes`
  deriving Repr

def deref (heap : List (List Reg)) : RoutesRef → List Reg
  | .caller k => heap.getD k []
  | .own l => l

/-- a `RouteOption` run on `&r` (reads the routes through the reference; `WithPrefix` stores a fresh slice). -/
def aApply (heap : List (List Reg)) (f : RoutesRef × Settings) (o : RouteOpt) : RoutesRef × Settings :=
  (match o with
    | .pfx g => .own ((deref heap f.1).map (prefixReg g))
    | _ => f.1,
   f.2.apply o)

inductive ApiOp where
  | slice (rs : List Reg)                        -- the caller makes a `[]Route`
  | add (k : Nat) (opts : List RouteOpt)         -- `Server.AddRoutes(slice k, opts...)`
  | addOne (r : Reg) (opts : List RouteOpt)      -- `Server.AddRoute(r, opts...)` = `AddRoutes([]Route{r}, opts...)`
  deriving Repr

/-- (`engine.addRoutes` with `sse` runs `buildSSERoutes`, which overwrites the `Handler` fields of the slice it
is given IN PLACE — the caller's slice when no `WithPrefix` came before; method and path are not touched and the
wrapper runs the same handler, so with handlers as identities nothing changes here.) -/
def Api.step (a : Api) : ApiOp → Api
  | .slice rs => { a with heap := a.heap ++ [rs] }
  | .add k opts =>
    let r0 : RoutesRef := if k < a.heap.length then .caller k else .own []
    { a with frs := a.frs ++ [opts.foldl (aApply a.heap) (r0, {})] }
  | .addOne r opts => { a with frs := a.frs ++ [opts.foldl (aApply a.heap) (.own [r], {})] }

/-- the call panics inside one of its options (`validateSecret`) — before `engine.addRoutes`. -/
def ApiOp.panics : ApiOp → Bool
  | .slice _ => false
  | .add _ opts => opts.any RouteOpt.panics
  | .addOne _ opts => opts.any RouteOpt.panics

/-- one API call, panics included: a panicking call leaves the server as it was. -/
def Api.stepChecked (a : Api) (op : ApiOp) : Api := if op.panics then a else a.step op

/-- the group a reference denotes now. -/
def resolve (heap : List (List Reg)) (f : RoutesRef × Settings) : Featured := { routes := deref heap f.1, set := f.2 }

/-- what `engine.bindRoutes` will read: every group's routes through its reference, at that time. -/
def Api.regs (a : Api) : List Reg := a.frs.flatMap fun f => deref a.heap f.1

inductive RunOpt where
  | notFound (h : Option H)      -- rest.WithNotFoundHandler(h)
  | notAllowed (h : Option H)    -- rest.WithNotAllowedHandler(h)
  | chain (n : Nat)              -- rest.WithChain(chain.New(c1 … cn)): `svr.ngin.chain = chn` (replaces the native chain)
  | cors                         -- rest.WithCors(): `SetNotAllowedHandler(cors.NotAllowedHandler(...))`, then the router is
                                 -- wrapped: `corsRouter.ServeHTTP` answers EVERY `OPTIONS` request itself (204)
  | corsHeaders                  -- rest.WithCorsHeaders(headers...): the same wiring, another header function
  | customCors                   -- rest.WithCustomCors(middlewareFn, notAllowedFn, origin...): the same wiring again
  | fileServer (dir : String) (names : List String)
                                 -- rest.WithFileServer(dir, fs): the router is wrapped in a `fileServingRouter`; `names` = the
                                 -- file names `fs.Open` accepts
  | router                       -- rest.WithRouter(router.NewRouter()): `server.router = router` (a FRESH patRouter:
                                 -- whatever an earlier option installed on the old router is gone, including the
                                 -- engine's not-found wrapper that `NewServer` puts in front of the user's options)
  deriving Repr, DecidableEq

/-- a router wrapper of rest/server.go (both embed the `httpx.Router` they wrap: `Handle` / `SetNotFoundHandler` /
`SetNotAllowedHandler` pass through to the patRouter, only `ServeHTTP` is intercepted). -/
inductive Wrapper where
  | cors                                        -- `corsRouter`: `cors.Middleware(fn, origins...)` around `Router.ServeHTTP`
  | files (dir : String) (names : List String)  -- `fileServingRouter`: `fileserver.Middleware(dir, fs)`
  deriving Repr, DecidableEq

/-- `rest.Server{ngin, router}` as far as routing goes. -/
structure Server where
  router : PatRouter := {}
  groups : List Group := []      -- `engine.routes`, in `AddRoutes` order
  chain : Option Nat := none     -- `engine.chain` (`WithChain`): the number of middlewares of the custom chain
  wrappers : List Wrapper := []  -- what `server.router` is wrapped in, OUTERMOST first (`WithCors*`, `WithFileServer`)

/-- the handler `cors.NotAllowedHandler(nil, origins...)` (a reserved id): it answers 404 (204 for `OPTIONS`). -/
def corsNA : H := 204404

def Server.apply (s : Server) : RunOpt → Server
  | .notFound h => { s with router := { s.router with notFound := some (.engine h) } }
  | .notAllowed h => { s with router := { s.router with notAllowed := h } }
  | .router => { s with router := {}, wrappers := [] }
  | .chain n => { s with chain := some n }
  | .cors => { s with router := { s.router with notAllowed := some corsNA }, wrappers := .cors :: s.wrappers }
  | .corsHeaders => { s with router := { s.router with notAllowed := some corsNA }, wrappers := .cors :: s.wrappers }
  | .customCors => { s with router := { s.router with notAllowed := some corsNA }, wrappers := .cors :: s.wrappers }
  | .fileServer dir names => { s with wrappers := .files dir names :: s.wrappers }

/-- `rest.NewServer(c, opts...)`: `opts = append([]RunOption{WithNotFoundHandler(nil)}, opts...)`, applied in order. -/
def newServer (opts : List RunOpt) : Server :=
  (RunOpt.notFound none :: opts).foldl Server.apply {}

/-- `Server.AddRoutes` → `engine.addRoutes`: appended. -/
def Server.addRoutes (s : Server) (g : Group) : Server := { s with groups := s.groups ++ [g] }

/-- `engine.bindRoutes` over the flattened route list: `router.Handle` in order, the first error aborts
(and is what `Start` panics with); the routes bound before it stay in the router. -/
def bindAll (r : Router) : List Reg → Router × Option HandleErr
  | [] => (r, none)
  | (m, p, item) :: rest =>
    match handle r m p item with
    | .ok r' => bindAll r' rest
    | .error e => (r, some e)

def Server.regs (s : Server) : List Reg := s.groups.flatMap Group.regs

/-- `engine.bindRoutes(router)` (what `Start` does before listening). -/
def Server.bindRoutes (s : Server) : Server × Option HandleErr :=
  let res := bindAll s.router.core s.regs
  ({ s with router := { s.router with core := res.1 } }, res.2)

/-! ### round 5: the loops of `engine.bindRoutes` as they are nested in the code, `Server.Start`, `pathvar` -/

/-- `engine.bindRoutes`: `for _, fr := range ng.routes { if err := ng.bindFeaturedRoutes(router, fr, metrics); err != nil
{ return err } }` over `bindFeaturedRoutes` = `bindAll` on the routes of ONE group: the first group that reports an
error aborts the outer loop with that error. -/
def bindGroups (r : Router) : List (List Reg) → Router × Option HandleErr
  | [] => (r, none)
  | g :: gs =>
    match (bindAll r g).2 with
    | none => bindGroups (bindAll r g).1 gs
    | some e => ((bindAll r g).1, some e)

/-- the groups of a server as `engine.routes` holds them. -/
def Server.groupRegs (s : Server) : List (List Reg) := s.groups.map Group.regs

/-- the groups the engine reads through its references (aliasing model). -/
def Api.groupRegs (a : Api) : List (List Reg) := a.frs.map fun f => deref a.heap f.1

/-- how `Server.Start()` ends in the harness' world (no listener can be opened): `engine.start` returns the error of
`bindRoutes` BEFORE it tries to listen, `handleError` panics with it; otherwise the listener's error is reported. -/
inductive StartResult where
  | panics (e : HandleErr)      -- `handleError(err)`: `panic(err)` with the registration error
  | listens                      -- registration succeeded: `internal.StartHttp(...)` is reached
  deriving Repr, DecidableEq

/-- `handleError(err)`: returns for `err == nil` and for (a wrapper of) `http.ErrServerClosed`, panics with `err`
otherwise (`isNil`: the interface value is nil — a typed-nil pointer is NOT; `closed`: `errors.Is(err, ErrServerClosed)`). -/
def handleErrorPanics (isNil closed : Bool) : Bool := !(isNil || closed)

/-- `Server.Start()` = `handleError(s.ngin.start(s.router))`, `engine.start` = `bindRoutes` (nested loops), then listen. -/
def Server.start (s : Server) : Server × StartResult :=
  let res := bindGroups s.router.core s.groupRegs
  ({ s with router := { s.router with core := res.1 } },
   match res.2 with
   | some e => .panics e
   | none => .listens)

/-- who answers a request that reaches `server.router.ServeHTTP`. -/
inductive SrvResponse where
  | preflight                    -- `corsRouter`: `cors.Middleware` wrote 204 for an `OPTIONS` request; the patRouter is NOT asked
  | file (name : String)         -- `fileServingRouter`: `http.FileServer` served the file; the patRouter is NOT asked
  | router (r : Response)        -- the patRouter answers
  deriving Repr, DecidableEq

/-- `strings.HasPrefix`. -/
def hasPrefix (s pre : String) : Bool := pre.toList.isPrefixOf s.toList

/-- `ensureTrailingSlash` of rest/internal/fileserver. -/
def ensureTrailingSlash (dir : String) : String := if dir.toList.getLast? == some '/' then dir else dir ++ "/"

/-- `http.FileSystem.Open` of the harness' file system: one leading '/' is ignored. -/
def fileName (rem : String) : String := if hasPrefix rem "/" then String.ofList (rem.toList.drop 1) else rem

/-- `r.URL.Path[len(dir/):]` -/
def fileRem (dir path : String) : String := String.ofList (path.toList.drop (ensureTrailingSlash dir).length)

/-- `createServeChecker`: `r.Method == http.MethodGet && strings.HasPrefix(r.URL.Path, dir/) && fileChecker(r.URL.Path[len(dir/):])`
— on the RAW request path (nothing is cleaned here). -/
def canServe (dir : String) (names : List String) (method path : String) : Option String :=
  if method == "GET" && hasPrefix path (ensureTrailingSlash dir) && names.contains (fileName (fileRem dir path))
  then some (fileName (fileRem dir path)) else none

/-- the wrappers, outermost first, around the patRouter's `ServeHTTP`: each one either answers itself or passes the
request on UNCHANGED. -/
def wrapServe (pr : PatRouter) (method path : String) : List Wrapper → SrvResponse
  | [] => .router (pr.serveHTTP method path)
  | .cors :: ws => if method == "OPTIONS" then .preflight else wrapServe pr method path ws
  | .files dir names :: ws =>
    match canServe dir names method path with
    | some f => .file f
    | none => wrapServe pr method path ws

/-- `server.router.ServeHTTP`. -/
def Server.serveHTTP (s : Server) (method path : String) : SrvResponse := wrapServe s.router method path s.wrappers

/-- a `corsRouter` is in effect. -/
def Server.cors (s : Server) : Bool := s.wrappers.contains .cors

/-- `rest.MustNewServer(c, opts...)`: `NewServer(c, opts...)` (the error branch — `c.SetUp()` failing — ends the process). -/
def mustNewServer (opts : List RunOpt) : Server := newServer opts

/-! #### what `engine.bindRoute` puts in front of a route handler -/

/-- `handler.Authorize(secret[, WithPrevSecret(prev)])` accepts a token signed with the secret or, when a previous
secret is configured, with that one. -/
def tokenOk (jwt : Option (String × String)) (auth : Option String) : Bool :=
  match jwt with
  | none => true
  | some (a, b) => match auth with
    | some t => t == a || (b != "" && t == b)
    | none => false

/-- one element of the chain `bindRoute` builds, outermost first. -/
inductive Layer where
  | chainMw (i : Nat)                  -- middleware i of the chain given to `WithChain` (instead of the native ones)
  | auth (secret prev : String)        -- `appendAuthHandler`: the group's `WithJwt` / `WithJwtTransition`
  | use (k : Nat)                      -- `Server.Use` middleware k (`ng.middlewares`, in `Use` order)
  | routeMw (i : Nat)                  -- `rest.WithMiddlewares` middleware i wrapped around `route.Handler` itself
  deriving Repr, DecidableEq

/-- `bindRoute`: `chn := ng.chain` (or the native middlewares, which pass the request on), `appendAuthHandler`,
`for _, middleware := range ng.middlewares { chn = chn.Append(...) }`, `chn.ThenFunc(route.Handler)`. -/
def bindChain (chain : Option Nat) (jwt : Option (String × String)) (uses : List Nat) (nmw : Nat) : List Layer :=
  ((List.range (chain.getD 0)).map fun i => Layer.chainMw (i + 1)) ++
  (match jwt with | some (a, b) => [Layer.auth a b] | none => []) ++
  uses.map Layer.use ++ (List.range nmw).map fun i => Layer.routeMw (i + 1)

def Layer.tag : Layer → String
  | .chainMw i => "c" ++ toString i
  | .auth _ _ => "auth"
  | .use k => "u" ++ toString k
  | .routeMw i => toString i

/-- a user middleware that answers itself instead of calling `next` (harness convention: ids from 900 on). -/
def Layer.stops : Layer → Bool
  | .chainMw i => i ≥ 900
  | .auth _ _ => false
  | .use k => k ≥ 900
  | .routeMw i => i ≥ 900

/-- how the way down the chain ends. -/
inductive ChainEnd where
  | handler          -- the route handler is reached
  | unauthorized     -- the Authorize handler answered 401
  | stopped          -- a user middleware answered itself (did not call `next`)
  deriving Repr, DecidableEq

/-- a request with the bearer token `auth` goes down the chain: the middlewares that ran (in order) and how it ended. -/
def runChain (auth : Option String) : List Layer → List String × ChainEnd
  | [] => ([], .handler)
  | .auth a b :: rest => if tokenOk (some (a, b)) auth then runChain auth rest else ([], .unauthorized)
  | l :: rest => if l.stops then ([l.tag], .stopped) else (l.tag :: (runChain auth rest).1, (runChain auth rest).2)

/-- a value stored in a `context.Context`. -/
inductive CtxVal where
  | vars (m : List (String × String))   -- a `map[string]string`
  | other (s : String)                    -- anything else
  deriving Repr, DecidableEq

/-- `context.Context` as a chain of `WithValue` frames, innermost first.  Keys are compared by type AND value in Go:
`pathvar`'s key has the unexported type `contextKey`, so no other package can build an equal key; here every key is
a string and the pathvar key is the distinguished `pathVarsKey`. -/
abbrev Ctx := List (String × CtxVal)

def pathVarsKey : String := "rest/pathvar.contextKey(pathVars)"

/-- `pathvar.WithVars(r, params)`: `r.WithContext(context.WithValue(r.Context(), pathVars, params))` -/
def Ctx.withVars (c : Ctx) (m : List (String × String)) : Ctx := (pathVarsKey, .vars m) :: c

/-- `pathvar.Vars(r)`: `vars, ok := r.Context().Value(pathVars).(map[string]string)`; `nil` when absent. -/
def Ctx.vars (c : Ctx) : Option (List (String × String)) :=
  match c.lookup pathVarsKey with
  | some (.vars m) => some m
  | _ => none

/-- `ServeHTTP`: `if len(result.Params) > 0 { r = pathvar.WithVars(r, result.Params) }` — the context the route
handler is called with. -/
def handlerCtx (c : Ctx) (ps : Params) : Ctx :=
  if (paramMap ps).length > 0 then c.withVars (paramMap ps) else c

/-- what `pathvar.Vars(r)` shows inside the route handler (`nil` and the empty map print alike). -/
def delivered (c : Ctx) (ps : Params) : List (String × String) := ((handlerCtx c ps).vars).getD []

/-! ### round 5c: the status of a not-found answer through `engine.notFoundHandler` -/

/-- `response.HeaderOnceResponseWriter`: `wrote` = a status was written through it already; `WriteHeader(code)` is
passed to the underlying writer only the first time.  The state after the call and the status that reached the
underlying writer (if any). -/
def headerOnceWrite (wrote : Bool) (code : Nat) : Bool × Option Nat := if wrote then (true, none) else (true, some code)

/-- `engine.notFoundHandler(next)`: `cw := NewHeaderOnceResponseWriter(w); h.ServeHTTP(cw, r); cw.WriteHeader(404)`.
`own` = the status the user's handler wrote through `cw` (`none`: it wrote nothing; net/http then defaults to 200),
`returns` = the handler came back (did not panic / `runtime.Goexit`).  The status of the response. -/
def engineNotFoundStatus (own : Option Nat) (returns : Bool) : Nat :=
  match own with
  | some c => c                                    -- the first WriteHeader wins, the forced 404 is dropped
  | none => if returns then ((headerOnceWrite false 404).2).getD 200 else 200

/-! ### round 5c: registration with the MUTATION visible (what the Go structures hold after a call, also a failing one) -/

/-- get-or-create on one children map, in place: `f` returns the child after the call and the error (if any); a child
created for an intermediate segment is stored even when the recursion below it fails. -/
def updKidM (k : String) (f : Option Node → Node × Option AddErr) :
    List (String × Node) → List (String × Node) × Option AddErr
  | [] => ([(k, (f none).1)], (f none).2)
  | (k', c) :: tl =>
    if k' = k then ((k', (f (some c)).1) :: tl, (f (some c)).2)
    else ((k', c) :: (updKidM k f tl).1, (updKidM k f tl).2)

def updChildM (n : Node) (k : String) (f : Option Node → Node × Option AddErr) : Node × Option AddErr :=
  if isVar k then (n.setVars (updKidM k f n.vars).1, (updKidM k f n.vars).2)
  else (n.setLits (updKidM k f n.lits).1, (updKidM k f n.lits).2)

/-- `add(nd, route, item)` as the Go code runs it: the node AFTER the call (pointer structure mutated in place) and the
error.  `errDupItem` is detected before anything is written; `errDupSlash` may leave item-less nodes behind. -/
def addM : List String → Node → H → Node × Option AddErr
  | [], n, _ => (n, none)
  | t :: rest, n, h =>
    match rest with
    | [] =>
      if t = "" then (if n.item.isSome then (n, some .dupItem) else (n.setItem h, none))
      else updChildM n t fun
        | some c => if c.item.isSome then (c, some .dupItem) else (c.setItem h, none)
        | none => (newNode (some h), none)
    | _ :: _ =>
      if t = "" then (n, some .dupSlash)
      else updChildM n t fun oc => addM rest (oc.getD (newNode none)) h

/-- `patRouter.Handle` as the Go code runs it: the router AFTER the call and the error.  The validations return
before anything is touched; a missing method tree is created and stored BEFORE `tree.Add` runs (also when `Add` then
fails); `Add` rejects a nil handler before touching the tree. -/
def handleM (r : Router) (method path : String) (item : Option H) : Router × Option HandleErr :=
  if !validMethod method then (r, some .invalidMethod)
  else if !rooted path then (r, some .invalidPath)
  else
    let r1 : Router := if (r.trees.lookup method).isSome then r else { trees := r.trees ++ [(method, newNode none)] }
    match item with
    | none => (r1, some (.tree .emptyItem))
    | some h =>
      let res := addM (cleanToks path) ((r.trees.lookup method).getD (newNode none)) h
      ({ trees := setTree method res.1 r1.trees }, res.2.map HandleErr.tree)

/-- `Tree.Add(route, item)` with the mutation visible (raw strings: `errDupSlash` may leave item-less nodes behind). -/
def treeAddM (root : Node) (route : String) (item : Option H) : Node × Option AddErr :=
  if !rooted route then (root, some .notFromRoot) else
  match item with
  | none => (root, some .emptyItem)
  | some h => addM (toksOf route) root h

/-- `engine.bindRoutes` over the flattened list with the mutation visible: the router after the start-up attempt. -/
def bindAllM (r : Router) : List Reg → Router × Option HandleErr
  | [] => (r, none)
  | (m, p, item) :: rest =>
    match (handleM r m p item).2 with
    | none => bindAllM (handleM r m p item).1 rest
    | some e => ((handleM r m p item).1, some e)

/-- `engine.bindRoutes` with BOTH the nesting of the loops and the in-place mutation as in the code. -/
def bindGroupsM (r : Router) : List (List Reg) → Router × Option HandleErr
  | [] => (r, none)
  | g :: gs =>
    match (bindAllM r g).2 with
    | none => bindGroupsM (bindAllM r g).1 gs
    | some e => ((bindAllM r g).1, some e)

end GoZero.C09
