/-
C09 — helper lemmas for PropsApi: the aliasing model `Api` reads as the pure model (`Reads`), step by step.
-/
import GoZero.C09.PropsServer
namespace GoZero.C09

open Spec

/-! ### the pure reading of a history of API calls -/

/-- caller slices as written, and one `Group` (options + routes as written) per `AddRoutes` / `AddRoute` call. -/
def pureStep (st : List (List Reg) × List Group) : ApiOp → List (List Reg) × List Group
  | .slice rs => (st.1 ++ [rs], st.2)
  | .add k opts => (st.1, st.2 ++ [{ opts := opts, routes := st.1.getD k [] }])
  | .addOne r opts => (st.1, st.2 ++ [{ opts := opts, routes := [r] }])

def pureRun (ops : List ApiOp) : List (List Reg) × List Group := ops.foldl pureStep ([], [])

def sliceOf : ApiOp → Option (List Reg)
  | .slice rs => some rs
  | _ => none

/-! ### helper lemmas -/

def refValid (n : Nat) : RoutesRef → Prop
  | .caller k => k < n
  | .own _ => True

theorem resolve_aApply (heap : List (List Reg)) (f : RoutesRef × Settings) (o : RouteOpt) :
    resolve heap (aApply heap f o) = (resolve heap f).apply o := by
  cases o <;> rfl

theorem resolve_foldl (heap : List (List Reg)) (opts : List RouteOpt) (f : RoutesRef × Settings) :
    resolve heap (opts.foldl (aApply heap) f) = opts.foldl Featured.apply (resolve heap f) := by
  induction opts generalizing f with
  | nil => rfl
  | cons o os ih => simp only [List.foldl_cons]; rw [ih, resolve_aApply]

theorem aApply_valid (heap : List (List Reg)) (f : RoutesRef × Settings) (o : RouteOpt)
    (h : refValid heap.length f.1) : refValid heap.length (aApply heap f o).1 := by
  cases o <;> first | exact h | trivial

theorem foldl_valid (heap : List (List Reg)) (opts : List RouteOpt) (f : RoutesRef × Settings)
    (h : refValid heap.length f.1) : refValid heap.length (opts.foldl (aApply heap) f).1 := by
  induction opts generalizing f with
  | nil => exact h
  | cons o os ih => simp only [List.foldl_cons]; exact ih _ (aApply_valid heap f o h)

theorem deref_append (heap : List (List Reg)) (x : List Reg) (ref : RoutesRef) (h : refValid heap.length ref) :
    deref (heap ++ [x]) ref = deref heap ref := by
  cases ref with
  | own l => rfl
  | caller k =>
    simp only [refValid] at h
    simp only [deref, List.getD_eq_getElem?_getD, List.getElem?_append_left h]

theorem resolve_append (heap : List (List Reg)) (x : List Reg) (f : RoutesRef × Settings)
    (h : refValid heap.length f.1) : resolve (heap ++ [x]) f = resolve heap f := by
  unfold resolve; rw [deref_append heap x f.1 h]

/-- every group of the engine refers to a slice the caller really made. -/
def Api.Valid (a : Api) : Prop := ∀ f ∈ a.frs, refValid a.heap.length f.1

/-- the aliasing state `a` reads as the pure state `st`. -/
def Reads (a : Api) (st : List (List Reg) × List Group) : Prop :=
  a.Valid ∧ a.heap = st.1 ∧ a.frs.map (resolve a.heap) = st.2.map Group.featured

theorem step_valid (a : Api) (hv : a.Valid) (op : ApiOp) : (a.step op).Valid := by
  cases op with
  | slice rs =>
    intro f hfm
    have := hv f hfm
    show refValid (a.heap ++ [rs]).length f.1
    cases hr : f.1 with
    | own l => trivial
    | caller k => rw [hr] at this; simp only [refValid, List.length_append, List.length_cons, List.length_nil] at *; omega
  | add k opts =>
    have hr0 : refValid a.heap.length (if k < a.heap.length then RoutesRef.caller k else RoutesRef.own []) := by
      split
      · assumption
      · trivial
    intro f hfm
    have hfm' : f ∈ a.frs ++ [opts.foldl (aApply a.heap) (if k < a.heap.length then RoutesRef.caller k else RoutesRef.own [], {})] := hfm
    rcases List.mem_append.mp hfm' with h1 | h1
    · exact hv f h1
    · rw [List.mem_singleton] at h1; subst h1; exact foldl_valid a.heap opts _ hr0
  | addOne r opts =>
    intro f hfm
    have hfm' : f ∈ a.frs ++ [opts.foldl (aApply a.heap) (RoutesRef.own [r], {})] := hfm
    rcases List.mem_append.mp hfm' with h1 | h1
    · exact hv f h1
    · rw [List.mem_singleton] at h1; subst h1; exact foldl_valid a.heap opts _ trivial

theorem reads_step (a : Api) (st : List (List Reg) × List Group) (h : Reads a st) (op : ApiOp) :
    Reads (a.step op) (pureStep st op) := by
  obtain ⟨hv, hh, hf⟩ := h
  cases op with
  | slice rs =>
    refine ⟨?_, ?_, ?_⟩
    · intro f hfm
      have := hv f hfm
      show refValid (a.heap ++ [rs]).length f.1
      cases hr : f.1 with
      | own l => trivial
      | caller k => rw [hr] at this; simp only [refValid, List.length_append, List.length_cons, List.length_nil] at *; omega
    · show a.heap ++ [rs] = st.1 ++ [rs]; rw [hh]
    · show a.frs.map (resolve (a.heap ++ [rs])) = st.2.map Group.featured
      rw [← hf]
      apply List.map_congr_left
      intro f hfm
      exact resolve_append a.heap rs f (hv f hfm)
  | add k opts =>
    have hr0 : refValid a.heap.length (if k < a.heap.length then RoutesRef.caller k else RoutesRef.own []) := by
      split
      · assumption
      · trivial
    refine ⟨?_, hh, ?_⟩
    · intro f hfm
      have hfm' : f ∈ a.frs ++ [opts.foldl (aApply a.heap) (if k < a.heap.length then RoutesRef.caller k else RoutesRef.own [], {})] := hfm
      rcases List.mem_append.mp hfm' with h1 | h1
      · exact hv f h1
      · rw [List.mem_singleton] at h1; subst h1; exact foldl_valid a.heap opts _ hr0
    · show (a.frs ++ [opts.foldl (aApply a.heap) (if k < a.heap.length then RoutesRef.caller k else RoutesRef.own [], {})]).map (resolve a.heap) =
        (st.2 ++ [({ opts := opts, routes := st.1.getD k [] } : Group)]).map Group.featured
      rw [List.map_append, List.map_append, hf, List.map_singleton, List.map_singleton, resolve_foldl]
      congr 2
      unfold Group.featured resolve
      congr 2
      rw [← hh]
      split
      · rfl
      · rename_i hk
        simp only [deref, List.getD_eq_getElem?_getD]
        rw [List.getElem?_eq_none (by omega)]; rfl
  | addOne r opts =>
    refine ⟨?_, hh, ?_⟩
    · intro f hfm
      have hfm' : f ∈ a.frs ++ [opts.foldl (aApply a.heap) (RoutesRef.own [r], {})] := hfm
      rcases List.mem_append.mp hfm' with h1 | h1
      · exact hv f h1
      · rw [List.mem_singleton] at h1; subst h1; exact foldl_valid a.heap opts _ trivial
    · show (a.frs ++ [opts.foldl (aApply a.heap) (RoutesRef.own [r], {})]).map (resolve a.heap) =
        (st.2 ++ [({ opts := opts, routes := [r] } : Group)]).map Group.featured
      rw [List.map_append, List.map_append, hf, List.map_singleton, List.map_singleton, resolve_foldl]
      rfl

theorem reads_run (ops : List ApiOp) : ∀ (a : Api) (st : List (List Reg) × List Group), Reads a st →
    Reads (ops.foldl Api.step a) (ops.foldl pureStep st) := by
  induction ops with
  | nil => intro a st h; exact h
  | cons op ops ih => intro a st h; exact ih _ _ (reads_step a st h op)

theorem pureRun_slices (ops : List ApiOp) : ∀ (st : List (List Reg) × List Group),
    (ops.foldl pureStep st).1 = st.1 ++ ops.filterMap sliceOf := by
  induction ops with
  | nil => intro st; simp
  | cons op ops ih =>
    intro st
    simp only [List.foldl_cons]
    rw [ih]
    cases op <;> simp [pureStep, sliceOf, List.filterMap_cons]

theorem regs_of_reads {a : Api} {st : List (List Reg) × List Group} (h : Reads a st) :
    a.regs = st.2.flatMap Group.regs := by
  obtain ⟨_, _, hf⟩ := h
  have h1 : a.regs = (a.frs.map (resolve a.heap)).flatMap (·.routes) := by
    unfold Api.regs; rw [List.flatMap_map]; rfl
  have h2 : st.2.flatMap Group.regs = (st.2.map Group.featured).flatMap (·.routes) := by
    rw [List.flatMap_map]; rfl
  rw [h1, h2, hf]

end GoZero.C09
