/-
C09 — helper lemmas, part 8 (round 2): the model of `path.Clean` on rooted paths, characterised on the
string level: the tokens of the cleaned *string* are the cleaned token list; cleaning is idempotent; the
result is rooted, has no "." / ".." elements and no empty element (no double slash, no trailing slash).
-/
import GoZero.C09.ProofsClean
namespace GoZero.C09

/-- no "." and no ".." element. -/
def NoDots (l : List String) : Prop := ∀ t ∈ l, t ≠ "." ∧ t ≠ ".."

/-- no '/' inside any element. -/
def SlashFree (l : List String) : Prop := ∀ t ∈ l, '/' ∉ t.toList

theorem splitSlash_cons (c : Char) (cs cur : List Char) :
    splitSlash (c :: cs) cur =
      if c = '/' then String.ofList cur.reverse :: splitSlash cs [] else splitSlash cs (c :: cur) := rfl

theorem cleanGo_cons (s : String) (rest acc : List String) :
    cleanGo (s :: rest) acc =
      if s = "" ∨ s = "." then cleanGo rest acc
      else if s = ".." then cleanGo rest acc.tail
      else cleanGo rest (s :: acc) := rfl

theorem cleanGo_noDots (l acc : List String) (h : NoDots acc) : NoDots (cleanGo l acc) := by
  induction l generalizing acc with
  | nil => intro t ht; exact h t (by simpa [cleanGo] using ht)
  | cons s rest ih =>
    unfold cleanGo
    split
    · exact ih acc h
    · split
      · apply ih
        intro t ht
        exact h t (List.mem_of_mem_tail ht)
      · rename_i h1 h2
        apply ih
        intro t ht
        simp only [List.mem_cons] at ht
        rcases ht with rfl | ht
        · exact ⟨fun e => h1 (Or.inr e), h2⟩
        · exact h t ht

theorem cleanGo_mem (l acc : List String) : ∀ t ∈ cleanGo l acc, t ∈ l ∨ t ∈ acc := by
  induction l generalizing acc with
  | nil => intro t ht; exact Or.inr (by simpa [cleanGo] using ht)
  | cons s rest ih =>
    intro t ht
    unfold cleanGo at ht
    split at ht
    · rcases ih acc t ht with h | h
      · exact Or.inl (List.mem_cons_of_mem _ h)
      · exact Or.inr h
    · split at ht
      · rcases ih _ t ht with h | h
        · exact Or.inl (List.mem_cons_of_mem _ h)
        · exact Or.inr (List.mem_of_mem_tail h)
      · rcases ih _ t ht with h | h
        · exact Or.inl (List.mem_cons_of_mem _ h)
        · simp only [List.mem_cons] at h
          rcases h with rfl | h
          · exact Or.inl (by simp)
          · exact Or.inr h

theorem splitSlash_slashFree (cs cur : List Char) (h : '/' ∉ cur) : SlashFree (splitSlash cs cur) := by
  induction cs generalizing cur with
  | nil =>
    intro t ht
    simp only [splitSlash, List.mem_singleton] at ht
    subst ht
    simpa using h
  | cons c cs ih =>
    intro t ht
    unfold splitSlash at ht
    split at ht
    · simp only [List.mem_cons] at ht
      rcases ht with rfl | ht
      · simpa using h
      · exact ih [] (by simp) t ht
    · rename_i hc
      exact ih (c :: cur) (by simp [h, Ne.symm hc]) t ht

theorem toksOf_slashFree (p : String) : SlashFree (toksOf p) := splitSlash_slashFree _ [] (by simp)

/-- cleaning an already clean element list changes nothing. -/
theorem cleanGo_id (l acc : List String) (hne : NE l) (hd : NoDots l) : cleanGo l acc = acc.reverse ++ l := by
  induction l generalizing acc with
  | nil => simp [cleanGo]
  | cons s rest ih =>
    have h1 : s ≠ "" := hne s (by simp)
    have h2 := hd s (by simp)
    unfold cleanGo
    rw [if_neg (by simp [h1, h2.1]), if_neg h2.2]
    rw [ih (s :: acc) (NE_tail hne) (fun t ht => hd t (List.mem_cons_of_mem _ ht))]
    simp

theorem splitSlash_noSlash (t cur : List Char) (ht : '/' ∉ t) :
    splitSlash t cur = [String.ofList (cur.reverse ++ t)] := by
  induction t generalizing cur with
  | nil => simp [splitSlash]
  | cons c cs ih =>
    have hc : c ≠ '/' := fun e => ht (by simp [e])
    unfold splitSlash
    rw [if_neg hc, ih (c :: cur) (fun h => ht (List.mem_cons_of_mem _ h))]
    simp

theorem splitSlash_token (t rest cur : List Char) (ht : '/' ∉ t) :
    splitSlash (t ++ '/' :: rest) cur = String.ofList (cur.reverse ++ t) :: splitSlash rest [] := by
  induction t generalizing cur with
  | nil => simp [splitSlash]
  | cons c cs ih =>
    have hc : c ≠ '/' := fun e => ht (by simp [e])
    rw [List.cons_append, splitSlash_cons]
    rw [if_neg hc, ih (c :: cur) (fun h => ht (List.mem_cons_of_mem _ h))]
    simp

/-- splitting the '/'-join of slash-free elements gives the elements back. -/
theorem splitSlash_intercalate (l : List String) (hl : l ≠ []) (hs : SlashFree l) :
    splitSlash (['/'].intercalate (l.map String.toList)) [] = l := by
  induction l with
  | nil => exact absurd rfl hl
  | cons a rest ih =>
    cases rest with
    | nil =>
      simp only [List.map_cons, List.map_nil, List.intercalate, List.intersperse_singleton, List.flatten_cons,
        List.flatten_nil, List.append_nil]
      rw [splitSlash_noSlash _ _ (hs a (by simp))]
      simp
    | cons b rest' =>
      simp only [List.map_cons]
      rw [List.intercalate_cons_cons]
      have : a.toList ++ ['/'] ++ ['/'].intercalate (b.toList :: List.map String.toList rest')
          = a.toList ++ '/' :: ['/'].intercalate (b.toList :: List.map String.toList rest') := by simp
      rw [this, splitSlash_token _ _ _ (hs a (by simp))]
      have ih' := ih (by simp) (fun t ht => hs t (List.mem_cons_of_mem _ ht))
      simp only [List.map_cons] at ih'
      rw [ih']
      simp

theorem toksOf_slash_intercalate (l : List String) (hs : SlashFree l) :
    toksOf ("/" ++ "/".intercalate l) = if l = [] then [""] else l := by
  unfold toksOf
  have : ("/" ++ "/".intercalate l).toList.drop 1 = ['/'].intercalate (l.map String.toList) := by
    rw [String.toList_append, String.toList_intercalate]
    rfl
  rw [this]
  split
  · rename_i e; subst e; rfl
  · rename_i e; exact splitSlash_intercalate l e hs

/-- the kept elements of `path.Clean`: no empty element, no dots, no slash inside. -/
theorem cleanGo_toksOf (p : String) :
    NE (cleanGo (toksOf p) []) ∧ NoDots (cleanGo (toksOf p) []) ∧ SlashFree (cleanGo (toksOf p) []) := by
  refine ⟨cleanGo_NE _ _ (by intro t ht; cases ht), cleanGo_noDots _ _ (by intro t ht; cases ht), ?_⟩
  intro t ht
  rcases cleanGo_mem _ _ t ht with h | h
  · exact toksOf_slashFree p t h
  · cases h

/-- **the tokens of the cleaned string are the cleaned tokens.** -/
theorem toksOf_cleanPath (p : String) : toksOf (cleanPath p) = cleanToks p := by
  unfold cleanPath cleanToks
  rw [toksOf_slash_intercalate _ (cleanGo_toksOf p).2.2]
  cases cleanGo (toksOf p) [] <;> simp

theorem cleanGo_cleanToks (p : String) : cleanGo (cleanToks p) [] = cleanGo (toksOf p) [] := by
  obtain ⟨h1, h2, _⟩ := cleanGo_toksOf p
  unfold cleanToks
  cases h : cleanGo (toksOf p) [] with
  | nil => simp [cleanGo]
  | cons a l =>
    rw [h] at h1 h2
    simpa using cleanGo_id (a :: l) [] h1 h2

/-- **`path.Clean` (model) is idempotent**, on the token level … -/
theorem cleanToks_cleanPath (p : String) : cleanToks (cleanPath p) = cleanToks p := by
  show (match cleanGo (toksOf (cleanPath p)) [] with | [] => [""] | l => l) = cleanToks p
  rw [toksOf_cleanPath, cleanGo_cleanToks]
  rfl

/-- … and on the string level. -/
theorem cleanPath_cleanPath (p : String) : cleanPath (cleanPath p) = cleanPath p := by
  show "/" ++ "/".intercalate (cleanGo (toksOf (cleanPath p)) []) = _
  rw [toksOf_cleanPath, cleanGo_cleanToks]
  rfl

/-- the cleaned path is rooted. -/
theorem rooted_cleanPath (p : String) : rooted (cleanPath p) = true := by
  unfold rooted cleanPath
  rw [String.toList_append]
  rfl

/-- a trailing slash does not change the cleaned tokens. -/
theorem splitSlash_snoc_slash (cs cur : List Char) :
    splitSlash (cs ++ ['/']) cur = splitSlash cs cur ++ [""] := by
  induction cs generalizing cur with
  | nil => simp [splitSlash]
  | cons c cs ih =>
    rw [List.cons_append, splitSlash_cons, splitSlash_cons]
    split
    · rw [ih]; rfl
    · rw [ih]

theorem cleanGo_append (l1 l2 acc : List String) : cleanGo (l1 ++ l2) acc = cleanGo l2 (cleanGo l1 acc).reverse := by
  induction l1 generalizing acc with
  | nil => simp [cleanGo]
  | cons s rest ih =>
    rw [List.cons_append, cleanGo_cons, cleanGo_cons]
    split
    · exact ih acc
    · split
      · exact ih _
      · exact ih _

theorem cleanToks_trailing_slash (p : String) (hp : p ≠ "") : cleanToks (p ++ "/") = cleanToks p := by
  have hl : p.toList ≠ [] := by
    intro e
    apply hp
    rw [← String.ofList_toList (s := p), e]
  have : toksOf (p ++ "/") = toksOf p ++ [""] := by
    unfold toksOf
    rw [String.toList_append]
    have : ("/" : String).toList = ['/'] := rfl
    rw [this]
    cases h : p.toList with
    | nil => exact absurd h hl
    | cons c cs =>
      simp only [List.cons_append, List.drop_succ_cons, List.drop_zero]
      exact splitSlash_snoc_slash cs []
  unfold cleanToks
  rw [this, cleanGo_append]
  simp [cleanGo]

end GoZero.C09
