/-
C09 — helper lemmas, part 9 (round 2): `search.Tree` used directly with arbitrary (uncleaned) strings.
`add` / `next` on arbitrary token lists: which inputs are rejected with errDupSlash, which route a raw
string denotes (`normToks`: one trailing slash is dropped), and when a raw search succeeds.
-/
import GoZero.C09.ProofsRouter
namespace GoZero.C09

open Spec

theorem updChild_error_iff (n : Node) (k : String) (f : Option Node → Except AddErr Node) (e : AddErr) :
    updChild n k f = .error e ↔ f (child n k) = .error e := by
  rw [updChild_eq]
  cases f (child n k) <;> simp [Except.map]

theorem add_cons_of_ne_nil (t : String) (l : List String) (hl : l ≠ []) (n : Node) (h : H) :
    add (t :: l) n h
      = if t = "" then .error .dupSlash
        else updChild n t fun oc => add l (oc.getD (newNode none)) h := by
  cases l with
  | nil => exact absurd rfl hl
  | cons r rs => rfl

theorem add_single_ne_dupSlash (t : String) (n : Node) (h : H) : add [t] n h ≠ .error .dupSlash := by
  simp only [add]
  split
  · split <;> intro e <;> cases e
  · intro e
    rw [updChild_error_iff] at e
    cases hc : child n t with
    | none => rw [hc] at e; cases e
    | some c =>
      rw [hc] at e
      simp only at e
      split at e <;> cases e

/-- **errDupSlash exactly for an empty element that is not the last one** (`//` inside, or right after the
leading slash followed by more) — whatever the tree contains. -/
theorem add_dupSlash_iff (toks : List String) : toks ≠ [] → ∀ (n : Node) (h : H),
    (add toks n h = .error .dupSlash ↔ "" ∈ toks.dropLast) := by
  induction toks with
  | nil => intro h; exact absurd rfl h
  | cons t rest ih =>
    intro _ n h
    cases rest with
    | nil =>
      simp only [List.dropLast_singleton, List.not_mem_nil, iff_false]
      exact add_single_ne_dupSlash t n h
    | cons r rs =>
      rw [add_cons_cons, List.dropLast_cons₂]
      by_cases ht : t = ""
      · simp [ht]
      · rw [if_neg ht, updChild_error_iff, ih (by simp)]
        simp only [List.mem_cons]
        constructor
        · intro hm; exact Or.inr hm
        · rintro (e | hm)
          · exact absurd e.symm ht
          · exact hm

theorem normToks_ne_nil : ∀ (l : List String), l ≠ [] → normToks l ≠ []
  | [], h => absurd rfl h
  | [t], _ => by simp [normToks]
  | t :: r :: rs, _ => by
    unfold normToks
    split <;> simp

theorem add_norm (toks : List String) : toks ≠ [] → "" ∉ toks.dropLast → ∀ (n : Node) (h : H),
    add toks n h = add (normToks toks) n h := by
  induction toks with
  | nil => intro h; exact absurd rfl h
  | cons t rest ih =>
    intro _ hns n h
    cases rest with
    | nil => rfl
    | cons r rs =>
      rw [List.dropLast_cons₂] at hns
      have ht : t ≠ "" := fun e => hns (by simp [e])
      have hns' : "" ∉ (r :: rs).dropLast := fun hm => hns (List.mem_cons_of_mem _ hm)
      by_cases hlast : r = "" ∧ rs = []
      · obtain ⟨rfl, rfl⟩ := hlast
        simp only [normToks, and_self, if_true]
        rw [add_cons_cons, if_neg ht]
        simp only [add, ht, if_false]
        congr 1
        funext oc
        cases oc with
        | none => rfl
        | some c => rfl
      · have : normToks (t :: r :: rs) = t :: normToks (r :: rs) := by
          rw [normToks]; simp [hlast]
        rw [this, add_cons_cons, if_neg ht,
          add_cons_of_ne_nil t _ (normToks_ne_nil _ (by simp)), if_neg ht]
        congr 1
        funext oc
        exact ih (by simp) hns' _ _

theorem normToks_NE (toks : List String) : toks ≠ [] → toks ≠ [""] → "" ∉ toks.dropLast →
    NE (normToks toks) := by
  induction toks with
  | nil => intro h; exact absurd rfl h
  | cons t rest ih =>
    intro _ hroot hns
    cases rest with
    | nil =>
      intro x hx
      simp only [normToks, List.mem_singleton] at hx
      subst hx
      intro e; exact hroot (by rw [e])
    | cons r rs =>
      rw [List.dropLast_cons₂] at hns
      have ht : t ≠ "" := fun e => hns (by simp [e])
      have hns' : "" ∉ (r :: rs).dropLast := fun hm => hns (List.mem_cons_of_mem _ hm)
      by_cases hlast : r = "" ∧ rs = []
      · simp only [normToks, hlast, and_self, if_true]
        intro x hx
        simp only [List.mem_singleton] at hx
        subst hx; exact ht
      · have : normToks (t :: r :: rs) = t :: normToks (r :: rs) := by
          rw [normToks]; simp [hlast]
        rw [this]
        have hr : r :: rs ≠ [""] := by
          intro e
          simp only [List.cons.injEq] at e
          exact hlast e
        intro x hx
        simp only [List.mem_cons] at hx
        rcases hx with rfl | hx
        · exact ht
        · exact ih (by simp) hr hns' x hx

/-- a raw token list without an inner empty element denotes a cleaned pattern. -/
theorem normToks_clean (toks : List String) (h0 : toks ≠ []) (hns : "" ∉ toks.dropLast) : Clean (normToks toks) := by
  by_cases hroot : toks = [""]
  · subst hroot; exact Or.inl rfl
  · exact Or.inr ⟨normToks_ne_nil _ h0, normToks_NE toks h0 hroot hns⟩

/-- the key of a raw route string is the trie key of its normalised tokens. -/
theorem rawKey_eq (route : String) : rawKey route = wkey (normToks (toksOf route)) := rfl

theorem toksOf_ne_nil (route : String) : toksOf route ≠ [] := by
  unfold toksOf
  generalize (route.toList.drop 1) = cs
  suffices h : ∀ cur, splitSlash cs cur ≠ [] from h []
  induction cs with
  | nil => intro cur; simp [splitSlash]
  | cons c cs ih =>
    intro cur
    unfold splitSlash
    split
    · simp
    · exact ih _

/-! ### raw search -/

/-- a stored key list matches a raw token list: segment by segment, or — when the raw list ends with an
empty element (trailing slash) — segment by segment without that element (the node's own item). -/
def matchesRaw (ks toks : List String) : Prop :=
  matchesP ks toks = true ∨ ∃ ts, toks = ts ++ [""] ∧ matchesP ks ts = true

theorem matchesRawB_iff (ks toks : List String) : matchesRawB ks toks = true ↔ matchesRaw ks toks := by
  unfold matchesRawB matchesRaw
  simp only [Bool.or_eq_true, Bool.and_eq_true, beq_iff_eq]
  constructor
  · rintro (h | ⟨h1, h2⟩)
    · exact Or.inl h
    · refine Or.inr ⟨toks.dropLast, ?_, h2⟩
      have hne : toks ≠ [] := by intro e; rw [e] at h1; cases h1
      have := List.dropLast_concat_getLast hne
      rw [List.getLast?_eq_some_getLast hne] at h1
      simp only [Option.some.injEq] at h1
      rw [← h1]
      exact this.symm
  · rintro (h | ⟨ts, rfl, h⟩)
    · exact Or.inl h
    · exact Or.inr ⟨by simp, by simpa using h⟩

theorem forEach_isSome_iff (n : Node) (p : String → Node → Option (H × Params)) :
    (forEach n p).isSome = true ↔ ∃ kc, (kc ∈ n.lits ∨ kc ∈ n.vars) ∧ (p kc.1 kc.2).isSome = true := by
  constructor
  · intro h
    obtain ⟨r, hr⟩ := Option.isSome_iff_exists.mp h
    rcases forEach_some hr with ⟨kc, hm, hp⟩ | ⟨_, kc, hm, hp⟩
    · exact ⟨kc, Or.inl hm, by simp [hp]⟩
    · exact ⟨kc, Or.inr hm, by simp [hp]⟩
  · rintro ⟨kc, hm, hp⟩
    cases hf : forEach n p with
    | some r => rfl
    | none =>
      obtain ⟨h1, h2⟩ := forEach_none hf
      rcases hm with hm | hm
      · rw [h1 kc hm] at hp; cases hp
      · rw [h2 kc hm] at hp; cases hp

theorem child_of_mem {n : Node} (hwf : WF n) {kc : String × Node} (hm : kc ∈ n.lits ∨ kc ∈ n.vars) :
    child n kc.1 = some kc.2 := by
  rcases hm with hm | hm
  · exact child_of_mem_lits hwf hm
  · exact child_of_mem_vars hwf hm

theorem mem_of_child {n : Node} {k : String} {c : Node} (h : child n k = some c) :
    (k, c) ∈ n.lits ∨ (k, c) ∈ n.vars := by
  rcases child_mem h with ⟨_, hm⟩ | ⟨_, hm⟩
  · exact Or.inl hm
  · exact Or.inr hm

/-- **raw search succeeds iff some stored key list matches the raw token list** (any iteration order). -/
theorem next_raw_isSome_iff (toks : List String) : toks ≠ [] → ∀ (n : Node), WF n →
    ((next toks n).isSome = true ↔ ∃ ks h, lookupW ks n = some h ∧ matchesRaw ks toks) := by
  induction toks with
  | nil => intro h; exact absurd rfl h
  | cons t rest ih =>
    intro _ n hwf
    cases rest with
    | nil =>
      by_cases h0 : t = "" ∧ n.item.isSome = true
      · obtain ⟨rfl, hi⟩ := h0
        obtain ⟨x, hx⟩ := Option.isSome_iff_exists.mp hi
        constructor
        · intro _
          exact ⟨[], x, by simpa [lookupW] using hx, Or.inr ⟨[], rfl, by simp [matchesP]⟩⟩
        · intro _
          simp [next, hi, hx]
      · have hn : next [t] n = forEach n fun k c =>
            if matchTok k t then c.item.map (fun h => hit k t (h, [])) else none := by
          simp only [next]
          rw [if_neg (by simpa using h0)]
        rw [hn, forEach_isSome_iff]
        constructor
        · rintro ⟨kc, hm, hp⟩
          by_cases hmt : matchTok kc.1 t = true
          · rw [if_pos hmt] at hp
            simp only [Option.isSome_map] at hp
            obtain ⟨x, hx⟩ := Option.isSome_iff_exists.mp hp
            refine ⟨[kc.1], x, ?_, Or.inl (by simp [matchesP, hmt])⟩
            simp [lookupW, child_of_mem hwf hm, hx]
          · rw [if_neg hmt] at hp; cases hp
        · rintro ⟨ks, h, hl, hmr⟩
          rcases hmr with hmr | ⟨ts, hts, hmr⟩
          · obtain ⟨k, ks', rfl, hk, hks'⟩ := (matchesP_cons_iff _ _ _).mp hmr
            rw [matchesP_nil_iff] at hks'
            subst hks'
            simp only [lookupW] at hl
            cases hc : child n k with
            | none => rw [hc] at hl; cases hl
            | some c =>
              rw [hc] at hl
              simp only [Option.bind_some] at hl
              exact ⟨(k, c), mem_of_child hc, by simp [hk, hl]⟩
          · exfalso
            cases ts with
            | nil =>
              simp only [List.nil_append, List.cons.injEq, and_true] at hts
              rw [matchesP_nil_iff] at hmr
              subst hmr
              simp only [lookupW] at hl
              exact h0 ⟨hts, by simp [hl]⟩
            | cons a as =>
              have := congrArg List.length hts
              simp at this
    | cons r rs =>
      rw [next_cons_cons, forEach_isSome_iff]
      constructor
      · rintro ⟨kc, hm, hp⟩
        by_cases hmt : matchTok kc.1 t = true
        · rw [if_pos hmt] at hp
          simp only [Option.isSome_map] at hp
          have hc := child_of_mem hwf hm
          obtain ⟨ks, h, hl, hmr⟩ := (ih (by simp) kc.2 (child_wf hwf hc)).mp hp
          refine ⟨kc.1 :: ks, h, by simp [lookupW, hc, hl], ?_⟩
          rcases hmr with hmr | ⟨ts, hts, hmr⟩
          · exact Or.inl (by simp [matchesP, hmt, hmr])
          · exact Or.inr ⟨t :: ts, by rw [hts]; rfl, by simp [matchesP, hmt, hmr]⟩
        · rw [if_neg hmt] at hp; cases hp
      · rintro ⟨ks, h, hl, hmr⟩
        have key : ∃ k ks' , ks = k :: ks' ∧ matchTok k t = true ∧ matchesRaw ks' (r :: rs) := by
          rcases hmr with hmr | ⟨ts, hts, hmr⟩
          · obtain ⟨k, ks', rfl, hk, hks'⟩ := (matchesP_cons_iff _ _ _).mp hmr
            exact ⟨k, ks', rfl, hk, Or.inl hks'⟩
          · cases ts with
            | nil =>
              have := congrArg List.length hts
              simp at this
            | cons a as =>
              simp only [List.cons_append, List.cons.injEq] at hts
              obtain ⟨rfl, hts⟩ := hts
              obtain ⟨k, ks', rfl, hk, hks'⟩ := (matchesP_cons_iff _ _ _).mp hmr
              exact ⟨k, ks', rfl, hk, Or.inr ⟨as, hts, hks'⟩⟩
        obtain ⟨k, ks', rfl, hk, hmr'⟩ := key
        simp only [lookupW] at hl
        cases hc : child n k with
        | none => rw [hc] at hl; cases hl
        | some c =>
          rw [hc] at hl
          simp only [Option.bind_some] at hl
          refine ⟨(k, c), mem_of_child hc, ?_⟩
          simp only [hk, if_true, Option.isSome_map]
          exact (ih (by simp) c (child_wf hwf hc)).mpr ⟨ks', h, hl, hmr'⟩

end GoZero.C09
