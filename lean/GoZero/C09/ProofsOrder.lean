/-
C09 — helper lemmas, part 6: reordering children maps.  `Shuffled n n'` says that `n'` is `n` with the
children lists of any nodes permuted (what a different Go map iteration order amounts to).  A shuffled tree
is still well formed and stores the same keys, hence represents the same table: every theorem stated for
all `r` with `Rep r tbl` covers every iteration order.
-/
import GoZero.C09.ProofsRouter
namespace GoZero.C09

inductive Shuffled : Node → Node → Prop
  | refl (n : Node) : Shuffled n n
  | top (i : Option H) (l l' v v' : List (String × Node)) :
      l.Perm l' → v.Perm v' → Shuffled (.mk i l v) (.mk i l' v')
  | lit (i : Option H) (l1 l2 v : List (String × Node)) (k : String) (c c' : Node) :
      Shuffled c c' → Shuffled (.mk i (l1 ++ (k, c) :: l2) v) (.mk i (l1 ++ (k, c') :: l2) v)
  | var (i : Option H) (l v1 v2 : List (String × Node)) (k : String) (c c' : Node) :
      Shuffled c c' → Shuffled (.mk i l (v1 ++ (k, c) :: v2)) (.mk i l (v1 ++ (k, c') :: v2))
  | trans (a b c : Node) : Shuffled a b → Shuffled b c → Shuffled a c

theorem lookup_perm {l l' : List (String × Node)} (hp : l.Perm l') (hn : (l.map (·.1)).Nodup) (k : String) :
    l'.lookup k = l.lookup k := by
  have hn' : (l'.map (·.1)).Nodup := (hp.map _).nodup_iff.mp hn
  cases h : l.lookup k with
  | some c => exact lookup_of_mem hn' (hp.mem_iff.mp (mem_of_lookup h))
  | none =>
    cases h' : l'.lookup k with
    | none => rfl
    | some c =>
      have := lookup_of_mem hn (hp.mem_iff.mpr (mem_of_lookup h'))
      rw [h] at this; cases this

theorem lookup_replace (l1 l2 : List (String × Node)) (k : String) (c c' : Node)
    (hn : ((l1 ++ (k, c) :: l2).map (·.1)).Nodup) (k' : String) :
    (l1 ++ (k, c') :: l2).lookup k' = if k' = k then some c' else (l1 ++ (k, c) :: l2).lookup k' := by
  have hn' : ((l1 ++ (k, c') :: l2).map (·.1)).Nodup := by simpa using hn
  by_cases e : k' = k
  · subst e
    simp only [if_true]
    exact lookup_of_mem hn' (by simp)
  · simp only [e, if_false]
    cases h : (l1 ++ (k, c) :: l2).lookup k' with
    | some d =>
      have hm := mem_of_lookup h
      apply lookup_of_mem hn'
      simp only [List.mem_append, List.mem_cons, Prod.mk.injEq] at hm ⊢
      rcases hm with hm | ⟨e1, _⟩ | hm
      · exact Or.inl hm
      · exact absurd e1 e
      · exact Or.inr (Or.inr hm)
    | none =>
      cases h' : (l1 ++ (k, c') :: l2).lookup k' with
      | none => rfl
      | some d =>
        have hm := mem_of_lookup h'
        have : (k', d) ∈ l1 ++ (k, c) :: l2 := by
          simp only [List.mem_append, List.mem_cons, Prod.mk.injEq] at hm ⊢
          rcases hm with hm | ⟨e1, _⟩ | hm
          · exact Or.inl hm
          · exact absurd e1 e
          · exact Or.inr (Or.inr hm)
        have := lookup_of_mem hn this
        rw [h] at this; cases this

/-- **Reordering children maps changes neither well-formedness nor what is stored.** -/
theorem shuffled_same {n n' : Node} (hs : Shuffled n n') :
    WF n → WF n' ∧ ∀ ks, lookupW ks n' = lookupW ks n := by
  induction hs with
  | refl n => intro h; exact ⟨h, fun _ => rfl⟩
  | top i l l' v v' hl hv =>
    intro h
    cases h with
    | mk _ _ _ h1 h2 h3 h4 h5 h6 =>
      refine ⟨WF.mk i l' v' ((hl.map _).nodup_iff.mp h1) ((hv.map _).nodup_iff.mp h2)
        (fun kc hm => h3 kc (hl.mem_iff.mpr hm)) (fun kc hm => h4 kc (hv.mem_iff.mpr hm))
        (fun kc hm => h5 kc (hl.mem_iff.mpr hm)) (fun kc hm => h6 kc (hv.mem_iff.mpr hm)), ?_⟩
      intro ks
      cases ks with
      | nil => rfl
      | cons k r =>
        simp only [lookupW, child, Node.vars_mk, Node.lits_mk, lookup_perm hl h1, lookup_perm hv h2]
  | lit i l1 l2 v k c c' _ ih =>
    intro h
    cases h with
    | mk _ _ _ h1 h2 h3 h4 h5 h6 =>
      have hc : WF c := h5 (k, c) (by simp)
      obtain ⟨hc', hlk⟩ := ih hc
      refine ⟨WF.mk i _ v (by simpa using h1) h2 ?_ h4 ?_ h6, ?_⟩
      · intro kc hm
        simp only [List.mem_append, List.mem_cons] at hm
        rcases hm with hm | rfl | hm
        · exact h3 kc (by simp [hm])
        · exact h3 (k, c) (by simp)
        · exact h3 kc (by simp [hm])
      · intro kc hm
        simp only [List.mem_append, List.mem_cons] at hm
        rcases hm with hm | rfl | hm
        · exact h5 kc (by simp [hm])
        · exact hc'
        · exact h5 kc (by simp [hm])
      · intro ks
        cases ks with
        | nil => rfl
        | cons k' r =>
          simp only [lookupW, child, Node.vars_mk, Node.lits_mk, lookup_replace l1 l2 k c c' h1]
          by_cases hv : isVar k' = true
          · simp [hv]
          · simp only [hv, Bool.false_eq_true, if_false]
            by_cases e : k' = k
            · subst e
              have : (l1 ++ (k', c) :: l2).lookup k' = some c := lookup_of_mem h1 (by simp)
              simp [this, hlk]
            · simp [e]
  | var i l v1 v2 k c c' _ ih =>
    intro h
    cases h with
    | mk _ _ _ h1 h2 h3 h4 h5 h6 =>
      have hc : WF c := h6 (k, c) (by simp)
      obtain ⟨hc', hlk⟩ := ih hc
      refine ⟨WF.mk i l _ h1 (by simpa using h2) h3 ?_ h5 ?_, ?_⟩
      · intro kc hm
        simp only [List.mem_append, List.mem_cons] at hm
        rcases hm with hm | rfl | hm
        · exact h4 kc (by simp [hm])
        · exact h4 (k, c) (by simp)
        · exact h4 kc (by simp [hm])
      · intro kc hm
        simp only [List.mem_append, List.mem_cons] at hm
        rcases hm with hm | rfl | hm
        · exact h6 kc (by simp [hm])
        · exact hc'
        · exact h6 kc (by simp [hm])
      · intro ks
        cases ks with
        | nil => rfl
        | cons k' r =>
          simp only [lookupW, child, Node.vars_mk, Node.lits_mk, lookup_replace v1 v2 k c c' h2]
          by_cases hv : isVar k' = true
          · simp only [hv, if_true]
            by_cases e : k' = k
            · subst e
              have : (v1 ++ (k', c) :: v2).lookup k' = some c := lookup_of_mem h2 (by simp)
              simp [this, hlk]
            · simp [e]
          · simp [hv]
  | trans a b c _ _ ih1 ih2 =>
    intro h
    obtain ⟨hb, h1⟩ := ih1 h
    obtain ⟨hc, h2⟩ := ih2 hb
    exact ⟨hc, fun ks => by rw [h2, h1]⟩

/-- a shuffled method tree represents the same routes. -/
theorem treeRep_shuffled {root root' : Node} {tbl : Spec.Table} {m : String}
    (hs : Shuffled root root') (h : TreeRep root tbl m) : TreeRep root' tbl m := by
  obtain ⟨hwf, hlk⟩ := shuffled_same hs h.1
  exact ⟨hwf, fun ks x => by rw [hlk]; exact h.2 ks x⟩

end GoZero.C09
