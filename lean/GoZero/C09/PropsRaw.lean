/-
C09 — property theorems, round 2: `search.Tree` used directly with arbitrary, uncleaned strings
(what `Tree.Add` / `Tree.Search` guarantee when no `path.Clean` ran before: errNotFromRoot, errEmptyItem,
errDupSlash, trailing slashes, empty segments).
-/
import GoZero.C09.ProofsRaw
import GoZero.C09.Driver
namespace GoZero.C09

open Spec

/-- **`Tree.Add` rejections for arbitrary strings** (whatever the tree contains):
a route that is empty or does not start with '/' ⇒ errNotFromRoot; then a nil item ⇒ errEmptyItem;
then errDupSlash exactly when an element other than the last one is empty (`//` anywhere before the last
segment, including right after the leading slash). A trailing slash alone is *not* rejected. -/
theorem tree_add_rejections (root : Node) (route : String) (item : Option H) :
    (rooted route = false → treeAdd root route item = .error .notFromRoot) ∧
    (rooted route = true → item = none → treeAdd root route item = .error .emptyItem) ∧
    (rooted route = true → ∀ h, item = some h →
      (treeAdd root route item = .error .dupSlash ↔ "" ∈ (toksOf route).dropLast)) := by
  refine ⟨?_, ?_, ?_⟩
  · intro hr; simp [treeAdd, hr]
  · intro hr hi; simp [treeAdd, hr, hi]
  · intro hr h hi
    subst hi
    simp only [treeAdd, hr, Bool.not_true, Bool.false_eq_true, if_false]
    exact add_dupSlash_iff _ (toksOf_ne_nil route) root h

/-- the error of an `Add`, `none` when accepted (for the examples: `Node` has no decidable equality). -/
def errOf : Except AddErr Node → Option AddErr
  | .ok _ => none
  | .error e => some e

example : rooted "" = false ∧ rooted "a/b" = false := by decide
example : errOf (treeAdd (newNode none) "" (some 1)) = some .notFromRoot := by decide
example : errOf (treeAdd (newNode none) "//a" (some 1)) = some .dupSlash := by decide
example : errOf (treeAdd (newNode none) "/a//b" (some 1)) = some .dupSlash := by decide
example : errOf (treeAdd (newNode none) "/a//" (some 1)) = some .dupSlash := by decide
example : errOf (treeAdd (newNode none) "/a/" (some 1)) = none := by decide

/-- **Which route an accepted raw string denotes**: `rawKey route` — the '/'-separated elements with one
trailing slash dropped (`/a/b/` is the route `/a/b`, `/` is the root).  Adding stores the item under exactly
that key and changes nothing else; the only other outcome is "duplicated item", exactly when that key is
taken — so `/a/b` after `/a/b/` is a duplicate. -/
theorem tree_add_accepts (root : Node) (hwf : WF root) (route : String) (h : H)
    (hr : rooted route = true) (hns : "" ∉ (toksOf route).dropLast) :
    (∀ root', treeAdd root route (some h) = .ok root' →
      WF root' ∧ lookupW (rawKey route) root = none ∧
      ∀ ks, lookupW ks root' = if ks = rawKey route then some h else lookupW ks root) ∧
    (∀ e, treeAdd root route (some h) = .error e →
      e = .dupItem ∧ (lookupW (rawKey route) root).isSome = true) := by
  have e : treeAdd root route (some h) = addW (rawKey route) root h := by
    simp only [treeAdd, hr, Bool.not_true, Bool.false_eq_true, if_false]
    rw [add_norm _ (toksOf_ne_nil route) hns, add_clean (normToks_clean _ (toksOf_ne_nil route) hns), rawKey_eq]
  rw [e]
  exact addW_spec (rawKey route) root h hwf

example : rawKey "/a/b/" = rawKey "/a/b" ∧ rawKey "/a/b" = ["a", "b"] ∧ rawKey "/" = [] := by decide

/-- **`Tree.Search` with an arbitrary string** (any iteration order of the maps): not rooted ⇒ not found;
otherwise found iff some stored route matches the raw elements segment by segment — where an *empty*
element (from `//` or a trailing slash) is matched by a `:name` segment (bound to ""), never by a literal —
or, when the string ends with a slash, matches the elements without that last empty one. -/
theorem tree_search_raw (root : Node) (hwf : WF root) (route : String) :
    (rooted route = false → treeSearch root route = none) ∧
    (rooted route = true →
      ((treeSearch root route).isSome = true ↔
        ∃ ks h, lookupW ks root = some h ∧ matchesRaw ks (toksOf route))) := by
  constructor
  · intro hr; simp [treeSearch, hr]
  · intro hr
    simp only [treeSearch, hr, Bool.not_true, Bool.false_eq_true, if_false]
    exact next_raw_isSome_iff _ (toksOf_ne_nil route) root hwf

/-- a tree built by raw `Add` calls is well-formed, so the two theorems above apply along any history. -/
theorem tree_add_keeps_wf (root : Node) (hwf : WF root) (route : String) (item : Option H) (root' : Node)
    (h : treeAdd root route item = .ok root') : WF root' := by
  cases hr : rooted route with
  | false => simp [treeAdd, hr] at h
  | true =>
    cases item with
    | none => simp [treeAdd, hr] at h
    | some x =>
      by_cases hns : "" ∈ (toksOf route).dropLast
      · have := ((tree_add_rejections root route (some x)).2.2 hr x rfl).mpr hns
        rw [this] at h; cases h
      · exact ((tree_add_accepts root hwf route x hr hns).1 root' h).1

/-- **the driver's monitor for raw `Tree.Add` is sound**: on a well-formed tree whose stored keys are `keys`,
the model's answer is the verdict of the table-level rule `Spec.rawAddVerdict`. -/
theorem raw_add_monitor_sound (root : Node) (hwf : WF root) (keys : List (List String))
    (hk : ∀ ks, (lookupW ks root).isSome = true ↔ ks ∈ keys) (route : String) (item : Option H) :
    fmtAdd (treeAdd root route item) = rawAddVerdict keys route item := by
  obtain ⟨h1, h2, h3⟩ := tree_add_rejections root route item
  unfold rawAddVerdict
  cases hr : rooted route with
  | false => rw [h1 hr]; rfl
  | true =>
    cases item with
    | none => rw [h2 hr rfl]; rfl
    | some h =>
      simp only [Bool.not_true, Bool.false_eq_true, if_false, Option.isNone_some]
      by_cases hns : "" ∈ (toksOf route).dropLast
      · rw [(h3 hr h rfl).mpr hns]
        simp [List.contains_iff_mem, hns, fmtAdd]
      · have hc : ((toksOf route).dropLast.contains "") = false := by
          simpa [List.contains_iff_mem] using hns
        rw [hc]
        simp only [Bool.false_eq_true, if_false]
        obtain ⟨hok, herr⟩ := tree_add_accepts root hwf route h hr hns
        cases hres : treeAdd root route (some h) with
        | error e =>
          obtain ⟨rfl, hs⟩ := herr e hres
          have : keys.contains (rawKey route) = true := by
            rw [List.contains_iff_mem]; exact (hk _).mp hs
          rw [this]; rfl
        | ok root' =>
          obtain ⟨_, hnone, _⟩ := hok root' hres
          have : keys.contains (rawKey route) = false := by
            rw [Bool.eq_false_iff]
            intro hm
            rw [List.contains_iff_mem] at hm
            have := (hk _).mpr hm
            rw [hnone] at this; cases this
          rw [this]; rfl

/-! non-vacuity on a tree holding `/a`, `/a/:x/c`, `/:y` (built with raw strings, one with a trailing slash) -/

def exRawTree : Node :=
  match treeAdd (newNode none) "/a/" (some 1) with
  | .ok t1 =>
    match treeAdd t1 "/a/:x/c" (some 2) with
    | .ok t2 => (match treeAdd t2 "/:y" (some 3) with | .ok t3 => t3 | .error _ => t2)
    | .error _ => t1
  | .error _ => newNode none

example : errOf (treeAdd exRawTree "/a" (some 9)) = some .dupItem := by decide
example : treeSearch exRawTree "/a/" = some (1, []) := by decide
example : treeSearch exRawTree "/a//c" = some (2, [("x", "")]) := by decide   -- empty segment bound by :x
example : treeSearch exRawTree "/" = some (3, [("y", "")]) := by decide       -- the root is one empty segment
example : treeSearch exRawTree "/b/" = some (3, [("y", "b")]) := by decide
example : treeSearch exRawTree "a" = none := by decide
example : matchesRaw ["a"] (toksOf "/a/") := Or.inr ⟨["a"], by decide, by decide⟩

/-! ### round 5: which stored route a raw hit names -/

theorem hit_binds (k t : String) (x : H × Params) (ks0 ts : List String) (hx : x.2 = (binds ks0 ts).reverse) :
    (hit k t x).1 = x.1 ∧ (hit k t x).2 = (binds (k :: ks0) (t :: ts)).reverse := by
  unfold hit
  cases hv : isVar k <;> simp [binds, hv, hx]

/-- **Which route a raw hit names** (any iteration order): a successful `next` on raw elements returns the item stored
under a key that matches them — segment by segment, or without the last empty element — together with exactly the
segments that key binds (in `addParam` order). -/
theorem next_raw_hit (toks : List String) : toks ≠ [] → ∀ (n : Node), WF n → ∀ h ps, next toks n = some (h, ps) →
    ∃ ks, lookupW ks n = some h ∧
      ((matchesP ks toks = true ∧ ps = (binds ks toks).reverse) ∨
       (∃ ts, toks = ts ++ [""] ∧ matchesP ks ts = true ∧ ps = (binds ks ts).reverse)) := by
  induction toks with
  | nil => intro h; exact absurd rfl h
  | cons t rest ih =>
    intro _ n hwf h ps hs
    cases rest with
    | nil =>
      by_cases h0 : t = "" ∧ n.item.isSome = true
      · obtain ⟨rfl, hi⟩ := h0
        obtain ⟨x, hx⟩ := Option.isSome_iff_exists.mp hi
        simp [next, hx] at hs
        obtain ⟨rfl, rfl⟩ := hs
        exact ⟨[], by simpa [lookupW] using hx, Or.inr ⟨[], rfl, by simp [matchesP], by simp [binds]⟩⟩
      · have hn : next [t] n = forEach n fun k c =>
            if matchTok k t then c.item.map (fun h => hit k t (h, [])) else none := by
          simp only [next]
          rw [if_neg (by simpa using h0)]
        rw [hn] at hs
        have key : ∃ kc, (kc ∈ n.lits ∨ kc ∈ n.vars) ∧
            (if matchTok kc.1 t then kc.2.item.map (fun h => hit kc.1 t (h, [])) else none) = some (h, ps) := by
          rcases forEach_some hs with ⟨kc, hm, hp⟩ | ⟨_, kc, hm, hp⟩
          · exact ⟨kc, Or.inl hm, hp⟩
          · exact ⟨kc, Or.inr hm, hp⟩
        obtain ⟨kc, hm, hp⟩ := key
        by_cases hmt : matchTok kc.1 t = true
        · rw [if_pos hmt] at hp
          cases hci : kc.2.item with
          | none => rw [hci] at hp; cases hp
          | some x =>
            rw [hci] at hp
            simp only [Option.map_some, Option.some.injEq] at hp
            obtain ⟨e1, e2⟩ := hit_binds kc.1 t (x, []) [] [] (by simp [binds])
            rw [hp] at e1 e2
            refine ⟨[kc.1], ?_, Or.inl ⟨by simp [matchesP, hmt], e2⟩⟩
            simp only at e1
            simp [lookupW, child_of_mem hwf hm, hci, e1]
        · rw [if_neg hmt] at hp; cases hp
    | cons r rs =>
      rw [next_cons_cons] at hs
      have key : ∃ kc, (kc ∈ n.lits ∨ kc ∈ n.vars) ∧
          (if matchTok kc.1 t then (next (r :: rs) kc.2).map (hit kc.1 t) else none) = some (h, ps) := by
        rcases forEach_some hs with ⟨kc, hm, hp⟩ | ⟨_, kc, hm, hp⟩
        · exact ⟨kc, Or.inl hm, hp⟩
        · exact ⟨kc, Or.inr hm, hp⟩
      obtain ⟨kc, hm, hp⟩ := key
      by_cases hmt : matchTok kc.1 t = true
      · rw [if_pos hmt] at hp
        cases hnx : next (r :: rs) kc.2 with
        | none => rw [hnx] at hp; cases hp
        | some x =>
          rw [hnx] at hp
          simp only [Option.map_some, Option.some.injEq] at hp
          have hc := child_of_mem hwf hm
          obtain ⟨ks0, hl0, hd⟩ := ih (by simp) kc.2 (child_wf hwf hc) x.1 x.2 hnx
          rcases hd with ⟨hm0, hb0⟩ | ⟨ts, hts, hm0, hb0⟩
          · obtain ⟨e1, e2⟩ := hit_binds kc.1 t x ks0 (r :: rs) hb0
            rw [hp] at e1 e2
            simp only at e1 e2
            exact ⟨kc.1 :: ks0, by simp [lookupW, hc, hl0, e1], Or.inl ⟨by simp [matchesP, hmt, hm0], e2⟩⟩
          · obtain ⟨e1, e2⟩ := hit_binds kc.1 t x ks0 ts hb0
            rw [hp] at e1 e2
            simp only at e1 e2
            exact ⟨kc.1 :: ks0, by simp [lookupW, hc, hl0, e1],
              Or.inr ⟨t :: ts, by rw [hts]; rfl, by simp [matchesP, hmt, hm0], e2⟩⟩
      · rw [if_neg hmt] at hp; cases hp

/-- **`Tree.Search` with an arbitrary string names a matching stored route with exactly its bound segments.** -/
theorem tree_search_raw_hit (root : Node) (hwf : WF root) (route : String) (h : H) (ps : Params)
    (hs : treeSearch root route = some (h, ps)) :
    rooted route = true ∧ ∃ ks, lookupW ks root = some h ∧
      ((matchesP ks (toksOf route) = true ∧ ps = (binds ks (toksOf route)).reverse) ∨
       (∃ ts, toksOf route = ts ++ [""] ∧ matchesP ks ts = true ∧ ps = (binds ks ts).reverse)) := by
  unfold treeSearch at hs
  cases hr : rooted route with
  | false => simp [hr] at hs
  | true =>
    simp only [hr, Bool.not_true, Bool.false_eq_true, if_false] at hs
    exact ⟨rfl, next_raw_hit _ (toksOf_ne_nil route) root hwf h ps hs⟩

example : treeSearch exRawTree "/a//c" = some (2, [("x", "")]) ∧ lookupW ["a", ":x", "c"] exRawTree = some 2 := by decide

/-! ### round 5c: a raw hit is not beaten -/

/-- what a stored key that matches a raw list of at least two elements looks like from the node. -/
theorem raw_decomp {n : Node} {t r : String} {rs : List String} {ks' : List String} {h' : H}
    (hl : lookupW ks' n = some h') (hm : matchesRaw ks' (t :: r :: rs)) :
    ∃ k' ks0' c', ks' = k' :: ks0' ∧ child n k' = some c' ∧ lookupW ks0' c' = some h' ∧ matchTok k' t = true ∧
      matchesRaw ks0' (r :: rs) := by
  have key : ∃ k' ks0', ks' = k' :: ks0' ∧ matchTok k' t = true ∧ matchesRaw ks0' (r :: rs) := by
    rcases hm with hmr | ⟨ts, hts, hmr⟩
    · obtain ⟨k, ks0, rfl, hk, hks⟩ := (matchesP_cons_iff _ _ _).mp hmr
      exact ⟨k, ks0, rfl, hk, Or.inl hks⟩
    · cases ts with
      | nil => have := congrArg List.length hts; simp at this
      | cons a as =>
        simp only [List.cons_append, List.cons.injEq] at hts
        obtain ⟨rfl, hts⟩ := hts
        obtain ⟨k, ks0, rfl, hk, hks⟩ := (matchesP_cons_iff _ _ _).mp hmr
        exact ⟨k, ks0, rfl, hk, Or.inr ⟨as, hts, hks⟩⟩
  obtain ⟨k', ks0', rfl, hk, hmr'⟩ := key
  simp only [lookupW] at hl
  cases hc : child n k' with
  | none => rw [hc] at hl; cases hl
  | some c' =>
    rw [hc] at hl
    simp only [Option.bind_some] at hl
    exact ⟨k', ks0', c', rfl, hc, hl, hk, hmr'⟩

/-- **A raw hit is not beaten** (any iteration order of the maps): the key a successful raw search names matches the
raw elements, carries exactly its bound segments, and NO other stored key that matches the raw elements is preferred
to it — at the first segment where the two differ it is not the case that the named key has a variable and the other
one a literal (literal children are tried first and a literal subtree that holds a match never fails). -/
theorem next_raw_admissible (toks : List String) : toks ≠ [] → ∀ (n : Node), WF n → ∀ h ps, next toks n = some (h, ps) →
    ∃ ks, lookupW ks n = some h ∧
      ((matchesP ks toks = true ∧ ps = (binds ks toks).reverse) ∨
       (∃ ts, toks = ts ++ [""] ∧ matchesP ks ts = true ∧ ps = (binds ks ts).reverse)) ∧
      ∀ ks' h', lookupW ks' n = some h' → matchesRaw ks' toks → prefers ks ks' = true := by
  induction toks with
  | nil => intro h; exact absurd rfl h
  | cons t rest ih =>
    intro _ n hwf h ps hs
    cases rest with
    | nil =>
      by_cases h0 : t = "" ∧ n.item.isSome = true
      · obtain ⟨rfl, hi⟩ := h0
        obtain ⟨x, hx⟩ := Option.isSome_iff_exists.mp hi
        simp [next, hx] at hs
        obtain ⟨rfl, rfl⟩ := hs
        exact ⟨[], by simpa [lookupW] using hx, Or.inr ⟨[], rfl, by simp [matchesP], by simp [binds]⟩,
          fun ks' _ _ _ => by cases ks' <;> simp [prefers]⟩
      · have hn : next [t] n = forEach n fun k c =>
            if matchTok k t then c.item.map (fun h => hit k t (h, [])) else none := by
          simp only [next]
          rw [if_neg (by simpa using h0)]
        rw [hn] at hs
        -- the child the hit came from, and — when it is a variable child — the failure of every literal child
        have key : ∃ kc, (kc ∈ n.lits ∨ kc ∈ n.vars) ∧
            (if matchTok kc.1 t then kc.2.item.map (fun h => hit kc.1 t (h, [])) else none) = some (h, ps) ∧
            (isVar kc.1 = true → ∀ lc ∈ n.lits,
              (if matchTok lc.1 t then lc.2.item.map (fun h => hit lc.1 t (h, [])) else none) = none) := by
          rcases forEach_some hs with ⟨kc, hm, hp⟩ | ⟨hl, kc, hm, hp⟩
          · refine ⟨kc, Or.inl hm, hp, ?_⟩
            intro hv; have := hwf.lits_lit _ hm; rw [hv] at this; cases this
          · exact ⟨kc, Or.inr hm, hp, fun _ => hl⟩
        obtain ⟨kc, hm, hp, hlits⟩ := key
        by_cases hmt : matchTok kc.1 t = true
        · rw [if_pos hmt] at hp
          cases hci : kc.2.item with
          | none => rw [hci] at hp; cases hp
          | some x =>
            rw [hci] at hp
            simp only [Option.map_some, Option.some.injEq] at hp
            obtain ⟨e1, e2⟩ := hit_binds kc.1 t (x, []) [] [] (by simp [binds])
            rw [hp] at e1 e2
            simp only at e1
            refine ⟨[kc.1], by simp [lookupW, child_of_mem hwf hm, hci, e1], Or.inl ⟨by simp [matchesP, hmt], e2⟩, ?_⟩
            intro ks' h' hl' hmr'
            cases ks' with
            | nil => simp [prefers]
            | cons k' ks0' =>
              simp only [prefers]
              by_cases hkk : kc.1 = k'
              · simp only [hkk, if_true]
              · simp only [hkk, if_false, Bool.not_eq_true', Bool.and_eq_false_iff, Bool.not_eq_false']
                by_cases hv : isVar kc.1 = true
                · right
                  -- a literal k' with an item that matches t would have been found first
                  cases hvk : isVar k' with
                  | true => rfl
                  | false =>
                    exfalso
                    have hmk : matchesP (k' :: ks0') [t] = true := by
                      rcases hmr' with hm1 | ⟨ts, hts, hm1⟩
                      · exact hm1
                      · cases ts with
                        | nil => simp [matchesP] at hm1
                        | cons a as => have := congrArg List.length hts; simp at this
                    obtain ⟨k2, ks2, he, hk2, hks2⟩ := (matchesP_cons_iff _ _ _).mp hmk
                    simp only [List.cons.injEq] at he
                    obtain ⟨rfl, rfl⟩ := he
                    rw [matchesP_nil_iff] at hks2
                    subst hks2
                    simp only [lookupW] at hl'
                    cases hc : child n k' with
                    | none => rw [hc] at hl'; cases hl'
                    | some c' =>
                      rw [hc] at hl'
                      simp only [Option.bind_some] at hl'
                      rcases child_mem hc with ⟨_, hml⟩ | ⟨hv', _⟩
                      · have := hlits hv (k', c') hml
                        simp [hk2, hl'] at this
                      · rw [hvk] at hv'; cases hv'
                · left; simpa using hv
        · rw [if_neg hmt] at hp; cases hp
    | cons r rs =>
      rw [next_cons_cons] at hs
      have key : ∃ kc, (kc ∈ n.lits ∨ kc ∈ n.vars) ∧
          (if matchTok kc.1 t then (next (r :: rs) kc.2).map (hit kc.1 t) else none) = some (h, ps) ∧
          (isVar kc.1 = true → ∀ lc ∈ n.lits,
            (if matchTok lc.1 t then (next (r :: rs) lc.2).map (hit lc.1 t) else none) = none) := by
        rcases forEach_some hs with ⟨kc, hm, hp⟩ | ⟨hl, kc, hm, hp⟩
        · refine ⟨kc, Or.inl hm, hp, ?_⟩
          intro hv; have := hwf.lits_lit _ hm; rw [hv] at this; cases this
        · exact ⟨kc, Or.inr hm, hp, fun _ => hl⟩
      obtain ⟨kc, hm, hp, hlits⟩ := key
      by_cases hmt : matchTok kc.1 t = true
      · rw [if_pos hmt] at hp
        cases hnx : next (r :: rs) kc.2 with
        | none => rw [hnx] at hp; cases hp
        | some x =>
          rw [hnx] at hp
          simp only [Option.map_some, Option.some.injEq] at hp
          have hc := child_of_mem hwf hm
          obtain ⟨ks0, hl0, hd, hpref0⟩ := ih (by simp) kc.2 (child_wf hwf hc) x.1 x.2 hnx
          have hadm : ∀ ks' h', lookupW ks' n = some h' → matchesRaw ks' (t :: r :: rs) →
              prefers (kc.1 :: ks0) ks' = true := by
            intro ks' h' hl' hmr'
            obtain ⟨k', ks0', c', rfl, hc', hl0', hk', hmr0'⟩ := raw_decomp hl' hmr'
            simp only [prefers]
            by_cases hkk : kc.1 = k'
            · simp only [hkk, if_true]
              have : c' = kc.2 := by rw [← hkk, hc] at hc'; exact (Option.some.inj hc').symm
              subst this
              exact hpref0 ks0' h' hl0' hmr0'
            · simp only [hkk, if_false, Bool.not_eq_true', Bool.and_eq_false_iff, Bool.not_eq_false']
              by_cases hv : isVar kc.1 = true
              · right
                cases hvk : isVar k' with
                | true => rfl
                | false =>
                  exfalso
                  rcases child_mem hc' with ⟨_, hml⟩ | ⟨hv', _⟩
                  · have hnone := hlits hv (k', c') hml
                    simp only [hk', if_true, Option.map_eq_none_iff] at hnone
                    have hsome := (next_raw_isSome_iff (r :: rs) (by simp) c' (child_wf hwf hc')).mpr
                      ⟨ks0', h', hl0', hmr0'⟩
                    rw [hnone] at hsome; cases hsome
                  · rw [hvk] at hv'; cases hv'
              · left; simpa using hv
          rcases hd with ⟨hm0, hb0⟩ | ⟨ts, hts, hm0, hb0⟩
          · obtain ⟨e1, e2⟩ := hit_binds kc.1 t x ks0 (r :: rs) hb0
            rw [hp] at e1 e2
            simp only at e1 e2
            exact ⟨kc.1 :: ks0, by simp [lookupW, hc, hl0, e1], Or.inl ⟨by simp [matchesP, hmt, hm0], e2⟩, hadm⟩
          · obtain ⟨e1, e2⟩ := hit_binds kc.1 t x ks0 ts hb0
            rw [hp] at e1 e2
            simp only at e1 e2
            exact ⟨kc.1 :: ks0, by simp [lookupW, hc, hl0, e1],
              Or.inr ⟨t :: ts, by rw [hts]; rfl, by simp [matchesP, hmt, hm0], e2⟩, hadm⟩
      · rw [if_neg hmt] at hp; cases hp

/-- **`Tree.Search` with an arbitrary string, full statement**: a hit names a stored key that matches the raw
elements, with exactly its bound segments, and that no other matching stored key beats (literal before variable at
the first differing segment) — what the driver's raw-tree monitor checks. -/
theorem tree_search_raw_admissible (root : Node) (hwf : WF root) (route : String) (h : H) (ps : Params)
    (hs : treeSearch root route = some (h, ps)) :
    rooted route = true ∧ ∃ ks, lookupW ks root = some h ∧
      ((matchesP ks (toksOf route) = true ∧ ps = (binds ks (toksOf route)).reverse) ∨
       (∃ ts, toksOf route = ts ++ [""] ∧ matchesP ks ts = true ∧ ps = (binds ks ts).reverse)) ∧
      ∀ ks' h', lookupW ks' root = some h' → matchesRaw ks' (toksOf route) → prefers ks ks' = true := by
  unfold treeSearch at hs
  cases hr : rooted route with
  | false => simp [hr] at hs
  | true =>
    simp only [hr, Bool.not_true, Bool.false_eq_true, if_false] at hs
    exact ⟨rfl, next_raw_admissible _ (toksOf_ne_nil route) root hwf h ps hs⟩

end GoZero.C09
