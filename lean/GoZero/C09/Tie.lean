/-
C09 — Tie: what the extractor read from core/search/tree.go and rest/router/patrouter.go *now* equals
what the model was written against.
-/
import GoZero.Extracted.C09
import GoZero.C09.Model
namespace GoZero.C09.Tie
open GoZero.C09
open GoZero.Extracted.C09

theorem extraction_clean : extractionErrors = [] := by decide

end GoZero.C09.Tie
