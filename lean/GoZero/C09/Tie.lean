/-
C09 — Tie: what the extractor read from core/search/tree.go and rest/router/patrouter.go *now* equals what
the model (Model.lean) was written against.  The search tree and the router are ~150 lines in which every
statement is part of the mechanism the property is about, so the obligations list the statements of each
function (normalised by go/printer; comments, blank lines and formatting do not matter).  A failing
obligation means: re-read the function, update the model *and its proofs*, then update the list.
-/
import GoZero.Extracted.C09
import GoZero.C09.Model
namespace GoZero.C09.Tie
open GoZero.C09
open GoZero.Extracted.C09

theorem extraction_clean : extractionErrors = [] := rfl

/-- `colon`/`slash`: the model's `isVar` tests the first character against ':' and `splitSlash` splits at '/'. -/
theorem tie_colon_slash : colon = (':'.toNat : Int) ∧ slash = ('/'.toNat : Int) := by decide

/-- the model's variable test and its tokeniser use exactly these two constants. -/
theorem tie_isVar_colon (k : String) : isVar k = (k.toList.head? == some (Char.ofNat colon.toNat)) := rfl

theorem tie_split_slash (c : Char) (cs cur : List Char) :
    splitSlash (c :: cs) cur =
      if c = Char.ofNat slash.toNat then String.ofList cur.reverse :: splitSlash cs [] else splitSlash cs (c :: cur) := rfl

/-- the 405 reply uses the `Allow` header with ", " between methods (the harness splits at exactly this). -/
theorem tie_allow : allowHeader = "Allow" ∧ allowMethodSeparator = ", " := by decide

/-- `validMethod` accepts exactly the model's `validMethods` (net/http method constants are their own names upper-cased). -/
theorem tie_validMethods :
    validMethodTests = validMethods.map fun m =>
      "method == http.Method" ++ String.ofList (match m.toList with | c :: cs => c :: cs.map Char.toLower | [] => []) := by
  decide

/-- `Tree.next` — model `next`: (1) empty route at a node with an item ⇒ found; (2) first slash: token = route[:i],
forEach child with `match(k, token).found` *and* a successful recursive search of `route[i+1:]`, `addParam` only after
the recursion succeeded (⇒ innermost binding first); (3) no slash: forEach child that matches the whole rest *and* has an item. -/
theorem tie_nextStmts : nextStmts = [
  "if len(route) == 0 && n.item != nil {",
  "result.Item = n.item",
  "return true",
  "}",
  "range i := route {",
  "if route[i] != slash {",
  "continue",
  "}",
  "token := route[:i]",
  "return n.forEach(func(k string, v *node) bool{...})",
  "func{",
  "r := match(k, token)",
  "if !r.found || !t.next(v, route[i+1:], result) {",
  "return false",
  "}",
  "if r.named {",
  "addParam(result, r.key, r.value)",
  "}",
  "return true",
  "}",
  "}",
  "return n.forEach(func(k string, v *node) bool{...})",
  "func{",
  "if r := match(k, route); r.found && v.item != nil {",
  "result.Item = v.item",
  "if r.named {",
  "addParam(result, r.key, r.value)",
  "}",
  "return true",
  "}",
  "return false",
  "}"] := by rfl

/-- `add` — model `add`: empty route ⇒ set the node's own item (dup if set); leading slash ⇒ dupSlash; first slash:
get-or-create the child under `token` in `getChildren(token)` and recurse on `route[i+1:]`; no slash: set the item of
the child under `route` (dup if set) or create it with the item. -/
theorem tie_addStmts : addStmts = [
  "if len(route) == 0 {",
  "if nd.item != nil {",
  "return errDupItem",
  "}",
  "nd.item = item",
  "return nil",
  "}",
  "if route[0] == slash {",
  "return errDupSlash",
  "}",
  "range i := route {",
  "if route[i] != slash {",
  "continue",
  "}",
  "token := route[:i]",
  "children := nd.getChildren(token)",
  "if child, ok := children[token]; ok {",
  "if child == nil {",
  "return errInvalidState",
  "}",
  "return add(child, route[i+1:], item)",
  "}",
  "child := newNode(nil)",
  "children[token] = child",
  "return add(child, route[i+1:], item)",
  "}",
  "children := nd.getChildren(route)",
  "if child, ok := children[route]; ok {",
  "if child.item != nil {",
  "return errDupItem",
  "}",
  "child.item = item",
  "}",
  "else{",
  "children[route] = newNode(item)",
  "}",
  "return nil"] := by rfl

/-- `node.forEach` — model `forEach`: `children[0]` (literals) before `children[1]` (variables); first callback returning true wins. -/
theorem tie_forEachStmts : forEachStmts = [
  "range _, children := nd.children {",
  "range k, v := children {",
  "if fn(k, v) {",
  "return true",
  "}",
  "}",
  "}",
  "return false"] := by rfl

/-- `getChildren` — model `isVar`/`updChild`/`child`: tokens starting with ':' live in `children[1]`, all others in `children[0]`. -/
theorem tie_getChildrenStmts : getChildrenStmts = [
  "if len(route) > 0 && route[0] == colon {",
  "return nd.children[1]",
  "}",
  "return nd.children[0]"] := by rfl

/-- `match` — model `matchTok`/`hit`/`varName`: a ':' pattern matches any token and binds `pat[1:]` to it; a literal matches only itself. -/
theorem tie_matchStmts : matchStmts = [
  "if pat[0] == colon {",
  "return innerResult{ key: pat[1:], value: token, named: true, found: true, }",
  "}",
  "return innerResult{ found: pat == token, }"] := by rfl

/-- `addParam` — model `paramMap`: a map write, a later call with the same name overwrites. -/
theorem tie_addParamStmts : addParamStmts = [
  "if result.Params == nil {",
  "result.Params = make(map[string]string)",
  "}",
  "result.Params[k] = v"] := by rfl

/-- `newNode` — model `newNode`: the given item and two empty children maps. -/
theorem tie_newNodeStmts : newNodeStmts = [
  "return &node{ item: item, children: [2]map[string]*node{ make(map[string]*node), make(map[string]*node), }, }"] := by rfl

/-- `Tree.Search` — model `treeSearch`: not rooted ⇒ not found; else `next(root, route[1:])`. -/
theorem tie_treeSearchStmts : treeSearchStmts = [
  "if len(route) == 0 || route[0] != slash {",
  "return NotFound, false",
  "}",
  "var result Result",
  "ok := t.next(t.root, route[1:], &result)",
  "return result, ok"] := by rfl

/-- `Tree.Add` — model `treeAdd`: not rooted ⇒ errNotFromRoot; nil item ⇒ errEmptyItem; else `add(root, route[1:], item)`. -/
theorem tie_treeAddStmts : treeAddStmts = [
  "if len(route) == 0 || route[0] != slash {",
  "return errNotFromRoot",
  "}",
  "if item == nil {",
  "return errEmptyItem",
  "}",
  "err := add(t.root, route[1:], item)",
  "switch {",
  "case errors.Is(err, errDupItem):",
  "return duplicatedItem(route)",
  "case errors.Is(err, errDupSlash):",
  "return duplicatedSlash(route)",
  "default:",
  "return err",
  "}"] := by rfl

/-- `patRouter.Handle` — model `handle`: validMethod, then leading '/', then `path.Clean`, then `Add` on the method's tree (created on first use). -/
theorem tie_handleStmts : handleStmts = [
  "if !validMethod(method) {",
  "return ErrInvalidMethod",
  "}",
  "if len(reqPath) == 0 || reqPath[0] != '/' {",
  "return ErrInvalidPath",
  "}",
  "cleanPath := path.Clean(reqPath)",
  "tree, ok := pr.trees[method]",
  "if ok {",
  "return tree.Add(cleanPath, handler)",
  "}",
  "tree = search.NewTree()",
  "pr.trees[method] = tree",
  "return tree.Add(cleanPath, handler)"] := by rfl

/-- `patRouter.ServeHTTP` — model `serve`: Clean; search the tree of `r.Method`; hit ⇒ run the item with the params (when any); else `methodsAllowed` ⇒ 404 when none, else 405 with the Allow header. -/
theorem tie_serveStmts : serveStmts = [
  "reqPath := path.Clean(r.URL.Path)",
  "if tree, ok := pr.trees[r.Method]; ok {",
  "if result, ok := tree.Search(reqPath); ok {",
  "if len(result.Params) > 0 {",
  "r = pathvar.WithVars(r, result.Params)",
  "}",
  "result.Item.(http.Handler).ServeHTTP(w, r)",
  "return",
  "}",
  "}",
  "allows, ok := pr.methodsAllowed(r.Method, reqPath)",
  "if !ok {",
  "pr.handleNotFound(w, r)",
  "return",
  "}",
  "if pr.notAllowed != nil {",
  "pr.notAllowed.ServeHTTP(w, r)",
  "}",
  "else{",
  "w.Header().Set(allowHeader, allows)",
  "w.WriteHeader(http.StatusMethodNotAllowed)",
  "}"] := by rfl

/-- `handleNotFound` — the default is `http.NotFound` (404). -/
theorem tie_handleNotFoundStmts : handleNotFoundStmts = [
  "if pr.notFound != nil {",
  "pr.notFound.ServeHTTP(w, r)",
  "}",
  "else{",
  "http.NotFound(w, r)",
  "}"] := by rfl

/-- `methodsAllowed` — model `methodsAllowed`: every *other* method whose tree finds the path; joined with ", ". -/
theorem tie_methodsAllowedStmts : methodsAllowedStmts = [
  "var allows []string",
  "range treeMethod, tree := pr.trees {",
  "if treeMethod == method {",
  "continue",
  "}",
  "_, ok := tree.Search(path)",
  "if ok {",
  "allows = append(allows, treeMethod)",
  "}",
  "}",
  "if len(allows) > 0 {",
  "return strings.Join(allows, allowMethodSeparator), true",
  "}",
  "return \"\", false"] := by rfl

/-- `validMethod` is a single disjunction of equalities (the tests are tied by `tie_validMethods`). -/
theorem tie_validMethodStmts : validMethodStmts = [
  "return method == http.MethodDelete || method == http.MethodGet || method == http.MethodHead || method == http.MethodOptions || method == http.MethodPatch || method == http.MethodPost || method == http.MethodPut"] := by rfl

/-! ### custom handlers, path variables, rest.Server / engine wiring -/

/-- `SetNotFoundHandler` — model `PatRouter.notFound` (driver op `setnf`): plain overwrite, nil resets to the default. -/
theorem tie_setNotFoundStmts : setNotFoundStmts = [
  "pr.notFound = handler"] := by rfl

/-- `SetNotAllowedHandler` — model `PatRouter.notAllowed` (driver op `setna`). -/
theorem tie_setNotAllowedStmts : setNotAllowedStmts = [
  "pr.notAllowed = handler"] := by rfl

/-- `NewRouter` — model `({} : PatRouter)`: no trees, no custom handlers. -/
theorem tie_newRouterStmts : newRouterStmts = [
  "return &patRouter{ trees: make(map[string]*search.Tree), }"] := by rfl

/-- `pathvar.Vars` — what a handler sees: the map stored under the context key, nil when none was stored. -/
theorem tie_pathvarVarsStmts : pathvarVarsStmts = [
  "vars, ok := r.Context().Value(pathVars).(map[string]string)",
  "if ok {",
  "return vars",
  "}",
  "return nil"] := by rfl

/-- `pathvar.WithVars` — the params map of the search result is stored as is (no copy, no merge with an outer map). -/
theorem tie_pathvarWithVarsStmts : pathvarWithVarsStmts = [
  "return r.WithContext(context.WithValue(r.Context(), pathVars, params))"] := by rfl

/-- `engine.addRoutes` — model `Server.addRoutes`: the group is appended to `ng.routes` (SSE wrapping keeps method and path). -/
theorem tie_engineAddRoutesStmts : engineAddRoutesStmts = [
  "if r.sse {",
  "r.routes = buildSSERoutes(r.routes)",
  "}",
  "ng.routes = append(ng.routes, r)",
  "if r.timeout > ng.timeout {",
  "ng.timeout = r.timeout",
  "}"] := by rfl

/-- `engine.bindRoutes` — model `Server.bindRoutes`/`bindAll`: groups in `AddRoutes` order, the first error aborts. -/
theorem tie_engineBindRoutesStmts : engineBindRoutesStmts = [
  "metrics := ng.createMetrics()",
  "range _, fr := ng.routes {",
  "if err := ng.bindFeaturedRoutes(router, fr, metrics); err != nil {",
  "return err",
  "}",
  "}",
  "return nil"] := by rfl

/-- `engine.bindFeaturedRoutes` — model `bindAll` over `Group.regs`: routes of a group in order, the first error aborts. -/
theorem tie_engineBindFeaturedStmts : engineBindFeaturedStmts = [
  "verifier, err := ng.signatureVerifier(fr.signature)",
  "if err != nil {",
  "return err",
  "}",
  "range _, route := fr.routes {",
  "if err := ng.bindRoute(fr, router, metrics, route, verifier); err != nil {",
  "return err",
  "}",
  "}",
  "return nil"] := by rfl

/-- `engine.bindRoute` — model: `router.Handle(route.Method, route.Path, chain(route.Handler))`: method and path unchanged, the handler is the route's own behind the middleware chain. -/
theorem tie_engineBindRouteStmts : engineBindRouteStmts = [
  "chn := ng.chain",
  "if chn == nil {",
  "chn = ng.buildChainWithNativeMiddlewares(fr, route, metrics)",
  "}",
  "chn = ng.appendAuthHandler(fr, chn, verifier)",
  "range _, middleware := ng.middlewares {",
  "chn = chn.Append(convertMiddleware(middleware))",
  "}",
  "handle := chn.ThenFunc(route.Handler)",
  "return router.Handle(route.Method, route.Path, handle)"] := by rfl

/-- `engine.notFoundHandler` — model `NFHandler.engine next`: `next` (or `http.NotFoundHandler()`) runs behind trace/log, then the status is forced to 404 unless already written (driver `fmtResponse`). -/
theorem tie_engineNotFoundStmts : engineNotFoundStmts = [
  "return http.HandlerFunc(func(w http.ResponseWriter, r *http.Request){...})",
  "func{",
  "chn := chain.New( handler.TraceHandler(ng.conf.Name, \"\", handler.WithTraceIgnorePaths(ng.conf.TraceIgnorePaths)), )",
  "if ng.conf.Middlewares.Log {",
  "chn = chn.Append(ng.getLogHandler())",
  "}",
  "var h http.Handler",
  "if next != nil {",
  "h = chn.Then(next)",
  "}",
  "else{",
  "h = chn.Then(http.NotFoundHandler())",
  "}",
  "cw := response.NewHeaderOnceResponseWriter(w)",
  "h.ServeHTTP(cw, r)",
  "cw.WriteHeader(http.StatusNotFound)",
  "}"] := by rfl

/-- `NewServer` — model `newServer`: a fresh `router.NewRouter()`, `WithNotFoundHandler(nil)` first, then the options in the given order. -/
theorem tie_newServerStmts : newServerStmts = [
  "if err := c.SetUp(); err != nil {",
  "return nil, err",
  "}",
  "server := &Server{ ngin: newEngine(c), router: router.NewRouter(), }",
  "opts = append([]RunOption{WithNotFoundHandler(nil)}, opts...)",
  "range _, opt := opts {",
  "opt(server)",
  "}",
  "return server, nil"] := by rfl

/-- `Server.AddRoutes` — model `Group`/`Server.addRoutes`: the route options (WithPrefix) are applied to the group, then `engine.addRoutes`. -/
theorem tie_serverAddRoutesStmts : serverAddRoutesStmts = [
  "r := featuredRoutes{ routes: rs, }",
  "range _, opt := opts {",
  "opt(&r)",
  "}",
  "s.ngin.addRoutes(r)"] := by rfl

/-- `Server.Routes` — what the harness prints for a `group` op: the stored routes in order. -/
theorem tie_serverRoutesStmts : serverRoutesStmts = [
  "routes := make([]Route, 0, len(s.ngin.routes))",
  "range _, r := s.ngin.routes {",
  "routes = append(routes, r.routes...)",
  "}",
  "return routes"] := by rfl

/-- `WithPrefix` — model `Group.regs`/`joinRaw`: every route path becomes `path.Join(group, path)`, method and handler kept. -/
theorem tie_withPrefixStmts : withPrefixStmts = [
  "return func(r *featuredRoutes){...}",
  "func{",
  "routes := make([]Route, 0, len(r.routes))",
  "range _, rt := r.routes {",
  "p := path.Join(group, rt.Path)",
  "routes = append(routes, Route{ Method: rt.Method, Path: p, Handler: rt.Handler, })",
  "}",
  "r.routes = routes",
  "}"] := by rfl

/-- `WithNotFoundHandler` — model `Server.apply (.notFound h)`: the router's notFound is the engine wrapper around `h`. -/
theorem tie_withNotFoundStmts : withNotFoundStmts = [
  "return func(server *Server){...}",
  "func{",
  "notFoundHandler := server.ngin.notFoundHandler(handler)",
  "server.router.SetNotFoundHandler(notFoundHandler)",
  "}"] := by rfl

/-- `WithNotAllowedHandler` — model `Server.apply (.notAllowed h)`: set on the router as is (no wrapper; nil = default 405 + Allow). -/
theorem tie_withNotAllowedStmts : withNotAllowedStmts = [
  "return func(server *Server){...}",
  "func{",
  "server.router.SetNotAllowedHandler(handler)",
  "}"] := by rfl

/-! ### round 4: the remaining functions of the public API -/

/-- `Server.AddRoute` — model `ApiOp.addOne`: `AddRoutes([]Route{r}, opts...)`, the options are forwarded. -/
theorem tie_serverAddRouteStmts : serverAddRouteStmts = [
  "s.AddRoutes([]Route{r}, opts...)"] := by rfl

/-- `WithJwt` — model `RouteOpt.jwt`: enabled + secret; `prevSecret` is not reset. -/
theorem tie_withJwtStmts : withJwtStmts = [
  "return func(r *featuredRoutes){...}",
  "func{",
  "validateSecret(secret)",
  "r.jwt.enabled = true",
  "r.jwt.secret = secret",
  "}"] := by rfl

/-- `WithJwtTransition` — model `RouteOpt.jwtTransition`. -/
theorem tie_withJwtTransitionStmts : withJwtTransitionStmts = [
  "return func(r *featuredRoutes){...}",
  "func{",
  "validateSecret(secret)",
  "r.jwt.enabled = true",
  "r.jwt.secret = secret",
  "r.jwt.prevSecret = prevSecret",
  "}"] := by rfl

/-- `WithMaxBytes` — model `RouteOpt.maxBytes`: only the setting. -/
theorem tie_withMaxBytesStmts : withMaxBytesStmts = [
  "return func(r *featuredRoutes){...}",
  "func{",
  "r.maxBytes = maxBytes",
  "}"] := by rfl

/-- `WithMiddlewares` — the first middleware ends up outermost (harness trail `mw=1.2…`, monitor clause "ran behind middlewares"). -/
theorem tie_withMiddlewaresStmts : withMiddlewaresStmts = [
  "for i >= 0 {",
  "rs = WithMiddleware(ms[i], rs...)",
  "}",
  "return rs"] := by rfl

/-- `WithMiddleware` — a fresh slice, method and path copied, handler wrapped (the caller's slice is not written). -/
theorem tie_withMiddlewareStmts : withMiddlewareStmts = [
  "routes := make([]Route, len(rs))",
  "range i := rs {",
  "route := rs[i]",
  "routes[i] = Route{ Method: route.Method, Path: route.Path, Handler: middleware(route.Handler), }",
  "}",
  "return routes"] := by rfl

/-- `WithPriority` — model `RouteOpt.priority`. -/
theorem tie_withPriorityStmts : withPriorityStmts = [
  "return func(r *featuredRoutes){...}",
  "func{",
  "r.priority = true",
  "}"] := by rfl

/-- `WithSSE` — model `RouteOpt.sse`: sse flag, timeout reset. -/
theorem tie_withSSEStmts : withSSEStmts = [
  "return func(r *featuredRoutes){...}",
  "func{",
  "r.sse = true",
  "r.timeout = 0",
  "}"] := by rfl

/-- `WithTimeout` — model `RouteOpt.timeout`. -/
theorem tie_withTimeoutStmts : withTimeoutStmts = [
  "return func(r *featuredRoutes){...}",
  "func{",
  "r.timeout = timeout",
  "}"] := by rfl

/-- `buildSSERoutes` — overwrites ONLY `routes[i].Handler` in place (method and path of the possibly caller-owned slice untouched: `Api.step` comment). -/
theorem tie_buildSSERoutesStmts : buildSSERoutesStmts = [
  "range i, route := routes {",
  "h := route.Handler",
  "routes[i].Handler = func(w http.ResponseWriter, r *http.Request){...}",
  "func{",
  "w.Header().Set(header.ContentType, header.ContentTypeEventStream)",
  "w.Header().Set(header.CacheControl, header.CacheControlNoCache)",
  "w.Header().Set(header.Connection, header.ConnectionKeepAlive)",
  "h(w, r)",
  "}",
  "}",
  "return routes"] := by rfl

/-- `engine.appendAuthHandler` — driver `dec`/`tokenOk`: a group with jwt enabled gets `handler.Authorize(secret[, prevSecret])` in front of the route handler — the GROUP's own settings. -/
theorem tie_engineAppendAuthStmts : engineAppendAuthStmts = [
  "if fr.jwt.enabled {",
  "if len(fr.jwt.prevSecret) == 0 {",
  "chn = chn.Append(handler.Authorize(fr.jwt.secret, handler.WithUnauthorizedCallback(ng.unauthorizedCallback)))",
  "}",
  "else{",
  "chn = chn.Append(handler.Authorize(fr.jwt.secret, handler.WithPrevSecret(fr.jwt.prevSecret), handler.WithUnauthorizedCallback(ng.unauthorizedCallback)))",
  "}",
  "}",
  "return verifier(chn)"] := by rfl

/-- `convertMiddleware` — `Server.Use` middlewares wrap `next.ServeHTTP` (not exercised). -/
theorem tie_convertMiddlewareStmts : convertMiddlewareStmts = [
  "return func(next http.Handler) http.Handler{...}",
  "func{",
  "return ware(next.ServeHTTP)",
  "}"] := by rfl

/-! ### round 4: decision conditions TRANSLATED from the Go expressions (extract/c09.go `c09Cond`) and proven equal,
for all arguments, to the model's functions — operator, constant, negation and argument of every condition on the
property's path are pinned semantically (the statement lists above pin order and forwarding). -/

theorem slash_char : Char.ofNat slash.toNat = '/' := by decide
theorem colon_char : Char.ofNat colon.toNat = ':' := by decide

/-- `Tree.Add`, `Tree.Search`: `len(route) == 0 || route[0] != slash`; `Handle`: `len(reqPath) == 0 || reqPath[0] != '/'`
— all three are the model's `!rooted`. -/
theorem tie_cond_notFromRoot (s : String) :
    condAddNotFromRoot s = !rooted s ∧ condSearchNotFromRoot s = !rooted s ∧ condHandleBadPath s = !rooted s := by
  unfold condAddNotFromRoot condSearchNotFromRoot condHandleBadPath rooted
  rw [slash_char, ← String.length_toList]
  cases s.toList <;> simp

/-- `getChildren`: `len(route) > 0 && route[0] == colon`; `match`: `pat[0] == colon` — the model's `isVar`. -/
theorem tie_cond_isVar (k : String) : condGetChildrenVar k = isVar k ∧ condMatchNamed k = isVar k := by
  unfold condGetChildrenVar condMatchNamed isVar
  rw [colon_char, ← String.length_toList]
  cases k.toList <;> simp

/-- `match(pat, token).found` = named, or `pat == token` — the model's `matchTok`. -/
theorem tie_cond_match (k t : String) : matchTok k t = (condMatchNamed k || condMatchLiteral k t) := by
  rw [(tie_cond_isVar k).2]; rfl

/-- `validMethod`: the disjunction of equalities with net/http's method constants is the model's `validMethod`. -/
theorem tie_cond_validMethod (m : String) : condValidMethod m = validMethod m ∧ condHandleBadMethod (validMethod m) = !validMethod m := by
  refine ⟨?_, rfl⟩
  unfold condValidMethod validMethod validMethods
  simp only [List.contains, List.elem, Bool.or_assoc]
  cases (m == "DELETE") <;> cases (m == "GET") <;> cases (m == "HEAD") <;> cases (m == "OPTIONS") <;>
    cases (m == "PATCH") <;> cases (m == "POST") <;> cases (m == "PUT") <;> rfl

/-- the tokeniser: `route[i] != slash` (in `next` and in `add`) is the test `splitSlash` splits at. -/
theorem tie_cond_split (c : Char) (cs cur : List Char) :
    condNextNotSlash c = condAddNotSlash c ∧
    splitSlash (c :: cs) cur =
      if condNextNotSlash c then splitSlash cs (c :: cur) else String.ofList cur.reverse :: splitSlash cs [] := by
  unfold condNextNotSlash condAddNotSlash
  rw [slash_char]
  refine ⟨rfl, ?_⟩
  show (if c = '/' then _ else _) = _
  by_cases h : c = '/' <;> simp [h]

/-- `Tree.next`, first test: `len(route) == 0 && n.item != nil` — the model's `t = "" ∧ n.item.isSome` on the last token. -/
theorem tie_cond_nextHere (t : String) (n : Node) :
    condNextHere t n.item.isSome = decide (t = "" ∧ n.item.isSome) := by
  unfold condNextHere
  have : (t.length == 0) = decide (t = "") := by
    rw [← String.length_toList]
    by_cases h : t = ""
    · subst h; rfl
    · have : t.toList ≠ [] := fun e => h (by rw [← String.ofList_toList (s := t), e])
      cases hl : t.toList with
      | nil => exact absurd hl this
      | cons c cs => simp [h]
  rw [this]
  by_cases h : t = "" <;> simp [h]

/-- `Tree.next`, inner segment: the child is skipped iff `!r.found || !t.next(v, rest)` — the model's callback
succeeds iff the token matches AND the search of the rest below the child succeeds. -/
theorem tie_cond_nextSkip (k t : String) (rest : List String) (c : Node) :
    (if matchTok k t then (next rest c).map (hit k t) else none).isNone =
      condNextSkip (matchTok k t) (next rest c).isSome := by
  unfold condNextSkip
  cases matchTok k t <;> cases next rest c <;> rfl

/-- `Tree.next`, last segment: the child is taken iff `r.found && v.item != nil`. -/
theorem tie_cond_nextLast (k t : String) (c : Node) :
    (if matchTok k t then c.item.map (fun h => hit k t (h, [])) else none).isSome =
      condNextLast (matchTok k t) c.item.isSome := by
  unfold condNextLast
  cases matchTok k t <;> cases c.item <;> rfl

/-- `addParam` only under `r.named`: the model's `hit` adds the parameter iff the pattern is a variable. -/
theorem tie_cond_named (k t : String) (r : H × Params) :
    hit k t r = if condNextNamed (condMatchNamed k) then (r.1, r.2 ++ [(varName k, t)]) else r := by
  unfold condNextNamed; rw [(tie_cond_isVar k).2]; rfl

/-- `add`: `len(route) == 0` / `nd.item != nil` / `route[0] == slash` / `child.item != nil`, and `Tree.Add`'s `item == nil`:
the model's end-of-route, duplicate, double-slash (an empty next element = the rest starts with '/') and nil-item tests. -/
theorem tie_cond_add (s : String) (i : Option H) :
    condAddEnd s = decide (s.toList = []) ∧ condAddDupSlash s = (s.toList.head? == some '/') ∧
    condAddDupHere i.isSome = i.isSome ∧ condAddDupChild i.isSome = i.isSome ∧ condAddEmptyItem i.isSome = i.isNone := by
  unfold condAddEnd condAddDupSlash condAddDupHere condAddDupChild condAddEmptyItem
  rw [slash_char, ← String.length_toList]
  refine ⟨?_, rfl, rfl, rfl, by cases i <;> rfl⟩
  cases s.toList <;> simp

/-- `ServeHTTP` / `handleNotFound` / `methodsAllowed`: vars installed iff some were bound; 404 iff no other method
matches (`!ok`, `len(allows) > 0`); the custom handlers run iff set; the own method is skipped. -/
theorem tie_cond_serve (ps : Params) (allows : List String) (na : Option H) (nf : Option NFHandler) (a b : String) :
    condServeHasParams ps.length = !ps.isEmpty ∧ condAllowedAny allows.length = !allows.isEmpty ∧
    condServeNotFound (condAllowedAny allows.length) = allows.isEmpty ∧
    condServeCustomNA na.isSome = na.isSome ∧ condCustomNF nf.isSome = nf.isSome ∧
    condAllowedSkipOwn a b = (a == b) ∧ condEngineNFCustom na.isSome = na.isSome := by
  unfold condServeHasParams condAllowedAny condServeNotFound condServeCustomNA condCustomNF condAllowedSkipOwn
    condEngineNFCustom
  refine ⟨by cases ps <;> simp, by cases allows <;> simp, by cases allows <;> simp, rfl, rfl, rfl, rfl⟩

/-- the model's `serve` decides with exactly these conditions: 404 iff `methodsAllowed` is empty. -/
theorem tie_cond_serve_model (r : Router) (m p : String) (h : (r.trees.lookup m).bind (searchClean · p) = none) :
    (serve r m p = .notFound) = (condServeNotFound (condAllowedAny (methodsAllowed r m p).length) = true) := by
  unfold serve
  rw [h]
  rw [(tie_cond_serve [] (methodsAllowed r m p) none none "" "").2.2.1]
  cases methodsAllowed r m p <;> simp


/-! ### round 5: the remaining entry points, whole if-return bodies, forwarded argument lists -/

/-- `MustNewServer` — model `mustNewServer = newServer`: the options are forwarded. -/
theorem tie_mustNewServerStmts : mustNewServerStmts = [
  "server, err := NewServer(c, opts...)",
  "if err != nil {",
  "logx.Must(err)",
  "}",
  "return server"] := by rfl

/-- `Server.Start` / `StartWithOpts` — model `Server.start`: `handleError` of `engine.start` on the server's router. -/
theorem tie_serverStartStmts : serverStartStmts = ["handleError(s.ngin.start(s.router))"] ∧
    serverStartWithOptsStmts = ["handleError(s.ngin.start(s.router, opts...))"] := ⟨rfl, rfl⟩

/-- `handleError` — model `StartResult.panics`: nil and `http.ErrServerClosed` return, everything else panics. -/
theorem tie_handleErrorStmts : handleErrorStmts = [
  "if err == nil || errors.Is(err, http.ErrServerClosed) {",
  "return",
  "}",
  "logx.Error(err)",
  "panic(err)"] := by rfl

/-- `engine.start` — model `Server.start`: `bindRoutes` FIRST, its error returned before anything listens. -/
theorem tie_engineStartStmts : engineStartStmts.take 3 = [
  "if err := ng.bindRoutes(router); err != nil {",
  "return err",
  "}"] ∧ engineStartCalls.head? = some ("ng.bindRoutes", ["router"]) := ⟨rfl, rfl⟩

/-- `Server.Use` / `engine.use` — the driver's `St.uses`: appended, in call order. -/
theorem tie_useStmts : serverUseStmts = ["s.ngin.use(middleware)"] ∧
    engineUseStmts = ["ng.middlewares = append(ng.middlewares, middleware)"] := ⟨rfl, rfl⟩

/-- `WithRouter` — model `RunOpt.router`: the server's router is REPLACED. -/
theorem tie_withRouterStmts : withRouterStmts = [
  "return func(server *Server){...}",
  "func{",
  "server.router = router",
  "}"] := by rfl

/-- all argument lists with which `f` is called. -/
def argsOf (cs : List (String × List String)) (f : String) : List (List String) := (cs.filter (·.1 == f)).map (·.2)

/-- **forwarded arguments of the delegating entry points** (a dropped, reordered or replaced argument breaks these):
`AddRoute` → `AddRoutes([]Route{r}, opts...)`; `MustNewServer` → `NewServer(c, opts...)`; `Start` → `start(s.router)`;
`Use` → `use(middleware)` → `append(ng.middlewares, middleware)`. -/
theorem tie_calls_server :
    serverAddRouteCalls = [("s.AddRoutes", ["[]Route{r}", "opts..."])] ∧
    mustNewServerCalls.head? = some ("NewServer", ["c", "opts..."]) ∧
    serverStartCalls = [("handleError", ["s.ngin.start(s.router)"]), ("s.ngin.start", ["s.router"])] ∧
    serverStartWithOptsCalls = [("handleError", ["s.ngin.start(s.router, opts...)"]), ("s.ngin.start", ["s.router", "opts..."])] ∧
    serverUseCalls = [("s.ngin.use", ["middleware"])] ∧
    engineUseCalls = [("append", ["ng.middlewares", "middleware"])] := ⟨rfl, rfl, rfl, rfl, rfl, rfl⟩

/-- `bindRoutes` → `bindFeaturedRoutes(router, fr, metrics)` → `bindRoute(fr, router, metrics, route, verifier)` →
`router.Handle(route.Method, route.Path, handle)` with `handle = chn.ThenFunc(route.Handler)` — model `bindGroups` /
`bindAll` / `handle r m p item` per registration (method, path and handler of the SAME route). -/
theorem tie_calls_engine :
    engineBindRoutesCalls = [("ng.createMetrics", []), ("ng.bindFeaturedRoutes", ["router", "fr", "metrics"])] ∧
    engineBindFeaturedCalls = [("ng.signatureVerifier", ["fr.signature"]),
      ("ng.bindRoute", ["fr", "router", "metrics", "route", "verifier"])] ∧
    argsOf engineBindRouteCalls "router.Handle" = [["route.Method", "route.Path", "handle"]] ∧
    argsOf engineBindRouteCalls "chn.ThenFunc" = [["route.Handler"]] ∧
    argsOf engineBindRouteCalls "ng.appendAuthHandler" = [["fr", "chn", "verifier"]] ∧
    engineBindRouteCalls.getLast? = some ("router.Handle", ["route.Method", "route.Path", "handle"]) :=
  ⟨rfl, rfl, rfl, rfl, rfl, rfl⟩

/-- `Tree.Add` → `add(t.root, route[1:], item)`, `Tree.Search` → `next(t.root, route[1:], &result)` (model: `toksOf`
drops the first byte); `Handle` → `path.Clean(reqPath)`, `tree.Add(cleanPath, handler)` on both branches;
`ServeHTTP` → `path.Clean(r.URL.Path)`, `tree.Search(reqPath)`, `pathvar.WithVars(r, result.Params)`,
`methodsAllowed(r.Method, reqPath)` (the CLEANED path everywhere: seeded change C09-3); `methodsAllowed` →
`tree.Search(path)`. -/
theorem tie_calls_router :
    argsOf treeAddCalls "add" = [["t.root", "route[1:]", "item"]] ∧
    argsOf treeSearchCalls "t.next" = [["t.root", "route[1:]", "&result"]] ∧
    argsOf handleCalls "path.Clean" = [["reqPath"]] ∧
    argsOf handleCalls "tree.Add" = [["cleanPath", "handler"], ["cleanPath", "handler"]] ∧
    argsOf serveCalls "path.Clean" = [["r.URL.Path"]] ∧
    argsOf serveCalls "tree.Search" = [["reqPath"]] ∧
    argsOf serveCalls "pathvar.WithVars" = [["r", "result.Params"]] ∧
    argsOf serveCalls "pr.methodsAllowed" = [["r.Method", "reqPath"]] ∧
    argsOf methodsAllowedCalls "tree.Search" = [["path"]] := ⟨rfl, rfl, rfl, rfl, rfl, rfl, rfl, rfl, rfl⟩

/-- `pathvar`: `WithVars` stores under the key `Vars` reads (model `pathVarsKey` on both sides). -/
theorem tie_calls_pathvar :
    argsOf pathvarVarsCalls "r.Context().Value" = [["pathVars"]] ∧
    argsOf pathvarWithVarsCalls "context.WithValue" = [["r.Context()", "pathVars", "params"]] ∧
    argsOf pathvarWithVarsCalls "r.WithContext" = [["context.WithValue(r.Context(), pathVars, params)"]] := ⟨rfl, rfl, rfl⟩

/-- **`Tree.Add`, whole prelude**: which exit is taken, for all arguments, and what each exit returns. -/
theorem tie_body_treeAdd (route : String) (item : Bool) :
    treeAddBody route item = (if !rooted route then 0 else if !item then 1 else 2) ∧
    treeAddBodyReturns = ["errNotFromRoot", "errEmptyItem", "<continues>"] := by
  refine ⟨?_, rfl⟩
  have h := (tie_cond_notFromRoot route).1
  unfold condAddNotFromRoot at h
  unfold treeAddBody
  rw [h]

/-- … and the model's `treeAdd` takes the same exits with the same errors. -/
theorem tie_body_treeAdd_model (root : Node) (route : String) (item : Option H) :
    (treeAddBody route item.isSome = 0 → treeAdd root route item = .error .notFromRoot) ∧
    (treeAddBody route item.isSome = 1 → treeAdd root route item = .error .emptyItem) ∧
    (treeAddBody route item.isSome = 2 → ∃ h, item = some h ∧ treeAdd root route item = add (toksOf route) root h) := by
  rw [(tie_body_treeAdd route item.isSome).1]
  unfold treeAdd
  cases hr : rooted route <;> cases item <;> simp

/-- **`Tree.Search`, prelude.** -/
theorem tie_body_treeSearch (root : Node) (route : String) :
    treeSearchBody route = (if !rooted route then 0 else 1) ∧
    treeSearchBodyReturns = ["NotFound, false", "<continues>"] ∧
    (treeSearchBody route = 0 → treeSearch root route = none) ∧
    (treeSearchBody route = 1 → treeSearch root route = next (toksOf route) root) := by
  have h := (tie_cond_notFromRoot route).2.1
  unfold condSearchNotFromRoot at h
  have e : treeSearchBody route = (if !rooted route then 0 else 1) := by unfold treeSearchBody; rw [h]
  refine ⟨e, rfl, ?_, ?_⟩ <;> rw [e] <;> unfold treeSearch <;> cases rooted route <;> simp

/-- **`getChildren`, whole body**: `children[1]` exactly for a `:name` token, `children[0]` otherwise (model `updChild`). -/
theorem tie_body_getChildren (k : String) :
    getChildrenBody k = (if isVar k then 0 else 1) ∧ getChildrenBodyReturns = ["nd.children[1]", "nd.children[0]"] := by
  refine ⟨?_, rfl⟩
  have h := (tie_cond_isVar k).1
  unfold condGetChildrenVar at h
  unfold getChildrenBody
  rw [h]

/-- **`match`, whole body**: a `:name` pattern binds `pat[1:]` (model `varName`) to the token and is found; a literal is
found iff `pat == token` (model `matchTok`, `hit`). -/
theorem tie_body_match (k : String) :
    matchBody k = (if isVar k then 0 else 1) ∧
    matchBodyReturns = ["innerResult{ key: pat[1:], value: token, named: true, found: true, }",
                        "innerResult{ found: pat == token, }"] := by
  refine ⟨?_, rfl⟩
  have h := (tie_cond_isVar k).2
  unfold condMatchNamed at h
  unfold matchBody
  rw [h]

/-- **`Handle`, prelude**: `ErrInvalidMethod` first, then `ErrInvalidPath`, then the tree — as the model's `handle`. -/
theorem tie_body_handle (r : Router) (m p : String) (item : Option H) :
    handleBody (validMethod m) p = (if !validMethod m then 0 else if !rooted p then 1 else 2) ∧
    handleBodyReturns = ["ErrInvalidMethod", "ErrInvalidPath", "<continues>"] ∧
    (handleBody (validMethod m) p = 0 → handle r m p item = .error .invalidMethod) ∧
    (handleBody (validMethod m) p = 1 → handle r m p item = .error .invalidPath) := by
  have h := (tie_cond_notFromRoot p).2.2
  unfold condHandleBadPath at h
  have e : handleBody (validMethod m) p = (if !validMethod m then 0 else if !rooted p then 1 else 2) := by
    unfold handleBody; rw [h]
  refine ⟨e, rfl, ?_, ?_⟩ <;> rw [e] <;> unfold handle <;> cases validMethod m <;> cases rooted p <;> simp

/-- **`pathvar.Vars`, whole body**: the stored map when the context holds one under the key, else nil (model `Ctx.vars`). -/
theorem tie_body_pathvarVars (ok : Bool) :
    pathvarVarsBody ok = (if ok then 0 else 1) ∧ pathvarVarsBodyReturns = ["vars", "nil"] := ⟨rfl, rfl⟩

/-- **`handleError`**: returns for nil / ErrServerClosed, panics otherwise (`tie_handleErrorStmts`). -/
theorem tie_body_handleError (err closed : Bool) :
    handleErrorBody err closed = (if (!err || closed) then 0 else 1) ∧ handleErrorBodyReturns = ["", "<continues>"] ∧
    (handleErrorBody err closed = 1 ↔ handleErrorPanics (!err) closed = true) := by
  refine ⟨rfl, rfl, ?_⟩
  unfold handleErrorBody handleErrorPanics
  cases err <;> cases closed <;> decide

/-- **`engine.bindRoute` / `appendAuthHandler`, decisions** (model `bindChain`, `tokenOk`): the native chain is built
only when no `WithChain` chain is set; an Authorize handler is appended iff the group's jwt is enabled; the previous
secret takes part iff it is non-empty (`tokenOk`: `b != ""`); `Authorize` gets the GROUP's `fr.jwt.secret` /
`fr.jwt.prevSecret`, and the chain goes on through `verifier(chn)`. -/
theorem tie_cond_bindRoute (chain : Option Nat) (jwt : Option (String × String)) (prev : String) (auth : Option String) (a : String) :
    condBindRouteNative chain.isSome = chain.isNone ∧
    ((bindChain chain jwt [] 0).any (fun l => match l with | .auth _ _ => true | _ => false) = condAuthEnabled jwt.isSome) ∧
    (condAuthNoPrev prev = true → tokenOk (some (a, prev)) auth = tokenOk (some (a, "")) auth) ∧
    (condAuthNoPrev prev = (prev == "")) ∧
    argsOf engineAppendAuthCalls "handler.Authorize" =
      [["fr.jwt.secret", "handler.WithUnauthorizedCallback(ng.unauthorizedCallback)"],
       ["fr.jwt.secret", "handler.WithPrevSecret(fr.jwt.prevSecret)", "handler.WithUnauthorizedCallback(ng.unauthorizedCallback)"]] ∧
    engineAppendAuthCalls.getLast? = some ("verifier", ["chn"]) := by
  have hlen : (prev.length == 0) = (prev == "") := by
    rw [← String.length_toList]
    have : prev = String.ofList prev.toList := by simp
    cases h : prev.toList with
    | nil => rw [this, h]; rfl
    | cons c cs =>
      have hne : prev ≠ "" := by intro e; rw [e] at h; cases h
      simp [hne]
  refine ⟨by cases chain <;> rfl, ?_, ?_, hlen, rfl, rfl⟩
  · unfold bindChain condAuthEnabled
    cases jwt with
    | none => simp
    | some ab => simp
  · intro h
    unfold condAuthNoPrev at h
    rw [hlen] at h
    have : prev = "" := by simpa using h
    rw [this]

/-- **what the constructed values are fed from** (typed field lists): `WithPrefix` builds
`Route{Method: rt.Method, Path: path.Join(group, rt.Path), Handler: rt.Handler}` — the model's
`prefixReg g r = (r.1, joinGo g r.2.1, r.2.2)` (method and handler of the SAME route, group first in `Join`);
`AddRoutes` starts from `featuredRoutes{routes: rs}` (the caller's slice, not a copy: model `RoutesRef.caller`), runs every
option on `&r` and hands `r` to `engine.addRoutes`; `NewServer` pairs a new engine with a FRESH `router.NewRouter()`,
`NewRouter` a fresh `trees` map, `NewTree` a root `newNode(nil)`, `newNode` two fresh children maps (model `newNode`,
`({} : PatRouter)`: no state shared between instances — mutations M16, M23). -/
theorem tie_fields :
    withPrefixRouteFields = [("Method", "rt.Method"), ("Path", "p"), ("Handler", "rt.Handler")] ∧
    argsOf withPrefixCalls "path.Join" = [["group", "rt.Path"]] ∧
    addRoutesFeaturedFields = [("routes", "rs")] ∧
    serverAddRoutesCalls = [("opt", ["&r"]), ("s.ngin.addRoutes", ["r"])] ∧
    newServerFields = [("ngin", "newEngine(c)"), ("router", "router.NewRouter()")] ∧
    newRouterFields = [("trees", "make(map[string]*search.Tree)")] ∧
    newTreeFields = [("root", "newNode(nil)")] ∧
    newNodeFields = [("item", "item"),
      ("children", "[2]map[string]*node{ make(map[string]*node), make(map[string]*node), }")] :=
  ⟨rfl, rfl, rfl, rfl, rfl, rfl, rfl, rfl⟩

/-- … and the model's `prefixReg` has exactly this shape. -/
theorem tie_prefixReg (g : String) (r : Reg) :
    (prefixReg g r).1 = r.1 ∧ (prefixReg g r).2.1 = joinGo g r.2.1 ∧ (prefixReg g r).2.2 = r.2.2 := ⟨rfl, rfl, rfl⟩

/-- **`validateSecret`** (model `RouteOpt.panics`): `WithJwt` / `WithJwtTransition` validate the CURRENT secret only, the
option panics iff it is shorter than 8 bytes. -/
theorem tie_validateSecret (s prev : String) :
    condSecretTooShort s.utf8ByteSize = (RouteOpt.jwt s).panics ∧
    condSecretTooShort s.utf8ByteSize = (RouteOpt.jwtTransition s prev).panics ∧
    validateSecretStmts = ["if len(secret) < 8 {", "panic(\"secret's length can't be less than 8\")", "}"] ∧
    withJwtCalls = [("validateSecret", ["secret"])] ∧ withJwtTransitionCalls = [("validateSecret", ["secret"])] :=
  ⟨rfl, rfl, rfl, rfl, rfl⟩

/-- **`WithCors`** (model `RunOpt.cors`, `Server.serveHTTP`): the not-allowed handler is set on the router FIRST, then the
router is wrapped; the wrapper runs `cors.Middleware` around the embedded router's `ServeHTTP`; the middleware answers
itself exactly when the method is `OPTIONS` (the model's preflight test). -/
theorem tie_withCors (s : Server) (m p : String) :
    withCorsStmts = [
      "return func(server *Server){...}",
      "func{",
      "server.router.SetNotAllowedHandler(cors.NotAllowedHandler(nil, origin...))",
      "server.router = newCorsRouter(server.router, nil, origin...)",
      "}"] ∧
    newCorsRouterStmts = ["return &corsRouter{ Router: router, middleware: cors.Middleware(headerFn, origins...), }"] ∧
    corsRouterServeStmts = ["c.middleware(c.Router.ServeHTTP)(w, r)"] ∧
    (∀ ws, wrapServe s.router m p (.cors :: ws) = (if condCorsPreflight m then .preflight else wrapServe s.router m p ws)) ∧
    condCorsNAOptions m = condCorsPreflight m := ⟨rfl, rfl, rfl, fun _ => rfl, rfl⟩

/-! ### round 5c: every structure `ServeHTTP` reads and `Handle` writes (class of seeded change C09-9) -/

abbrev Access := String × String × Nat × String

def Access.isWrite (a : Access) : Bool := a.2.1 == "write" || a.2.1 == "write-index"

/-- **`Handle` writes nothing before a validation or a failing `Add` can return, except a fresh EMPTY tree** (model
`handleM`: the validations return the router untouched; `r1` stores `(method, newNode none)`; everything else is
written by `tree.Add`, which detects a duplicate before writing: `addM_dup_unchanged`).  Its accesses to the router:
one lookup `pr.trees[method]` after the two validation returns, one store `pr.trees[method] = tree` of the tree
created by `search.NewTree()` on the line before — never the handler, no other field. -/
theorem tie_access_handle :
    handleAccess = [("trees", "read-index", 2, "pr.trees[method]"), ("trees", "write-index", 3, "tree")] ∧
    (handleAccess.filter Access.isWrite).all (fun a => a.1 == "trees" && decide (a.2.2.1 ≥ 2) && a.2.2.2 == "tree") = true ∧
    (handleStmts.zip (handleStmts.drop 1)).contains ("tree = search.NewTree()", "pr.trees[method] = tree") = true ∧
    (∀ (r : Router) (m p : String) (item : Option H),
      (!validMethod m || !rooted p) = true → (handleM r m p item).1 = r) := by
  refine ⟨rfl, by decide, by decide, ?_⟩
  intro r m p item h
  unfold handleM
  cases hv : validMethod m
  · simp
  · cases hr : rooted p
    · simp
    · simp [hv, hr] at h

/-- **`ServeHTTP` consults only the trees** to pick the handler (everything before its first `return`), and the whole
request path (`ServeHTTP`, `methodsAllowed`, `handleNotFound`) reads — never writes — exactly the three fields the
struct has: `trees`, `notAllowed`, `notFound` (model `PatRouter`: `core`, `notAllowed`, `notFound`; `serve` reads only
`r.trees`).  The setters write one field each; `Tree.Add` / `Tree.Search` touch only `t.root`. -/
theorem tie_access_serve :
    ((serveAccess.filter fun a => a.2.2.1 == 0).map (·.1)) = ["trees"] ∧
    ((serveAccess ++ methodsAllowedAccess ++ handleNotFoundAccess).any Access.isWrite) = false ∧
    ((serveAccess ++ methodsAllowedAccess ++ handleNotFoundAccess).filter (fun a => a.2.1 != "call")).all
      (fun a => ["trees", "notAllowed", "notFound"].contains a.1) = true ∧
    ((serveAccess.filter fun a => a.2.1 == "call").map (·.1)) = ["methodsAllowed", "handleNotFound"] ∧
    patRouterFields = ["trees map[string]*search.Tree", "notFound http.Handler", "notAllowed http.Handler"] ∧
    setNotFoundAccess = [("notFound", "write", 0, "handler")] ∧
    setNotAllowedAccess = [("notAllowed", "write", 0, "handler")] ∧
    treeAddAccess = [("root", "read", 2, "t.root")] ∧
    treeSearchAccess = [("next", "call", 1, "t.next(t.root, route[1:], &result)"), ("root", "read", 1, "t.root")] := by
  refine ⟨by decide, by decide, by decide, by decide, rfl, rfl, rfl, rfl, rfl⟩

/-- **the other router wrappers** (model `RunOpt.corsHeaders` / `.customCors` / `.fileServer`, `Wrapper`, `wrapServe`,
`canServe`): `WithCorsHeaders` and `WithCustomCors` are wired exactly like `WithCors` (not-allowed handler first, then
the same `newCorsRouter`); `WithFileServer` wraps the router in a `fileServingRouter` whose middleware serves the file
iff `createServeChecker` says so — `GET`, RAW path below `dir/`, the file exists — and otherwise calls `next`
unchanged; `ensureTrailingSlash` appends the slash only when it is missing. -/
theorem tie_wrappers (d : String) (ns : List String) (m p : String) (pr : PatRouter) (ws : List Wrapper) :
    withCorsHeadersStmts.take 5 = [
      "const allDomains = \"*\"",
      "return func(server *Server){...}",
      "func{",
      "server.router.SetNotAllowedHandler(cors.NotAllowedHandler(nil, allDomains))",
      "server.router = newCorsRouter(server.router, func(header http.Header){...}, allDomains)"] ∧
    withCustomCorsStmts = [
      "return func(server *Server){...}",
      "func{",
      "server.router.SetNotAllowedHandler(cors.NotAllowedHandler(notAllowedFn, origin...))",
      "server.router = newCorsRouter(server.router, middlewareFn, origin...)",
      "}"] ∧
    withFileServerStmts = [
      "return func(server *Server){...}",
      "func{",
      "server.router = newFileServingRouter(server.router, path, fs)",
      "}"] ∧
    newFileServingRouterStmts = ["return &fileServingRouter{ Router: router, middleware: fileserver.Middleware(path, fs), }"] ∧
    fileServingRouterServeStmts = ["f.middleware(f.Router.ServeHTTP)(w, r)"] ∧
    fileMiddlewareStmts.drop 7 = [
      "if canServe(r) {",
      "r.URL.Path = r.URL.Path[len(pathWithoutTrailSlash):]",
      "fileServer.ServeHTTP(w, r)",
      "}",
      "else{",
      "next(w, r)",
      "}",
      "}",
      "}"] ∧
    serveCheckerStmts.take 2 = ["pathWithTrailSlash := ensureTrailingSlash(path)", "fileChecker := createFileChecker(fs)"] ∧
    canServe d ns m p =
      (if condServeChecker m (hasPrefix p (ensureTrailingSlash d)) (ns.contains (fileName (fileRem d p)))
       then some (fileName (fileRem d p)) else none) ∧
    wrapServe pr m p (.files d ns :: ws) =
      (match canServe d ns m p with | some f => .file f | none => wrapServe pr m p ws) ∧
    ensureTrailingSlash d = (if ensureTrailingSlashBody (d.toList.getLast? == some '/') = 0 then d else d ++ "/") ∧
    ensureTrailingSlashBodyReturns = ["path", "path + \"/\""] := by
  refine ⟨rfl, rfl, rfl, rfl, rfl, rfl, rfl, rfl, rfl, ?_, rfl⟩
  unfold ensureTrailingSlash ensureTrailingSlashBody
  cases (d.toList.getLast? == some '/') <;> rfl

/-- **`HeaderOnceResponseWriter.WriteHeader`** (model `headerOnceWrite`, `engineNotFoundStatus`): nothing is written once
a status was written; otherwise the code goes to the underlying writer and the flag is set. -/
theorem tie_headerOnce (wrote : Bool) (code : Nat) :
    headerOnceWriteHeaderStmts = ["if w.wroteHeader {", "return", "}", "w.w.WriteHeader(code)", "w.wroteHeader = true"] ∧
    headerOnceWrite wrote code = (if condHeaderOnceWrote wrote then (true, none) else (true, some code)) ∧
    engineNotFoundStmts.drop (engineNotFoundStmts.length - 4) =
      ["cw := response.NewHeaderOnceResponseWriter(w)", "h.ServeHTTP(cw, r)", "cw.WriteHeader(http.StatusNotFound)", "}"] :=
  ⟨rfl, rfl, rfl⟩

/-- the fields an assignment list writes (left sides that are selectors of the option's argument). -/
def fieldsWritten (a : List (String × String)) : List String := (a.map (·.1)).filter fun l => l.toList.contains '.'

/-- **what every option writes** — typed assignment lists against the model's `Settings.apply` / `Featured.apply` /
`Server.apply`: each route option writes ONLY its own fields (never `r.routes`, except `WithPrefix`, which writes
nothing else and stores a NEW slice); `WithJwt` leaves `prevSecret` alone; `WithSSE` also resets the timeout;
`WithRouter` / `WithFileServer` / `WithCors` replace `server.router`, `WithChain` the engine's chain;
`engine.addRoutes` appends the group, `engine.use` appends the middleware. -/
theorem tie_assigns (st : Settings) (a b : String) (n : Nat) :
    withJwtAssigns = [("r.jwt.enabled", "true"), ("r.jwt.secret", "secret")] ∧
    (st.apply (.jwt a)).jwt = some (a, (st.jwt.map (·.2)).getD "") ∧
    withJwtTransitionAssigns = [("r.jwt.enabled", "true"), ("r.jwt.secret", "secret"), ("r.jwt.prevSecret", "prevSecret")] ∧
    (st.apply (.jwtTransition a b)).jwt = some (a, b) ∧
    withTimeoutAssigns = [("r.timeout", "timeout")] ∧ (st.apply (.timeout n)) = { st with timeout := n } ∧
    withMaxBytesAssigns = [("r.maxBytes", "maxBytes")] ∧ (st.apply (.maxBytes n)) = { st with maxBytes := n } ∧
    withPriorityAssigns = [("r.priority", "true")] ∧ (st.apply .priority) = { st with priority := true } ∧
    withSSEAssigns = [("r.sse", "true"), ("r.timeout", "0")] ∧ (st.apply .sse) = { st with sse := true, timeout := 0 } ∧
    fieldsWritten withPrefixAssigns = ["r.routes"] ∧ (st.apply (.pfx a)) = st ∧
    ((withJwtAssigns ++ withJwtTransitionAssigns ++ withTimeoutAssigns ++ withMaxBytesAssigns ++ withPriorityAssigns ++
      withSSEAssigns).all fun x => x.1 != "r.routes") = true ∧
    withRouterAssigns = [("server.router", "router")] ∧
    withChainAssigns = [("svr.ngin.chain", "chn")] ∧
    withFileServerAssigns = [("server.router", "newFileServingRouter(server.router, path, fs)")] ∧
    withCorsAssigns = [("server.router", "newCorsRouter(server.router, nil, origin...)")] ∧
    serverAddRoutesAssigns = [("r", "featuredRoutes{ routes: rs, }")] ∧
    engineAddRoutesAssigns = [("r.routes", "buildSSERoutes(r.routes)"), ("ng.routes", "append(ng.routes, r)"),
      ("ng.timeout", "r.timeout")] ∧
    engineUseAssigns = [("ng.middlewares", "append(ng.middlewares, middleware)")] := by
  refine ⟨rfl, rfl, rfl, rfl, rfl, rfl, rfl, rfl, rfl, rfl, rfl, rfl, by decide, rfl, by decide, rfl, rfl, rfl, rfl, rfl, rfl, rfl⟩

/-! ### round 5e: which methods the 405 decision looks at (class of seeded change C09-10) -/

/-- **`methodsAllowed` looks at EVERY tree the router holds** — the loop ranges over `pr.trees` itself (key = the method,
value = its tree), not over a list of method names that could fall out of step with `validMethod`; the model's
`methodsAllowed` filters `r.trees`: a method is listed iff it has a tree, is not the request's method, and its tree
matches — for all routers, methods and paths.  No package-level table exists in the three files (only the error values,
`search.NotFound` and the pathvar key), and the other loops on the property's path range over the structure the model
folds over (`engine.routes`, the group's routes, both children maps). -/
theorem tie_allowed_methods (r : Router) (m p x : String) :
    methodsAllowedRanges = [("treeMethod", "tree", "pr.trees")] ∧
    methodsAllowedAccess = [("trees", "range", 0, "pr.trees")] ∧
    (x ∈ methodsAllowed r m p ↔ ∃ root, (x, root) ∈ r.trees ∧ x ≠ m ∧ (searchClean root p).isSome = true) ∧
    patrouterPackageVars = ["ErrInvalidMethod = errors.New(\"not a valid http method\")",
      "ErrInvalidPath = errors.New(\"path must begin with '/'\")"] ∧
    treePackageVars = ["errDupItem = errors.New(\"duplicated item\")", "errDupSlash = errors.New(\"duplicated slash\")",
      "errEmptyItem = errors.New(\"empty item\")", "errInvalidState = errors.New(\"search tree is in an invalid state\")",
      "errNotFromRoot = errors.New(\"path should start with /\")", "NotFound = zero Result"] ∧
    pathvarPackageVars = ["pathVars = contextKey(\"pathVars\")"] ∧
    forEachRanges = [("_", "children", "nd.children"), ("k", "v", "children")] ∧
    engineBindRoutesRanges = [("_", "fr", "ng.routes")] ∧ engineBindFeaturedRanges = [("_", "route", "fr.routes")] ∧
    serverRoutesRanges = [("_", "r", "s.ngin.routes")] ∧ withPrefixRanges = [("_", "rt", "r.routes")] := by
  refine ⟨rfl, rfl, ?_, rfl, rfl, rfl, rfl, rfl, rfl, rfl, rfl⟩
  unfold methodsAllowed
  simp only [List.mem_map, List.mem_filter, Bool.and_eq_true, bne_iff_ne, ne_eq]
  constructor
  · rintro ⟨⟨k, root⟩, ⟨hm, hne, hs⟩, rfl⟩; exact ⟨root, hm, hne, hs⟩
  · rintro ⟨root, hm, hne, hs⟩; exact ⟨(x, root), ⟨hm, hne, hs⟩, rfl⟩

end GoZero.C09.Tie
