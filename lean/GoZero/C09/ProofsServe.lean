/-
C09 — helper lemmas, part 5: `ServeHTTP` on a represented table.
-/
import GoZero.C09.ProofsRouter
namespace GoZero.C09

open Spec

theorem own_eq (r : Router) (m p : String) :
    (r.trees.lookup m).bind (searchClean · p) = searchClean (treeOf r m) p := by
  unfold treeOf
  cases h : r.trees.lookup m with
  | some root => simp
  | none =>
    simp only [Option.bind_none, Option.getD_none, searchClean]
    split
    · rfl
    · exact (next_newNode _).symm

theorem serve_of_some {r : Router} {m p : String} {h : H} {ps : Params}
    (hs : searchClean (treeOf r m) p = some (h, ps)) : serve r m p = .handler h ps := by
  unfold serve
  rw [own_eq, hs]

theorem serve_of_none_nil {r : Router} {m p : String}
    (hs : searchClean (treeOf r m) p = none) (ha : methodsAllowed r m p = []) : serve r m p = .notFound := by
  unfold serve
  rw [own_eq, hs, ha]

theorem serve_of_none_cons {r : Router} {m p : String}
    (hs : searchClean (treeOf r m) p = none) (ha : methodsAllowed r m p ≠ []) :
    serve r m p = .notAllowed (methodsAllowed r m p) := by
  unfold serve
  rw [own_eq, hs]
  cases h : methodsAllowed r m p with
  | nil => exact absurd h ha
  | cons x xs => rfl

theorem searchClean_some {r : Router} {tbl : Table} (hrep : Rep r tbl) (hok : TblOK tbl) {m p : String}
    {h : H} {ps : Params} (hs : searchClean (treeOf r m) p = some (h, ps)) :
    rooted p = true ∧ ∃ route ∈ admissible tbl m (cleanToks p),
      route.h = h ∧ ps = (binds route.pats (cleanToks p)).reverse := by
  unfold searchClean at hs
  cases hr : rooted p
  · simp [hr] at hs
  · simp only [hr, Bool.not_true, Bool.false_eq_true, if_false] at hs
    exact ⟨rfl, (search_table hok (hrep.2 m) _ (clean_cleanToks p)).1 h ps hs⟩

theorem searchClean_isSome_iff {r : Router} {tbl : Table} (hrep : Rep r tbl) (hok : TblOK tbl) (m p : String) :
    (searchClean (treeOf r m) p).isSome = true ↔ rooted p = true ∧ candidates tbl m (cleanToks p) ≠ [] := by
  constructor
  · intro hs
    obtain ⟨⟨h, ps⟩, hs⟩ := Option.isSome_iff_exists.mp hs
    obtain ⟨hr, route, hmem, _⟩ := searchClean_some hrep hok hs
    refine ⟨hr, ?_⟩
    intro e
    have := (mem_admissible.mp hmem).1
    rw [e] at this; cases this
  · rintro ⟨hr, hne⟩
    unfold searchClean
    simp only [hr, Bool.not_true, Bool.false_eq_true, if_false]
    cases hn : next (cleanToks p) (treeOf r m) with
    | some x => rfl
    | none => exact absurd ((search_table hok (hrep.2 m) _ (clean_cleanToks p)).2 hn) hne

theorem treeOf_of_mem {r : Router} (hn : (r.trees.map (·.1)).Nodup) {m : String} {root : Node}
    (hm : (m, root) ∈ r.trees) : treeOf r m = root := by
  simp [treeOf, lookup_of_mem hn hm]

theorem mem_methodsAllowed {r : Router} {tbl : Table} (hrep : Rep r tbl) (hok : TblOK tbl) (m p x : String) :
    x ∈ methodsAllowed r m p ↔ x ≠ m ∧ rooted p = true ∧ candidates tbl x (cleanToks p) ≠ [] := by
  unfold methodsAllowed
  simp only [List.mem_map, List.mem_filter, Bool.and_eq_true, bne_iff_ne, ne_eq]
  constructor
  · rintro ⟨⟨x', root⟩, ⟨hmem, hne, hs⟩, rfl⟩
    simp only at hne hs ⊢
    rw [← treeOf_of_mem hrep.1 hmem] at hs
    exact ⟨hne, (searchClean_isSome_iff hrep hok x' p).mp hs⟩
  · rintro ⟨hne, hr, hc⟩
    have hs := (searchClean_isSome_iff hrep hok x p).mpr ⟨hr, hc⟩
    cases hl : r.trees.lookup x with
    | none =>
      exfalso
      have hrep' := hrep.2 x
      simp only [treeOf, hl, Option.getD_none] at hrep'
      have hnone := treeRep_empty_iff hrep'
      apply hc
      rw [List.eq_nil_iff_forall_not_mem]
      intro r' hr'
      obtain ⟨hmem, hm, _⟩ := mem_candidates.mp hr'
      exact hnone r' hmem hm
    | some root =>
      have hmem := mem_of_lookup hl
      refine ⟨(x, root), ⟨hmem, hne, ?_⟩, rfl⟩
      rw [← treeOf_of_mem hrep.1 hmem]
      exact hs

theorem methodsAllowed_nodup {r : Router} (hn : (r.trees.map (·.1)).Nodup) (m p : String) :
    (methodsAllowed r m p).Nodup := by
  unfold methodsAllowed
  exact List.Nodup.sublist (List.Sublist.map _ List.filter_sublist) hn

theorem mem_allowed {tbl : Table} {m x : String} {toks : List String} :
    x ∈ allowed tbl m toks ↔ x ≠ m ∧ candidates tbl x toks ≠ [] := by
  unfold allowed
  rw [List.mem_eraseDups]
  simp only [List.mem_map, List.mem_filter, Bool.and_eq_true, bne_iff_ne, ne_eq]
  constructor
  · rintro ⟨r', ⟨hmem, hne, hm⟩, rfl⟩
    refine ⟨hne, ?_⟩
    intro e
    have : r' ∈ candidates tbl r'.method toks := mem_candidates.mpr ⟨hmem, rfl, hm⟩
    rw [e] at this; cases this
  · rintro ⟨hne, hc⟩
    obtain ⟨r', hr'⟩ := List.exists_mem_of_ne_nil _ hc
    obtain ⟨hmem, hm, hmatch⟩ := mem_candidates.mp hr'
    exact ⟨r', ⟨hmem, by rw [hm]; exact hne, hmatch⟩, hm⟩

/-! ### the hypothesis -/

theorem sameVar_of_oneVar {tbl : Table} (h : oneVarPerPosition tbl = true) {a b : Route}
    (ha : a ∈ tbl) (hb : b ∈ tbl) (hm : a.method = b.method) :
    sameVarAfterCommonPrefix a.pats b.pats = true := by
  unfold oneVarPerPosition at h
  rw [List.all_eq_true] at h
  have := h a ha
  rw [List.all_eq_true] at this
  have := this b hb
  simpa [hm] using this

theorem admissible_unique {tbl : Table} (hok : TblOK tbl) (hyp : oneVarPerPosition tbl = true)
    {m : String} {toks : List String} {a b : Route}
    (ha : a ∈ admissible tbl m toks) (hb : b ∈ admissible tbl m toks) : a = b := by
  obtain ⟨hca, hpa⟩ := mem_admissible.mp ha
  obtain ⟨hcb, hpb⟩ := mem_admissible.mp hb
  obtain ⟨hma, hmma, hmatcha⟩ := mem_candidates.mp hca
  obtain ⟨hmb, hmmb, hmatchb⟩ := mem_candidates.mp hcb
  have hmeq : a.method = b.method := by rw [hmma, hmmb]
  have hp : a.pats = b.pats :=
    prefers_antisymm _ _ toks hmatcha hmatchb (hpa b hcb) (hpb a hca) (sameVar_of_oneVar hyp hma hmb hmeq)
  exact hok.2 a hma b hmb hmeq hp

theorem preferredMatch_of_admissible {tbl : Table} (hok : TblOK tbl) (hyp : oneVarPerPosition tbl = true)
    {m : String} {toks : List String} {a : Route} (ha : a ∈ admissible tbl m toks) :
    preferredMatch tbl m toks = some a := by
  unfold preferredMatch
  cases hh : (admissible tbl m toks).head? with
  | none =>
    rw [List.head?_eq_none_iff] at hh
    rw [hh] at ha; cases ha
  | some b =>
    have hb : b ∈ admissible tbl m toks := List.mem_of_mem_head? (by simp [hh])
    rw [admissible_unique hok hyp ha hb]

/-! ### bindings -/

theorem binds_keys_sublist (pats toks : List String) :
    ((binds pats toks).map (·.1)).Sublist ((pats.filter isVar).map varName) := by
  induction pats generalizing toks with
  | nil => simp [binds]
  | cons k ks ih =>
    cases toks with
    | nil => simp [binds]
    | cons t ts =>
      cases hv : isVar k
      · simpa [binds, hv, List.filter_cons] using ih ts
      · simpa [binds, hv, List.filter_cons] using ih ts

theorem binds_keys_nodup {pats : List String} (hd : distinctNames pats = true) (toks : List String) :
    ((binds pats toks).map (·.1)).Nodup := by
  unfold distinctNames at hd
  exact List.Nodup.sublist (binds_keys_sublist pats toks) (of_decide_eq_true hd)

end GoZero.C09
