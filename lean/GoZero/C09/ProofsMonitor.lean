/-
C09 — helper lemmas, part 7 (round 2): facts used by the monitor-soundness and engine-binding theorems.
-/
import GoZero.C09.ProofsServe
import GoZero.C09.Driver
namespace GoZero.C09

open Spec

theorem mem_paramMap_foldl (ps acc : Params) (kv : String × String)
    (h : kv ∈ ps.foldl (fun m kv => (m.filter (·.1 != kv.1)) ++ [kv]) acc) : kv ∈ acc ∨ kv ∈ ps := by
  induction ps generalizing acc with
  | nil => exact Or.inl (by simpa using h)
  | cons a rest ih =>
    simp only [List.foldl_cons] at h
    rcases ih _ h with h1 | h1
    · simp only [List.mem_append, List.mem_singleton] at h1
      rcases h1 with h1 | h1
      · exact Or.inl (List.mem_filter.mp h1).1
      · exact Or.inr (by simp [h1])
    · exact Or.inr (List.mem_cons_of_mem _ h1)

/-- the map holds only pairs that were added. -/
theorem mem_paramMap {ps : Params} {kv : String × String} (h : kv ∈ paramMap ps) : kv ∈ ps := by
  rcases mem_paramMap_foldl ps [] kv h with h | h
  · cases h
  · exact h

theorem sameSet_iff {α} [BEq α] [LawfulBEq α] (a b : List α) :
    sameSet a b = true ↔ ∀ x, x ∈ a ↔ x ∈ b := by
  simp only [sameSet, Bool.and_eq_true, List.all_eq_true, List.contains_iff_mem]
  constructor
  · rintro ⟨h1, h2⟩ x; exact ⟨h1 x, h2 x⟩
  · intro h; exact ⟨fun x hx => (h x).mp hx, fun x hx => (h x).mpr hx⟩

theorem candidates_nil_admissible {tbl : Table} {m : String} {toks : List String}
    (h : candidates tbl m toks = []) : admissible tbl m toks = [] := by
  simp [admissible, h]

theorem candidates_nil_preferred {tbl : Table} {m : String} {toks : List String}
    (h : candidates tbl m toks = []) : preferredMatch tbl m toks = none := by
  simp [preferredMatch, candidates_nil_admissible h]

theorem fmtReg_eq_fmtSpecReg (x : Except HandleErr Router)
    (h1 : x ≠ .error (.tree .dupSlash)) (h2 : x ≠ .error (.tree .notFromRoot)) :
    fmtReg x = fmtSpecReg (verdictOf x) := by
  cases x with
  | ok r => rfl
  | error e =>
    cases e with
    | invalidMethod => rfl
    | invalidPath => rfl
    | tree e => cases e <;> first | rfl | exact absurd rfl h1 | exact absurd rfl h2

end GoZero.C09
