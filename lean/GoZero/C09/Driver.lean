/-
C09 — driver: replays an implementation trace through the model (correspondence) and the declarative
matcher (monitor).

Sections  `begin kind=router`:
  route m=<method> p=<pattern> h=<id|nil>   => clean=<path.Clean(pattern)> ok|dup|badmethod|badpath|empty|err:<..>
  req   m=<method> p=<path> n=<repeats>     => clean=<path.Clean(path)> <outcome> [| <outcome>]…   (distinct outcomes, sorted)
      outcome:  h=<id> vars=<k=v,…sorted>  |  405 allow=<methods sorted,>  |  404
                |  nf=<id> code=<c>  (custom not-found handler ran)  |  na=<id> code=<c> [allow=…]  (custom not-allowed handler)
  setnf h=<id|nil> | setna h=<id|nil>       => ok        (patRouter.SetNotFoundHandler / SetNotAllowedHandler)
Sections  `begin kind=server` (rest.NewServer + AddRoutes + engine.bindRoutes, no listener):
  opt nf=<id|nil> | opt na=<id|nil>         => ok        (rest.WithNotFoundHandler / WithNotAllowedHandler, before the server is built)
  group [pfx=<group>] r=<m>,<path>,<id>…    => paths=<…>  (AddRoutes [WithPrefix]; the paths Routes() reports)
  bind                                      => ok|badmethod|badpath|dup   (engine.bindRoutes: first error)
  req … as above  [auth=<secret>]           (a JWT signed with <secret>)   outcome also: 401 | h=… vars=… mw=<i.j…>
  slice s=<k> r=<m>,<path>,<id>…            => ok        (a caller-owned []Route)
  add s=<k> [o=<opt>]… | addone r=… [o=<opt>]…   => routes=<m~path,…> slices=<k>=<m~path,…>;…
      (Server.AddRoutes / AddRoute with the options in order; the same slice any number of times.
       Model: `Api` (groups alias the caller's slices).  Monitor: the routes as the callers WROTE them, options
       applied to a copy (`Group.regs`); every caller slice must read as written.)
Round 5:
  req … [ctx=<k=v,…>] [beh=<kind>]   the request arrives with path variables of an outer router in its context;
      the user handler that runs behaves as <kind>: w<code> (writes that status), perr / pstr / pabort (panics with an
      error / a string / http.ErrAbortHandler), goexit.  Outcomes then carry ` status=<c>` (a route handler's response
      status when not 200), ` end=<kind>` (the handler that ran behaved so), ` esc=<panic|goexit>` (it left ServeHTTP).
  opt cors                           rest.WithCors(): OPTIONS requests => `204 cors`; the not-allowed handler is cors.NotAllowedHandler
                                     (outcome `na=204404 code=404`)
  opt corsh | opt ccors              rest.WithCorsHeaders / WithCustomCors (same wiring as WithCors)
  opt files=<dir>                    rest.WithFileServer(dir, fs) with the files a, b/c, x.txt, api/a: a GET below dir/ that names
                                     one of them => `file=<name>` (the patRouter is not asked)
  opt router                         rest.WithRouter(router.NewRouter())
  use id=<k>                => ok    Server.Use(middleware u<k>) (trail tokens u<k>, outside the route's own middlewares)
  start                     => listen | panic:<verdict>   Server.Start() on a port that cannot be opened
  cfg must=1                         the server is built by rest.MustNewServer
  herr k=<kind> => returned | panic:same-error | panic:other     handleError(err) for every class of error value
  other m=<method> p=<path> => clean=… <outcome>   a second rest.Server (route GET /other/:o -> h=9999) serves the request
Sections  `begin kind=tree` (core/search.Tree directly, raw strings):
  tadd p=<route> h=<id|nil>   => ok|dup|dupslash|notfromroot|empty
  tsearch p=<route> n=<k>     => h=<id> vars=… | none          (distinct outcomes, sorted, ` | `-separated)

Every line is (1) compared with the model (mismatch) and (2) judged by a monitor that knows only the plain
route table (violation): `Spec.monitorObs` for requests (sound: PropsServer.monitor_sound,
monitor_determinism_sound), `Spec.register` / `Spec.bindTable` for registrations (monitor_registration_sound,
bindAll_represents), `Spec.rawAddVerdict` / `Spec.matchesRawB` for the raw tree (raw_add_monitor_sound,
tree_search_raw).
-/
import GoZero.Base.Trace
import GoZero.C09.Spec
namespace GoZero.C09

open GoZero

def insertStr (x : String) : List String → List String
  | [] => [x]
  | y :: ys => if x ≤ y then x :: y :: ys else y :: insertStr x ys

def sortStr (l : List String) : List String := l.foldr insertStr []

def fmtVars (ps : List (String × String)) : String :=
  ",".intercalate (sortStr (ps.map fun (k, v) => k ++ "=" ++ v))

def fmtHit (h : H) (ps : Params) : String := s!"h={h} vars={fmtVars (paramMap ps)}"

/-- the hit as the handler sees it when the request arrived with the context `c` (`delivered`). -/
def fmtHitC (c : Ctx) (h : H) (ps : Params) : String := s!"h={h} vars={fmtVars (delivered c ps)}"

def fmtOutcome : Outcome → String
  | .handler h ps => fmtHit h ps
  | .notAllowed a => "405 allow=" ++ ",".intercalate (sortStr a)
  | .notFound => "404"

/-- every result some iteration order of the children maps can produce. -/
def nextAll : List String → Node → List (H × Params)
  | [], _ => []
  | t :: rest, n =>
    let via (p : String → Node → List (H × Params)) : List (H × Params) :=
      let l := n.lits.flatMap fun kc => p kc.1 kc.2
      if l.isEmpty then n.vars.flatMap fun kc => p kc.1 kc.2 else l
    match rest with
    | [] =>
      if t = "" ∧ n.item.isSome then n.item.toList.map (fun h => (h, []))
      else via fun k c => if matchTok k t then c.item.toList.map (fun h => hit k t (h, [])) else []
    | _ :: _ =>
      via fun k c => if matchTok k t then (nextAll rest c).map (hit k t) else []

def dedup (l : List String) : List String := (sortStr l).eraseDups

def arg (pfx : String) (toks : List String) : Option String :=
  toks.findSome? fun t => if t.startsWith pfx then some (String.ofList (t.toList.drop pfx.length)) else none

def parseItem (s : String) : Option (Option H) :=
  if s = "nil" then some none else s.toNat?.map some

def splitBar (obs : List String) : List String :=
  let rec go (cur : List String) (acc : List String) : List String → List String
    | [] => (acc ++ [joinSp cur])
    | "|" :: tl => go [] (acc ++ [joinSp cur]) tl
    | t :: tl => go (cur ++ [t]) acc tl
  go [] [] obs

def fmtReg : Except HandleErr Router → String
  | .ok _ => "ok"
  | .error .invalidMethod => "badmethod"
  | .error .invalidPath => "badpath"
  | .error (.tree .dupItem) => "dup"
  | .error (.tree .emptyItem) => "empty"
  | .error (.tree .dupSlash) => "dupslash"
  | .error (.tree .notFromRoot) => "notfromroot"

def fmtSpecReg : Spec.RegVerdict → String
  | .ok => "ok" | .dup => "dup" | .badMethod => "badmethod" | .badPath => "badpath" | .emptyHandler => "empty"

def fmtAdd : Except AddErr Node → String
  | .ok _ => "ok"
  | .error .dupItem => "dup"
  | .error .emptyItem => "empty"
  | .error .dupSlash => "dupslash"
  | .error .notFromRoot => "notfromroot"

/-! ### observations: model → canonical observation, harness text → canonical observation -/

/-- the canonical observation a model response amounts to (what the harness would see). -/
def obsOf : Response → Spec.Obs
  | .route h ps => .hit h (paramMap ps)
  | .customNotAllowed h => .customNA h
  | .defaultNotAllowed a => .notAllowed a
  | .customNotFound nf => match nf.user with | some h => .customNF h | none => .notFound
  | .defaultNotFound => .notFound

/-- the custom handlers a patRouter is configured with (the user's handlers). -/
def customOf (pr : PatRouter) : Spec.Custom :=
  { nf := pr.notFound.bind NFHandler.user, na := pr.notAllowed }

/-- harness convention: a custom handler whose id is a 4xx/5xx number writes that status, others write nothing. -/
def ownCode (h : H) : Option Nat := if 400 ≤ h ∧ h ≤ 599 then some h else none

def fmtResponse (resp : Response) (panics : Bool := false) : String :=
  match resp with
  | .route h ps => fmtHit h ps
  -- (cors.NotAllowedHandler answers 404 for every method but OPTIONS, which never reaches it behind the corsRouter)
  | .customNotAllowed h => s!"na={h} code={(ownCode h).getD (if h = corsNA then 404 else 200)}"
  | .defaultNotAllowed a => "405 allow=" ++ ",".intercalate (sortStr a)
  | .customNotFound (.plain h) => s!"nf={h} code={(ownCode h).getD 200}"
  -- engine.notFoundHandler: next runs, then `cw.WriteHeader(404)` (ignored when next wrote a status)
  -- (a handler that panics or calls runtime.Goexit never returns to the wrapper: no 404 is forced)
  | .customNotFound (.engine (some h)) => s!"nf={h} code={engineNotFoundStatus (ownCode h) (!panics)}"
  | .customNotFound (.engine none) => "404"
  | .defaultNotFound => "404"

def splitEq (s : String) : String × String :=
  let cs := s.toList
  (String.ofList (cs.takeWhile (· ≠ '=')), String.ofList ((cs.dropWhile (· ≠ '=')).drop 1))

/-- parse one outcome as printed by the harnesses. Anything unexpected is `.other` (never accepted). -/
def parseObs (o : String) : Spec.Obs :=
  match (o.splitOn " ").filter (· ≠ "") with
  | ["404"] => .notFound
  | ["405", a] =>
    if a.startsWith "allow=" then .notAllowed (((splitEq a).2.splitOn ",").filter (· ≠ "")) else .other o
  | [h, v] =>
    let (hk, hv) := splitEq h
    let (vk, vv) := splitEq v
    if hk = "h" ∧ vk = "vars" then
      match hv.toNat? with
      | some n => .hit n (if vv = "" then [] else (vv.splitOn ",").map splitEq)
      | none => .other o
    else if vk = "code" then
      match hk, hv.toNat? with
      | "nf", some n => .customNF n
      | "na", some n => .customNA n      -- no Allow header: a third token `allow=…` makes it `.other`
      | _, _ => .other o
    else .other o
  | _ => .other o

def fmtRoute (toks : List String) (r : Spec.Route) : String := s!"h={r.h} vars={fmtVars (Spec.binds r.pats toks)}"

def fmtVerdict (c : Spec.Custom) (m : String) (toks : List String) (impl : String) : Spec.Verdict → Option String
  | .ok => none
  | .notUnique => some "hypothesis holds but the preferred match is not unique"
  | .noRouteMatches => some s!"dispatched [{impl}] although no route of method {m} matches"
  | .wrongRoute adm => some s!"dispatched [{impl}] but the preferred match is [{",".intercalate (adm.map (fmtRoute toks))}]"
  | .notDispatched r => some s!"not dispatched [{impl}] although route h={r.h} matches"
  | .expected (.notAllowed a) =>
    match c.na with
    | none => some s!"expected [405 allow={",".intercalate (sortStr a)}] got [{impl}]"
    | some h => some s!"expected the custom not-allowed handler [na={h}] (405 situation, other methods {",".intercalate (sortStr a)}) got [{impl}]"
  | .expected _ =>
    match c.nf with
    | none => some s!"expected [404] got [{impl}]"
    | some h => some s!"expected the custom not-found handler [nf={h}] (no route of any method matches) got [{impl}]"

/-- the property's verdict on one observed outcome of a request. `none` = fine. -/
def monitorReq (tbl : Spec.Table) (hyp : Bool) (c : Spec.Custom) (m path : String) (impl : String)
    (outer : List (String × String) := []) : Option String :=
  let toks := if rooted path then some (cleanToks path) else none
  fmtVerdict c m (toks.getD []) impl (Spec.monitorObsCtx tbl hyp c m toks outer (parseObs impl))


/-! ### rest.Server public API: route options, listings, per-route settings -/

def dropStr (n : Nat) (s : String) : String := String.ofList (s.toList.drop n)

/-- one `o=<opt>` token: a RouteOption, or the number of `rest.WithMiddlewares` middlewares. -/
def parseOpt (s : String) : Option (Option RouteOpt × Nat) :=
  if s.startsWith "pfx=" then some (some (.pfx (dropStr 4 s)), 0)
  else if s.startsWith "jwtt=" then
    match (dropStr 5 s).splitOn "," with
    | [a, b] => some (some (.jwtTransition a b), 0)
    | _ => none
  else if s.startsWith "jwt=" then some (some (.jwt (dropStr 4 s)), 0)
  else if s.startsWith "to=" then (dropStr 3 s).toNat?.map fun n => (some (.timeout n), 0)
  else if s.startsWith "mb=" then (dropStr 3 s).toNat?.map fun n => (some (.maxBytes n), 0)
  else if s = "prio" then some (some .priority, 0)
  else if s = "sse" then some (some .sse, 0)
  else if s.startsWith "mw=" then (dropStr 3 s).toNat?.map fun n => (none, n)
  else none

/-- all `o=` tokens of an op: the route options in order and the middleware count; `none` = unparsable. -/
def parseOpts (args : List String) : Option (List RouteOpt × Nat) :=
  (args.filter (·.startsWith "o=")).foldl (fun acc a =>
    match acc, parseOpt (dropStr 2 a) with
    | some (os, n), some (some o, _) => some (os ++ [o], n)
    | some (os, _), some (none, k) => some (os, k)
    | _, _ => none) (some ([], 0))

def fmtListing (regs : List Reg) : String := ",".intercalate (regs.map fun r => r.1 ++ "~" ++ r.2.1)

def parseListing (s : String) : List (String × String) :=
  if s = "" then [] else (s.splitOn ",").map fun e =>
    (String.ofList (e.toList.takeWhile (· ≠ '~')), String.ofList ((e.toList.dropWhile (· ≠ '~')).drop 1))

/-- a listing printed by the harness agrees with the routes expected: same methods, same paths; a path that is
not rooted (the model keeps it uncleaned, Go's `path.Join` cleans it) only has to be not rooted. -/
def sameListing (want : List Reg) (impl : List (String × String)) : Bool :=
  want.length == impl.length && (want.zip impl).all fun (w, i) =>
    w.1 == i.1 && (if rooted w.2.1 then w.2.1 == i.2 else !(rooted i.2))

def parseSlices (s : String) : List (String × List (String × String)) :=
  if s = "" then [] else (s.splitOn ";").map fun e =>
    (String.ofList (e.toList.takeWhile (· ≠ '=')), parseListing (String.ofList ((e.toList.dropWhile (· ≠ '=')).drop 1)))

def fmtTrail (n : Nat) : String := ".".intercalate ((List.range n).map fun i => toString (i + 1))

/-- the settings of the bound route (method, cleaned pattern): the first group that contains it. -/
def lookupRMeta (rmeta : List (String × List String × Option (String × String) × List Layer)) (m : String) (pats : List String) :
    Option (Option (String × String) × List Layer) :=
  (rmeta.find? fun x => x.1 == m && x.2.1 == pats).map (·.2.2)

/-- split a trailing ` mw=<trail>` token off an outcome. -/
def splitTrail (o : String) : String × String :=
  let ts := (o.splitOn " ").filter (· ≠ "")
  match ts.find? (·.startsWith "mw=") with
  | some t => (joinSp (ts.filter (· ≠ t)), dropStr 3 t)
  | none => (o, "")

/-- split the ` status=` / ` end=` / ` esc=` tokens (what the user handler did) off an outcome. -/
def splitExtras (o : String) : String × Option String × Option String × Option String :=
  let ts := (o.splitOn " ").filter (· ≠ "")
  let isX (t : String) : Bool := t.startsWith "status=" || t.startsWith "end=" || t.startsWith "esc="
  (joinSp (ts.filter (!isX ·)), arg "status=" ts, arg "end=" ts, arg "esc=" ts)

def parseCtxVars (s : String) : List (String × String) :=
  if s = "" then [] else (s.splitOn ",").map splitEq

/-- the file names the harness' http.FileSystem accepts (`WithFileServer`). -/
def fsNames : List String := ["a", "b/c", "x.txt", "api/a"]

def behKinds : List String := ["w201", "w204", "w301", "w404", "w405", "w500", "w503", "perr", "pstr", "pabort", "goexit"]

structure St where
  pr : PatRouter := {}
  tbl : Spec.Table := []
  tree : Node := newNode none
  ttbl : Spec.Table := []
  -- rest.Server sections
  opts : List RunOpt := []
  built : Bool := false
  served : Bool := false         -- a request was served already (late registrations)
  groups : List Group := []      -- every AddRoutes call as the caller wrote it (options + routes)
  mws : List Nat := []           -- per group: how many rest.WithMiddlewares middlewares wrap its handlers
  api : Api := {}                -- the aliasing model: caller slices + engine.routes
  names : List String := []      -- names of the caller slices (position = index in `api.heap`)
  written : List (List Reg) := []  -- the caller slices as written in the `slice` lines
  rmeta : List (String × List String × Option (String × String) × List Layer) := []  -- bound route ↦ (jwt, chain of bindRoute)
  chain : Option Nat := none     -- rest.WithChain
  wrappers : List Wrapper := []  -- rest.WithCors* / WithFileServer: what server.router is wrapped in (outermost first)
  uses : List Nat := []          -- Server.Use middlewares so far (ids, in Use order)
  rereg : List (String × List String) := []  -- (method, cleaned pattern) re-registered with ANOTHER handler and rejected

def patKind (pats : List String) : String :=
  String.ofList (pats.map fun k => if isVar k then 'v' else if k = "" then 'r' else 'l')

/-- all outcomes of `ServeHTTP` over all iteration orders. -/
def serveAllX (pr : PatRouter) (method path : String) (dec : H → Params → String := fmtHit) (panics : Bool := false) : List String :=
  let own : List (H × Params) :=
    match pr.core.trees.lookup method with
    | some root => if rooted path then nextAll (cleanToks path) root else []
    | none => []
  if own.isEmpty then [fmtResponse (pr.serveHTTP method path) panics]
  else dedup (own.map fun (h, ps) => dec h ps)

def hasUpper (s : String) : Bool := s.toList.any Char.isUpper

/-- one `req` line (router and server sections). -/
def runReq (r : Report) (st : St) (sidx : Nat) (l : Line) (m p : String) (auth : Option String := none) (srv : Bool := false)
    (outer? : Option String := none) (beh : Option String := none) : Report := Id.run do
  let mut r := r
  let (implClean, outsRaw) := match l.obs with
    | c :: rest => ((String.ofList (c.toList.drop 6)), splitBar rest)
    | [] => ("?", [])
  -- what the user handler did (status= / end= / esc=) is judged separately; dispatch is judged on the rest
  let outs := (outsRaw.map fun o => (splitExtras o).1).eraseDups
  let outer := (outer?.map parseCtxVars).getD []
  let ctx : Ctx := match outer? with
    | some s => Ctx.withVars [] (parseCtxVars s)
    | none => []
  if outer?.isSome then r := r.addCover (if outer.isEmpty then "req-outer-context-empty-vars" else "req-outer-context-vars")
  if rooted p then
    if cleanPath p ≠ implClean then r := r.mismatch sidx l.idx s!"clean={cleanPath p}" s!"clean={implClean}"
    if cleanPath p ≠ p then r := r.addCover "req-needs-clean"
    if cleanToks p = [""] then r := r.addCover "req-root"
    if p.toList.getLast? == some '/' ∧ p.length > 1 then r := r.addCover "req-trailing-slash"
    if hasUpper p then r := r.addCover "req-upper-case"
    if p.toList.any (fun c => c.toNat > 127) then r := r.addCover "req-non-ascii-segment"
  else r := r.addCover "req-not-rooted"
  if !(validMethod m) then r := r.addCover "req-unsupported-method"
  match beh with
  | some b => if !(behKinds.contains b) then r := r.mismatch sidx l.idx "bad-op" s!"beh={b}"
  | none => pure ()
  let hyp := Spec.oneVarPerPosition st.tbl
  let toksO := if rooted p then some (cleanToks p) else none
  -- the settings (WithJwt secrets, middleware trail) of the routes a hit on handler `h` can belong to
  let rmetaOf : H → List (Option (String × String) × List Layer) := fun h =>
    (((Spec.admissible st.tbl m (toksO.getD [])).filter (·.h == h)).filterMap fun x =>
      lookupRMeta st.rmeta x.method x.pats).eraseDups
  -- engine.bindRoute: the Authorize handler of a WithJwt group sits in front of the route handler
  let dec : H → Params → String := fun h ps =>
    match rmetaOf h with
    | [(_, layers)] =>
      let (tr, how) := runChain auth layers
      (match how with | .handler => fmtHitC ctx h ps | .unauthorized => "401" | .stopped => "stopped") ++
        (if tr.isEmpty then "" else " mw=" ++ ".".intercalate tr)
    | _ => fmtHitC ctx h ps
  let behPanics := beh.any fun k => ["perr", "pstr", "pabort", "goexit"].contains k
  let all := serveAllX st.pr m p dec behPanics
  let resp := st.pr.serveHTTP m p
  let det := match resp with
    | .route h ps => dec h ps
    | _ => fmtResponse resp behPanics
  if auth.isSome then r := r.addCover "req-with-jwt-token"
  -- correspondence
  if outs.isEmpty then r := r.mismatch sidx l.idx det "no-observation"
  if all.length ≤ 1 then
    if outs ≠ [det] then r := r.mismatch sidx l.idx det (" | ".intercalate outs)
  else
    r := r.addCover "req-order-dependent"
    if outs.length > 1 then r := r.addCover "req-order-dependent-observed"
    if !(outs.all all.contains) then
      r := r.mismatch sidx l.idx (" | ".intercalate all) (" | ".intercalate outs)
  if hyp && all.length > 1 then r := r.mismatch sidx l.idx "deterministic-under-hypothesis" (" | ".intercalate all)
  -- coverage of the model's branches
  match resp with
  | .route h ps =>
    let toks := cleanToks p
    let route := (st.tbl.find? fun x => x.h == h).map (·.pats)
    let kind := patKind (route.getD [])
    let cs := Spec.candidates st.tbl m toks
    r := r.addCover (if ps.isEmpty then "hit-literal-only" else if kind.contains 'l' then "hit-mixed" else "hit-vars-only")
    if !outer.isEmpty then
      r := r.addCover (if ps.isEmpty then "hit-literal-route-keeps-outer-vars" else "hit-vars-replace-outer-vars")
    match route with
    | some pats =>
      if st.rereg.contains (m, pats) then
        r := r.addCover ("req-after-rejected-re-registration-" ++
          (if pats = [""] then "root" else if pats.any isVar then "variable-pattern" else "literal-pattern"))
    | none => pure ()
    if cs.length > 1 then r := r.addCover "hit-several-candidates"
    -- backtracking: where the chosen route has a variable, a literal child for the request's token
    -- existed (it is searched first and must have failed)
    let cp := route.getD []
    let backtracked := (List.range cp.length).any fun i =>
      isVar (cp.getD i "") && st.tbl.any fun x =>
        x.method == m && x.pats.take i == cp.take i && x.pats[i]? == toks[i]? && !isVar (x.pats.getD i "")
    if backtracked then r := r.addCover "hit-after-backtrack"
    if !(Spec.distinctNames cp) then r := r.addCover "hit-repeated-name-in-pattern"
    if ps.any fun kv => kv.2 = "" then r := r.addCover "hit-empty-segment-bound"
  | .defaultNotAllowed a =>
    r := r.addCover (if a.length > 1 then "405-several" else "405-one")
    -- every supported method must be able to appear in the Allow header (class of seeded change C09-10)
    for x in a do r := r.addCover ("405-allow-lists-" ++ x)
    match a with
    | [x] => r := r.addCover ("405-only-other-method-is-" ++ x)
    | _ => pure ()
  | .customNotAllowed _ => r := r.addCover "405-custom-handler"
  | .defaultNotFound => r := r.addCover "404"
  | .customNotFound (.plain _) => r := r.addCover "404-custom-handler"
  | .customNotFound (.engine (some _)) => r := r.addCover "404-engine-custom-handler"
  | .customNotFound (.engine none) => r := r.addCover "404-engine-default"
  -- monitor on the implementation's own outcomes
  if hyp && outs.length > 1 then
    r := r.violation sidx l.idx s!"request {m} {p}: dispatch differs between runs [{" | ".intercalate outs}] on a table with one variable name per position"
  for oRaw in outsRaw do
    let (o, status, endK, esc) := splitExtras oRaw
    let panicked := endK.any fun k => ["perr", "pstr", "pabort", "goexit"].contains k
    if (splitTrail o).1 = "stopped" then
      -- a user middleware (Server.Use) answered itself: acceptable iff the chain of an admissible route stops exactly there
      let trS := (splitTrail o).2
      let adm := Spec.admissible st.tbl m (toksO.getD [])
      let ok := toksO.isSome && adm.any fun x =>
        match lookupRMeta st.rmeta x.method x.pats with
        | some (_, layers) => runChain auth layers == ((trS.splitOn ".").filter (· ≠ ""), .stopped)
        | none => false
      r := r.addCover "req-stopped-by-a-user-middleware"
      if !ok then
        r := r.violation sidx l.idx s!"request {m} {p}: the middlewares [{trS}] ran and the last one answered itself, but no admissible route [{",".intercalate (adm.map (fmtRoute (toksO.getD [])))}] has a chain that stops there"
      if endK.isSome then
        r := r.violation sidx l.idx s!"request {m} {p}: a middleware stopped the request but a user handler ran [{oRaw}]"
    else if (splitTrail o).1 = "401" then
      let tr401 := (splitTrail o).2
      -- acceptable iff an admissible route was registered WithJwt and the token matches none of its secrets
      let adm := Spec.admissible st.tbl m (toksO.getD [])
      let ok := toksO.isSome && adm.any fun x =>
        match lookupRMeta st.rmeta x.method x.pats with
        | some (_, layers) => runChain auth layers == ((tr401.splitOn ".").filter (· ≠ ""), .unauthorized)
        | none => false
      r := r.addCover "req-401-unauthorized"
      if tr401 ≠ "" then r := r.addCover "req-401-behind-WithChain-middlewares"
      if !ok then
        let why := if adm.isEmpty then "no route of the method matches"
          else s!"the preferred match [{",".intercalate (adm.map (fmtRoute (toksO.getD [])))}] was not registered with a secret that rejects the token [{auth.getD "none"}] behind the middlewares [{tr401}]"
        r := r.violation sidx l.idx s!"request {m} {p}: 401 Unauthorized but {why}"
      if endK.isSome then
        r := r.violation sidx l.idx s!"request {m} {p}: 401 Unauthorized but a user handler ran [{oRaw}]"
    else
      let (base, trail) := splitTrail o
      match monitorReq st.tbl hyp (customOf st.pr) m p base outer with
      | some msg => r := r.violation sidx l.idx s!"request {m} {p}: {msg}"
      | none => pure ()
      -- rest.Server: engine.notFoundHandler forces the status 404 unless the custom handler wrote one itself
      match (base.splitOn " ").filter (· ≠ "") with
      | [hk, ck] =>
        if srv ∧ hk.startsWith "nf=" ∧ ck.startsWith "code=" ∧ !panicked then
          let id := (dropStr 3 hk).toNat?.getD 0
          if (dropStr 5 ck).toNat? ≠ some (engineNotFoundStatus (ownCode id) true) then
            r := r.violation sidx l.idx s!"request {m} {p}: the custom not-found handler nf={id} ran but the response status is [{dropStr 5 ck}], not [{(ownCode id).getD 404}] (no route matches: 404 unless the handler wrote a status itself)"
      | _ => pure ()
      -- every outcome kind of the user handler: whatever it does, it is the handler the property names, and
      -- the status a route handler writes is the status of the response
      let userRan := match parseObs base with
        | .hit _ _ => true | .customNF _ => true | .customNA h => h != corsNA | _ => false
      match beh with
      | some b =>
        if userRan then
          r := r.addCover (s!"beh-{b}-" ++ (match parseObs base with | .hit _ _ => "route" | _ => "custom"))
          if endK ≠ some b ∧ (b.startsWith "p" ∨ b = "goexit" ∨ (parseObs base matches .hit _ _)) then
            r := r.mismatch sidx l.idx s!"end={b}" oRaw
          if esc.isSome then r := r.addCover s!"beh-escaped-{esc.getD ""}"
        else if endK.isSome then
          r := r.violation sidx l.idx s!"request {m} {p}: a user handler ran [{oRaw}] although the router answered itself"
      | none =>
        if endK.isSome ∨ esc.isSome then r := r.mismatch sidx l.idx "no-behaviour" oRaw
      match parseObs base with
      | .hit h _ =>
        let want : Option String := match beh with
          | some b => if b.startsWith "w" then some (dropStr 1 b) else none
          | none => none
        if !panicked ∧ status ≠ want then
          r := r.violation sidx l.idx s!"request {m} {p}: route handler h={h} wrote status [{want.getD "none (200)"}] but the response status is [{status.getD "200"}]"
        let ms := rmetaOf h
        if ms.any fun x => x.1.isSome then r := r.addCover "hit-jwt-route-token-accepted"
        if ms.any fun x => x.1.any fun ab => ab.2 != "" && auth == some ab.2 && ab.1 != ab.2 then
          r := r.addCover "hit-jwt-route-token-signed-with-previous-secret"
        if trail ≠ "" then r := r.addCover "hit-behind-route-middlewares"
        if (trail.splitOn ".").any (·.startsWith "u") then r := r.addCover "hit-behind-Server.Use-middlewares"
        if (trail.splitOn ".").any (·.startsWith "c") then r := r.addCover "hit-behind-WithChain-middlewares"
        if !ms.isEmpty ∧ !(ms.any fun x => runChain auth x.2 == ((trail.splitOn ".").filter (· ≠ ""), .handler)) then
          let regd := ms.map fun x => s!"jwt={(x.1.map fun ab => ab.1 ++ "," ++ ab.2).getD "off"} middlewares={".".intercalate ((x.2.filter fun l => match l with | .auth _ _ => false | _ => true).map Layer.tag)}"
          r := r.violation sidx l.idx s!"request {m} {p}: handler h={h} ran [middlewares={trail} token={auth.getD "none"}] but its route was registered with [{" | ".intercalate regd}]"
        if ms.isEmpty ∧ trail ≠ "" then
          r := r.violation sidx l.idx s!"request {m} {p}: handler h={h} ran behind middlewares [{trail}] of another route"
      | _ =>
        if trail ≠ "" then r := r.violation sidx l.idx s!"request {m} {p}: route middlewares [{trail}] ran but no route handler [{o}]"
  return r

/-- index of the first registration the rule rejects (`none`: all accepted). -/
def firstRejected (tbl : Spec.Table) : List Reg → Nat → Option Nat
  | [], _ => none
  | (m, p, item) :: rest, k =>
    match Spec.register tbl m p item with
    | (.ok, tbl') => firstRejected tbl' rest (k + 1)
    | _ => some k

/-- (group index, position in the group, length of the group) of the `k`-th registration. -/
def locateReg : List (List Reg) → Nat → Nat → Nat × Nat × Nat
  | [], k, gi => (gi, k, 0)
  | g :: tl, k, gi => if k < g.length then (gi, k, g.length) else locateReg tl (k - g.length) (gi + 1)

/-- the class of seeded change C09-8: the new key is a strict segment-wise prefix of a key stored earlier (its last
node exists already as a pure intermediate node), or extends one. -/
def prefixClass (stored : List (List String)) (pats : List String) : List String :=
  (if stored.any (fun x => pats.length < x.length && x.take pats.length == pats) then ["new-route-is-strict-prefix-of-an-earlier-route"] else []) ++
  (if stored.any (fun x => x.length < pats.length && pats.take x.length == x && x != [""]) then ["new-route-extends-an-earlier-route"] else [])

def parseReg (s : String) : Option Reg :=
  match s.splitOn "," with
  | [m, p, h] => (parseItem h).map fun item => (m, p, item)
  | _ => none

def fmtBind : Option HandleErr → String
  | none => "ok"
  | some e => fmtReg (.error e)

def runSection (r : Report) (s : Section) : Report := Id.run do
  let mut r := r
  let mut st : St := {}
  if kvStr s.cfg "kind" = "server" then
    st := { st with pr := (newServer []).router }
    r := r.addCover (if kvStr s.cfg "mw" = "1" then "server-native-middlewares-on" else "server-no-middlewares")
    r := r.addCover (if kvStr s.cfg "must" = "1" then "server-MustNewServer" else "server-NewServer")
  for l in s.lines do
    r := { r with ops := r.ops + 1 }
    match l.op with
    | "route" :: args =>
      match arg "m=" args, arg "p=" args, (arg "h=" args).bind parseItem with
      | some m, some p, some item =>
        -- `Handle` with the in-place mutation visible (PropsReject: a rejected call leaves every tree as it was)
        let resM := handleM st.pr.core m p item
        let res : Except HandleErr PatRouter := match resM.2 with
          | none => .ok { st.pr with core := resM.1 }
          | some e => .error e
        let (sv, tbl') := Spec.register st.tbl m p item
        let (implClean, implRes) := match l.obs with
          | [c, v] => ((String.ofList (c.toList.drop 6)), v)
          | _ => ("?", joinSp l.obs)
        let fres := fmtReg (res.map (·.core))
        r := r.addCover ("route-" ++ fres)
        if rooted p then
          if cleanPath p ≠ implClean then r := r.mismatch s.idx l.idx s!"clean={cleanPath p}" s!"clean={implClean}"
          if cleanPath p ≠ p then r := r.addCover "route-needs-clean"
          if hasUpper p then r := r.addCover "route-upper-case"
        if fres ≠ implRes then r := r.mismatch s.idx l.idx fres implRes
        if fmtSpecReg sv ≠ implRes then
          r := r.violation s.idx l.idx s!"registration of {m} {p}: property demands [{fmtSpecReg sv}] implementation did [{implRes}]"
        st := { st with pr := { st.pr with core := resM.1 } }
        -- class of seeded change C09-9: the same (method, cleaned pattern) again with a DIFFERENT handler
        if sv = .dup ∧ rooted p then
          let pats := cleanToks p
          match st.tbl.find? (fun x => x.method == m && x.pats == pats), item with
          | some x, some h =>
            if x.h ≠ h then
              st := { st with rereg := st.rereg ++ [(m, pats)] }
              r := r.addCover ("route-rejected-re-registration-with-another-handler-" ++
                (if pats = [""] then "root" else if pats.any isVar then "variable-pattern" else "literal-pattern"))
          | _, _ => pure ()
        if st.served then r := r.addCover "route-after-requests"
        if sv = .ok ∧ rooted p then
          for c in prefixClass ((st.tbl.filter (·.method == m)).map (·.pats)) (cleanToks p) do r := r.addCover c
        st := { st with tbl := tbl' }
        if !(Spec.oneVarPerPosition st.tbl) then r := r.addCover "table-outside-hypothesis"
      | _, _, _ => r := r.mismatch s.idx l.idx "bad-op" (joinSp l.op)
    | ["setnf", a] =>
      -- patRouter.SetNotFoundHandler(h) (nil resets to http.NotFound)
      match (arg "h=" [a]).bind parseItem with
      | some item =>
        st := { st with pr := { st.pr with notFound := item.map .plain } }
        r := r.addCover (if item.isSome then "setnf-custom" else "setnf-nil")
        if joinSp l.obs ≠ "ok" then r := r.mismatch s.idx l.idx "ok" (joinSp l.obs)
      | none => r := r.mismatch s.idx l.idx "bad-op" (joinSp l.op)
    | ["setna", a] =>
      match (arg "h=" [a]).bind parseItem with
      | some item =>
        st := { st with pr := { st.pr with notAllowed := item } }
        r := r.addCover (if item.isSome then "setna-custom" else "setna-nil")
        if joinSp l.obs ≠ "ok" then r := r.mismatch s.idx l.idx "ok" (joinSp l.obs)
      | none => r := r.mismatch s.idx l.idx "bad-op" (joinSp l.op)
    | ["opt", a] =>
      -- rest.WithNotFoundHandler / rest.WithNotAllowedHandler, collected for NewServer
      let o : Option RunOpt :=
        match (arg "nf=" [a]).bind parseItem, (arg "na=" [a]).bind parseItem with
        | some h, _ => some (.notFound h)
        | none, some h => some (.notAllowed h)
        | none, none =>
          if a = "router" then some .router else if a = "cors" then some .cors
          else if a = "corsh" then some .corsHeaders else if a = "ccors" then some .customCors
          else if a.startsWith "files=" then some (.fileServer (dropStr 6 a) fsNames)
          else ((arg "chain=" [a]).bind String.toNat?).map .chain
      match o with
      | some o =>
        if st.built then
          if joinSp l.obs ≠ "late" then r := r.mismatch s.idx l.idx "late" (joinSp l.obs)
        else
          st := { st with opts := st.opts ++ [o], pr := { (newServer (st.opts ++ [o])).router with core := st.pr.core },
                          chain := (newServer (st.opts ++ [o])).chain, wrappers := (newServer (st.opts ++ [o])).wrappers }
          r := r.addCover (match o with
            | .notFound none => "opt-notfound-nil" | .notFound _ => "opt-notfound-custom"
            | .notAllowed none => "opt-notallowed-nil" | .notAllowed _ => "opt-notallowed-custom"
            | .router => "opt-WithRouter" | .chain _ => "opt-WithChain" | .cors => "opt-WithCors"
            | .corsHeaders => "opt-WithCorsHeaders" | .customCors => "opt-WithCustomCors" | .fileServer _ _ => "opt-WithFileServer")
          if joinSp l.obs ≠ "ok" then r := r.mismatch s.idx l.idx "ok" (joinSp l.obs)
      | none => r := r.mismatch s.idx l.idx "bad-op" (joinSp l.op)
    | "group" :: args =>
      -- Server.AddRoutes(routes [, WithPrefix(pfx)])
      let pfx := arg "pfx=" args
      let regs := (args.filter (·.startsWith "r=")).map fun a => parseReg (String.ofList (a.toList.drop 2))
      if regs.any Option.isNone ∨ regs.isEmpty then r := r.mismatch s.idx l.idx "bad-op" (joinSp l.op)
      else
        let g : Group := { opts := pfx.toList.map .pfx, routes := regs.filterMap id }
        -- a fresh caller slice that is added once
        let api := (st.api.step (.slice g.routes)).step (.add st.api.heap.length g.opts)
        st := { st with built := true, groups := st.groups ++ [g], mws := st.mws ++ [0], api := api,
                        names := st.names ++ [""], written := st.written ++ [g.routes] }
        r := r.addCover (match pfx with
          | none => "group-no-prefix"
          | some x => if x = "" then "group-prefix-empty" else if !(rooted x) then "group-prefix-not-rooted"
                      else if cleanPath x ≠ x then "group-prefix-needs-clean"
                      else if (cleanToks x).any isVar then "group-prefix-with-variable" else "group-prefix")
        -- the paths Routes() reports: path.Join(group, path) = "" or path.Clean(joinRaw); without WithPrefix: as written
        let implPaths := (String.ofList ((joinSp l.obs).toList.drop 6)).splitOn ","
        let want := g.regs.map (·.2.1)
        if implPaths.length ≠ want.length ∨ !((joinSp l.obs).startsWith "paths=") then
          r := r.mismatch s.idx l.idx s!"paths={",".intercalate want}" (joinSp l.obs)
        else
          for (w, (i, orig)) in want.zip (implPaths.zip (g.routes.map (·.2.1))) do
            match pfx with
            | none => if w ≠ i then r := r.mismatch s.idx l.idx s!"path={w}" s!"path={i}"
            | some x =>
              if !(rooted orig) then r := r.addCover (if orig = "" then "group-route-path-empty" else "group-route-path-relative")
              if (toksOf ("/" ++ orig)).contains ".." then r := r.addCover "group-route-dotdot"
              if rooted w then
                if cleanPath w ≠ i then r := r.mismatch s.idx l.idx s!"path={cleanPath w}" s!"path={i}"
                if rooted x ∧ (cleanToks w).take (cleanToks x).length ≠ cleanToks x ∧ cleanToks x ≠ [""] then
                  r := r.addCover "group-route-escapes-prefix"
              else if rooted i then r := r.mismatch s.idx l.idx s!"path-not-rooted={w}" s!"path={i}"
    | ["use", a] =>
      -- Server.Use(middleware u<k>): appended to engine.middlewares; bindRoute reads them when the routes are bound
      match (arg "id=" [a]).bind String.toNat? with
      | some k =>
        st := { st with built := true, uses := st.uses ++ [k] }
        r := r.addCover (if st.groups.isEmpty then "srv-Use-before-AddRoutes" else "srv-Use-after-AddRoutes")
        if k ≥ 900 then r := r.addCover "srv-Use-middleware-that-does-not-call-next"
        if joinSp l.obs ≠ "ok" then r := r.mismatch s.idx l.idx "ok" (joinSp l.obs)
      | none => r := r.mismatch s.idx l.idx "bad-op" (joinSp l.op)
    | [bindOp] =>
      if bindOp ≠ "bind" ∧ bindOp ≠ "start" then r := r.mismatch s.idx l.idx "bad-op" (joinSp l.op) else
      -- engine.bindRoutes(router) / Server.Start() = handleError(engine.start(router)): bindRoutes, then listen
      -- model: what the engine reads through its (possibly aliasing) groups now; monitor: the routes as the
      -- callers wrote them with the options applied to a copy
      let res := bindGroupsM st.pr.core st.api.groupRegs
      let err := res.2
      let tbl0 := st.tbl
      let specRegs := st.groups.flatMap Group.regs
      let (tbl', sv) := Spec.bindTable st.tbl specRegs
      let rmetaNew := (st.groups.zip st.mws).flatMap fun (g, n) =>
        g.regs.filterMap fun x => if rooted x.2.1 then some (x.1, cleanToks x.2.1, g.featured.set.jwt, bindChain st.chain g.featured.set.jwt st.uses n) else none
      -- a route keeps the chain it was bound with (a second bind registers nothing new)
      let rmeta := st.rmeta ++ rmetaNew.filter fun x => (lookupRMeta st.rmeta x.1 x.2.1).isNone
      st := { st with built := true, pr := { st.pr with core := res.1 }, tbl := tbl', rmeta := rmeta }
      -- where the first rejected route sits (a rejection that is not the last route of its group / not in the last group)
      let gl := st.groups.map Group.regs
      match firstRejected tbl0 gl.flatten 0 with
      | some k =>
        -- the rejected route: a re-registration of a bound (method, cleaned pattern) with another handler?
        match gl.flatten[k]? with
        | some (rm, rp, some rh) =>
          if rooted rp then
            match tbl'.find? (fun x => x.method == rm && x.pats == cleanToks rp) with
            | some x =>
              if x.h ≠ rh then
                st := { st with rereg := st.rereg ++ [(rm, cleanToks rp)] }
                r := r.addCover ("bind-rejected-re-registration-with-another-handler-" ++
                  (if cleanToks rp = [""] then "root" else if (cleanToks rp).any isVar then "variable-pattern" else "literal-pattern"))
            | none => pure ()
        | _ => pure ()
        let (gi, pos, glen) := locateReg gl k 0
        r := r.addCover (if pos + 1 < glen then "bind-rejected-route-not-last-of-its-group" else "bind-rejected-route-last-of-its-group")
        r := r.addCover (if gi + 1 < gl.length then "bind-rejected-in-a-group-that-is-not-the-last" else "bind-rejected-in-the-last-group")
      | none => pure ()
      let implV := joinSp l.obs
      if bindOp = "bind" then
        r := r.addCover ("bind-" ++ fmtBind err)
        if fmtBind err ≠ implV then r := r.mismatch s.idx l.idx (fmtBind err) implV
        if fmtSpecReg sv ≠ implV then
          r := r.violation s.idx l.idx s!"engine.bindRoutes: property demands [{fmtSpecReg sv}] implementation did [{implV}]"
      else
        let fmtStart (v : String) : String := if v = "ok" then "listen" else "panic:" ++ v
        r := r.addCover ("start-" ++ fmtStart (fmtBind err))
        if fmtStart (fmtBind err) ≠ implV then r := r.mismatch s.idx l.idx (fmtStart (fmtBind err)) implV
        if fmtStart (fmtSpecReg sv) ≠ implV then
          r := r.violation s.idx l.idx s!"Server.Start: property demands [{if sv = .ok then "no rejection: the listener is reached" else "the registration is rejected: panic with " ++ fmtSpecReg sv}] implementation did [{implV}]"
      if !(Spec.oneVarPerPosition st.tbl) then r := r.addCover "table-outside-hypothesis"
      for i in List.range st.tbl.length do
        match st.tbl[i]? with
        | some x => for c in prefixClass (((st.tbl.take i).filter (·.method == x.method)).map (·.pats)) x.pats do r := r.addCover ("bind-" ++ c)
        | none => pure ()
    | "req" :: args =>
      match arg "m=" args, arg "p=" args with
      | some m, some p =>
        if kvStr s.cfg "kind" = "server" then st := { st with built := true }
        -- rest.WithCors: the CORS middleware in front of the patRouter answers every OPTIONS request itself (as implemented:
        -- an OPTIONS route is never dispatched then; PropsEntry.cors_preflight_never_dispatches)
        let srvModel : Server := { router := st.pr, wrappers := st.wrappers }
        let answered : Option String := match srvModel.serveHTTP m p with
          | .preflight => some "204 cors"
          | .file f => some ("file=" ++ f)
          | .router _ => none
        match answered with
        | some want =>
          r := r.addCover (if want = "204 cors" then "req-cors-preflight-answered-by-the-middleware" else "req-file-served-by-the-file-server")
          if rooted p ∧ !(Spec.candidates st.tbl m (cleanToks p)).isEmpty then
            r := r.addCover (if want = "204 cors" then "req-cors-preflight-shadows-a-matching-OPTIONS-route" else "req-file-shadows-a-matching-GET-route")
          if (joinSp (l.obs.drop 1)) ≠ want then r := r.mismatch s.idx l.idx want (joinSp (l.obs.drop 1))
        | none =>
        if !st.wrappers.isEmpty then r := r.addCover "req-passed-on-by-the-router-wrappers"
        r := runReq r st s.idx l m p (arg "auth=" args) (kvStr s.cfg "kind" = "server") (arg "ctx=" args) (arg "beh=" args)
        st := { st with served := true }
      | _, _ => r := r.mismatch s.idx l.idx "bad-op" (joinSp l.op)
    | ["herr", a] =>
      -- handleError(err): every class of error value; a registration error (plain or wrapped) must panic with itself
      match arg "k=" [a] with
      | some k =>
        let cls : Option (Bool × Bool) :=   -- (err == nil, errors.Is(err, http.ErrServerClosed))
          if k = "nil" then some (true, false)
          else if k = "closed" ∨ k = "wrapped-closed" then some (false, true)
          else if ["badmethod", "wrapped-badpath", "dup", "typed-nil", "zero"].contains k then some (false, false)
          else none
        match cls with
        | some (isNil, closed) =>
          let want := if handleErrorPanics isNil closed then "panic:same-error" else "returned"
          r := r.addCover s!"handleError-{k}"
          -- (a typed-nil error is not nil: the start-up stops with a panic — the logging call dereferences it first)
          let okObs := joinSp l.obs = want ∨ (k = "typed-nil" ∧ (joinSp l.obs).startsWith "panic:")
          if !okObs then
            r := r.mismatch s.idx l.idx want (joinSp l.obs)
            if ["badmethod", "wrapped-badpath", "dup"].contains k then
              r := r.violation s.idx l.idx s!"handleError({k}): a registration error must stop the start-up with that error [{want}], implementation did [{joinSp l.obs}]"
        | none => r := r.mismatch s.idx l.idx "bad-op" (joinSp l.op)
      | none => r := r.mismatch s.idx l.idx "bad-op" (joinSp l.op)
    | "other" :: args =>
      -- a second rest.Server alive at the same time: NewServer(), AddRoute(GET /other/:o -> 9999), bindRoutes
      match arg "m=" args, arg "p=" args with
      | some m, some p =>
        let regsO : List Reg := [("GET", "/other/:o", some 9999)]
        let prO : PatRouter := { (newServer []).router with core := (bindGroups {} [regsO]).1 }
        let tblO := (Spec.bindTable [] regsO).1
        let det := fmtResponse (prO.serveHTTP m p)
        let impl := joinSp (l.obs.drop 1)
        r := r.addCover "two-servers-alive"
        r := r.addCover (match prO.serveHTTP m p with
          | .route _ _ => "other-server-own-route" | .defaultNotAllowed _ => "other-server-405" | _ => "other-server-404")
        if impl ≠ det then r := r.mismatch s.idx l.idx det impl
        match monitorReq tblO true (customOf prO) m p impl with
        | some msg => r := r.violation s.idx l.idx s!"second server, request {m} {p}: {msg}"
        | none => pure ()
      | _, _ => r := r.mismatch s.idx l.idx "bad-op" (joinSp l.op)
    | "tadd" :: args =>
      match arg "p=" args, (arg "h=" args).bind parseItem with
      | some p, some item =>
        let res := treeAdd st.tree p item
        r := r.addCover ("tadd-" ++ fmtAdd res)
        if rooted p then
          let tk := toksOf p
          if tk.getLast? == some "" ∧ tk.length > 1 ∧ !(tk.dropLast.contains "") then r := r.addCover "tadd-trailing-slash"
          if tk.head? == some "" ∧ tk.length > 1 then r := r.addCover "tadd-leading-double-slash"
          if tk = [""] then r := r.addCover "tadd-root"
        else if p = "" then r := r.addCover "tadd-empty-string"
        if fmtAdd res ≠ joinSp l.obs then r := r.mismatch s.idx l.idx (fmtAdd res) (joinSp l.obs)
        -- monitor: the registration rule for raw strings, on the plain list of stored keys (no tree)
        let sv := Spec.rawAddVerdict (st.ttbl.map (·.pats)) p item
        if sv ≠ joinSp l.obs then
          r := r.violation s.idx l.idx s!"Tree.Add {p}: the rule for raw routes demands [{sv}] implementation did [{joinSp l.obs}]"
        -- the REAL tree after the call (a failing Add may leave item-less nodes: PropsReject.treeAddM_spec)
        let treeM := treeAddM st.tree p item
        if treeM.2.isSome ∧ treeM.1.lits.length + treeM.1.vars.length > st.tree.lits.length + st.tree.vars.length then
          r := r.addCover "tadd-failed-add-left-an-item-less-node-behind"
        st := { st with tree := treeM.1 }
        if sv = "ok" then
          for c in prefixClass (st.ttbl.map (·.pats)) (Spec.rawKey p) do r := r.addCover ("tadd-" ++ c)
        match sv, item with
        | "ok", some h => st := { st with ttbl := st.ttbl ++ [{ method := "", pats := Spec.rawKey p, h := h }] }
        | _, _ => pure ()
      | _, _ => r := r.mismatch s.idx l.idx "bad-op" (joinSp l.op)
    | "tsearch" :: args =>
      match arg "p=" args with
      | some p =>
        let outs := splitBar l.obs
        let all := if rooted p then dedup ((nextAll (toksOf p) st.tree).map fun (h, ps) => fmtHit h ps) else []
        let det := match treeSearch st.tree p with | some (h, ps) => fmtHit h ps | none => "none"
        r := r.addCover (if det = "none" then "tsearch-none" else "tsearch-hit")
        let tk := toksOf p
        if rooted p then
          if tk.getLast? == some "" ∧ tk.length > 1 then
            r := r.addCover (if det = "none" then "tsearch-trailing-slash-none" else "tsearch-trailing-slash-hit")
          if tk.dropLast.contains "" then
            r := r.addCover (if det = "none" then "tsearch-empty-segment-none" else "tsearch-empty-segment-hit")
        else r := r.addCover "tsearch-not-rooted"
        if all.length ≤ 1 then
          if outs ≠ [det] then r := r.mismatch s.idx l.idx det (" | ".intercalate outs)
        else
          r := r.addCover "tsearch-order-dependent"
          if !(outs.all all.contains) then
            r := r.mismatch s.idx l.idx (" | ".intercalate all) (" | ".intercalate outs)
        -- monitor: found iff a stored key matches the raw elements (tree_search_raw); a hit names a stored
        -- matching key's item with its bound segments
        let cands := if rooted p then st.ttbl.filter (fun x => Spec.matchesRawB x.pats tk) else []
        for o in outs do
          if o = "none" then
            match cands with
            | c :: _ => r := r.violation s.idx l.idx s!"Tree.Search {p}: not found although the stored route h={c.h} matches"
            | [] => pure ()
          else
            match parseObs o with
            | .hit h vars =>
              let ok := cands.any fun x =>
                x.h == h && cands.all (fun y => Spec.prefers x.pats y.pats) && (if Spec.distinctNames x.pats then Spec.sameSet vars (Spec.binds x.pats tk)
                             else vars.all (Spec.binds x.pats tk).contains)
              if !ok then
                r := r.violation s.idx l.idx s!"Tree.Search {p}: found [{o}] but the stored routes matching are [{",".intercalate (cands.map (fmtRoute tk))}]"
            | _ => r := r.violation s.idx l.idx s!"Tree.Search {p}: unexpected result [{o}]"
      | none => r := r.mismatch s.idx l.idx "bad-op" (joinSp l.op)
    | "slice" :: args =>
      -- the caller makes a []Route and keeps it under a name
      let regs := (args.filter (·.startsWith "r=")).map fun a => parseReg (dropStr 2 a)
      match arg "s=" args with
      | some k =>
        if regs.any Option.isNone ∨ regs.isEmpty ∨ st.names.contains k then r := r.mismatch s.idx l.idx "bad-op" (joinSp l.op)
        else
          let rs := regs.filterMap id
          st := { st with api := st.api.step (.slice rs), names := st.names ++ [k], written := st.written ++ [rs] }
          r := r.addCover "api-slice"
          if joinSp l.obs ≠ "ok" then r := r.mismatch s.idx l.idx "ok" (joinSp l.obs)
      | none => r := r.mismatch s.idx l.idx "bad-op" (joinSp l.op)
    | kind :: args =>
      if kind = "add" ∨ kind = "addone" then
        -- Server.AddRoutes(slice k, opts...) / Server.AddRoute(r, opts...)
        let k? := (arg "s=" args).bind fun k => st.names.idxOf? k
        let one? := ((args.filter (·.startsWith "r=")).map fun a => parseReg (dropStr 2 a)).head?.join
        match parseOpts args, (if kind = "add" then k?.isSome else one?.isSome) with
        | some (opts, nmw), true =>
          let (op, routes) : ApiOp × List Reg := match kind, k?, one? with
            | "add", some k, _ => (.add k opts, st.written.getD k [])
            | _, _, some x => (.addOne x opts, [x])
            | _, _, _ => (.add 0 opts, [])
          let reused := kind = "add" ∧ (st.groups.any fun g => g.routes == routes)
          -- validateSecret: an option that panics leaves AddRoutes before engine.addRoutes — nothing is registered
          let panics := op.panics
          if panics then
            st := { st with built := true, api := st.api.stepChecked op }
            r := r.addCover "api-option-panics-short-secret"
          else
            st := { st with built := true, api := st.api.stepChecked op, groups := st.groups ++ [{ opts := opts, routes := routes }],
                            mws := st.mws ++ [nmw] }
          if panics != l.obs.contains "panic:secret" then
            r := r.mismatch s.idx l.idx (if panics then "panic:secret" else "no-panic") (joinSp l.obs)
          -- coverage: the forms of the public API
          r := r.addCover (if kind = "add" then "api-AddRoutes" else "api-AddRoute")
          if reused then r := r.addCover "api-same-slice-added-again"
          let npfx := (opts.filter fun o => match o with | .pfx _ => true | _ => false).length
          r := r.addCover (if npfx = 0 then "api-no-prefix" else if npfx = 1 then "api-one-prefix" else "api-nested-prefixes")
          if reused ∧ npfx > 0 then r := r.addCover "api-same-slice-under-another-prefix"
          for o in opts do
            r := r.addCover (match o with
              | .pfx _ => "api-opt-WithPrefix" | .jwt _ => "api-opt-WithJwt" | .jwtTransition _ _ => "api-opt-WithJwtTransition"
              | .timeout _ => "api-opt-WithTimeout" | .maxBytes _ => "api-opt-WithMaxBytes"
              | .priority => "api-opt-WithPriority" | .sse => "api-opt-WithSSE")
          for o in opts do
            match o with
            | .jwtTransition _ b =>
              if b = "" then r := r.addCover "api-WithJwtTransition-empty-previous-secret"
              if st.groups.any (fun g => g.featured.set.jwt.any fun ab => ab.1 == b) then
                r := r.addCover "api-WithJwtTransition-previous-is-another-groups-current"
            | _ => pure ()
          if nmw > 0 then r := r.addCover "api-WithMiddlewares"
          -- correspondence: the aliasing model
          let modelRoutes := st.api.regs
          let implRoutes := parseListing ((arg "routes=" l.obs).getD "?")
          let implSlices := parseSlices ((arg "slices=" l.obs).getD "?")
          if !(sameListing modelRoutes implRoutes) then
            r := r.mismatch s.idx l.idx s!"routes={fmtListing modelRoutes}" (joinSp l.obs)
          let named := (st.names.zip st.api.heap).filter fun x => x.1 ≠ ""
          if named.length ≠ implSlices.length ∨ !((named.zip implSlices).all fun (w, i) => w.1 == i.1 && sameListing w.2 i.2) then
            r := r.mismatch s.idx l.idx s!"slices={";".intercalate (named.map fun x => x.1 ++ "=" ++ fmtListing x.2)}" (joinSp l.obs)
          -- monitor: registering a group changes neither another group nor a caller's slice
          let specRoutes := st.groups.flatMap Group.regs
          if !(sameListing specRoutes implRoutes) then
            r := r.violation s.idx l.idx s!"{kind} #{st.groups.length}: Server.Routes() is [{fmtListing (implRoutes.map fun x => (x.1, x.2, none))}] but the routes as the callers wrote them (prefix + path, every group on its own copy) are [{fmtListing specRoutes}]"
          for (k, w) in (st.names.zip st.written).filter fun x => x.1 ≠ "" do
            match implSlices.lookup k with
            | some i =>
              if !(w.length == i.length && (w.zip i).all fun (a, b) => a.1 == b.1 && a.2.1 == b.2) then
                r := r.violation s.idx l.idx s!"{kind} #{st.groups.length}: the caller's slice s={k} was modified: it now reads [{fmtListing (i.map fun x => (x.1, x.2, none))}], the caller wrote [{fmtListing w}]"
            | none => r := r.violation s.idx l.idx s!"{kind}: the caller's slice s={k} is not reported"
        | _, _ => r := r.mismatch s.idx l.idx "bad-op" (joinSp l.op)
      else r := r.mismatch s.idx l.idx "bad-op" (joinSp l.op)
    | _ => r := r.mismatch s.idx l.idx "bad-op" (joinSp l.op)
  return r

def driver (secs : List Section) : Report := secs.foldl runSection {}

end GoZero.C09
